import EqsigVerif.Model.SpectraFns
import EqsigVerif.Lemmas.SpectraFns
/-!
# C03 (b–f) — response spectra, energy spectra and spectrum intensities on top of the response series

Model: `EqsigVerif/Model/SpectraFns.lean`; the SDOF response rows `u v a` (one row per period, C01) are inputs.
Theorems hold over every linearly ordered field (`ℚ ⊇` doubles for the executed model, `ℝ`).
(C03.a `absmax_eq` for the shared `absmax` is proved elsewhere; the local copy `absmaxL` is covered by
`absmaxL_spec` in `Lemmas/SpectraFns.lean`.)
-/
set_option linter.unusedVariables false
set_option linter.unusedSimpArgs false
set_option linter.unusedSectionVars false
namespace EqsigVerif.Props.C03
open EqsigVerif EqsigVerif.Model.SpectraFns
open EqsigVerif.Wire (ErrKind)

variable {α : Type} [Field α] [LinearOrder α] [IsStrictOrderedRing α]

/-! ## C03.b — pseudo spectra -/

/-- **C03.b** (`pseudo_spectra_spec`). If `pseudo_response_spectra` returns `(S_d, S_v, S_a)` for the displacement rows `u`:
one entry per period in each output; with `pga = max|record|`, for every period index `j`:
`S_d[j] = max_t |u_j(t)|`, `S_v[j] = w_j·S_d[j]`, `S_a[j] = pga` if `T_j < 6·dt` else `w_j²·S_d[j]`, where
`w_j = 2π/T_j` (`omegaAt`: the placeholder `1` only for a leading zero period). -/
theorem pseudo_spectra_spec (twoPi dt : α) (motion periods : List α) (u : List (List α)) (sds svs sas : List α)
    (h : pseudoSpectra twoPi motion dt periods u = .ok (sds, svs, sas)) :
    sds.length = periods.length ∧ svs.length = periods.length ∧ sas.length = periods.length ∧
    u.length = periods.length ∧
    ∃ pga, IsAbsMax motion pga ∧
      ∀ j, j < periods.length →
        IsAbsMax (u.getD j []) (sds.getD j 0) ∧
        svs.getD j 0 = omegaAt twoPi periods j * sds.getD j 0 ∧
        sas.getD j 0 = (if periods.getD j 0 < dt * 6 then pga
                        else omegaAt twoPi periods j * omegaAt twoPi periods j * sds.getD j 0) := by
  unfold pseudoSpectra at h
  cases hw : omegas twoPi periods with
  | error e => simp [hw] at h
  | ok w =>
    simp only [hw] at h
    by_cases hlen : u.length ≠ periods.length
    · simp [hlen] at h
    · have hlen' : u.length = periods.length := by simpa using hlen
      simp only [hlen, if_false] at h
      cases hs : rowsAbsmax u with
      | error e => simp [hs] at h
      | ok sds' =>
        simp only [hs] at h
        cases hp : absmaxL motion with
        | none => simp [hp] at h
        | some pga =>
          simp only [hp, Except.ok.injEq, Prod.mk.injEq] at h
          obtain ⟨h1, h2, h3⟩ := h
          subst h1; subst h2
          obtain ⟨hwl, hwj⟩ := omegas_spec twoPi periods w hw
          obtain ⟨hsl, hsj⟩ := rowsAbsmax_spec u sds' hs
          have hsl' : sds'.length = periods.length := by rw [hsl, hlen']
          have hsasl : (List.zipWith (fun w sd => w * w * sd) w sds').length = periods.length := by
            simp [hwl, hsl']
          obtain ⟨hpl, hpj⟩ := pgaSubstitute_spec periods dt pga _ hsasl
          refine ⟨hsl', by simp [hwl, hsl'], by rw [← h3]; exact hpl, hlen', pga,
            absmaxL_spec motion pga hp, fun j hj => ⟨?_, ?_, ?_⟩⟩
          · exact absmaxL_spec _ _ (hsj j (by omega))
          · rw [getD_zipWith _ _ _ j (by omega) (by omega) 0 0 0, hwj j hj]
          · rw [← h3, hpj j hj, getD_zipWith _ _ _ j (by omega) (by omega) 0 0 0, hwj j hj]

/-- non-vacuity (`2π` replaced by `6`): periods `[0, 1, 4]`, `dt = 1/2` (so `6·dt = 3`), record `[1, -2, 1]` -/
example : pseudoSpectra (6 : ℚ) [1, -2, 1] (1/2) [0, 1, 4] [[0, 0, 0], [1, 2, -3], [1, 1, 1]]
    = .ok ([0, 3, 1], [0, 18, 3/2], [2, 2, 9/4]) := by decide +kernel

/-- **C03.b** (non-negativity): with `2π > 0` and non-negative periods all entries of the three spectra are `≥ 0`. -/
theorem pseudo_spectra_nonneg (twoPi dt : α) (motion periods : List α) (u : List (List α)) (sds svs sas : List α)
    (h : pseudoSpectra twoPi motion dt periods u = .ok (sds, svs, sas))
    (h2pi : 0 < twoPi) (hT : ∀ T ∈ periods, 0 ≤ T) :
    ∀ j, j < periods.length → 0 ≤ sds.getD j 0 ∧ 0 ≤ svs.getD j 0 ∧ 0 ≤ sas.getD j 0 := by
  obtain ⟨_, _, _, _, pga, hpga, hj⟩ := pseudo_spectra_spec twoPi dt motion periods u sds svs sas h
  intro j hjl
  obtain ⟨a1, a2, a3⟩ := hj j hjl
  have hsd : 0 ≤ sds.getD j 0 := a1.nonneg
  have hw : 0 ≤ omegaAt twoPi periods j := by
    unfold omegaAt
    split
    · exact zero_le_one
    · apply div_nonneg h2pi.le
      exact hT _ (getD_mem periods j hjl 0)
  refine ⟨hsd, by rw [a2]; exact mul_nonneg hw hsd, ?_⟩
  rw [a3]
  split
  · exact hpga.nonneg
  · exact mul_nonneg (mul_nonneg hw hw) hsd

/-- **C03.b** (`T = 0`): a leading zero period with an identically zero response row (what the response function
returns for it) and `dt > 0` gives `S_d[0] = S_v[0] = 0` and `S_a[0] = max|record|` (the PGA). -/
theorem pseudo_spectra_zero_period (twoPi dt : α) (motion periods : List α) (u : List (List α)) (sds svs sas : List α)
    (h : pseudoSpectra twoPi motion dt periods u = .ok (sds, svs, sas))
    (hdt : 0 < dt) (hp : 0 < periods.length) (hT0 : periods.getD 0 0 = 0) (hu0 : ∀ x ∈ u.getD 0 [], x = 0) :
    sds.getD 0 0 = 0 ∧ svs.getD 0 0 = 0 ∧ IsAbsMax motion (sas.getD 0 0) := by
  obtain ⟨_, _, _, _, pga, hpga, hj⟩ := pseudo_spectra_spec twoPi dt motion periods u sds svs sas h
  obtain ⟨a1, a2, a3⟩ := hj 0 hp
  have hsd : sds.getD 0 0 = 0 := a1.eq_zero_of_zeros hu0
  refine ⟨hsd, by rw [a2, hsd, mul_zero], ?_⟩
  have : periods.getD 0 0 < dt * 6 := by rw [hT0]; positivity
  rw [a3, if_pos this]
  exact hpga

example : (0 : ℚ) < 1/2 ∧ ([0, 1, 4] : List ℚ).getD 0 0 = 0 ∧ ∀ x ∈ ([[0, 0, 0], [1, 2, -3]] : List (List ℚ)).getD 0 [], x = 0 := by
  refine ⟨by norm_num, rfl, ?_⟩
  intro x hx; simpa using hx

/-! ## C03.c — true spectra -/

/-- **C03.c** (`true_spectra_spec`): `S_d = max|u|`, `S_v = max|v|`, `S_a = max|a_total|` row by row, with the same PGA
substitution for `T < 6·dt`; one entry per period.  (The `ξ = 0` relation to the pseudo acceleration needs the response
model, C01.f, and is not part of this file.) -/
theorem true_spectra_spec (dt : α) (motion periods : List α) (u v a : List (List α)) (sds svs sas : List α)
    (h : trueSpectra motion dt periods u v a = .ok (sds, svs, sas)) :
    sds.length = periods.length ∧ svs.length = periods.length ∧ sas.length = periods.length ∧
    ∃ pga, IsAbsMax motion pga ∧
      ∀ j, j < periods.length →
        IsAbsMax (u.getD j []) (sds.getD j 0) ∧
        IsAbsMax (v.getD j []) (svs.getD j 0) ∧
        (if periods.getD j 0 < dt * 6 then sas.getD j 0 = pga else IsAbsMax (a.getD j []) (sas.getD j 0)) := by
  unfold trueSpectra at h
  cases periods with
  | nil => simp at h
  | cons p0 rest =>
    simp only at h
    by_cases hlen : u.length ≠ (p0 :: rest).length ∨ v.length ≠ (p0 :: rest).length ∨ a.length ≠ (p0 :: rest).length
    · rw [if_pos hlen] at h; cases h
    · rw [if_neg hlen] at h
      have lu : u.length = (p0 :: rest).length := by
        by_contra hc; exact hlen (Or.inl hc)
      have lv : v.length = (p0 :: rest).length := by
        by_contra hc; exact hlen (Or.inr (Or.inl hc))
      have la : a.length = (p0 :: rest).length := by
        by_contra hc; exact hlen (Or.inr (Or.inr hc))
      cases hsa : rowsAbsmax a with
      | error e => simp [hsa] at h
      | ok sas' =>
        simp only [hsa] at h
        cases hsv : rowsAbsmax v with
        | error e => simp [hsv] at h
        | ok svs' =>
          simp only [hsv] at h
          cases hsd : rowsAbsmax u with
          | error e => simp [hsd] at h
          | ok sds' =>
            simp only [hsd] at h
            cases hp : absmaxL motion with
            | none => simp [hp] at h
            | some pga =>
              simp only [hp, Except.ok.injEq, Prod.mk.injEq] at h
              obtain ⟨h1, h2, h3⟩ := h
              subst h1; subst h2
              obtain ⟨l1, j1⟩ := rowsAbsmax_spec u sds' hsd
              obtain ⟨l2, j2⟩ := rowsAbsmax_spec v svs' hsv
              obtain ⟨l3, j3⟩ := rowsAbsmax_spec a sas' hsa
              obtain ⟨hpl, hpj⟩ := pgaSubstitute_spec (p0 :: rest) dt pga sas' (by rw [l3, la])
              refine ⟨by rw [l1, lu], by rw [l2, lv], by rw [← h3]; exact hpl, pga,
                absmaxL_spec motion pga hp, fun j hj => ⟨?_, ?_, ?_⟩⟩
              · exact absmaxL_spec _ _ (j1 j (by omega))
              · exact absmaxL_spec _ _ (j2 j (by omega))
              · rw [← h3, hpj j hj]
                split
                · rfl
                · exact absmaxL_spec _ _ (j3 j (by omega))

example : trueSpectra (motion := [1, -2, 1]) (dt := (1/2 : ℚ)) [1, 4] [[1, 2, -3], [1, 1, 1]]
    [[0, 1, 0], [0, -5, 2]] [[1, 1, 1], [7, 0, -8]] = .ok ([3, 1], [1, 5], [2, 8]) := by decide +kernel

/-! ## C03.d — the integration-step decision of `AccSignal.gen_response_spectrum` -/

/-- **C03.d** (`object_spectra_spec_partial`: the branch decision only).
Full statement of DESIGN C03.d: `AccSignal.s_d/s_v/s_a = pseudo_response_spectra(interp(values), dt')` with
`dt' ≤ max(Tmin/20, dt/min_dt_ratio)`, `dt/dt' ∈ ℕ` whenever that maximum is `< dt`, else applied to the raw samples, hence
never below the raw values (false in the corner `6·dt' ≤ T < 6·dt`, finding F03-1).  Proved here: `Tmin` is the first
period unless that is 0 (then the second); `target_dt = max(Tmin/20, dt/min_dt_ratio)`; the record is interpolated
(`even=False`, towards `target_dt`) **iff** `target_dt < dt`, otherwise the raw samples and `dt` are used; for
`dt > 0`, `min_dt_ratio > 0` that is iff `Tmin < 20·dt` and `min_dt_ratio > 1`.  Missing: the composition with the
C14 interpolation model and the response model (owned by other parts). -/
theorem object_spectra_spec_partial (rt : List α) (dt ratio : α) (hr : ratio ≠ 0) (hrt : 2 ≤ rt.length) :
    let Tmin := if rt.getD 0 0 ≠ 0 then rt.getD 0 0 else rt.getD 1 0
    let target := max (Tmin / 20) (dt / ratio)
    targetDt rt dt ratio = .ok target ∧
    genSpectrumInput rt dt ratio = .ok (if target < dt then .interp target else .raw) ∧
    (0 < dt → 0 < ratio → (target < dt ↔ Tmin < 20 * dt ∧ 1 < ratio)) := by
  intro Tmin target
  obtain ⟨t0, t1, rest, rfl⟩ : ∃ t0 t1 rest, rt = t0 :: t1 :: rest := by
    match rt, hrt with
    | t0 :: t1 :: rest, _ => exact ⟨t0, t1, rest, rfl⟩
  have hmin : minNonZeroPeriod (t0 :: t1 :: rest) = .ok Tmin := by
    simp only [minNonZeroPeriod, Tmin, List.getD_cons_zero, List.getD_cons_succ]
    by_cases h0 : t0 ≠ 0 <;> simp [h0]
  have htd : targetDt (t0 :: t1 :: rest) dt ratio = .ok target := by
    simp only [targetDt, hmin, hr, if_false, Np.max2_eq_max, target]
  refine ⟨htd, ?_, ?_⟩
  · simp only [genSpectrumInput, htd]
    split <;> rfl
  · intro hdt hrp
    simp only [target, max_lt_iff]
    constructor
    · rintro ⟨h1, h2⟩
      refine ⟨by rw [div_lt_iff₀ (by norm_num)] at h1; linarith, ?_⟩
      rw [div_lt_iff₀ hrp] at h2
      by_contra hc
      have : ratio ≤ 1 := not_lt.mp hc
      nlinarith
    · rintro ⟨h1, h2⟩
      refine ⟨by rw [div_lt_iff₀ (by norm_num)]; linarith, ?_⟩
      rw [div_lt_iff₀ hrp]
      nlinarith

/-- non-vacuity: `dt = 1/2`, `min_dt_ratio = 4`, periods `[0, 1, 2]` ⇒ `Tmin = 1`, `target_dt = 1/8 < dt`: interpolate;
periods `[20]` ⇒ `target_dt = 1 ≥ dt`: raw -/
example : genSpectrumInput ([0, 1, 2] : List ℚ) (1/2) 4 = .ok (.interp (1/8)) ∧
    genSpectrumInput ([20, 30] : List ℚ) (1/2) 4 = .ok .raw ∧
    genSpectrumInput ([0] : List ℚ) (1/2) 4 = .error .IndexError ∧
    genSpectrumInput ([1] : List ℚ) (1/2) 0 = .error .ZeroDivisionError := by decide +kernel

/-! ## C03.e — energy spectra -/

/-- **C03.e** (kinetic-energy spectrum): row `j` of `calc_resp_uke_spectrum` is `Σ_i |½v_j[i+1]² − ½v_j[i]²|`. -/
theorem resp_uke_spectrum_spec (vRows : List (List α)) :
    (respUkeSpectrum vRows).length = vRows.length ∧
    ∀ j, j < vRows.length →
      (respUkeSpectrum vRows).getD j 0
        = ∑ i ∈ Finset.range ((vRows.getD j []).length - 1),
            |(vRows.getD j []).getD (i + 1) 0 ^ 2 / 2 - (vRows.getD j []).getD i 0 ^ 2 / 2| := by
  refine ⟨by simp [respUkeSpectrum], fun j hj => ?_⟩
  have hrow : (respUkeSpectrum vRows).getD j 0
      = Np.sum (Np.absL (Np.diff (kinEnergy (vRows.getD j [])))) := by
    simp [respUkeSpectrum, List.getD_eq_getElem?_getD, List.getElem?_map, List.getElem?_eq_getElem hj]
  rw [hrow, npSum_eq_sum', list_sum_eq_range']
  set v := vRows.getD j []
  have hlen : (Np.absL (Np.diff (kinEnergy v))).length = v.length - 1 := by
    simp [Np.absL, length_diff, kinEnergy]
  rw [hlen]
  apply Finset.sum_congr rfl
  intro i hi
  have hi' : i + 1 < v.length := by have := Finset.mem_range.mp hi; omega
  have hk : i + 1 < (kinEnergy v).length := by simpa [kinEnergy] using hi'
  have hd : i < (Np.diff (kinEnergy v)).length := by rw [length_diff]; omega
  have e1 : (Np.absL (Np.diff (kinEnergy v))).getD i 0 = |(Np.diff (kinEnergy v)).getD i 0| := by
    simp [Np.absL, List.getD_eq_getElem?_getD, List.getElem?_map, List.getElem?_eq_getElem hd,
      Np.absv_eq_abs]
  have e2 : ∀ k, k < v.length → (kinEnergy v).getD k 0 = v.getD k 0 ^ 2 / 2 := by
    intro k hk'
    simp [kinEnergy, List.getD_eq_getElem?_getD, List.getElem?_map, List.getElem?_eq_getElem hk']
    ring
  rw [e1, getD_diff _ i hk, e2 _ hi', e2 _ (by omega)]

/-- **C03.e** (input-energy spectrum): row `j` of `calc_input_energy_spectrum` is `Σ_i a[i]·v_j[i]·dt`, and with
`series=True` the running sums `Σ_{i' ≤ i} a[i']·v_j[i']·dt`, whose last entry is the former. -/
theorem input_energy_spectrum_spec (values : List α) (vRows : List (List α)) (dt : α)
    (hrows : ∀ v ∈ vRows, v.length = values.length) :
    (inputEnergySpectrum values vRows dt).length = vRows.length ∧
    (inputEnergySeries values vRows dt).length = vRows.length ∧
    ∀ j, j < vRows.length →
      (inputEnergySpectrum values vRows dt).getD j 0
        = ∑ i ∈ Finset.range values.length, values.getD i 0 * (vRows.getD j []).getD i 0 * dt ∧
      ((inputEnergySeries values vRows dt).getD j []).length = values.length ∧
      ∀ i, i < values.length →
        ((inputEnergySeries values vRows dt).getD j []).getD i 0
          = ∑ i' ∈ Finset.range (i + 1), values.getD i' 0 * (vRows.getD j []).getD i' 0 * dt := by
  refine ⟨by simp [inputEnergySpectrum], by simp [inputEnergySeries], fun j hj => ?_⟩
  have hv : (vRows.getD j []).length = values.length := by
    exact hrows _ (getD_mem vRows j hj [])
  set v := vRows.getD j []
  have hp : (powerRow values dt v).length = values.length := by simp [powerRow, hv]
  have hpg : ∀ i, i < values.length →
      (powerRow values dt v).getD i 0 = values.getD i 0 * v.getD i 0 * dt := by
    intro i hi
    unfold powerRow
    rw [getD_zipWith _ _ _ i hi (by omega) 0 0 0]
  have r1 : (inputEnergySpectrum values vRows dt).getD j 0 = Np.sum (powerRow values dt v) := by
    simp [inputEnergySpectrum, List.getD_eq_getElem?_getD, List.getElem?_map, List.getElem?_eq_getElem hj, v]
  have r2 : (inputEnergySeries values vRows dt).getD j [] = Np.cumsum (powerRow values dt v) := by
    simp [inputEnergySeries, List.getD_eq_getElem?_getD, List.getElem?_map, List.getElem?_eq_getElem hj, v]
  refine ⟨?_, by rw [r2, Np.length_cumsum, hp], fun i hi => ?_⟩
  · rw [r1, npSum_eq_sum', list_sum_eq_range', hp]
    exact Finset.sum_congr rfl (fun i hi => hpg i (Finset.mem_range.mp hi))
  · rw [r2, Np.cumsum, getD_cumsumFrom _ _ i (by omega), zero_add]
    exact Finset.sum_congr rfl (fun k hk => hpg k (by have := Finset.mem_range.mp hk; omega))

/-- non-vacuity; the second line shows that the defining sum itself has no sign: whether the *final input energy* of a
real response is `≥ 0` cannot be decided at this level (the velocity rows are inputs here) — left to the harness
(finding F03-2: false for contrived short records such as `[1, -1]`, `dt = 1`). -/
example : respUkeSpectrum ([[0, 2, -4]] : List (List ℚ)) = [8] ∧
    inputEnergySpectrum ([1, -1] : List ℚ) [[0, 1]] 1 = [-1] ∧
    inputEnergySeries ([1, 2, 3] : List ℚ) [[1, 1, 1], [0, -1, 2]] (1/2) = [[1/2, 3/2, 3], [0, -1, 2]] := by
  decide +kernel

/-! ## C03.f — `calc_asi`, `calc_vsi` -/

/-- **C03.f** (`calc_asi`, `calc_vsi` are definitional): `vsi = max(0.01·cumtrapz(|psv|))`, `asi = max(0.01·cumtrapz(|psa|))/9.81`,
where `cumtrapz` (unit spacing, no initial value) has one entry less than the spectrum, starts at `(|ps₁| + |ps₀|)/2` and
increases by `(|ps_{i+2}| + |ps_{i+1}|)/2`; the result is the largest entry; `ValueError` (Python `max` of an empty
sequence) iff the spectrum has fewer than two entries. -/
theorem spectrum_intensity_spec (c001 g : α) (ps : List α) :
    let ct := cumtrapzNoInit (Np.absL ps)
    ct.length = ps.length - 1 ∧
    (∀ (h : 0 < ct.length), ct[0] = (|ps.getD 1 0| + |ps.getD 0 0|) / 2) ∧
    (∀ i (h : i + 1 < ct.length), ct[i + 1] = ct[i] + (|ps.getD (i + 2) 0| + |ps.getD (i + 1) 0|) / 2) ∧
    (ps.length < 2 → vsi c001 ps = .error .ValueError ∧ asi c001 g ps = .error .ValueError) ∧
    (2 ≤ ps.length → ∃ m, vsi c001 ps = .ok m ∧ asi c001 g ps = .ok (m / g) ∧
      (∀ x ∈ ct, c001 * x ≤ m) ∧ ∃ x ∈ ct, c001 * x = m) := by
  intro ct
  have hal : (Np.absL ps).length = ps.length := by simp [Np.absL]
  have hag : ∀ k (hk : k < ps.length), (Np.absL ps)[k]'(by rw [hal]; exact hk) = |ps.getD k 0| := by
    intro k hk
    simp [Np.absL, Np.absv_eq_abs, List.getD_eq_getElem?_getD, List.getElem?_eq_getElem hk]
  have hctl : ct.length = ps.length - 1 := by simp [ct, cumtrapzNoInit, hal]
  have hctg : ∀ i (h : i < ct.length), ct[i] = (Np.cumtrapz 1 (Np.absL ps))[i + 1]'(by
      simp only [Np.length_cumtrapz, hal]; omega) := by
    intro i h
    simp [ct, cumtrapzNoInit]
  refine ⟨hctl, ?_, ?_, ?_, ?_⟩
  · intro h
    rw [hctg 0 h, Np.cumtrapz_succ 1 (Np.absL ps) 0 (by rw [hal]; omega),
      Np.cumtrapz_getElem_zero 1 _ (by rw [hal]; omega), hag 1 (by omega), hag 0 (by omega)]
    ring
  · intro i h
    rw [hctg (i + 1) h, hctg i (by omega), Np.cumtrapz_succ 1 (Np.absL ps) (i + 1) (by rw [hal]; omega),
      hag (i + 2) (by omega), hag (i + 1) (by omega)]
    ring
  · intro hlt
    have hnil : ct = [] := List.eq_nil_of_length_eq_zero (by omega)
    have : spectrumIntensity c001 ps = .error .ValueError := by
      simp only [spectrumIntensity]
      rw [show cumtrapzNoInit (Np.absL ps) = [] from hnil]
      rfl
    simp [vsi, asi, this]
  · intro hge
    have hne : ct ≠ [] := by intro h0; rw [h0] at hctl; simp at hctl; omega
    obtain ⟨x, xs, hx⟩ := List.exists_cons_of_ne_nil hne
    have hsi : spectrumIntensity c001 ps = .ok (Np.maxFrom (c001 * x) (xs.map (c001 * ·))) := by
      simp only [spectrumIntensity]
      rw [show cumtrapzNoInit (Np.absL ps) = x :: xs from hx]
      rfl
    refine ⟨Np.maxFrom (c001 * x) (xs.map (c001 * ·)), by simp [vsi, hsi], by simp [asi, hsi], ?_, ?_⟩
    · intro y hy
      have hm := Np.le_maxFrom (c001 * x) (xs.map (c001 * ·))
      rw [hx] at hy
      rcases List.mem_cons.mp hy with rfl | hy
      · exact hm.1
      · exact hm.2 _ (List.mem_map.mpr ⟨y, hy, rfl⟩)
    · rcases Np.maxFrom_mem (c001 * x) (xs.map (c001 * ·)) with hm | hm
      · exact ⟨x, by rw [hx]; simp, hm.symm⟩
      · obtain ⟨y, hy, hy2⟩ := List.mem_map.mp hm
        exact ⟨y, by rw [hx]; simp [hy], hy2⟩

example : vsi (1/100 : ℚ) [1, -3, 2] = .ok (9/200) ∧ asi (1/100 : ℚ) (981/100) [1, -3, 2] = .ok (3/654) ∧
    vsi (1/100 : ℚ) [5] = .error .ValueError := by decide +kernel

end EqsigVerif.Props.C03
