import EqsigVerif.Model.Single2
import EqsigVerif.Lemmas.Single2
import EqsigVerif.Lemmas.CorrectMe
/-!
# C08 (object level) — what `AccSignal.correct_me()` computes, entry by entry (closes `C08Residual.correct_me_length_partial`)

`correct_me` (`eqsig/single.py`): `d = scipy.signal.detrend(self.displacement)`; `vel[0] = acc[0] = 0`,
`vel[i+1] = (d[i+1] − d[i])/dt`, `acc[i+1] = (vel[i+1] − vel[i])/dt`; `acc[:10] = mean(acc[:10])`; `reset_values(acc)`.
Model: `Model.Single2.correctMe detrend values dt` (`detrend` a parameter standing for `scipy.signal.detrend`; only its length
preservation is used).  `displacement dt values` is the C08 model (`trap=True`).  With `n = len(values)`, `m = min(10, n)`, exact over ℚ:

* `i ≥ 10`:  `new[i] = (d[i] − 2·d[i−1] + d[i−2]) / dt²` (second central difference quotient, shifted one sample back);
* `i < 10`:  `new[i] = (d[m−1] − d[m−2]) / (m·dt²)` — the mean of the first `m` raw entries TELESCOPES to `vel[m−1]/(m·dt)`
  (for `n = 1`: `0`); in particular the raw entry `acc[1] = (d[1] − d[0])/dt²` (a first, not a second difference) never survives
  when `n ≥ 2`.
-/
set_option linter.unusedSectionVars false
set_option linter.unusedVariables false
set_option linter.unusedSimpArgs false
namespace EqsigVerif.Props.C08
open EqsigVerif EqsigVerif.Wire EqsigVerif.Np EqsigVerif.NpS EqsigVerif.Model.Im EqsigVerif.Model.Displacements
open EqsigVerif.Model.Single2 EqsigVerif.Lemmas.Single2 EqsigVerif.Lemmas.CorrectMe

/-- **correct_me, entry-wise** (non-empty record, `dt ≠ 0`, length-preserving `detrend`): with `d = detrend(displacement)`,
`n = len(values)`, `m = min 10 n`, the call succeeds, keeps the length, and
`new[i] = (d[i] − 2·d[i−1] + d[i−2])/dt²` for `i ≥ 10`, `new[i] = (d[m−1] − d[m−2])/(m·dt²)` for `i < 10`
(indices by truncated subtraction: for `n = 1` the second value is `0`). -/
theorem correct_me_spec (detrend : List ℚ → List ℚ) (hdet : ∀ x, (detrend x).length = x.length)
    (values : List ℚ) (dt : ℚ) (hne : values ≠ []) (hdt : dt ≠ 0) :
    ∃ new, correctMe detrend values dt = .ok new ∧ new.length = values.length ∧
      ∀ (i : ℕ) (hi : i < new.length), new[i] =
        if i < 10 then
          ((detrend (displacement dt values)).getD (min 10 values.length - 1) 0
            - (detrend (displacement dt values)).getD (min 10 values.length - 2) 0)
              / (((min 10 values.length : ℕ) : ℚ) * dt ^ 2)
        else ((detrend (displacement dt values)).getD i 0 - 2 * (detrend (displacement dt values)).getD (i - 1) 0
            + (detrend (displacement dt values)).getD (i - 2) 0) / dt ^ 2 := by
  have hdisp : displacement dt values = (veloDispTrap values dt).2 := rfl
  obtain ⟨d, hd⟩ : ∃ d, d = detrend (displacement dt values) := ⟨_, rfl⟩
  have hlen : d.length = values.length := by
    rw [hd, hdet, hdisp]; simp [veloDispTrap]
  have hn : 0 < values.length := List.length_pos_iff.mpr hne
  rw [← hd]
  obtain ⟨V, hV⟩ : ∃ V, V = diffQ d dt := ⟨_, rfl⟩
  obtain ⟨A, hA⟩ : ∃ A, A = diffQ V dt := ⟨_, rfl⟩
  have hVlen : V.length = values.length := by rw [hV, length_diffQ, hlen]
  have hAlen : A.length = values.length := by rw [hA, length_diffQ, hVlen]
  obtain ⟨m, hm⟩ : ∃ m, m = min 10 values.length := ⟨_, rfl⟩
  have hm1 : 1 ≤ m := by omega
  have hm2 : m ≤ values.length := by omega
  have htake : A.take 10 = A.take m := by
    by_cases h10 : 10 ≤ values.length
    · have : m = 10 := by omega
      rw [this]
    · rw [List.take_of_length_le (by omega), List.take_of_length_le (by omega)]
  have htne : A.take m ≠ [] := by
    intro h0
    have := congrArg List.length h0
    simp only [List.length_take, List.length_nil, hAlen] at this
    omega
  have htl : (A.take m).length = m := by simp only [List.length_take, hAlen]; omega
  -- the value of the call
  have hcall : correctMe detrend values dt = .ok (fillTo A 10 ((A.take m).sum / (m : ℚ))) := by
    simp only [correctMe, veloDispE_ne values dt hne, bind, Except.bind, ← hdisp, ← hd, diffQuot_some _ _ hdt, ← hV, ← hA,
      ← List.map_take, htake, fmean_some _ htne, htl, fillTo_map_some, finiteE_some]
  -- the mean telescopes
  have hV0 : V.getD 0 0 = 0 := by
    rw [hV, diffQ_getD d dt 0 (by omega)]; simp
  have hsum : (A.take m).sum = (d.getD (m - 1) 0 - d.getD (m - 2) 0) / dt ^ 2 := by
    rw [hA, sum_take_diffQ V dt m hm1 (by omega), hV0, hV, diffQ_getD d dt (m - 1) (by omega)]
    by_cases h1 : m - 1 = 0
    · have e2 : m - 2 = 0 := by omega
      simp [h1, e2]
    · have e2 : m - 1 - 1 = m - 2 := by omega
      simp only [h1, if_false, e2, sub_zero]
      field_simp
  refine ⟨_, hcall, by rw [length_fillTo, hAlen], ?_⟩
  intro i hi
  have hi' : i < values.length := by rw [length_fillTo, hAlen] at hi; exact hi
  rw [fillTo_getElem A 10 _ i hi, ← hm]
  by_cases h10 : i < 10
  · simp only [h10, if_true, hsum]
    have hmq : (m : ℚ) ≠ 0 := by positivity
    field_simp
  · simp only [h10, if_false]
    have e1 : i ≠ 0 := by omega
    have e2 : i - 1 ≠ 0 := by omega
    have e3 : i - 1 - 1 = i - 2 := by omega
    rw [hA, diffQ_getD V dt i (by omega), hV, diffQ_getD d dt i (by omega), diffQ_getD d dt (i - 1) (by omega)]
    simp only [e1, e2, e3, if_false]
    field_simp
    ring

/-- `[0, 0, 8, 0, …]`-free small instance: three samples, the identity as `detrend` -/
example : correctMe id [1, 2, 4] (1/2) = .ok [1, 1, 1] ∧ displacement (1/2) [1, 2, (4 : ℚ)] = [0, 3/16, 15/16] ∧
    ((15/16 : ℚ) - 3/16) / (((min 10 3 : ℕ) : ℚ) * (1/2) ^ 2) = 1 := by
  refine ⟨by decide +kernel, by decide +kernel, by norm_num⟩

/-- twelve samples: both branches occur (`i < 10`: the telescoped mean `(d[9] − d[8])/(10·dt²)`; `i = 10, 11`: second differences) -/
example : correctMe id [0, 0, 0, 0, 0, 0, 0, 0, 4, 0, 0, 8] 1 =
      .ok [3/10, 3/10, 3/10, 3/10, 3/10, 3/10, 3/10, 3/10, 3/10, 3/10, 1, 2] ∧
    displacement 1 [0, 0, 0, 0, 0, 0, 0, 0, 4, 0, 0, (8 : ℚ)] = [0, 0, 0, 0, 0, 0, 0, 0, 1, 4, 8, 14] := by
  decide +kernel

example := correct_me_spec id (fun _ => rfl) [0, 0, 0, 0, 0, 0, 0, 0, 4, 0, 0, 8] 1 (by simp) (by norm_num)

/-- **correct_me keeps the length** (the former `_partial`, now a corollary of the entry-wise statement; also without `dt ≠ 0`,
see `C08Residual.correct_me_length_partial`) and its result depends on the record only through `detrend(displacement)`. -/
theorem correct_me_length (detrend : List ℚ → List ℚ) (hdet : ∀ x, (detrend x).length = x.length)
    (values : List ℚ) (dt : ℚ) (hne : values ≠ []) (hdt : dt ≠ 0) :
    ∃ new, correctMe detrend values dt = .ok new ∧ new.length = values.length := by
  obtain ⟨new, h1, h2, _⟩ := correct_me_spec detrend hdet values dt hne hdt
  exact ⟨new, h1, h2⟩

example := correct_me_length id (fun _ => rfl) [1, 2, 4] (1/2) (by simp) (by norm_num)

/-- **error branches of `correct_me`**: the empty record raises `ValueError` (`self.displacement` of an empty record); with `dt = 0` and
at least two samples the record would be all-`nan` (`vel[1] = x/0`; the mean of `acc[:10]` is `nan`), tag `ZeroDivisionError`; a
one-sample record becomes `[0]` whatever `dt` is (the loop body never runs). -/
theorem correct_me_errors (detrend : List ℚ → List ℚ) (hdet : ∀ x, (detrend x).length = x.length) (dt x y : ℚ) (rest : List ℚ) :
    correctMe detrend [] dt = .error .ValueError ∧
    correctMe detrend (x :: y :: rest) 0 = .error .ZeroDivisionError ∧
    correctMe detrend [x] dt = .ok [0] := by
  refine ⟨rfl, ?_, ?_⟩
  · have hl : (detrend (veloDispTrap (x :: y :: rest) 0).2).length = rest.length + 2 := by
      rw [hdet]; simp [veloDispTrap]
    obtain ⟨d0, d1, dr, hdd⟩ : ∃ d0 d1 dr, detrend (veloDispTrap (x :: y :: rest) 0).2 = d0 :: d1 :: dr := by
      match hq : detrend (veloDispTrap (x :: y :: rest) 0).2, hl with
      | d0 :: d1 :: dr, _ => exact ⟨d0, d1, dr, rfl⟩
      | [_], h => simp at h
      | [], h => simp at h
    simp only [correctMe, veloDispE_cons, bind, Except.bind, hdd, List.map_cons, diffQuot, List.zipWith_cons_cons, fsub_some,
      fdiv_zero]
    have hm : fmean (List.take 10 (some 0 :: fdiv (fsub none (some 0)) (some 0) ::
        List.zipWith (fun b a => fdiv (fsub b a) (some 0))
          (List.zipWith (fun b a => fdiv (fsub b a) (some 0)) (List.map some dr) (some d1 :: List.map some dr))
          (none :: List.zipWith (fun b a => fdiv (fsub b a) (some 0)) (List.map some dr) (some d1 :: List.map some dr)))) = none := by
      simp only [fmean, List.take_succ_cons, List.foldl_cons, fadd, fsub, fdiv, foldl_fadd_none]
    rw [hm]
    simp only [fillTo, List.length_cons]
    have : min 10 ((List.zipWith (fun b a => fdiv (fsub b a) (some 0))
          (List.zipWith (fun b a => fdiv (fsub b a) (some 0)) (List.map some dr) (some d1 :: List.map some dr))
          (none :: List.zipWith (fun b a => fdiv (fsub b a) (some 0)) (List.map some dr) (some d1 :: List.map some dr))).length + 1 + 1)
        = (min 10 ((List.zipWith (fun b a => fdiv (fsub b a) (some 0))
          (List.zipWith (fun b a => fdiv (fsub b a) (some 0)) (List.map some dr) (some d1 :: List.map some dr))
          (none :: List.zipWith (fun b a => fdiv (fsub b a) (some 0)) (List.map some dr) (some d1 :: List.map some dr))).length + 1 + 1) - 1) + 1 := by
      omega
    rw [this, List.replicate_succ, List.cons_append, finiteE_cons_none]
  · have hl : (detrend (veloDispTrap [x] dt).2).length = 1 := by
      rw [hdet]; simp [veloDispTrap]
    obtain ⟨d0, hdd⟩ : ∃ d0, detrend (veloDispTrap [x] dt).2 = [d0] := by
      match hq : detrend (veloDispTrap [x] dt).2, hl with
      | [d0], _ => exact ⟨d0, rfl⟩
      | [], h => simp at h
      | _ :: _ :: _, h => simp at h
    simp only [correctMe, veloDispE_cons, bind, Except.bind, hdd, List.map_cons, List.map_nil, diffQuot, List.zipWith_nil_left]
    decide +kernel

example : correctMe id [1, 2, 4] 0 = .error .ZeroDivisionError ∧ correctMe id [5] 0 = .ok [0] ∧
    correctMe id [] (1/2) = .error .ValueError := by decide +kernel

end EqsigVerif.Props.C08
