import EqsigVerif.Model.SwitchedOut
import EqsigVerif.Lemmas.NpU
import EqsigVerif.Lemmas.SwitchedOut
import EqsigVerif.Lemmas.Switched
import EqsigVerif.Lemmas.SwitchedExcursions
import EqsigVerif.Props.C12
import EqsigVerif.Props.C12Discharged
/-!
# C12 — the repaired `get_switched_peak_array_indices` (finding F12-3): `return np.unique(switched_peak_indices)`

Model: `Model/SwitchedOut.lean`, `switchedPeaksOut v tol = NpU.unique (switchedPeaks v tol)` (the loop of `Model/Switched.lean`,
then `np.unique`).  The clause of C12 that was false before — *for every series the switched-peak indices are strictly
ascending* — is `switched_out_strict_ascending_all`.  Whenever the peak list is strictly ascending (C11.a: every non-constant
series) the repaired function returns exactly what the loop returns (`switched_out_eq`), so every theorem of `Props/C12.lean` /
`Props/C12Discharged.lean` transfers; the main ones are restated here about `switchedPeaksOut`.  Constant series: `[0]`
(`switched_out_const`, every constant, every `tol`), in particular the all-zero series (`switched_out_zero_series`).
-/
namespace EqsigVerif.Props.C12
set_option linter.unusedVariables false
open EqsigVerif EqsigVerif.Model.Switched EqsigVerif.Model.Peaks EqsigVerif.Lemmas.Peaks EqsigVerif.Lemmas.SwitchedOut

/-! ### the repaired clause -/

/-- **C12.c (strict ascent), every series**: the indices returned by the repaired `get_switched_peak_array_indices` are
strictly ascending — constant or not, any `tol` (this clause was false of the unrepaired function: `np.zeros(n) ↦ [0, 0]`). -/
theorem switched_out_strict_ascending_all (v : List ℚ) (tol : ℚ) : (switchedPeaksOut v tol).Pairwise (· < ·) :=
  Lemmas.NpU.unique_pairwise _

example : switchedPeaksOut [0, 0, 0] 0 = [0] ∧ (switchedPeaksOut [0, 0, 0] 0).Pairwise (· < ·) ∧
    ¬ (switchedPeaks [0, 0, 0] 0).Pairwise (· < ·) :=
  ⟨by decide +kernel, switched_out_strict_ascending_all _ _, by decide +kernel⟩

/-- the same about the function with its error branch: whatever it returns is strictly ascending -/
theorem switched_outE_strict_ascending (v : List ℚ) (tol : ℚ) (S : List ℕ) (h : switchedPeaksOutE v tol = .ok S) :
    S.Pairwise (· < ·) := by
  unfold switchedPeaksOutE at h
  split at h
  · cases h
  · cases h; exact switched_out_strict_ascending_all v tol

example : switchedPeaksOutE [0, 0] (1/2) = .ok [0] ∧ switchedPeaksOutE [] 0 = .error .IndexError := by decide +kernel

/-! ### the repaired function against the loop -/

/-- `np.unique` keeps the set of reported indices: same members for every series -/
theorem switched_out_mem (v : List ℚ) (tol : ℚ) (i : ℕ) : i ∈ switchedPeaksOut v tol ↔ i ∈ switchedPeaks v tol :=
  Lemmas.NpU.mem_unique _ i

example : (0 ∈ switchedPeaksOut [0, 0] 0) ∧ (0 ∈ switchedPeaks [0, 0] 0) :=
  ⟨(switched_out_mem _ _ _).2 (by decide +kernel), by decide +kernel⟩

/-- **`switched_out_eq`**: when the peak list is strictly ascending (`hpw` = first conjunct of C11.a, every non-constant series)
the repaired function returns exactly the loop's result — every theorem about `switchedPeaks` under that hypothesis is a theorem
about the public function -/
theorem switched_out_eq (v : List ℚ) (tol : ℚ) (hpw : (peaks v).Pairwise (· < ·)) :
    switchedPeaksOut v tol = switchedPeaks v tol :=
  Lemmas.NpU.unique_of_pairwise_lt _ (hpw.sublist (switchedPeaks_sublist_peaks v tol))

example : switchedPeaksOut [5, 1, 3, -1] 0 = switchedPeaks [5, 1, 3, -1] 0 ∧ switchedPeaks [5, 1, 3, -1] 0 = [0, 3] :=
  ⟨switched_out_eq _ _ (by decide +kernel), by decide +kernel⟩

/-- `switched_out_eq` with the C11 hypothesis discharged -/
theorem switched_out_eq_full (v : List ℚ) (hv : NonConstant v) (tol : ℚ) : switchedPeaksOut v tol = switchedPeaks v tol :=
  switched_out_eq v tol (EqsigVerif.Props.C11.peaks_shape v hv).1

example : switchedPeaksOut [0, 1/100, 1/10, -3/10, -1/4, -4, 1] (1/2) = [0, 3, 5, 6] := by
  rw [switched_out_eq_full _ (by decide +kernel)]; decide +kernel

/-- exactly when: the repair changes the result iff the loop's result was not strictly ascending -/
theorem switched_out_eq_iff (v : List ℚ) (tol : ℚ) :
    switchedPeaksOut v tol = switchedPeaks v tol ↔ (switchedPeaks v tol).Pairwise (· < ·) :=
  ⟨fun h => h ▸ switched_out_strict_ascending_all v tol, fun h => Lemmas.NpU.unique_of_pairwise_lt _ h⟩

/-- where the repair changes something (kernel-checked): the all-zero series (any `tol`), and a non-zero constant `c` with
`tol ≤ -|c|` (negative `tol` is allowed by this function: "if neg, then does not need to cross zero") -/
example : switchedPeaks [0, 0, 0] (3/2) = [0, 0] ∧ switchedPeaksOut [0, 0, 0] (3/2) = [0] ∧
    switchedPeaks [1, 1] (-1) = [0, 0] ∧ switchedPeaksOut [1, 1] (-1) = [0] ∧
    switchedPeaks [1, 1] (-1/2) = [0] ∧ switchedPeaksOut [1, 1] (-1/2) = [0] := by decide +kernel

/-! ### constant series -/

/-- **`switched_out_const`**: every constant series, every `tol`: the repaired function reports exactly index `0`
(a non-zero constant series is a single excursion reported at its first sample; the zero series has no excursion and reports
the zero-valued end point `0` once) -/
theorem switched_out_const (c : ℚ) (n : ℕ) (tol : ℚ) : switchedPeaksOut (List.replicate (n+1) c) tol = [0] := by
  apply Lemmas.NpU.unique_const _ 0 (switchedPeaks_ne_nil _ _)
  intro x hx
  have := (switchedPeaks_sublist_peaks (List.replicate (n+1) c) tol).subset hx
  rw [peaks_replicate] at this
  simpa using this

example : switchedPeaksOut [3, 3, 3] 0 = [0] ∧ switchedPeaksOut [-2] (1/2) = [0] := by decide +kernel

/-- **`switched_out_zero_series`** (the witness of F12-3): `np.zeros(n+1) ↦ [0]` for every `tol` — the loop still gives `[0, 0]`
(`Props/C12.lean::switched_const`) -/
theorem switched_out_zero_series (n : ℕ) (tol : ℚ) : switchedPeaksOut (List.replicate (n+1) 0) tol = [0] :=
  switched_out_const 0 n tol

example : switchedPeaksOut [0, 0, 0] 0 = [0] ∧ switchedPeaks [0, 0, 0] 0 = [0, 0] := by decide +kernel

/-! ### the C12 theorems about the repaired function -/

/-- C12.f (`_partial`, see `Props/C12.lean`) for the repaired function and **every** non-empty series, every `tol`:
the result is a sublist of the peak list (full statement "sublist of the `tol = 0` result" is false, finding F12-2) -/
theorem switched_out_tol_sublist_peaks_partial (v : List ℚ) (hv : v ≠ []) (tol : ℚ) : (switchedPeaksOut v tol).Sublist (peaks v) :=
  (Lemmas.NpU.unique_sublist_of_sorted _ ((peaks_sorted v hv).sublist (switchedPeaks_sublist_peaks v tol))).trans
    (switchedPeaks_sublist_peaks v tol)

example : (switchedPeaksOut [0, 0, 0] (1/2)).Sublist (peaks [0, 0, 0]) ∧ peaks [0, 0, 0] = [0, 0] :=
  ⟨switched_out_tol_sublist_peaks_partial _ (by simp) _, by decide +kernel⟩

/-- counterexample to the full C12.f statement, about the repaired function -/
example : ¬ (switchedPeaksOut [0, 1/100, 1/10, -3/10, -1/4, -4, 1] (1/2)).Sublist
    (switchedPeaksOut [0, 1/100, 1/10, -3/10, -1/4, -4, 1] 0) := by
  have e1 : switchedPeaksOut [0, 1/100, 1/10, -3/10, -1/4, -4, 1] (1/2) = [0, 3, 5, 6] := by decide +kernel
  have e0 : switchedPeaksOut [0, 1/100, 1/10, -3/10, -1/4, -4, 1] 0 = [0, 2, 5, 6] := by decide +kernel
  rw [e1, e0]; decide

/-- **C12.d** for the repaired function, every non-empty series: the global `max |v|` is attained at a reported index -/
theorem switched_out_global_max (v : List ℚ) (hv : v ≠ []) :
    ∃ r ∈ switchedPeaksOut v 0, ∀ i, i < v.length → |v.getD i 0| ≤ |v.getD r 0| := by
  obtain ⟨r, hr, h⟩ := switched_global_max_full v hv
  exact ⟨r, (switched_out_mem v 0 r).2 hr, h⟩

example : ∃ r ∈ switchedPeaksOut [0, 0] 0, ∀ i, i < 2 → |([0, 0] : List ℚ).getD i 0| ≤ |([0, 0] : List ℚ).getD r 0| :=
  switched_out_global_max [0, 0] (by simp)

/-- **C12.c** (`switched_shape`, `tol = 0`) for the repaired function and a non-constant series: sublist of the peaks, the groups
partition the peaks into maximal one-signed runs, one report per group at the first largest `|value|`, signs of consecutive
reports never agree strictly -/
theorem switched_out_shape (v : List ℚ) (hv : NonConstant v) :
    (switchedPeaksOut v 0).Sublist (peaks v) ∧
    (∃ gs : List (List (ℕ × ℚ)),
      gs.flatten = (peaks v).map (fun p => (p, v.getD p 0)) ∧
      (∀ g ∈ gs, g ≠ [] ∧ ((∃ p, g = [(p, 0)]) ∨ (∀ e ∈ g, 0 < e.2) ∨ (∀ e ∈ g, e.2 < 0))) ∧
      gs.IsChain (fun g g' => ∀ e ∈ g, ∀ e' ∈ g', e.2 * e'.2 ≤ 0) ∧
      List.Forall₂ (fun r g => IsFirstArgmaxAbs g r) (switchedPeaksOut v 0) gs) ∧
    (switchedPeaksOut v 0).IsChain (fun a b => v.getD a 0 * v.getD b 0 ≤ 0) := by
  rw [switched_out_eq_full v hv 0]
  exact switched_shape v (nonConstant_ne_nil v hv)

example : (switchedPeaksOut [5, 1, 3, -1] 0).IsChain (fun a b => ([5, 1, 3, -1] : List ℚ).getD a 0 * ([5, 1, 3, -1] : List ℚ).getD b 0 ≤ 0) :=
  (switched_out_shape [5, 1, 3, -1] (by decide +kernel)).2.2

/-- sign alternation of consecutive reports for **every** non-empty series (a constant series reports one index) -/
theorem switched_out_chain (v : List ℚ) (hv : v ≠ []) :
    (switchedPeaksOut v 0).IsChain (fun a b => v.getD a 0 * v.getD b 0 ≤ 0) := by
  rcases const_or_nonConstant v hv with h | ⟨c, n, rfl⟩
  · exact (switched_out_shape v h).2.2
  · rw [switched_out_const]; exact List.isChain_singleton _

example : (switchedPeaksOut [2, 2] 0).IsChain (fun a b => ([2, 2] : List ℚ).getD a 0 * ([2, 2] : List ℚ).getD b 0 ≤ 0) :=
  switched_out_chain _ (by simp)

/-- **C12.e** (`switched_excursions`, `tol = 0`) for the repaired function and a non-constant series: the excursion of every
non-zero sample contains exactly one reported index, at its largest `|value|`; every reported index is a peak that is
zero-valued or lies in an excursion -/
theorem switched_out_excursions (v : List ℚ) (hv : NonConstant v) :
    (∀ i, i < v.length → v.getD i 0 ≠ 0 →
      ∃ r ∈ switchedPeaksOut v 0, SameExc v i r ∧
        (∀ j, j < v.length → SameExc v i j → |v.getD j 0| ≤ |v.getD r 0|) ∧
        ∀ r' ∈ switchedPeaksOut v 0, SameExc v i r' → r' = r) ∧
    (∀ r ∈ switchedPeaksOut v 0, r ∈ peaks v ∧ (v.getD r 0 = 0 ∨ SameExc v r r)) := by
  rw [switched_out_eq_full v hv 0]
  exact switched_excursions_full v hv

example : ∃ r ∈ switchedPeaksOut [1, 2, -1, -3, -3] 0, SameExc [1, 2, -1, -3, -3] 2 r := by
  obtain ⟨r, hr, hs, _⟩ := (switched_out_excursions [1, 2, -1, -3, -3] (by decide +kernel)).1 2 (by decide) (by decide +kernel)
  exact ⟨r, hr, hs⟩

/-- C12.e, complement for constant series, about the repaired function: the only reported index is `0`; for `c ≠ 0` it lies in the
single excursion (the whole series), for `c = 0` there is no excursion and the reported sample is zero-valued -/
theorem switched_out_const_excursion (c : ℚ) (n : ℕ) :
    ∀ r ∈ switchedPeaksOut (List.replicate (n+1) c) 0, r = 0 ∧ ((List.replicate (n+1) c).getD r 0 = 0 ↔ c = 0) := by
  intro r hr
  rw [switched_out_const] at hr
  have : r = 0 := by simpa using hr
  subst this
  exact ⟨rfl, by simp [List.replicate_succ]⟩

example : ∀ r ∈ switchedPeaksOut [7, 7, 7] 0, r = 0 ∧ (([7, 7, 7] : List ℚ).getD r 0 = 0 ↔ (7 : ℚ) = 0) :=
  switched_out_const_excursion 7 2

end EqsigVerif.Props.C12
