import EqsigVerif.Model.SignalSM
import EqsigVerif.Lemmas.SignalSM
import EqsigVerif.GenGolden.CacheTable
import EqsigVerif.Gen.CacheTable
/-!
# C04 — Derived quantities of a signal object never go stale

Histories are lists of `Op` (method call by table row / read of a property) run by
`Model.SignalSM.step` from a newly constructed object `init tbl n0`.  `Op.isObj` excludes the only
non-object operation (`callerWrite`, which belongs to C05).
-/
namespace EqsigVerif.Props.C04
open EqsigVerif.Model.SignalSM

/-- **C04.a** For a table that satisfies the decidable obligation `TableOK`, in every history of object
operations every read reports a value computed from the inputs the object holds at that moment
(`Fresh`: the snapshot behind the reported value agrees with the current input versions on everything the
generator transitively reads). -/
theorem never_stale (tbl : CacheTable) (hok : TableOK tbl) (n0 : Nat) (ops : List Op)
    (hobj : ∀ op, op ∈ ops → op.isObj = true) (pre post : List Op) (q : String)
    (hsplit : ops = pre ++ Op.read q :: post) :
    Fresh tbl (read tbl (run tbl (init tbl n0) pre) q).1 ⟨q, (read tbl (run tbl (init tbl n0) pre) q).2⟩ := by
  have hinv : Inv tbl (run tbl (init tbl n0) pre) :=
    inv_run _ tbl hok pre (fun o ho => hobj o (by rw [hsplit]; exact List.mem_append_left _ ho)) _
      (inv_init _ tbl hok n0)
  obtain ⟨_, hF, hfresh⟩ := read_spec _ tbl _ q hinv
  intro i hi
  simp only at hi ⊢
  rw [hfresh i hi trivial, hF.1]

/-- **C04.a, value form** Under any numeric interpretation whose generators depend only on the inputs they
read, every read in every history returns exactly what a freshly constructed object with the same inputs
returns. -/
theorem never_stale_value {V W : Type} (tbl : CacheTable) (hok : TableOK tbl)
    (val : String → Nat → V) (eval : String → (String → V) → W) (hloc : EvalLocal tbl eval)
    (n0 : Nat) (ops : List Op) (hobj : ∀ op, op ∈ ops → op.isObj = true) (pre post : List Op) (q : String)
    (hsplit : ops = pre ++ Op.read q :: post) :
    (Observation.mk q (read tbl (run tbl (init tbl n0) pre) q).2).value val eval
      = freshValue val eval (read tbl (run tbl (init tbl n0) pre) q).1 q := by
  have h := never_stale tbl hok n0 ops hobj pre post q hsplit
  unfold Observation.value freshValue
  apply hloc
  intro i hi
  rw [h i hi]

/-- **C04.b** the obligation on the golden table (the same `decide` runs on the regenerated table below) -/
theorem tableOK_golden : TableOK EqsigVerif.GenGolden.cacheTable := by decide

/-- **C04.b** the obligation on the table regenerated from the working tree -/
theorem tableOK_gen : TableOK EqsigVerif.Gen.cacheTable := by decide

/-- the golden table is well formed (property reads resolve and are acyclic, names unique) -/
theorem wellFormed_golden : WellFormed EqsigVerif.GenGolden.cacheTable := by decide
theorem wellFormed_gen : WellFormed EqsigVerif.Gen.cacheTable := by decide

open EqsigVerif.GenGolden in
/-- non-vacuity of `never_stale`: a concrete history on the golden table (read, change the periods, read). -/
example :
    Fresh cacheTable
      (read cacheTable (run cacheTable (init cacheTable 64)
        [.read "s_a", .mutate "response_times=" none 64]) "s_a").1
      ⟨"s_a", (read cacheTable (run cacheTable (init cacheTable 64)
        [.read "s_a", .mutate "response_times=" none 64]) "s_a").2⟩ :=
  never_stale cacheTable tableOK_golden 64
    [.read "s_a", .mutate "response_times=" none 64, .read "s_a"] (by decide)
    [.read "s_a", .mutate "response_times=" none 64] [] "s_a" rfl

open EqsigVerif.GenGolden in
/-- the check is not vacuous (1): the pre-fix code — `response_times` a plain attribute, nothing reset — fails
the obligation (finding F04-1) … -/
example : ¬ TableOK (cacheTable.dropClear "response_times=" "_cached_response_spectra") := by decide

open EqsigVerif.GenGolden in
/-- … and the model then predicts the stale read that the unfixed Python code shows -/
example :
    runObs (cacheTable.dropClear "response_times=" "_cached_response_spectra")
      (init (cacheTable.dropClear "response_times=" "_cached_response_spectra") 64)
      [.read "s_a", .mutate "response_times=" none 64, .read "s_a"] = [("s_a", true), ("s_a", false)] := by
  decide

open EqsigVerif.GenGolden in
/-- the check is not vacuous (2): a mutator that forgets the velocity/displacement flag -/
example : ¬ TableOK (cacheTable.dropClear "rebase_displacement" "_cached_disp_and_velo") := by decide

open EqsigVerif.GenGolden in
example :
    runObs (cacheTable.dropClear "rebase_displacement" "_cached_disp_and_velo")
      (init (cacheTable.dropClear "rebase_displacement" "_cached_disp_and_velo") 64)
      [.mutate "rebase_displacement" none 64, .read "velocity", .read "pga"]
      = [("velocity", false), ("pga", true)] := by
  decide

open EqsigVerif.GenGolden in
/-- the check is not vacuous (3): a line dropped from `clear_cache` breaks every mutator row -/
example : ¬ TableOK (cacheTable.dropClearEverywhere "_cached_fa") := by decide

/-- **C04.a, executable form** (what the harness compares with Python): under `TableOK` and `NptsOK` the model's
prediction `runObs` is "fresh" for every read of every history of object operations — including the reads of
`npts`/`time`/spectra, which also need `_npts = len(_values)`. -/
theorem runObs_all_fresh (tbl : CacheTable) (hok : TableOK tbl) (hn : NptsOK tbl) (n0 : Nat) (ops : List Op)
    (hobj : ∀ op, op ∈ ops → op.isObj = true) :
    ∀ p, p ∈ runObs tbl (init tbl n0) ops → p.2 = true :=
  runObs_fresh tbl hok hn ops hobj _ (inv_init _ tbl hok n0) ((good_init tbl hok n0).2.2 hn)

open EqsigVerif.GenGolden in
example :
    runObs cacheTable (init cacheTable 64)
      [.read "smooth_fa_spectrum", .mutate "reset_values" none 80, .read "npts", .read "smooth_fa_spectrum",
       .mutate "gen_smooth_fa_spectrum/given" none 0, .read "smooth_fa_spectrum", .read "pgv"]
      = [("smooth_fa_spectrum", true), ("npts", true), ("smooth_fa_spectrum", true),
         ("smooth_fa_spectrum", true), ("pgv", true)] := by decide

/-- **C04.c** `reads_idempotent`: inserting a read anywhere changes no observation of any later read — under
any numeric interpretation, the list of (quantity, reported value) of every continuation is the same with and
without the extra read. -/
theorem reads_idempotent {V W : Type} (tbl : CacheTable) (hok : TableOK tbl)
    (val : String → Nat → V) (eval : String → (String → V) → W) (hloc : EvalLocal tbl eval)
    (n0 : Nat) (pre : List Op) (hpre : ∀ op, op ∈ pre → op.isObj = true) (q : String)
    (post : List Op) (hpost : ∀ op, op ∈ post → op.isObj = true) :
    (observations tbl (read tbl (run tbl (init tbl n0) pre) q).1 post).map
        (fun p => (p.2.quantity, p.2.value val eval))
      = (observations tbl (run tbl (init tbl n0) pre) post).map
        (fun p => (p.2.quantity, p.2.value val eval)) := by
  have hinv : Inv tbl (run tbl (init tbl n0) pre) := inv_run _ tbl hok pre hpre _ (inv_init _ tbl hok n0)
  have hr := read_spec _ tbl _ q hinv
  exact observations_congr tbl hok val eval hloc post hpost _ _ hr.1 hinv hr.2.1.1

/-- **C04.c, second half** a read changes no other observable: inputs, length, tracked length, array
identities and contents, caller-held set — everything but the caches — are untouched (any table). -/
theorem read_changes_only_caches (tbl : CacheTable) (s : Obj) (q : String) :
    Frame (step tbl s (.read q)).1 s :=
  read_frame tbl s q

open EqsigVerif.GenGolden in
/-- non-vacuity of `reads_idempotent`: interpretation "value = list of the input versions read". -/
example :
    (observations cacheTable (read cacheTable (run cacheTable (init cacheTable 64)
        [.mutate "add_constant" none 64]) "s_a").1
        [.mutate "response_times=" none 64, .read "s_a"]).map
        (fun p => (p.2.quantity, p.2.value (fun _ v => v) (fun q f => (deps cacheTable q).map f)))
      = (observations cacheTable (run cacheTable (init cacheTable 64) [.mutate "add_constant" none 64])
        [.mutate "response_times=" none 64, .read "s_a"]).map
        (fun p => (p.2.quantity, p.2.value (fun _ v => v) (fun q f => (deps cacheTable q).map f))) :=
  reads_idempotent cacheTable tableOK_golden (fun _ v => v) (fun q f => (deps cacheTable q).map f)
    (fun q f g h => List.map_congr_left h) 64 [.mutate "add_constant" none 64] (by decide) "s_a"
    [.mutate "response_times=" none 64, .read "s_a"] (by decide)

open EqsigVerif.GenGolden in
/-- `TableOK` is needed: on the pre-fix table an extra read of `s_a` changes what a later read reports. -/
example :
    runObs (cacheTable.dropClear "response_times=" "_cached_response_spectra")
        (read (cacheTable.dropClear "response_times=" "_cached_response_spectra")
          (init (cacheTable.dropClear "response_times=" "_cached_response_spectra") 64) "s_a").1
        [.mutate "response_times=" none 64, .read "s_a"]
      ≠ runObs (cacheTable.dropClear "response_times=" "_cached_response_spectra")
        (init (cacheTable.dropClear "response_times=" "_cached_response_spectra") 64)
        [.mutate "response_times=" none 64, .read "s_a"] := by decide

/-- **C04 npts/time invariant** (= C05.b): if no row replaces the record without assigning `_npts`
(`NptsOK`; a row that takes the new length from a cached record-shaped property — `remove_rolling_average`,
`self._values = acc` with `len(acc) = len(self.velocity)` — needs that cache to be fresh, hence `TableOK`), then in
every reachable state — any operations, including caller writes — the tracked `_npts` equals `len(_values)`;
`time = arange(npts)·dt` is recomputed from `_npts` and `_dt` on every read (quantity row `time`: no guard),
so it is `dt·[0..len(values))`. -/
theorem npts_tracks_length (tbl : CacheTable) (hok : TableOK tbl) (hn : NptsOK tbl) (n0 : Nat) (ops : List Op) :
    (run tbl (init tbl n0) ops).npts = (run tbl (init tbl n0) ops).len :=
  (good_run tbl hok ops _ (good_init tbl hok n0)).2.2 hn

theorem nptsOK_golden : NptsOK EqsigVerif.GenGolden.cacheTable := by decide
theorem nptsOK_gen : NptsOK EqsigVerif.Gen.cacheTable := by decide

open EqsigVerif.GenGolden in
example : (run cacheTable (init cacheTable 64)
    [.mutate "reset_values" none 80, .mutate "rebase_displacement" none 0, .read "npts"]).npts = 80 := by decide

open EqsigVerif.GenGolden in
/-- not vacuous: `reset_values` without the `_npts` line fails the obligation, and the model shows the stale
`npts` / `time` / spectrum -/
example : ¬ NptsOK (cacheTable.dropNpts "reset_values") := by decide

open EqsigVerif.GenGolden in
/-- `TableOK` is needed for the length too: if `clear_cache` forgets the velocity flag, `remove_rolling_average`
builds the new record from a stale velocity of the old length (64) while `_npts` says 80  [observed in Python] -/
example :
    runObs (cacheTable.dropClearEverywhere "_cached_disp_and_velo")
      (init (cacheTable.dropClearEverywhere "_cached_disp_and_velo") 64)
      [.read "velocity", .mutate "reset_values" none 80, .mutate "remove_rolling_average/velocity" none 64,
       .read "npts", .read "pga"] = [("velocity", true), ("npts", false), ("pga", true)] := by decide

open EqsigVerif.GenGolden in
example :
    runObs (cacheTable.dropNpts "reset_values") (init (cacheTable.dropNpts "reset_values") 64)
      [.mutate "reset_values" none 80, .read "npts", .read "time", .read "fa_spectrum", .read "velocity"]
      = [("npts", false), ("time", false), ("fa_spectrum", false), ("velocity", true)] := by decide

end EqsigVerif.Props.C04
