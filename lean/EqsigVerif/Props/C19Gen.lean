import EqsigVerif.Props.C19
import EqsigVerif.Gen.TimeShift
import Mathlib.Tactic.Ring
import Mathlib.Tactic.NormNum
/-!
# C19 — translator tie for `eqsig/fns/time_shift.py` and `eqsig/surface.py`

`Gen/TimeShift.lean` is regenerated on every run by `tools/py2lean_x_shift.py` (a symbolic executor for the index-arithmetic
subset of Python/NumPy): every slice bound, array shape, pad width, branch condition and entry expression that occurs in
`put_array_in_2d_array`, `join_values_w_shifts`, `join_sig_w_time_shift`, `time_indices`, `trim_to_length`,
`calc_surface_energy`, `get_time_shift_motions`, `calc_cum_abs_surface_energy` is one generated definition (temporaries inlined,
`np.max(arr)`/`np.min(arr)` as named parameters).  The *statement skeleton* (which array is written in which loop, what is
returned on which path) is pattern-checked by the translator (`Untranslatable` otherwise) and is restated here as the
code-shaped assemblies `put2dGen`, `trimRowGen`, ….  The bridges prove that the hand models of `Model/TimeShift.lean`,
`Model/Surface.lean` — what the C19 theorems talk about — are these assemblies of the generated definitions, for all arguments.
-/
namespace EqsigVerif.Props.C19
open EqsigVerif EqsigVerif.Np EqsigVerif.Interp
open EqsigVerif.Wire (ErrKind)
open EqsigVerif.Model.Surface EqsigVerif.Model.TimeShift
open EqsigVerif.Model.TimeStep (truncZ)

/-! ## `put_array_in_2d_array` -/

/-- the Python string a `Clip` value stands for -/
def clipStr : Clip → String
  | .none => "none" | .start => "start" | .end => "end" | .both => "both"

/-- statement skeleton of `put_array_in_2d_array` (pattern-checked by the translator) around the generated slots;
`mx = np.max(shifts)`, `mn = np.min(shifts)` -/
def put2dGen (values : List Rat) (shifts : List Int) (clip : String) (mx mn : Int) : Except ErrKind (List (List Rat)) :=
  match shifts.mapM (fun j => sliceAssign (List.replicate (Gen.TimeShift.put2dWidth values mx mn).toNat 0)
      (Gen.TimeShift.put2dLo j mn) (Gen.TimeShift.put2dHi values j mn) values) with
  | .error e => .error e
  | .ok out =>
    let out := if Gen.TimeShift.put2dClipEndCond clip mx
      then out.map (fun r => pySlice r none (some (Gen.TimeShift.put2dClipEndStop mx))) else out
    if Gen.TimeShift.put2dClipStartCond clip
      then .ok (out.map (fun r => pySlice r (some (Gen.TimeShift.put2dClipStartLo mn)) none)) else .ok out

theorem extras_of (shifts : List Int) (mx mn : Int) (hmx : maxInt? shifts = .ok mx) (hmn : minInt? shifts = .ok mn) :
    extras shifts = .ok ((-(min mn 0)).toNat, (max mx 0).toNat) := by
  unfold extras; rw [hmx, hmn]; rfl

/-- `put_array_in_2d_array`: the hand model is the generated index arithmetic in the code's statement skeleton -/
theorem gen_put2d (values : List Rat) (shifts : List Int) (clip : Clip) (mx mn : Int)
    (hmx : maxInt? shifts = .ok mx) (hmn : minInt? shifts = .ok mn) :
    put2d values shifts clip = put2dGen values shifts (clipStr clip) mx mn := by
  have hse : (((-(min mn 0)).toNat : Nat) : Int) = -(min mn 0) := by omega
  have hee : (((max mx 0).toNat : Nat) : Int) = max mx 0 := by omega
  have hw : values.length + (-(min mn 0)).toNat + (max mx 0).toNat =
      (Gen.TimeShift.put2dWidth values mx mn).toNat := by
    unfold Gen.TimeShift.put2dWidth; omega
  have hfull : put2dFull values shifts = shifts.mapM (fun j =>
      sliceAssign (List.replicate (Gen.TimeShift.put2dWidth values mx mn).toNat 0)
        (Gen.TimeShift.put2dLo j mn) (Gen.TimeShift.put2dHi values j mn) values) := by
    have hlo : ∀ j, Gen.TimeShift.put2dLo j mn = (((-(min mn 0)).toNat : Nat) : Int) + j := by
      intro j; unfold Gen.TimeShift.put2dLo; omega
    have hhi : ∀ j, Gen.TimeShift.put2dHi values j mn = (((-(min mn 0)).toNat : Nat) : Int) + (values.length : Int) + j := by
      intro j; unfold Gen.TimeShift.put2dHi; omega
    unfold put2dFull
    rw [extras_of shifts mx mn hmx hmn]
    simp only [bind, Except.bind, hw, hlo, hhi]
  unfold put2d put2dGen
  rw [extras_of shifts mx mn hmx hmn, hfull]
  simp only [bind, Except.bind]
  cases shifts.mapM (fun j => sliceAssign (List.replicate (Gen.TimeShift.put2dWidth values mx mn).toNat 0)
      (Gen.TimeShift.put2dLo j mn) (Gen.TimeShift.put2dHi values j mn) values) with
  | error e => rfl
  | ok out =>
    have hc1 : ((clip = .end ∨ clip = .both) ∧ (max mx 0).toNat > 0) ↔
        Gen.TimeShift.put2dClipEndCond (clipStr clip) mx = true := by
      have : (max mx 0).toNat > 0 ↔ max mx 0 > 0 := by omega
      cases clip <;> simp [Gen.TimeShift.put2dClipEndCond, clipStr, this]
    have hc2 : (clip = .start ∨ clip = .both) ↔ Gen.TimeShift.put2dClipStartCond (clipStr clip) = true := by
      cases clip <;> simp [Gen.TimeShift.put2dClipStartCond, clipStr]
    have hstop : Gen.TimeShift.put2dClipEndStop mx = -(((max mx 0).toNat : Nat) : Int) := by
      unfold Gen.TimeShift.put2dClipEndStop; omega
    have hstart : Gen.TimeShift.put2dClipStartLo mn = (((-(min mn 0)).toNat : Nat) : Int) := by
      unfold Gen.TimeShift.put2dClipStartLo; omega
    simp only [hc1, hc2, hstop, hstart, pure, Except.pure]

/-- consequence (C19.e `put2d_spec` about the generated code): rows are the clipped shifted rows -/
theorem gen_put2d_spec (values : List ℚ) (shifts : List ℤ) (clip : Clip) (mx mn : ℤ)
    (hmx : maxInt? shifts = .ok mx) (hmn : minInt? shifts = .ok mn) :
    ∃ se ee : ℕ, (∀ j ∈ shifts, -(se : ℤ) ≤ j ∧ j ≤ (ee : ℤ)) ∧
      put2dGen values shifts (clipStr clip) mx mn =
        .ok (shifts.map (fun j => clipRow clip values.length se (shiftedRow values se ee j))) := by
  have hne : shifts ≠ [] := by
    intro h; subst h; cases hmx
  obtain ⟨se, ee, hb, -, -, h⟩ := put2d_spec values shifts clip hne
  exact ⟨se, ee, hb, by rw [← gen_put2d values shifts clip mx mn hmx hmn]; exact h⟩

example : put2dGen [1, 2, 3] [-1, 0, 2] "both" 2 (-1) = .ok [[2, 3, 0], [1, 2, 3], [0, 0, 1]] := by decide +kernel
example : Gen.TimeShift.put2dWidth [1, 2, 3] 2 (-1) = 6 ∧ Gen.TimeShift.put2dLo 2 (-1) = 3 ∧ Gen.TimeShift.put2dHi [1, 2, 3] 2 (-1) = 6 ∧
    Gen.TimeShift.put2dClipEndCond "end" 2 = true ∧ Gen.TimeShift.put2dClipEndCond "end" 0 = false ∧
    Gen.TimeShift.put2dClipEndStop 2 = -2 ∧ Gen.TimeShift.put2dClipStartCond "both" = true ∧
    Gen.TimeShift.put2dClipStartLo (-1) = 1 ∧ Gen.TimeShift.put2dDefaultClip = "none" := by decide +kernel

/-! ## `join_values_w_shifts`, `join_sig_w_time_shift` -/

/-- the Python string a `JType` value stands for -/
def jtStr : JType → String
  | .add => "add" | .sub => "sub"

/-- the call `put_array_in_2d_array(values, shifts)` inside `join_values_w_shifts` uses the default `clip`, the model's `.none` -/
theorem gen_join_default_clip : clipStr .none = Gen.TimeShift.put2dDefaultClip := rfl

/-- `a0 = np.pad(values, (0, np.max(shifts)), constant_values=0)` is the model's `values ++ 0^mx` -/
theorem gen_join_pad (values : List Rat) (mx : Int) :
    values ++ List.replicate mx.toNat 0 =
      padLeft (padRight values (Gen.TimeShift.joinPadAfter mx).toNat Gen.TimeShift.joinPadValue)
        Gen.TimeShift.joinPadBefore.toNat Gen.TimeShift.joinPadValue := rfl

/-- the model's guard `mx < 0 → ValueError` is `np.pad`'s negative pad width -/
theorem gen_join_guard (mx : Int) : (mx < 0) = (Gen.TimeShift.joinPadAfter mx < 0) := rfl

/-- entry of the result of `join_values_w_shifts`: `a1 + a0` (`'add'`), `-a1 + a0` (`'sub'`), the model's two row formulas -/
theorem gen_join_entry (jt : JType) (a0 a1 : Rat) :
    Gen.TimeShift.joinEntry (jtStr jt) a0 a1 = some ((match jt with | .add => a1 | .sub => -a1) + a0) := by
  cases jt <;> simp [Gen.TimeShift.joinEntry, jtStr]

/-- any other `jtype` string: the function returns `None` (outside the model's `JType`) -/
theorem gen_join_entry_other (s : String) (h1 : s ≠ "add") (h2 : s ≠ "sub") (a0 a1 : Rat) :
    Gen.TimeShift.joinEntry s a0 a1 = none := by
  simp [Gen.TimeShift.joinEntry, h1, h2]

/-- consequence (C19.e `join_spec` about the generated entry expression): for non-negative shifts every entry of
`join_values_w_shifts` is the generated `joinEntry` of the shifted row and the padded record -/
theorem gen_join_spec (values : List ℚ) (shifts : List ℤ) (jt : JType) (hne : shifts ≠ []) (hnn : ∀ j ∈ shifts, 0 ≤ j) :
    ∃ mx : ℕ, (mx : ℤ) ∈ shifts ∧
      joinValuesWShifts values shifts jt = .ok (shifts.map (fun j =>
        List.zipWith (fun a1 a0 => (Gen.TimeShift.joinEntry (jtStr jt) a0 a1).getD 0)
          (shiftedRow values 0 mx j)
          (padRight values (Gen.TimeShift.joinPadAfter (mx : ℤ)).toNat Gen.TimeShift.joinPadValue))) := by
  obtain ⟨mx, h1, -, h3⟩ := join_spec values shifts jt hne hnn
  refine ⟨mx, h1, ?_⟩
  rw [h3]
  congr 1
  apply List.map_congr_left
  intro j _
  cases jt
  · simp only [gen_join_entry, Option.getD_some]; rfl
  · simp only [gen_join_entry, Option.getD_some, List.zipWith_map_left]; rfl

example : Gen.TimeShift.joinEntry "sub" 5 1 = some 4 ∧ Gen.TimeShift.joinEntry "add" 5 1 = some 6 ∧
    Gen.TimeShift.joinEntry "x" 5 1 = none ∧ Gen.TimeShift.joinPadAfter 3 = 3 ∧ Gen.TimeShift.joinPadBefore = 0 ∧
    Gen.TimeShift.joinPadValue = 0 ∧ Gen.TimeShift.joinDefaultJtype = "add" := by decide +kernel

/-- `join_sig_w_time_shift`: `shifts = np.array(time_shifts / sig.dt, dtype=int)` is the model's truncated quotient -/
theorem gen_join_sig (values : List Rat) (dt : Rat) (timeShifts : List Rat) (jt : JType) (hdt : dt ≠ 0) :
    joinSigWTimeShift values dt timeShifts jt =
      joinValuesWShifts values (timeShifts.map (fun t => Gen.TimeShift.joinSigShift dt t)) jt := by
  unfold joinSigWTimeShift; rw [if_neg hdt]; rfl

example : Gen.TimeShift.joinSigShift (1/2) (7/4) = 3 ∧ Gen.TimeShift.joinSigShift (1/2) (-7/4) = -3 := by decide +kernel

/-! ## `time_indices` -/

/-- `time_indices`: for `dt ≠ 0` the model is the generated merge values / raise condition -/
theorem gen_time_indices (npts : Nat) (dt start «end» : Rat) (index : Bool) (hdt : dt ≠ 0) :
    timeIndices npts dt start «end» index =
      (let e := Gen.TimeShift.timeIndicesMerge2 «end» index (Gen.TimeShift.timeIndicesMerge1 dt «end»)
       let s := Gen.TimeShift.timeIndicesMerge3 dt start index
       if Gen.TimeShift.timeIndicesRaises (npts : Int) e then .error .Other
       else .ok (Gen.TimeShift.timeIndicesRetStart s, Gen.TimeShift.timeIndicesRetEnd e)) := by
  unfold timeIndices
  cases index <;>
    simp [hdt, bind, Except.bind, pure, Except.pure, Gen.TimeShift.timeIndicesMerge1, Gen.TimeShift.timeIndicesMerge2,
      Gen.TimeShift.timeIndicesMerge3, Gen.TimeShift.timeIndicesRaises, Gen.TimeShift.timeIndicesRetStart,
      Gen.TimeShift.timeIndicesRetEnd]

/-- consequence: with `index=True` the generated code returns the arguments unchanged unless `end > npts` -/
theorem gen_time_indices_index (npts : Int) (start «end» : Rat) (dt : Rat) :
    Gen.TimeShift.timeIndicesRetStart (Gen.TimeShift.timeIndicesMerge3 dt start true) = start ∧
    Gen.TimeShift.timeIndicesRetEnd (Gen.TimeShift.timeIndicesMerge2 «end» true (Gen.TimeShift.timeIndicesMerge1 dt «end»)) = «end» ∧
    (Gen.TimeShift.timeIndicesRaises npts «end» = true ↔ «end» > ((npts : Int) : Rat)) := by
  simp [Gen.TimeShift.timeIndicesRetStart, Gen.TimeShift.timeIndicesMerge3, Gen.TimeShift.timeIndicesRetEnd,
    Gen.TimeShift.timeIndicesMerge2, Gen.TimeShift.timeIndicesRaises]

example : Gen.TimeShift.timeIndicesMerge1 (1/2) (7/4) = 4 ∧ Gen.TimeShift.timeIndicesMerge1 (1/2) (-1) = -1 ∧
    Gen.TimeShift.timeIndicesMerge2 9 false 4 = 4 ∧ Gen.TimeShift.timeIndicesMerge3 (1/2) (7/4) false = 3 ∧
    Gen.TimeShift.timeIndicesRaises 3 4 = true ∧ Gen.TimeShift.timeIndicesRetStart 3 = 3 ∧
    Gen.TimeShift.timeIndicesRetEnd 4 = 4 := by decide +kernel

/-! ## `trim_to_length` -/

/-- `surf_to_depth_shifts = np.array(surf2depth_travel_times / dt, dtype=int)` -/
theorem gen_s2dShifts (tts : List Rat) (dt : Rat) :
    s2dShifts tts dt = tts.map (fun t => Gen.TimeShift.trimS2dShift t dt) := rfl

/-- `sis` after the `if start:` tree: `start_shift - surf_to_depth_shifts` or zeros -/
theorem gen_trimSis (tts : List Rat) (dt : Rat) (start : Bool) (stt : Rat) :
    trimSis tts dt start stt = tts.map (fun t => Gen.TimeShift.trimMerge3 t dt start stt) := by
  cases start <;> simp [trimSis, s2dShifts, Gen.TimeShift.trimMerge3, List.map_map, Function.comp_def]

/-- the arrays whose `np.max` / `np.min` enter `extras` are the model's `sis` (for `start`) and `2 * surf_to_depth_shifts` -/
theorem gen_trim_reduced_arrays (tts : List Rat) (dt stt : Rat) :
    trimSis tts dt true stt = tts.map (fun t => Gen.TimeShift.trimMaxArg t dt stt) ∧
    (s2dShifts tts dt).map (2 * ·) = tts.map (fun t => Gen.TimeShift.trimMinArg t dt) := by
  constructor <;> simp [trimSis, s2dShifts, Gen.TimeShift.trimMaxArg, Gen.TimeShift.trimMinArg, List.map_map, Function.comp_def]

/-- the early `return values` is taken exactly on the model's `!start && !trim` -/
theorem gen_trim_returns_input (trim start : Bool) : (!start && !trim) = Gen.TimeShift.trimReturnsInput trim start := rfl

/-- the row length `trim_to_length` builds (`npts` after the `if start: … if not trim: npts = npts + extras` tree) is the
model's `trimWidth`; `mx`, `mn` are the two reductions (only read when `start ∧ ¬trim`) -/
theorem gen_trimWidth (npts : Nat) (tts : List Rat) (dt : Rat) (trim start : Bool) (stt : Rat) (mx mn : Int)
    (hmx : maxInt? (tts.map (fun t => Gen.TimeShift.trimMaxArg t dt stt)) = .ok mx)
    (hmn : minInt? (tts.map (fun t => Gen.TimeShift.trimMinArg t dt)) = .ok mn) :
    trimWidth npts tts dt trim start stt =
      .ok (Gen.TimeShift.trimWidth (Gen.TimeShift.trimMerge2 npts start (Gen.TimeShift.trimMerge1 npts trim mx mn))).toNat := by
  unfold trimWidth
  cases start <;> cases trim <;>
    simp only [Bool.not_true, Bool.not_false, Bool.and_true, Bool.and_false, Bool.false_eq_true, if_false, if_true,
      Gen.TimeShift.trimWidth, Gen.TimeShift.trimMerge2, Gen.TimeShift.trimMerge1, Int.toNat_natCast]
  · rw [(gen_trim_reduced_arrays tts dt stt).1]
    unfold trimExtras
    rw [hmx, (gen_trim_reduced_arrays tts dt stt).2, hmn]
    simp only [bind, Except.bind, pure, Except.pure]
    congr 1
    omega

/-- statement skeleton of the loop body of `trim_to_length` around the generated slice bounds (`w` = row length, `sis` = `sis[i]`) -/
def trimRowGen (row : List Rat) (w : Nat) (sis : Int) : Except ErrKind (List Rat) :=
  if Gen.TimeShift.trimRowCond sis then
    -- outs[i] = values[i, a:b]
    assignBroadcast w (pySlice row (some (Gen.TimeShift.trimNegSrcLo sis)) (some (Gen.TimeShift.trimNegSrcHi w sis)))
  else
    -- outs[i, a:] = values[i, :b]
    let lead := min (Gen.TimeShift.trimPosDstLo sis).toNat w
    match assignBroadcast (w - lead) (pySlice row none (some (Gen.TimeShift.trimPosSrcHi w sis))) with
    | .error e => .error e
    | .ok s => .ok (List.replicate lead 0 ++ s)

/-- loop body of `trim_to_length`: the model's `trimRow` is the generated slice arithmetic -/
theorem gen_trimRow (row : List Rat) (w : Nat) (sis : Int) : trimRow row w sis = trimRowGen row w sis := by
  have h1 : Gen.TimeShift.trimNegSrcLo sis = -sis := by unfold Gen.TimeShift.trimNegSrcLo; omega
  have h2 : Gen.TimeShift.trimNegSrcHi w sis = (w : Int) - sis := by unfold Gen.TimeShift.trimNegSrcHi; omega
  have h3 : Gen.TimeShift.trimPosDstLo sis = sis := by unfold Gen.TimeShift.trimPosDstLo; omega
  have h4 : Gen.TimeShift.trimPosSrcHi w sis = (w : Int) - sis := by unfold Gen.TimeShift.trimPosSrcHi; omega
  unfold trimRow trimRowGen
  simp only [Gen.TimeShift.trimRowCond, decide_eq_true_eq, h1, h2, h3, h4, bind, Except.bind, pure, Except.pure]
  split
  · rfl
  · cases assignBroadcast (w - min sis.toNat w) (pySlice row none (some ((w : Int) - sis))) <;> rfl

/-- consequence (`trimRow_inv`, used by C19.c `surface_energy_lengths`, about the generated code): a row produced by the generated
loop body has the requested length and only zeros or entries of the source row -/
theorem gen_trimRow_length (row : List ℚ) (w : ℕ) (sis : ℤ) (r : List ℚ) (h : trimRowGen row w sis = .ok r) :
    r.length = w ∧ ∀ v ∈ r, v = 0 ∨ v ∈ row :=
  trimRow_inv row w sis r (by rw [gen_trimRow]; exact h)

example : trimRowGen [1, 2, 3, 4, 5] 3 (-1) = .ok [2, 3, 4] ∧ trimRowGen [1, 2, 3, 4, 5] 3 1 = .ok [0, 1, 2] := by decide +kernel
example : Gen.TimeShift.trimS2dShift (7/4) (1/2) = 3 ∧ Gen.TimeShift.trimMaxArg (7/4) (1/2) (1/2) = -2 ∧
    Gen.TimeShift.trimMinArg (7/4) (1/2) = 6 ∧ Gen.TimeShift.trimMerge1 5 false 2 (-4) = 11 ∧ Gen.TimeShift.trimMerge1 5 true 2 (-4) = 5 ∧
    Gen.TimeShift.trimMerge2 5 true 11 = 11 ∧ Gen.TimeShift.trimMerge3 (7/4) (1/2) true (1/2) = -2 ∧
    Gen.TimeShift.trimMerge3 (7/4) (1/2) false (1/2) = 0 ∧ Gen.TimeShift.trimReturnsInput false false = true ∧
    Gen.TimeShift.trimWidth 7 = 7 ∧ Gen.TimeShift.trimRowCond (-1) = true ∧ Gen.TimeShift.trimNegSrcLo (-1) = 1 ∧
    Gen.TimeShift.trimNegSrcHi 3 (-1) = 4 ∧ Gen.TimeShift.trimPosDstLo 1 = 1 ∧ Gen.TimeShift.trimPosSrcHi 3 1 = 2 := by decide +kernel

/-! ## `calc_surface_energy`, `get_time_shift_motions`, `calc_cum_abs_surface_energy` -/

/-- `shifts = 2 * travel_times / asig.dt`, `max_shift = int(np.max(shifts))` used as the pad width (`np.pad` raises for a negative one) -/
theorem gen_maxShift (tts : List Rat) (dt : Rat) :
    maxShift tts dt =
      match maxL? (tts.map (fun t => Gen.TimeShift.surfShift dt t)) with
      | none => .error .ValueError
      | some mx => if Gen.TimeShift.surfPadAfter mx < 0 then .error .ValueError else .ok (Gen.TimeShift.surfPadAfter mx).toNat := by
  have h : (fun t => Gen.TimeShift.surfShift dt t) = (fun t => 2 * t / dt) := by
    funext t; unfold Gen.TimeShift.surfShift; ring
  rw [h]; rfl

/-- `up_wave = np.pad(asig.values, (0, max_shift), constant_values=0)` -/
theorem gen_up_wave (values : List Rat) (mx : Rat) :
    padRight values (truncZ mx).toNat (0 : Rat) =
      padLeft (padRight values (Gen.TimeShift.surfPadAfter mx).toNat Gen.TimeShift.surfPadValue)
        Gen.TimeShift.surfPadBefore.toNat Gen.TimeShift.surfPadValue := rfl

/-- the padded width `npts + max_shift` is the length of the `np.arange` behind `dshifted` -/
theorem gen_surf_width (values : List Rat) (mx : Rat) (h : 0 ≤ truncZ mx) :
    values.length + (truncZ mx).toNat = (Gen.TimeShift.surfWidth values mx).toNat := by
  unfold Gen.TimeShift.surfWidth; omega

/-- `down_waves = np.interp(dshifted, np.arange(npts), values, left=0, right=0)` with `dshifted[i, k] = k - shifts[i]`:
the model's delayed record `D_s a` for `s = 2·tt/dt` -/
theorem gen_delayed (values : List Rat) (dt t : Rat) (width : Nat) :
    delayed values (2 * t / dt) width =
      (List.range width).map (fun (k : Nat) => Gen.TimeShift.surfDown values (Gen.TimeShift.surfDelayArg dt t (k : Int))) := by
  unfold delayed Gen.TimeShift.surfDown
  apply List.map_congr_left
  intro k _
  have h : Gen.TimeShift.surfDelayArg dt t (k : Int) = (k : Rat) - 2 * t / dt := by
    unfold Gen.TimeShift.surfDelayArg
    push_cast
    ring
  rw [h]

/-- entry of `acc_series`, scalar reductions: the model's `sgn * (down * d) + up * u` -/
theorem gen_acc_entry_scalar (nodal : Bool) (u d up down : Rat) :
    (if nodal then -1 else 1) * (down * d) + up * u = Gen.TimeShift.surfAccEntryScalar nodal u d up down := by
  cases nodal <;> simp only [Gen.TimeShift.surfAccEntryScalar, if_true, if_false, Bool.false_eq_true] <;> ring

/-- entry of `acc_series`, per-row reductions (`up_red[:, np.newaxis]`, `down_red[:, np.newaxis]`) -/
theorem gen_acc_entry_rows (nodal : Bool) (u d up down : Rat) :
    (if nodal then -1 else 1) * (down * d) + up * u = Gen.TimeShift.surfAccEntryRows nodal u d up down := by
  cases nodal <;> simp only [Gen.TimeShift.surfAccEntryRows, if_true, if_false, Bool.false_eq_true] <;> ring

/-- `get_time_shift_motions` repeats stages 1–6 textually: its generated definitions agree with those of `calc_surface_energy` -/
theorem gen_motions_same (nodal : Bool) (u d up down dt t x mx : Rat) (values : List Rat) (k : Int) :
    Gen.TimeShift.motionsAccEntryScalar nodal u d up down = Gen.TimeShift.surfAccEntryScalar nodal u d up down ∧
    Gen.TimeShift.motionsAccEntryRows nodal u d up down = Gen.TimeShift.surfAccEntryRows nodal u d up down ∧
    Gen.TimeShift.motionsShift dt t = Gen.TimeShift.surfShift dt t ∧
    Gen.TimeShift.motionsDelayArg dt t k = Gen.TimeShift.surfDelayArg dt t k ∧
    Gen.TimeShift.motionsDown values x = Gen.TimeShift.surfDown values x ∧
    Gen.TimeShift.motionsPadAfter mx = Gen.TimeShift.surfPadAfter mx ∧
    Gen.TimeShift.motionsPadBefore = Gen.TimeShift.surfPadBefore ∧ Gen.TimeShift.motionsPadValue = Gen.TimeShift.surfPadValue ∧
    Gen.TimeShift.motionsWidth values mx = Gen.TimeShift.surfWidth values mx :=
  by
  refine ⟨?_, ?_, ?_, ?_, rfl, rfl, rfl, rfl, rfl⟩
  · cases nodal <;> simp only [Gen.TimeShift.motionsAccEntryScalar, Gen.TimeShift.surfAccEntryScalar, if_true, if_false,
      Bool.false_eq_true] <;> ring
  · cases nodal <;> simp only [Gen.TimeShift.motionsAccEntryRows, Gen.TimeShift.surfAccEntryRows, if_true, if_false,
      Bool.false_eq_true] <;> ring
  · unfold Gen.TimeShift.motionsShift Gen.TimeShift.surfShift; ring
  · unfold Gen.TimeShift.motionsDelayArg Gen.TimeShift.surfDelayArg; ring

/-- the model's scalar-reduction `acc_series` rows are the generated entry expression applied to the generated delayed record and
the padded record -/
theorem gen_accSeries_scalar (values : List ℚ) (dt : ℚ) (tts : List ℚ) (nodal : Bool) (u d : ℚ) (ms : ℕ)
    (hdt : dt ≠ 0) (hv : values ≠ []) (hms : maxShift tts dt = .ok ms) :
    accSeries values dt tts nodal (.scalar u d) =
      .ok (tts.map (fun t => List.zipWith (fun down up => Gen.TimeShift.surfAccEntryScalar nodal u d up down)
        ((List.range (values.length + ms)).map (fun (k : ℕ) =>
          Gen.TimeShift.surfDown values (Gen.TimeShift.surfDelayArg dt t (k : ℤ))))
        (padRight values ms 0))) := by
  rw [accSeries_scalar values dt tts nodal u d ms hdt hv hms]
  congr 1
  apply List.map_congr_left
  intro t _
  rw [← gen_delayed]
  unfold accRow
  congr 1
  funext x y
  rw [← gen_acc_entry_scalar]; cases nodal <;> simp <;> ring

/-- `e = 0.5 * velocity * np.abs(velocity)` -/
theorem gen_energy_entry (v : Rat) : halfVAbsV v = Gen.TimeShift.surfEnergyEntry v := by
  unfold halfVAbsV Gen.TimeShift.surfEnergyEntry
  norm_num
  try ring

/-- stage 7: `velocity = cumulative_trapezoid(acc_series, dx=dt, initial=0, axis=1)`, then the energy entry -/
theorem gen_energyRows (acc : List (List Rat)) (dt : Rat) :
    energyRows acc dt = acc.map (fun row => (Gen.TimeShift.surfVelocityRow dt row).map Gen.TimeShift.surfEnergyEntry) := by
  unfold energyRows Gen.TimeShift.surfVelocityRow
  apply List.map_congr_left
  intro row _
  apply List.map_congr_left
  intro v _
  exact gen_energy_entry v

/-- stage 9: `if len(travel_times) == 1: return e[0] else: return e` -/
theorem gen_squeeze (tts : List Rat) (rows : List (List Rat)) :
    squeeze tts.length rows =
      if Gen.TimeShift.surfSqueezeCond tts then
        (match rows[Gen.TimeShift.surfSqueezeRow.toNat]? with
          | some r => .ok (.row r)
          | none => .error .IndexError)
      else .ok (.rows rows) := by
  unfold squeeze Gen.TimeShift.surfSqueezeCond Gen.TimeShift.surfSqueezeRow
  by_cases h : tts.length = 1
  · have : ((tts.length : Int) = 1) := by omega
    simp only [h, this, if_true, decide_true]
    cases rows <;> rfl
  · have : ¬ ((tts.length : Int) = 1) := by omega
    simp only [h, this, if_false, decide_false, Bool.false_eq_true]
    rfl

theorem gen_squeeze_motions (tts : List Rat) :
    Gen.TimeShift.motionsSqueezeCond tts = Gen.TimeShift.surfSqueezeCond tts ∧
    Gen.TimeShift.motionsSqueezeRow = Gen.TimeShift.surfSqueezeRow := ⟨rfl, rfl⟩

/-- `calc_cum_abs_surface_energy`: one row of `np.cumsum(np.abs(np.diff(energy, axis=-1, prepend=0)), axis=-1)` -/
theorem gen_cumAbsRow (row : List Rat) : Gen.TimeShift.cumAbsRow row = cumAbsRow row := rfl

/-- consequence (C19.c `cum_abs_monotone` about the generated row expression) -/
theorem gen_cumAbsRow_monotone (row : List ℚ) : (Gen.TimeShift.cumAbsRow row).Pairwise (· ≤ ·) := by
  rw [gen_cumAbsRow]; exact cumAbsRow_pairwise row

/-- consequence (C19.a `energy_row_entry` about the generated entry expression): `e = ½·v·|v|` -/
theorem gen_energy_entry_abs (v : ℚ) : Gen.TimeShift.surfEnergyEntry v = (1 / 2) * v * |v| := by
  rw [← gen_energy_entry]; simp [halfVAbsV, absv_eq_abs]

/-- consequence (C19.b `integer_delay` about the generated delay expression): for an integer delay `2·tt/dt = s ≤ ms` the
generated `np.interp` row is `0^s ++ a ++ 0^(ms−s)` -/
theorem gen_integer_delay (values : List ℚ) (dt t : ℚ) (s ms : ℕ) (h : s ≤ ms) (hs : Gen.TimeShift.surfShift dt t = (s : ℚ)) :
    (List.range (values.length + ms)).map (fun (k : ℕ) =>
        Gen.TimeShift.surfDown values (Gen.TimeShift.surfDelayArg dt t (k : ℤ))) =
      List.replicate s 0 ++ values ++ List.replicate (ms - s) 0 := by
  rw [← gen_delayed]
  have : 2 * t / dt = (s : ℚ) := by rw [← hs]; unfold Gen.TimeShift.surfShift; ring
  rw [this]
  exact integer_delay values s ms h

example : Gen.TimeShift.surfShift (1/2) (1/8) = 1/2 ∧ Gen.TimeShift.surfPadAfter (7/2) = 3 ∧ Gen.TimeShift.surfPadBefore = 0 ∧
    Gen.TimeShift.surfPadValue = 0 ∧ Gen.TimeShift.surfWidth [1, 2, -1] (7/2) = 6 ∧ Gen.TimeShift.surfDelayArg (1/2) (1/8) 2 = 3/2 ∧
    Gen.TimeShift.surfDown [1, 2, -1] (3/2) = 1/2 ∧ Gen.TimeShift.surfAccEntryRows true 2 3 5 7 = -11 ∧
    Gen.TimeShift.surfAccEntryScalar false 2 3 5 7 = 31 ∧ Gen.TimeShift.surfVelocityRow (1/2) [1, 2, -1] = [0, 3/4, 1] ∧
    Gen.TimeShift.surfEnergyEntry (-3) = -9/2 ∧ Gen.TimeShift.surfSqueezeCond [1] = true ∧ Gen.TimeShift.surfSqueezeRow = 0 ∧
    Gen.TimeShift.cumAbsRow [1, -2, 3] = [1, 4, 9] := by decide +kernel
example : Gen.TimeShift.motionsShift (1/2) (1/8) = 1/2 ∧ Gen.TimeShift.motionsPadAfter (7/2) = 3 ∧ Gen.TimeShift.motionsPadBefore = 0 ∧
    Gen.TimeShift.motionsPadValue = 0 ∧ Gen.TimeShift.motionsWidth [1, 2, -1] (7/2) = 6 ∧ Gen.TimeShift.motionsDelayArg (1/2) (1/8) 2 = 3/2 ∧
    Gen.TimeShift.motionsDown [1, 2, -1] (3/2) = 1/2 ∧ Gen.TimeShift.motionsAccEntryRows true 2 3 5 7 = -11 ∧
    Gen.TimeShift.motionsAccEntryScalar false 2 3 5 7 = 31 ∧ Gen.TimeShift.motionsSqueezeCond [1, 2] = false ∧
    Gen.TimeShift.motionsSqueezeRow = 0 := by decide +kernel

/-! ## parameter identities

The parameter lists of the generated definitions are derived from the symbols their text mentions; the tables `…Signatures` say
which quantity each parameter stands for.  Pinning them here makes an edit that swaps *which* quantity an expression reads (same type,
same arity) fail the build even where the bridge above passes the arguments positionally. -/

example : Gen.TimeShift.put2dSignatures =
  [("put2dDefaultClip", []),
   ("put2dWidth", ["values", "np.max of shifts_i", "np.min of shifts_i"]),
   ("put2dLo", ["shifts_i", "np.min of shifts_i"]),
   ("put2dHi", ["values", "shifts_i", "np.min of shifts_i"]),
   ("put2dClipEndCond", ["clip", "np.max of shifts_i"]),
   ("put2dClipEndStop", ["np.max of shifts_i"]),
   ("put2dClipStartCond", ["clip"]),
   ("put2dClipStartLo", ["np.min of shifts_i"])] := rfl

example : Gen.TimeShift.joinSignatures =
  [("joinDefaultJtype", []),
   ("joinPadBefore", []),
   ("joinPadAfter", ["np.max of shifts_i"]),
   ("joinPadValue", []),
   ("joinEntry", ["jtype", "entry of np.pad of values_k", "a1_ik"])] := rfl

example : Gen.TimeShift.joinSigSignatures =
  [("joinSigShift", ["dt", "time_shifts_i"])] := rfl

example : Gen.TimeShift.timeIndicesSignatures =
  [("timeIndicesMerge1", ["dt", "end_"]),
   ("timeIndicesMerge2", ["end_", "index", "timeIndicesMerge1"]),
   ("timeIndicesMerge3", ["dt", "start", "index"]),
   ("timeIndicesRaises", ["npts", "timeIndicesMerge2"]),
   ("timeIndicesRetStart", ["timeIndicesMerge3"]),
   ("timeIndicesRetEnd", ["timeIndicesMerge2"])] := rfl

example : Gen.TimeShift.trimSignatures =
  [("trimMerge1", ["npts", "trim", "np.max of (truncZ (s2s_travel_time / dt)) - (truncZ (surf2depth_travel_times_i / dt))", "np.min of 2 * (truncZ (surf2depth_travel_times_i / dt))"]),
   ("trimMerge2", ["npts", "start", "trimMerge1"]),
   ("trimMerge3", ["surf2depth_travel_times_i", "dt", "start", "s2s_travel_time"]),
   ("trimS2dShift", ["surf2depth_travel_times_i", "dt"]),
   ("trimMaxArg", ["surf2depth_travel_times_i", "dt", "s2s_travel_time"]),
   ("trimMinArg", ["surf2depth_travel_times_i", "dt"]),
   ("trimReturnsInput", ["trim", "start"]),
   ("trimWidth", ["trimMerge2"]),
   ("trimRowCond", ["trimMerge3"]),
   ("trimNegSrcLo", ["trimMerge3"]),
   ("trimNegSrcHi", ["trimMerge2", "trimMerge3"]),
   ("trimPosDstLo", ["trimMerge3"]),
   ("trimPosSrcHi", ["trimMerge2", "trimMerge3"])] := rfl

example : Gen.TimeShift.surfSignatures =
  [("surfAccEntryRows", ["nodal", "up_red_i", "down_red_i", "entry of np.pad of values_k", "entry of np.interp at ((k : Int) : Rat) - ((2 * travel_times_i) / dt)"]),
   ("surfAccEntryScalar", ["nodal", "up_red", "down_red", "entry of np.pad of values_k", "entry of np.interp at ((k : Int) : Rat) - ((2 * travel_times_i) / dt)"]),
   ("surfShift", ["dt", "travel_times_i"]),
   ("surfPadBefore", []),
   ("surfPadAfter", ["np.max of (2 * travel_times_i) / dt"]),
   ("surfPadValue", []),
   ("surfWidth", ["values", "np.max of (2 * travel_times_i) / dt"]),
   ("surfDelayArg", ["dt", "travel_times_i", "k"]),
   ("surfDown", ["values", "x"]),
   ("surfVelocityRow", ["dt", "row"]),
   ("surfEnergyEntry", ["v_ik"]),
   ("surfSqueezeCond", ["travel_times"]),
   ("surfSqueezeRow", [])] := rfl

example : Gen.TimeShift.motionsSignatures =
  [("motionsAccEntryRows", ["nodal", "up_red_i", "down_red_i", "entry of np.pad of values_k", "entry of np.interp at ((k : Int) : Rat) - ((2 * travel_times_i) / dt)"]),
   ("motionsAccEntryScalar", ["nodal", "up_red", "down_red", "entry of np.pad of values_k", "entry of np.interp at ((k : Int) : Rat) - ((2 * travel_times_i) / dt)"]),
   ("motionsShift", ["dt", "travel_times_i"]),
   ("motionsPadBefore", []),
   ("motionsPadAfter", ["np.max of (2 * travel_times_i) / dt"]),
   ("motionsPadValue", []),
   ("motionsWidth", ["values", "np.max of (2 * travel_times_i) / dt"]),
   ("motionsDelayArg", ["dt", "travel_times_i", "k"]),
   ("motionsDown", ["values", "x"]),
   ("motionsSqueezeCond", ["travel_times"]),
   ("motionsSqueezeRow", [])] := rfl

example : Gen.TimeShift.cumAbsSignatures =
  [("cumAbsRow", ["row"])] := rfl

end EqsigVerif.Props.C19
