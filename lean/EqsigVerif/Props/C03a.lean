import EqsigVerif.Model.Spectra
import EqsigVerif.Lemmas.Spectra
import Mathlib.Algebra.Order.Ring.Rat
import Mathlib.Tactic.NormNum
/-!
# C03.a — `absmax` is the maximum of the absolute values

`absmax l` (`Model/Spectra.lean`) models `eqsig.sdof.absmax(a)` on a 1-D array:
`abs(np.where(-a.min() > a.max(), a.min(), a.max()))`; `none` = the `ValueError` of `a.max()` on a
zero-size array.  (File `C03a.lean`: only part `.a` of C03; namespace `EqsigVerif.Props.C03`.)
-/
set_option linter.unusedSectionVars false
set_option linter.unusedVariables false
namespace EqsigVerif.Props.C03
open EqsigVerif.Model.Spectra EqsigVerif.Np

variable {α : Type} [Field α] [LinearOrder α] [IsStrictOrderedRing α]

/-- **C03.a** `absmax_eq`: for a non-empty list `absmax` returns a value `m` that bounds every `|x|` and is
attained — i.e. `m = max |·|`. -/
theorem absmax_eq (l : List α) (hl : l ≠ []) :
    ∃ m, absmax l = some m ∧ (∀ x ∈ l, |x| ≤ m) ∧ ∃ x ∈ l, |x| = m := by
  obtain ⟨m, hm⟩ := absmax_isSome l hl
  exact ⟨m, hm, absmax_spec l m hm⟩

example : absmax ([1, -3, 2] : List Rat) = some 3 := by decide +kernel
example : absmax ([-1, -3, -2] : List Rat) = some 3 := by decide +kernel
example : absmax ([-3, 3] : List Rat) = some 3 := by decide +kernel

/-- C03.a in terms of the prelude's `np.max` / `np.abs`: `absmax l = max(abs(l))` (both `none` on `[]`). -/
theorem absmax_eq_max_abs (l : List α) : absmax l = maxL? (absL l) := absmax_eq_maxL_absL l

example : absmax ([1, -3, 2] : List Rat) = maxL? (absL [1, -3, 2]) := by decide +kernel

/-- `absmax` raises exactly on the empty array. -/
theorem absmax_none_iff (l : List α) : absmax l = none ↔ l = [] := by
  cases l with
  | nil => simp [absmax]
  | cons x xs => simp [absmax]

example : absmax ([] : List Rat) = none := by decide +kernel

/-- **C03.a** `0 ≤ absmax l`. -/
theorem absmax_nonneg (l : List α) (m : α) (h : absmax l = some m) : 0 ≤ m :=
  EqsigVerif.Model.Spectra.absmax_nonneg l m h

example : (0 : Rat) ≤ 3 := absmax_nonneg ([1, -3, 2] : List Rat) 3 (by decide +kernel)

/-- **C03.a** `absmax (−l) = absmax l`. -/
theorem absmax_neg (l : List α) : absmax (l.map (fun x => -x)) = absmax l :=
  EqsigVerif.Model.Spectra.absmax_neg l

example : absmax (([1, -3, 2] : List Rat).map (fun x => -x)) = absmax ([1, -3, 2] : List Rat) := by
  decide +kernel

/-- **C03.a** `absmax (c•l) = |c|·absmax l`. -/
theorem absmax_smul (c : α) (l : List α) : absmax (l.map (c * ·)) = (absmax l).map (|c| * ·) :=
  EqsigVerif.Model.Spectra.absmax_smul c l

example : absmax (([1, -3, 2] : List Rat).map ((-2) * ·)) = (absmax ([1, -3, 2] : List Rat)).map (|(-2 : Rat)| * ·) := by
  decide +kernel

end EqsigVerif.Props.C03
