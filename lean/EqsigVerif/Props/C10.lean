import EqsigVerif.Model.Im
import EqsigVerif.Lemmas.Np
import EqsigVerif.Lemmas.Im.Series
import EqsigVerif.Lemmas.Im.Dur
/-!
# C10 — significant and bracketed durations locate threshold crossings exactly

`sigDurSeries im dt s e` is the shared part of `calc_sig_dur_vals` / `calc_sig_dur` for a cumulative series
`im` (`se=True`); `sigDurVals a … = sigDurSeries (cumsum a²) …` (array variant), `sigDur a dt … =
sigDurSeries (ariasCore dt a) dt …` (default Arias measure, the constant `π/(2·9.81) > 0` cancels:
`arias_constant_cancels`), any other `im` is a user supplied measure.  `durOf` is the `se=False` form.
`Between im s e tot i` : `i < len im ∧ s·tot < im[i] < e·tot`; `Exceeds a thr i` : `i < len a ∧ thr < |a[i]|`
(spec predicates, defined in `Lemmas/Im/Dur.lean`).
-/
set_option linter.unusedSectionVars false
set_option linter.unusedVariables false
namespace EqsigVerif.Props.C10
open EqsigVerif.Np EqsigVerif.Wire EqsigVerif.Model.Im EqsigVerif.Lemmas.Im

/-! ## C10.a specification -/

/-- C10.a `sigdur_spec`: if `i0` / `i1` are the first / last sample whose cumulative value lies strictly
between `s·tot` and `e·tot` (`tot = im[-1]`), the result is `(i0·dt, i1·dt)`, and `se=False` returns the
difference. -/
theorem sigdur_spec (im : List ℚ) (dt s e tot : ℚ) (htot : im.getLast? = some tot) (i0 i1 : Nat)
    (h0 : Between im s e tot i0) (h1 : Between im s e tot i1)
    (hfl : ∀ j, Between im s e tot j → i0 ≤ j ∧ j ≤ i1) :
    sigDurSeries im dt s e = .ok ((i0 : ℚ) * dt, (i1 : ℚ) * dt) ∧
    durOf (sigDurSeries im dt s e) = .ok ((i1 : ℚ) * dt - (i0 : ℚ) * dt) := by
  have h : sigDurSeries im dt s e = .ok ((i0 : ℚ) * dt, (i1 : ℚ) * dt) :=
    (sigDurSeries_ok_iff im dt s e _).mpr
      ⟨tot, i0, i1, htot, (isFirstLast_sigMask_iff im s e tot i0 i1).mpr ⟨h0, h1, hfl⟩, rfl⟩
  exact ⟨h, by rw [h]; rfl⟩

example : sigDurVals [1, 2, 3, 4, 5] (1/2) (1/20) (19/20) = .ok (1/2, 3/2) ∧
    sigDurValsDur [1, 2, 3, 4, 5] (1/2) (1/20) (19/20) = .ok 1 := by decide +kernel

/-- C10.a: the call succeeds iff some sample lies strictly between the fractions, and then the first and
last such samples exist and give the result; otherwise (and for an empty series) it is `IndexError`. -/
theorem sigdur_ok_iff (im : List ℚ) (dt s e tot : ℚ) (htot : im.getLast? = some tot) :
    ((∃ i, Between im s e tot i) ↔ ∃ i0 i1, Between im s e tot i0 ∧ Between im s e tot i1 ∧
        (∀ j, Between im s e tot j → i0 ≤ j ∧ j ≤ i1) ∧
        sigDurSeries im dt s e = .ok ((i0 : ℚ) * dt, (i1 : ℚ) * dt)) ∧
    ((¬ ∃ i, Between im s e tot i) ↔ sigDurSeries im dt s e = .error .IndexError) := by
  have hne : im ≠ [] := by rintro rfl; simp at htot
  have key : (¬ ∃ i, Between im s e tot i) ↔ sigDurSeries im dt s e = .error .IndexError := by
    rw [sigDurSeries_error_iff]
    constructor
    · intro h
      refine ⟨rfl, Or.inr ⟨tot, htot, ?_⟩⟩
      intro j hj
      rw [sigMask_eq_false_iff]
      intro hb; exact h ⟨j, hj, hb⟩
    · rintro ⟨_, h | ⟨tot', ht', h⟩⟩
      · exact absurd h hne
      · rw [htot] at ht'; cases ht'
        rintro ⟨i, hi, hb⟩
        have := h i hi
        rw [sigMask_eq_false_iff] at this
        exact this hb
  refine ⟨?_, key⟩
  constructor
  · intro hex
    cases hr : sigDurSeries im dt s e with
    | error k =>
      have : k = .IndexError := ((sigDurSeries_error_iff im dt s e k).mp hr).1
      subst this
      exact absurd hex (key.mpr hr)
    | ok r =>
      obtain ⟨tot', i0, i1, ht', hfl, rfl⟩ := (sigDurSeries_ok_iff im dt s e r).mp hr
      rw [htot] at ht'; cases ht'
      obtain ⟨a, b, c⟩ := (isFirstLast_sigMask_iff im s e tot i0 i1).mp hfl
      exact ⟨i0, i1, a, b, c, rfl⟩
  · rintro ⟨i0, _, h0, _⟩; exact ⟨i0, h0⟩

/-- the `IndexError` branch: a single-spike record has no sample strictly between 5 % and 95 % -/
example : sigDurVals [0, 5, 0] 1 (1/20) (19/20) = .error .IndexError ∧
    sigDur [0, 5, 0] 1 (1/20) (19/20) = .ok (1, 1) := by decide +kernel

/-- the variants are instances of `sigDurSeries` -/
theorem variants (a : List ℚ) (dt s e : ℚ) :
    sigDurVals a dt s e = sigDurSeries (cumsum (Np.sq a)) dt s e ∧
    sigDur a dt s e = sigDurSeries (ariasCore dt a) dt s e ∧
    sigDurValsDur a dt s e = durOf (sigDurVals a dt s e) ∧
    sigDurDur a dt s e = durOf (sigDur a dt s e) := ⟨rfl, rfl, rfl, rfl⟩

example : sigDur [1, 2, 3, 4, 5] (1/2) (1/20) (19/20) = .ok (1/2, 3/2) := by decide +kernel

/-- the default measure of `calc_sig_dur` is `k·ariasCore` with `k = π/(2·9.81) > 0`: the constant cancels in
both comparisons, so the `ℚ` core decides the same indices -/
theorem arias_constant_cancels (k : ℚ) (hk : 0 < k) (a : List ℚ) (dt s e : ℚ) :
    sigDurSeries (arias k dt a) dt s e = sigDur a dt s e :=
  sigDurSeries_scale_pos k hk (ariasCore dt a) dt s e

example : sigDurSeries (arias (4/25) (1/2) [1, 2, 3, 4, 5]) (1/2) (1/20) (19/20) = sigDur [1, 2, 3, 4, 5] (1/2) (1/20) (19/20) :=
  arias_constant_cancels _ (by norm_num) _ _ _ _

/-! ## C10.b bounds -/

/-- C10.b: `0 ≤ t_start ≤ t_end ≤ (n−1)·dt` -/
theorem bounds (im : List ℚ) (dt s e ts te : ℚ) (hdt : 0 ≤ dt)
    (h : sigDurSeries im dt s e = .ok (ts, te)) :
    0 ≤ ts ∧ ts ≤ te ∧ te ≤ ((im.length - 1 : Nat) : ℚ) * dt := by
  obtain ⟨tot, i0, i1, _, hfl, hr⟩ := (sigDurSeries_ok_iff im dt s e _).mp h
  obtain ⟨h01, h1n⟩ := isFirstLast_le _ _ _ _ hfl
  obtain ⟨rfl, rfl⟩ := Prod.mk.inj hr
  refine ⟨mul_nonneg (Nat.cast_nonneg _) hdt, mul_le_mul_of_nonneg_right (by exact_mod_cast h01) hdt,
    mul_le_mul_of_nonneg_right ?_ hdt⟩
  have : i1 ≤ im.length - 1 := by omega
  exact_mod_cast this

example : (0 : ℚ) ≤ 1/2 ∧ (1/2 : ℚ) ≤ 3/2 ∧ (3/2 : ℚ) ≤ ((([0, 1, 3, 6, 10] : List ℚ).length - 1 : Nat) : ℚ) * (1/2) :=
  bounds [0, 1, 3, 6, 10] (1/2) (1/20) (19/20) (1/2) (3/2) (by norm_num) (by decide +kernel)

/-! ## C10.c amplitude scaling -/

/-- C10.c (array variant): invariant under `a ↦ c•a`, `c ≠ 0` -/
theorem scale_invariant_vals (a : List ℚ) (c dt s e : ℚ) (hc : c ≠ 0) :
    sigDurVals (a.map (c * ·)) dt s e = sigDurVals a dt s e := by
  unfold sigDurVals
  rw [sq_smul, cumsum_smul]
  exact sigDurSeries_scale_pos (c * c) (mul_self_pos.mpr hc) _ dt s e

example : sigDurVals ([1, 2, 3, 4, 5].map ((-3 : ℚ) * ·)) (1/2) (1/20) (19/20) = .ok (1/2, 3/2) := by decide +kernel

/-- C10.c (default Arias measure): invariant under `a ↦ c•a`, `c ≠ 0` -/
theorem scale_invariant_arias (a : List ℚ) (c dt s e : ℚ) (hc : c ≠ 0) :
    sigDur (a.map (c * ·)) dt s e = sigDur a dt s e := by
  unfold sigDur
  rw [ariasCore_smul]
  exact sigDurSeries_scale_pos (c * c) (mul_self_pos.mpr hc) _ dt s e

example : sigDur ([1, 2, 3, 4, 5].map ((-3 : ℚ) * ·)) (1/2) (1/20) (19/20) = .ok (1/2, 3/2) := by decide +kernel

/-! ## C10.d zero prefix -/

/-- C10.d for any cumulative measure that is zero on the prepended samples (fractions `≥ 0`):
both times shift by `k·dt`; an `IndexError` stays an `IndexError`. -/
theorem sigdur_series_zero_prefix (im : List ℚ) (k : Nat) (dt s e : ℚ) (hs : 0 ≤ s) (he : 0 ≤ e) :
    sigDurSeries (List.replicate k 0 ++ im) dt s e =
      (sigDurSeries im dt s e).map (fun p => (p.1 + (k : ℚ) * dt, p.2 + (k : ℚ) * dt)) :=
  sigDurSeries_zero_prefix im k dt s e hs he

example : sigDurSeries (List.replicate 2 0 ++ [0, 1, 3, 6, 10]) (1/2) (1/20) (19/20) = .ok (3/2, 5/2) := by decide +kernel

/-- C10.d for the sum-of-squares variant: unconditional in the record -/
theorem sigdur_vals_zero_prefix (a : List ℚ) (k : Nat) (dt s e : ℚ) (hs : 0 ≤ s) (he : 0 ≤ e) :
    sigDurVals (List.replicate k 0 ++ a) dt s e =
      (sigDurVals a dt s e).map (fun p => (p.1 + (k : ℚ) * dt, p.2 + (k : ℚ) * dt)) := by
  unfold sigDurVals
  rw [cumsum_sq_zero_prefix]
  exact sigDurSeries_zero_prefix _ k dt s e hs he

example : sigDurVals (List.replicate 2 0 ++ [3, 2, -1, 1, 0, 1, -1]) (1/2) (1/20) (9/10) =
    (sigDurVals [3, 2, -1, 1, 0, 1, -1] (1/2) (1/20) (9/10)).map (fun p => (p.1 + 2 * (1/2), p.2 + 2 * (1/2))) := by
  decide +kernel

/-- C10.d for the default Arias (trapezoid) measure — **partial**: proved under `a[0] = 0`.
Full statement (property text): "start and end shift by `k·dt` when `k` zeros are prepended", for every
record.  That is **false** for the trapezoid measure when `a[0] ≠ 0` (finding F10-1): the panel from the
last prepended zero to `a[0]` adds `dt·a[0]²/2` at the position of `a[0]`, which can make that sample
qualify; see the kernel-checked counterexample below. -/
theorem sigdur_zero_prefix_partial (a : List ℚ) (k : Nat) (dt s e : ℚ) (hs : 0 ≤ s) (he : 0 ≤ e)
    (h0 : a.head? = some 0) :
    sigDur (List.replicate k 0 ++ a) dt s e =
      (sigDur a dt s e).map (fun p => (p.1 + (k : ℚ) * dt, p.2 + (k : ℚ) * dt)) := by
  unfold sigDur
  rw [ariasCore_zero_prefix dt k a h0]
  exact sigDurSeries_zero_prefix _ k dt s e hs he

example : sigDur (List.replicate 2 0 ++ [0, 3, 2, -1, 1, 0, 1, -1]) (1/2) (1/20) (9/10) = .ok (3/2, 3) ∧
    sigDur [0, 3, 2, -1, 1, 0, 1, -1] (1/2) (1/20) (9/10) = .ok (1/2, 2) := by decide +kernel

/-- counterexample to the unconditional C10.d for the Arias variant (F10-1):
`a = [3,2,−1,1,0,1,−1]`, `dt = 1/2`, 5 %–90 %: `(1/2, 2)` becomes `(1, 5/2)` after two zeros, not `(3/2, 3)`. -/
example : sigDur [3, 2, -1, 1, 0, 1, -1] (1/2) (1/20) (9/10) = .ok (1/2, 2) ∧
    sigDur (List.replicate 2 0 ++ [3, 2, -1, 1, 0, 1, -1]) (1/2) (1/20) (9/10) = .ok (1, 5/2) := by
  decide +kernel

example : ¬ (sigDur (List.replicate 2 0 ++ [3, 2, -1, 1, 0, 1, -1]) (1/2) (1/20) (9/10) =
    (sigDur [3, 2, -1, 1, 0, 1, -1] (1/2) (1/20) (9/10)).map (fun p => (p.1 + (2 : ℚ) * (1/2), p.2 + (2 : ℚ) * (1/2)))) := by
  decide +kernel

/-! ## C10.e widening the fraction interval -/

/-- C10.e for any cumulative series with a non-negative total: `s' ≤ s`, `e ≤ e'` ⇒
`t_start' ≤ t_start`, `t_end ≤ t_end'` (and the wider call succeeds whenever the narrower does) -/
theorem widening (im : List ℚ) (dt s e s' e' : ℚ) (hdt : 0 ≤ dt)
    (htot : ∀ tot, im.getLast? = some tot → 0 ≤ tot) (hs : s' ≤ s) (he : e ≤ e')
    (ts te : ℚ) (h : sigDurSeries im dt s e = .ok (ts, te)) :
    ∃ ts' te', sigDurSeries im dt s' e' = .ok (ts', te') ∧ ts' ≤ ts ∧ te ≤ te' :=
  sigDurSeries_widen im dt s e s' e' hdt htot hs he ts te h

example : sigDurSeries [0, 1, 3, 6, 10] (1/2) (1/4) (3/4) = .ok (1, 3/2) ∧
    sigDurSeries [0, 1, 3, 6, 10] (1/2) (1/20) (19/20) = .ok (1/2, 3/2) := by decide +kernel

example : ∃ ts' te', sigDurSeries [0, 1, 3, 6, 10] (1/2) (1/20) (19/20) = .ok (ts', te') ∧ ts' ≤ 1 ∧ (3/2 : ℚ) ≤ te' :=
  widening [0, 1, 3, 6, 10] (1/2) (1/4) (3/4) (1/20) (19/20) (by norm_num)
    (by intro tot h; simp at h; subst h; norm_num) (by norm_num) (by norm_num) 1 (3/2) (by decide +kernel)

/-- C10.e, array variant -/
theorem widening_vals (a : List ℚ) (dt s e s' e' : ℚ) (hdt : 0 ≤ dt) (hs : s' ≤ s) (he : e ≤ e')
    (ts te : ℚ) (h : sigDurVals a dt s e = .ok (ts, te)) :
    ∃ ts' te', sigDurVals a dt s' e' = .ok (ts', te') ∧ ts' ≤ ts ∧ te ≤ te' :=
  sigDurSeries_widen _ dt s e s' e' hdt
    (fun tot ht => cumsum_sq_nonneg a tot (List.mem_of_getLast? ht)) hs he ts te h

example : sigDurVals [1, 2, 3, 4, 5] (1/2) (1/4) (3/4) = .ok (1, 3/2) ∧
    sigDurVals [1, 2, 3, 4, 5] (1/2) (1/20) (19/20) = .ok (1/2, 3/2) := by decide +kernel

/-- C10.e, default Arias measure -/
theorem widening_arias (a : List ℚ) (dt s e s' e' : ℚ) (hdt : 0 ≤ dt) (hs : s' ≤ s) (he : e ≤ e')
    (ts te : ℚ) (h : sigDur a dt s e = .ok (ts, te)) :
    ∃ ts' te', sigDur a dt s' e' = .ok (ts', te') ∧ ts' ≤ ts ∧ te ≤ te' :=
  sigDurSeries_widen _ dt s e s' e' hdt
    (fun tot ht => ariasCore_nonneg dt hdt a tot (List.mem_of_getLast? ht)) hs he ts te h

example : sigDur [1, 2, 3, 4, 5] (1/2) (1/4) (3/4) = .ok (3/2, 3/2) ∧
    sigDur [1, 2, 3, 4, 5] (1/2) (1/20) (19/20) = .ok (1/2, 3/2) := by decide +kernel

/-! ## C10.f bracketed duration -/

/-- C10.f `bracdur_spec`: if `i0` / `i1` are the first / last sample with `|a| > thr`, then `se=True` returns
`(i0·dt, i1·dt)` and `se=False` their difference -/
theorem bracdur_spec (a : List ℚ) (dt thr : ℚ) (i0 i1 : Nat)
    (h0 : Exceeds a thr i0) (h1 : Exceeds a thr i1) (hfl : ∀ j, Exceeds a thr j → i0 ≤ j ∧ j ≤ i1) :
    bracDurSE a dt thr = some ((i0 : ℚ) * dt, (i1 : ℚ) * dt) ∧
    bracDur a dt thr = (i1 : ℚ) * dt - (i0 : ℚ) * dt := by
  have h := (bracIdx_some_iff a thr i0 i1).mpr ((isFirstLast_bracMask_iff a thr i0 i1).mpr ⟨h0, h1, hfl⟩)
  constructor
  · rw [bracDurSE_eq, h]; rfl
  · rw [bracDur_eq, h]

example : bracDurSE [1, -3, 2, 5, -1] (1/2) 2 = some (1/2, 3/2) ∧ bracDur [1, -3, 2, 5, -1] (1/2) 2 = 1 := by
  decide +kernel

/-- C10.f: `(None, None)` / `0` iff no sample exceeds the threshold; otherwise first and last exist -/
theorem bracdur_none_iff (a : List ℚ) (dt thr : ℚ) :
    (bracDurSE a dt thr = none ↔ ¬ ∃ i, Exceeds a thr i) ∧
    ((¬ ∃ i, Exceeds a thr i) → bracDur a dt thr = 0) ∧
    ((∃ i, Exceeds a thr i) → ∃ i0 i1, Exceeds a thr i0 ∧ Exceeds a thr i1 ∧
        (∀ j, Exceeds a thr j → i0 ≤ j ∧ j ≤ i1) ∧
        bracDurSE a dt thr = some ((i0 : ℚ) * dt, (i1 : ℚ) * dt)) := by
  have key : bracIdx a thr = none ↔ ¬ ∃ i, Exceeds a thr i := by
    rw [bracIdx_none_iff]
    constructor
    · rintro h ⟨i, hi, hb⟩; exact h i hi hb
    · intro h j hj hb; exact h ⟨j, hj, hb⟩
  refine ⟨?_, ?_, ?_⟩
  · rw [bracDurSE_eq, ← key]
    cases bracIdx a thr <;> simp
  · intro h; rw [bracDur_eq, key.mpr h]
  · intro hex
    cases hb : bracIdx a thr with
    | none => exact absurd hex (key.mp hb)
    | some ab =>
      obtain ⟨i0, i1⟩ := ab
      obtain ⟨x, y, z⟩ := (isFirstLast_bracMask_iff a thr i0 i1).mp ((bracIdx_some_iff a thr i0 i1).mp hb)
      exact ⟨i0, i1, x, y, z, by rw [bracDurSE_eq, hb]; rfl⟩

example : bracDurSE [1, -3, 2, 5, -1] (1/2) 5 = none ∧ bracDur [1, -3, 2, 5, -1] (1/2) 5 = 0 := by decide +kernel

/-- C10.f: bracketed duration is non-increasing in the threshold -/
theorem bracdur_antitone (a : List ℚ) (dt thr thr' : ℚ) (hdt : 0 ≤ dt) (h : thr ≤ thr') :
    bracDur a dt thr' ≤ bracDur a dt thr := bracDur_antitone a dt thr thr' hdt h

example : bracDur [1, -3, 2, 5, -1] (1/2) (1/2) = 2 ∧ bracDur [1, -3, 2, 5, -1] (1/2) 2 = 1 ∧
    bracDur [1, -3, 2, 5, -1] (1/2) 3 = 0 := by decide +kernel

/-- C10.f: unchanged when record and threshold are scaled together by `c > 0` (both `se` forms) -/
theorem bracdur_joint_scaling (a : List ℚ) (c dt thr : ℚ) (hc : 0 < c) :
    bracDurSE (a.map (c * ·)) dt (c * thr) = bracDurSE a dt thr ∧
    bracDur (a.map (c * ·)) dt (c * thr) = bracDur a dt thr := by
  constructor
  · rw [bracDurSE_eq, bracDurSE_eq, bracIdx_scale c hc]
  · rw [bracDur_eq, bracDur_eq, bracIdx_scale c hc]

example : bracDurSE ([1, -3, 2, 5, -1].map ((3 : ℚ) * ·)) (1/2) (3 * 2) = some (1/2, 3/2) := by decide +kernel

end EqsigVerif.Props.C10
