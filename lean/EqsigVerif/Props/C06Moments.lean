import EqsigVerif.Lemmas.FreqMoments
import Mathlib.Analysis.Real.Sqrt
import Mathlib.Tactic.LinearCombination
/-!
# C06 — Fourier moments and the Boore (2003) bandwidth: property theorems about `Model/FreqMoments.lean`

`calc_fourier_moment(asig, n) = 2 * np.trapz((2 * np.pi * f) ** n * A ** 2, x=f)` with `f = asig.fa_frequencies`, `A = asig.fa_spectrum`;
`get_bandwidth_boore_2003(asig) = np.sqrt(m2 ** 2 / (m0 * m4))`.

What the code computes, exactly: the **trapezoid rule on the frequency grid itself** (non-uniform panels `f_{i+1} − f_i`), of the
integrand `(2πf_i)^n · A_i²` — the square of the spectrum VALUE (complex for a `Signal`), not of its modulus.  The three moments of the
Boore bandwidth are `m0, m2, m4` and share the same quadrature weights, so Cauchy–Schwarz applies whenever the node weights
`(f_{i+1} − f_i)·A_i²` are non-negative: a REAL spectrum on an ASCENDING grid.  For a complex spectrum the statement is false
(`boore_complex_spectrum_counterexample`).
-/
set_option linter.unusedSectionVars false
set_option linter.unusedVariables false
namespace EqsigVerif.Props.C06
open EqsigVerif EqsigVerif.Cplx EqsigVerif.Wire EqsigVerif.Model.FreqMoments

/-! ## outcome and quadrature rule -/
section Rule
variable {α γ : Type} [Field α] [Field γ]

/-- **outcome of `calc_fourier_moment`**: `AttributeError` on a NumPy without `np.trapz` (looked up before anything else); with it, the
value `momentCore` for arrays of equal length, `ValueError` (broadcasting) for different lengths none of which is 1 -/
theorem fourier_moment_outcome (emb : α → γ) (pi : α) (f : List α) (A : List γ) (n : ℕ) :
    fourierMoment emb false pi f A n = .error .AttributeError ∧
    (f.length = A.length → fourierMoment emb true pi f A n = .ok (momentCore emb pi f A n)) ∧
    (f.length ≠ A.length → f.length ≠ 1 → A.length ≠ 1 → fourierMoment emb true pi f A n = .error .ValueError) :=
  ⟨rfl, fourierMoment_ok emb pi f A n, fourierMoment_value_error emb pi f A n⟩

example : fourierMoment (fun (x : ℚ) => x) false 3 [0, 1, 2] [1, 2, 3] 2 = .error .AttributeError ∧
    fourierMoment (fun (x : ℚ) => x) true 3 [0, 1, 2] [1, 2, 3] 0 = .ok 18 ∧
    fourierMoment (fun (x : ℚ) => x) true 3 [0, 1, 2] [1, 2] 0 = .error .ValueError := by decide +kernel

/-- **the quadrature rule**: moment `n` is `2 ·` the trapezoid sum over consecutive grid points of the integrand
`g_i = (2π f_i)^n · A_i²`, i.e. `2 · Σ_i (f_{i+1} − f_i)·(g_{i+1} + g_i)/2` (`panelRec` is that sum, by recursion over the panels) -/
theorem moment_trapezoid_rule (emb : α → γ) (pi : α) (f : List α) (A : List γ) (n : ℕ) :
    momentCore emb pi f A n =
      emb 2 * panelRec emb (emb 2) (fun x a => emb ((2 * pi * x) ^ n) * (a * a)) f A := by
  rw [momentCore_eq_panelRec]
  congr 2
  funext x a
  simp [integrand, powN_eq_pow]

/-- **amplitude scaling**: `m_n(s·A) = s²·m_n(A)` for every scalar `s` of the spectrum's number type -/
theorem moment_smul (emb : α → γ) (pi : α) (f : List α) (A : List γ) (n : ℕ) (s : γ) :
    momentCore emb pi f (A.map (fun a => s * a)) n = s ^ 2 * momentCore emb pi f A n := by
  rw [momentCore_smul]; ring

example : momentCore (fun (x : ℚ) => x) 3 [0, 1, 2] ([1, 2, 3].map (fun a => 5 * a)) 2 = 5 ^ 2 * momentCore (fun (x : ℚ) => x) 3 [0, 1, 2] [1, 2, 3] 2 ∧
    momentCore (fun (x : ℚ) => x) 3 [0, 1, 2] [1, 2, 3] 2 ≠ 0 := by decide +kernel

/-- **frequency scaling**: on the grid `c·f` the moment is `c^(n+1)` times the moment on `f` -/
theorem moment_freq_scale (emb : α →+* γ) (pi : α) (f : List α) (A : List γ) (n : ℕ) (c : α) :
    momentCore emb pi (f.map (fun x => c * x)) A n = emb c ^ (n + 1) * momentCore emb pi f A n :=
  momentCore_freq_scale emb pi f A n c

example : momentCore (RingHom.id ℚ) 3 ([0, 1, 2].map (fun x => 7 * x)) [1, 2, 3] 2 = (7 : ℚ) ^ (2 + 1) * momentCore (RingHom.id ℚ) 3 [0, 1, 2] [1, 2, 3] 2 := by
  have := moment_freq_scale (RingHom.id ℚ) 3 [0, 1, 2] [1, 2, 3] 2 7
  simpa using this

end Rule

/-! ## real spectrum on an ascending grid -/
section RealSpectrum
variable {α : Type} [Field α] [LinearOrder α] [IsStrictOrderedRing α]

/-- one panel, spelled out: two grid points `f₀, f₁` give `m_n = (f₁ − f₀)·((2πf₁)^n A₁² + (2πf₀)^n A₀²)` -/
theorem moment_one_panel (pi f0 f1 A0 A1 : α) (n : ℕ) :
    momentCore (fun x => x) pi [f0, f1] [A0, A1] n = (f1 - f0) * ((2 * pi * f1) ^ n * (A1 * A1) + (2 * pi * f0) ^ n * (A0 * A0)) := by
  rw [moment_trapezoid_rule]
  simp only [panelRec]
  have h2 : (2 : α) ≠ 0 := two_ne_zero
  field_simp
  ring

example : momentCore (fun (x : ℚ) => x) 3 [1/2, 2] [1, 2] 2 = (2 - 1/2) * ((2 * 3 * 2) ^ 2 * (2 * 2) + (2 * 3 * (1/2)) ^ 2 * (1 * 1)) := by
  decide +kernel

/-- **weighted-node form** (real spectrum): `m_n = Σ_t c_t·(2π x_t)^n`, two nodes per panel, `c_t = (f_{i+1} − f_i)·A²` — the SAME weights
for every `n`; they are `≥ 0` on an ascending grid and the nodes are grid frequencies -/
theorem moment_weighted_nodes (pi : α) (f A : List α) (n : ℕ) :
    momentCore (fun x => x) pi f A n = wsum (wts f A) (fun x => (2 * pi * x) ^ n) ∧
    (f.Pairwise (· ≤ ·) → ∀ p ∈ wts f A, 0 ≤ p.1) ∧ (∀ p ∈ wts f A, p.2 ∈ f) :=
  ⟨momentCore_eq_wsum pi f A n, wts_nonneg f A, wts_nodes f A⟩

example : wts ([0, 1, 3] : List ℚ) [1, 2, 1] = [(4, 1), (1, 0), (2, 3), (8, 1)] := by decide +kernel

/-- **moments are non-negative** for a real spectrum on an ascending grid, when `(2πf)^n ≥ 0` at every grid frequency — in particular
for even `n` (`m0, m2, m4`) and, with `pi ≥ 0`, for every `n` on a non-negative grid -/
theorem moment_nonneg (pi : α) (f A : List α) (n : ℕ) (hf : f.Pairwise (· ≤ ·)) (hpow : ∀ x ∈ f, 0 ≤ (2 * pi * x) ^ n) :
    0 ≤ momentCore (fun x => x) pi f A n := by
  rw [momentCore_eq_wsum]
  exact wsum_nonneg _ _ (wts_nonneg f A hf) (fun p hp => hpow _ (wts_nodes f A p hp))

theorem moment_nonneg_even (pi : α) (f A : List α) (k : ℕ) (hf : f.Pairwise (· ≤ ·)) :
    0 ≤ momentCore (fun x => x) pi f A (2 * k) :=
  moment_nonneg pi f A (2 * k) hf (fun x _ => by rw [pow_mul]; positivity)

theorem moment_nonneg_of_nonneg_grid (pi : α) (f A : List α) (n : ℕ) (hf : f.Pairwise (· ≤ ·)) (hpi : 0 ≤ pi) (h0 : ∀ x ∈ f, 0 ≤ x) :
    0 ≤ momentCore (fun x => x) pi f A n :=
  moment_nonneg pi f A n hf (fun x hx => pow_nonneg (mul_nonneg (mul_nonneg (by norm_num) hpi) (h0 x hx)) n)

example : ([0, 1/2, 2] : List ℚ).Pairwise (· ≤ ·) := by norm_num
example : 0 < momentCore (fun (x : ℚ) => x) 3 [0, 1/2, 2] [1, -2, 3] 4 := by decide +kernel

/-- the hypothesis "ascending" matters: on a descending grid the zeroth moment of a positive spectrum is negative -/
example : momentCore (fun (x : ℚ) => x) 3 [2, 1, 0] [1, 2, 3] 0 < 0 := by decide +kernel

/-- **Cauchy–Schwarz for the discrete sums the code computes** (real spectrum, ascending grid): `m_{j+k}² ≤ m_{2j}·m_{2k}`.
With `j = 0, k = 2`: `m2² ≤ m0·m4`, the inequality behind the Boore bandwidth. -/
theorem moment_cauchy_schwarz (pi : α) (f A : List α) (j k : ℕ) (hf : f.Pairwise (· ≤ ·)) :
    momentCore (fun x => x) pi f A (j + k) ^ 2 ≤ momentCore (fun x => x) pi f A (2 * j) * momentCore (fun x => x) pi f A (2 * k) := by
  have h := cauchy_schwarz (wts f A) (fun x => (2 * pi * x) ^ j) (fun x => (2 * pi * x) ^ k) (wts_nonneg f A hf)
  simp only [momentCore_eq_wsum]
  have e1 : (fun x => (2 * pi * x) ^ (j + k)) = fun x => (2 * pi * x) ^ j * (2 * pi * x) ^ k := by funext x; rw [pow_add]
  have e2 : (fun x => (2 * pi * x) ^ (2 * j)) = fun x => (2 * pi * x) ^ j * (2 * pi * x) ^ j := by funext x; rw [pow_mul', sq]
  have e3 : (fun x => (2 * pi * x) ^ (2 * k)) = fun x => (2 * pi * x) ^ k * (2 * pi * x) ^ k := by funext x; rw [pow_mul', sq]
  rw [e1, e2, e3]
  exact h

theorem moment_m2_sq_le (pi : α) (f A : List α) (hf : f.Pairwise (· ≤ ·)) :
    momentCore (fun x => x) pi f A 2 ^ 2 ≤ momentCore (fun x => x) pi f A 0 * momentCore (fun x => x) pi f A 4 :=
  moment_cauchy_schwarz pi f A 0 2 hf

example : momentCore (fun (x : ℚ) => x) 3 [0, 1/2, 2] [1, -2, 3] 2 ^ 2 < momentCore (fun (x : ℚ) => x) 3 [0, 1/2, 2] [1, -2, 3] 0 *
    momentCore (fun (x : ℚ) => x) 3 [0, 1/2, 2] [1, -2, 3] 4 := by decide +kernel

/-- the moment function of a real spectrum as `get_bandwidth_boore_2003` calls it (NumPy with `np.trapz`, arrays of equal length) -/
theorem boore_ratio_eq (pi : α) (f A : List α) (h : f.length = A.length) :
    booreRatio (fourierMoment (fun x => x) true pi f A) =
      .ok (momentCore (fun x => x) pi f A 2 * momentCore (fun x => x) pi f A 2 /
        (momentCore (fun x => x) pi f A 0 * momentCore (fun x => x) pi f A 4)) := by
  simp only [booreRatio, fourierMoment_ok _ pi f A _ h]

/-- **the Boore ratio lies in [0, 1]** (real spectrum, ascending grid): `0 ≤ m2²/(m0·m4) ≤ 1`.  (When `m0·m4 = 0` NumPy returns `nan`;
the model's field division gives `0` — `booreDefined` tells the two situations apart.) -/
theorem boore_ratio_mem_unit (pi : α) (f A : List α) (hf : f.Pairwise (· ≤ ·)) (h : f.length = A.length) :
    ∃ r, booreRatio (fourierMoment (fun x => x) true pi f A) = .ok r ∧ 0 ≤ r ∧ r ≤ 1 := by
  refine ⟨_, boore_ratio_eq pi f A h, ?_, ?_⟩
  · have h0 := moment_nonneg_even pi f A 0 hf
    have h4 := moment_nonneg_even pi f A 2 hf
    exact div_nonneg (mul_self_nonneg _) (mul_nonneg h0 h4)
  · have h0 := moment_nonneg_even pi f A 0 hf
    have h4 := moment_nonneg_even pi f A 2 hf
    have hcs := moment_m2_sq_le pi f A hf
    rcases (mul_nonneg h0 h4).eq_or_lt with hz | hpos
    · simp only [Nat.mul_zero] at hz ⊢
      rw [show (2 * 2 : ℕ) = 4 from rfl] at hz
      rw [← hz]; simp
    · simp only [Nat.mul_zero] at hpos
      rw [show (2 * 2 : ℕ) = 4 from rfl] at hpos
      rw [div_le_one hpos, ← sq]
      exact hcs

example : booreRatio (fourierMoment (fun (x : ℚ) => x) true 3 [0, 1/2, 2] [1, -2, 3]) = .ok (3136/4763) := by decide +kernel
example : booreDefined (fourierMoment (fun (x : ℚ) => x) true 3 [0, 1/2, 2] [1, -2, 3]) = true := by decide +kernel

end RealSpectrum

/-- **Boore bandwidth lies in [0, 1]**: `get_bandwidth_boore_2003` of a real spectrum on an ascending frequency grid, over `ℝ` with
`np.sqrt = Real.sqrt` -/
theorem boore_mem_unit (pi : ℝ) (f A : List ℝ) (hf : f.Pairwise (· ≤ ·)) (h : f.length = A.length) :
    ∃ b, boore Real.sqrt (fourierMoment (fun x => x) true pi f A) = .ok b ∧ 0 ≤ b ∧ b ≤ 1 := by
  obtain ⟨r, hr, h0, h1⟩ := boore_ratio_mem_unit pi f A hf h
  refine ⟨Real.sqrt r, by simp only [boore, hr], Real.sqrt_nonneg r, ?_⟩
  exact Real.sqrt_le_one.mpr h1

example (pi : ℝ) : ∃ b, boore Real.sqrt (fourierMoment (fun x => x) true pi [0, 1, 2] [1, 2, 1]) = .ok b ∧ 0 ≤ b ∧ b ≤ 1 :=
  boore_mem_unit pi [0, 1, 2] [1, 2, 1] (by simp) rfl

/-! ## invariances of the Boore ratio -/
section Invariance
variable {α γ : Type} [Field α] [Field γ]

/-- **invariance under amplitude scaling**: the Boore ratio (hence the bandwidth) of `s·A` is that of `A`, for every `s ≠ 0` -/
theorem boore_amp_invariant (emb : α → γ) (pi : α) (f : List α) (A : List γ) (s : γ) (hs : s ≠ 0) (h : f.length = A.length) :
    booreRatio (fourierMoment emb true pi f (A.map (fun a => s * a))) = booreRatio (fourierMoment emb true pi f A) := by
  have h' : f.length = (A.map (fun a => s * a)).length := by simpa using h
  simp only [booreRatio, fourierMoment_ok _ pi f _ _ h, fourierMoment_ok _ pi f _ _ h', momentCore_smul]
  congr 1
  have hs2 : s * s ≠ 0 := mul_ne_zero hs hs
  by_cases hd : momentCore emb pi f A 0 * momentCore emb pi f A 4 = 0
  · have : s * s * momentCore emb pi f A 0 * (s * s * momentCore emb pi f A 4) = 0 := by
      have : s * s * momentCore emb pi f A 0 * (s * s * momentCore emb pi f A 4) =
          (s * s) * (s * s) * (momentCore emb pi f A 0 * momentCore emb pi f A 4) := by ring
      rw [this, hd, mul_zero]
    rw [this, hd, div_zero, div_zero]
  · rw [div_eq_div_iff (by
      have : s * s * momentCore emb pi f A 0 * (s * s * momentCore emb pi f A 4) =
          (s * s) * (s * s) * (momentCore emb pi f A 0 * momentCore emb pi f A 4) := by ring
      rw [this]; exact mul_ne_zero (mul_ne_zero hs2 hs2) hd) hd]
    ring

/-- **behaviour under frequency scaling**: `m_n ↦ c^(n+1)·m_n`, so the ratio `m2²/(m0·m4)` picks up `c⁶/(c·c⁵) = 1`: the Boore ratio
(hence the bandwidth) is invariant under `f ↦ c·f`, `c ≠ 0` -/
theorem boore_freq_invariant (emb : α →+* γ) (pi : α) (f : List α) (A : List γ) (c : α) (hc : c ≠ 0) (h : f.length = A.length) :
    booreRatio (fourierMoment emb true pi (f.map (fun x => c * x)) A) = booreRatio (fourierMoment emb true pi f A) := by
  have h' : (f.map (fun x => c * x)).length = A.length := by simpa using h
  simp only [booreRatio, fourierMoment_ok _ pi _ A _ h, fourierMoment_ok _ pi _ A _ h', momentCore_freq_scale]
  congr 1
  have hc' : emb c ≠ 0 := (map_ne_zero emb).mpr hc
  by_cases hd : momentCore emb pi f A 0 * momentCore emb pi f A 4 = 0
  · have e : emb c ^ (0 + 1) * momentCore emb pi f A 0 * (emb c ^ (4 + 1) * momentCore emb pi f A 4) =
        emb c ^ 6 * (momentCore emb pi f A 0 * momentCore emb pi f A 4) := by ring
    rw [e, hd, mul_zero, div_zero, div_zero]
  · have e : emb c ^ (0 + 1) * momentCore emb pi f A 0 * (emb c ^ (4 + 1) * momentCore emb pi f A 4) =
        emb c ^ 6 * (momentCore emb pi f A 0 * momentCore emb pi f A 4) := by ring
    rw [e, div_eq_div_iff (mul_ne_zero (pow_ne_zero 6 hc') hd) hd]
    ring

example : booreRatio (fourierMoment (fun (x : ℚ) => x) true 3 ([0, 1/2, 2].map (fun x => 5 * x)) [1, -2, 3]) = .ok (3136/4763) := by
  decide +kernel
example : booreRatio (fourierMoment (fun (x : ℚ) => x) true 3 [0, 1/2, 2] ([1, -2, 3].map (fun a => 7 * a))) = .ok (3136/4763) := by
  decide +kernel

end Invariance

/-! ## the complex spectrum of a `Signal`: the [0,1] statement is false of the code -/

/-- **counterexample (complex spectrum)**: `calc_fourier_moment` squares the complex VALUE (`asig.fa_spectrum ** 2`), so the node weights
`(f_{i+1} − f_i)·A_i²` need not be non-negative (not even real).  For the spectrum `[1, i, 2]` (`i² = −1`) on the grid `[0, 1, 2]` the
ratio `m2²/(m0·m4)` is `98/93 > 1` for every `pi ≠ 0`, in every field of characteristic zero: `get_bandwidth_boore_2003` returns
`sqrt(98/93) ≈ 1.0265 > 1`. -/
theorem boore_complex_spectrum_counterexample {α γ : Type} [Field α] [Field γ] [CharZero γ] (emb : α →+* γ) (pi : α) (hpi : pi ≠ 0)
    (I : γ) (hI : I * I = -1) :
    booreRatio (fourierMoment emb true pi [0, 1, 2] [1, I, 2]) = .ok (98 / 93) := by
  have hx : emb pi ≠ 0 := (map_ne_zero emb).mpr hpi
  simp only [booreRatio, fourierMoment_ok emb pi [0, 1, 2] [1, I, 2] _ rfl]
  congr 1
  simp only [moment_trapezoid_rule, panelRec, hI, map_pow, map_mul, map_ofNat, map_zero, map_one]
  generalize emb pi = x at hx
  have h4 : x ^ 4 * x⁻¹ ^ 4 = 1 := by rw [← mul_pow, mul_inv_cancel₀ hx, one_pow]
  linear_combination (98 / 93 : γ) * h4

example : booreRatio (fourierMoment (Cx.ofReal : ℚ → Cx ℚ) true 3 [0, 1, 2] [⟨1, 0⟩, ⟨0, 1⟩, ⟨2, 0⟩]) = .ok ⟨98 / 93, 0⟩ ∧
    (1 : ℚ) < 98 / 93 := by decide +kernel

/-- a genuinely complex value: spectrum `[1, 1+i, 2]` on `[0, 1, 2]` (`pi := 3`): the ratio has a non-zero imaginary part -/
example : ∃ z : Cx ℚ, booreRatio (fourierMoment (Cx.ofReal : ℚ → Cx ℚ) true 3 [0, 1, 2] [⟨1, 0⟩, ⟨1, 1⟩, ⟨2, 0⟩]) = .ok z ∧ z.im ≠ 0 := by
  refine ⟨_, rfl, ?_⟩
  decide +kernel

end EqsigVerif.Props.C06
