import EqsigVerif.Model.Single3
import EqsigVerif.Lemmas.Single3
import Mathlib.Tactic.Ring
/-!
# C18 family — `Cluster.values_by_index`, `Cluster.combine_motions`, `Cluster.calculate_ratios` (`eqsig/multiple.py`)

Model: `Model/Single3.lean` (`valuesByIndex`, `combineMotions` with the two `butter_pass` calls as parameters `hp`, `lp`, `calculateRatios`).
-/
set_option linter.unusedSectionVars false
set_option linter.unusedVariables false
namespace EqsigVerif.Props.C18
open EqsigVerif EqsigVerif.Wire EqsigVerif.Np EqsigVerif.NpV EqsigVerif.Model.Single3

theorem pyGetE_nat {γ : Type} (l : List γ) (k : Nat) (h : k < l.length) : NpR.pyGetE l (k : Int) = .ok l[k] := by
  unfold NpR.pyGetE
  have h0 : ¬ ((k : Int) < 0) := by omega
  simp [h0, h]

theorem pyPos_nat (n k : Nat) (h : k < n) : pyPos n (k : Int) = some k := by
  unfold pyPos
  have h0 : ¬ ((k : Int) < 0) := by omega
  simp [h0, h]

/-- `Cluster.values_by_index(index)`: Python subscript semantics on the ordered records — `index ∈ [0, n)` picks record `index`, `index ∈ [−n, 0)`
record `n + index`, anything else raises `IndexError` -/
theorem values_by_index_spec (signals : List (List ℚ)) (index : Int) :
    (∀ k : Nat, index = (k : Int) → (h : k < signals.length) → valuesByIndex signals index = .ok signals[k]) ∧
    (∀ k : Nat, index = (k : Int) - signals.length → (h : k < signals.length) → valuesByIndex signals index = .ok signals[k]) ∧
    ((signals.length : Int) ≤ index ∨ index < -(signals.length : Int) → valuesByIndex signals index = .error .IndexError) := by
  refine ⟨?_, ?_, ?_⟩
  · rintro k rfl h; exact pyGetE_nat signals k h
  · rintro k rfl h
    unfold valuesByIndex NpR.pyGetE
    have h0 : ((k : Int) - signals.length < 0) := by omega
    simp [h0, h]
  · intro h
    unfold valuesByIndex NpR.pyGetE
    rcases h with h | h
    · have h0 : ¬ (index < 0) := by omega
      have h1 : signals.length ≤ index.toNat := by omega
      simp [h0, List.getElem?_eq_none h1]
    · have h0 : index < 0 := by omega
      have h1 : index + signals.length < 0 := by omega
      simp [h0, h1]

example : valuesByIndex [[1, 2], [3, 4, 5]] (-1) = .ok [3, 4, 5] ∧ valuesByIndex [[1, 2], [3, 4, 5]] 2 = .error .IndexError ∧
    valuesByIndex [[1, 2], [3, 4, 5]] (-3) = .error .IndexError := by decide +kernel

/-- `combine_motions` on its intended domain (two DIFFERENT valid indices, both filters succeed, equally long results): the returned motion is
`low-pass(record[low]) + high-pass(record[high])` entry by entry, and — side effect — both records of the cluster are REPLACED by their filtered
versions (`butter_pass` works in place), every other record is untouched -/
theorem combine_motions_spec (hp lp : List ℚ → Except ErrKind (List ℚ)) (signals : List (List ℚ)) (lo hi : Nat)
    (hlo : lo < signals.length) (hhi : hi < signals.length) (hne : lo ≠ hi) (h' l' : List ℚ)
    (hh : hp signals[hi] = .ok h') (hl : lp signals[lo] = .ok l') (hlen : l'.length = h'.length) :
    combineMotions hp lp signals (lo : Int) (hi : Int) = .ok (addL l' h', (signals.set hi h').set lo l') := by
  unfold combineMotions
  rw [pyGetE_nat signals hi hhi]
  simp only [bind, Except.bind, hh, pyPos_nat _ _ hhi]
  have hlo1 : lo < (signals.set hi h').length := by simpa using hlo
  have hhi1 : hi < ((signals.set hi h').set lo l').length := by simpa using hhi
  have hlo2 : lo < ((signals.set hi h').set lo l').length := by simpa using hlo
  rw [pyGetE_nat _ lo hlo1]
  have e1 : (signals.set hi h')[lo] = signals[lo] := by
    rw [List.getElem_set_ne (Ne.symm hne)]
  simp only [e1, hl, pyPos_nat _ _ hlo1]
  rw [pyGetE_nat _ lo hlo2, pyGetE_nat _ hi hhi1]
  have e2 : ((signals.set hi h').set lo l')[lo] = l' := by simp
  have e3 : ((signals.set hi h').set lo l')[hi] = h' := by
    rw [List.getElem_set_ne hne]; simp
  simp only [e2, e3, addBroadcastE, hlen, if_true]

example : combineMotions (fun x => .ok (x.map (· * 2))) (fun x => .ok (x.map (· + 1))) [[1, 2], [3, 4]] 0 1 =
    .ok ([8, 11], [[2, 3], [6, 8]]) := by decide +kernel

/-- `low_index = high_index`: the SAME record is high-passed and then low-passed (in place), and the motion is twice that -/
theorem combine_motions_same_index (hp lp : List ℚ → Except ErrKind (List ℚ)) (signals : List (List ℚ)) (k : Nat)
    (hk : k < signals.length) (h' l' : List ℚ) (hh : hp signals[k] = .ok h') (hl : lp h' = .ok l') :
    combineMotions hp lp signals (k : Int) (k : Int) = .ok (addL l' l', signals.set k l') := by
  unfold combineMotions
  rw [pyGetE_nat signals k hk]
  simp only [bind, Except.bind, hh, pyPos_nat _ _ hk]
  have hk1 : k < (signals.set k h').length := by simpa using hk
  have hk2 : k < ((signals.set k h').set k l').length := by simpa using hk
  rw [pyGetE_nat _ k hk1]
  have e1 : (signals.set k h')[k] = h' := by simp
  simp only [e1, hl, pyPos_nat _ _ hk1]
  rw [pyGetE_nat _ k hk2]
  have e2 : ((signals.set k h').set k l')[k] = l' := by simp
  simp only [addBroadcastE, if_true, List.set_set]
  simp

example : combineMotions (fun x => .ok (x.map (· * 2))) (fun x => .ok (x.map (· + 1))) [[1, 2], [3, 4]] 1 1 =
    .ok ([14, 18], [[1, 2], [7, 9]]) := by decide +kernel

/-- error order: an invalid `high_index` raises `IndexError` BEFORE anything is filtered; an invalid `low_index` raises `IndexError` AFTER the
high-index record has already been filtered in place -/
theorem combine_motions_errors (hp lp : List ℚ → Except ErrKind (List ℚ)) (signals : List (List ℚ)) (lo hi : Int) :
    (NpR.pyGetE signals hi = .error .IndexError → combineMotions hp lp signals lo hi = .error .IndexError) ∧
    (∀ h k, NpR.pyGetE signals hi = .ok h → hp h = .error k → combineMotions hp lp signals lo hi = .error k) := by
  constructor
  · intro h; unfold combineMotions; rw [h]; rfl
  · intro h k h1 h2; unfold combineMotions; rw [h1]; simp only [bind, Except.bind, h2]

example : combineMotions (fun x => .ok x) (fun x => .ok x) [[1, 2], [3, 4]] 0 2 = .error .IndexError ∧
    combineMotions (fun x => .ok x) (fun x => .ok x) [[1, 2], [3, 4, 5]] 0 1 = .error .ValueError := by decide +kernel

/-- `Cluster.calculate_ratios()` can never return: whatever `generate_response_spectrums()` does, the next statement evaluates the non-existent
attribute `self.motions` (`AttributeError`) -/
theorem calculate_ratios_never_returns (sp : Except ErrKind Unit) :
    (∀ u, calculateRatios sp ≠ .ok u) ∧ (sp = .ok () → calculateRatios sp = .error .AttributeError) ∧
    (∀ k, sp = .error k → calculateRatios sp = .error k) := by
  refine ⟨?_, ?_, ?_⟩
  · intro u h; cases sp <;> cases h
  · rintro rfl; rfl
  · rintro k rfl; rfl

example : calculateRatios (.ok ()) = .error .AttributeError := by decide +kernel

end EqsigVerif.Props.C18
