import EqsigVerif.Model.Loader
import EqsigVerif.Lemmas.Fmt
import EqsigVerif.Lemmas.Loader
/-!
# C16 — Saved signals load back unchanged (to the format's precision)

Python: `eqsig/loader.py` of the tree with the planned fixes.  Model: `Prelude/Fmt.lean`, `Model/Loader.lean`.
Notation: `1 / 2 / 10 ^ d` is `½·10⁻ᵈ`.  `NoLineBreak label` : the label contains none of
`\n \r \x0b \x0c \x1c \x1d \x1e \x85 U+2028 U+2029`.

The theorems hold for **every** record (also `n = 0`), **every** rational `dt` and every scale factor `m`;
the domain of the property (`n ≥ 1`, `dt ∈ [10⁻⁴, 100]`) is a special case — the fixed code applies no guard.
-/
namespace EqsigVerif.Props.C16
open EqsigVerif EqsigVerif.Wire EqsigVerif.Fmt EqsigVerif.Model.Loader

/-! ## C16.a — `'%.df'` is the exact value rounded half-to-even at digit `d` -/

/-- C16.a (rounding): round-half-to-even moves the exact value by at most one half. -/
theorem rhe_close (s : ℚ) : |(rhe s : ℚ) - s| ≤ 1 / 2 := Fmt.rhe_close s

example : rhe (5 / 2) = 2 ∧ rhe (7 / 2) = 4 ∧ rhe (-5 / 2) = -2 ∧ rhe (13 / 5) = 3 := by decide +kernel

/-- C16.a (text = rendered triple): `fmtFixed q d` is the rendering of the sign `q < 0`, the magnitude
    `rhe (|q|·10^d)` and `d` — never exponent notation. -/
theorem fmt_is_render (q : ℚ) (d : ℕ) :
    fmtFixed q d = render (decide (q < 0)) (rhe (|q| * (10 : ℚ) ^ d)).toNat d := by
  unfold fmtFixed fmtFixedL render fmtNeg fmtMag
  rw [absR_eq, cast_pow10]

example : fmtFixed (-3 / 128) 6 = "-0.023438" ∧ fmtFixed (1 / 128) 6 = "0.007812" ∧
    fmtFixed (-1 / 1000000000) 6 = "-0.000000" ∧ fmtFixed (99999 / 100000 + 1 / 200000) 4 = "1.0000" := by
  decide +kernel

/-- C16.a `fmt_round_close`: the number `σ·rhe(|q|·10^d)/10^d` denoted by the text `'%.df' % q` is within
    `½·10⁻ᵈ` of `q`, for every sign and magnitude. -/
theorem fmt_round_close (q : ℚ) (d : ℕ) :
    |(if q < 0 then -1 else 1) * (rhe (|q| * (10 : ℚ) ^ d) : ℚ) / (10 : ℚ) ^ d - q| ≤ 1 / 2 / (10 : ℚ) ^ d := by
  have h := Fmt.fmt_value_close q d
  rw [valueOf_eq, fmtMag_cast] at h
  unfold fmtNeg at h
  by_cases hq : q < 0
  · simpa [hq] using h
  · simpa [hq] using h

example : |(if (-3 / 128 : ℚ) < 0 then -1 else 1) * (rhe (|(-3 / 128 : ℚ)| * (10 : ℚ) ^ 6) : ℚ) / (10 : ℚ) ^ 6
    - (-3 / 128)| = 1 / 2 / (10 : ℚ) ^ 6 := by
  have : rhe (|(-3 / 128 : ℚ)| * (10 : ℚ) ^ 6) = 23438 := by
    rw [show |(-3 / 128 : ℚ)| * (10 : ℚ) ^ 6 = 46875 / 2 by norm_num [abs_of_neg]]; decide +kernel
  rw [this]; norm_num [abs_of_neg]

/-- C16.a (digit layer, the *stretch* goal — proved in general): parsing the rendered text returns exactly
    `σ·m/10^d`. -/
theorem digit_layer (neg : Bool) (m d : ℕ) :
    parseDec (render neg m d) = some ((if neg then -1 else 1) * (m : ℚ) / (10 : ℚ) ^ d) := by
  rw [Fmt.parseDec_render, valueOf_eq]

example : parseDec (render true 23438 6) = some (-11719 / 500000) := by decide +kernel

/-- C16.a (text level): the text `'%.df' % q` parses (as `float()` reads it, before rounding to a double) to a
    number within `½·10⁻ᵈ` of `q`. -/
theorem fmt_parse_close (q : ℚ) (d : ℕ) :
    ∃ x, parseDec (fmtFixed q d) = some x ∧ |x - q| ≤ 1 / 2 / (10 : ℚ) ^ d :=
  ⟨_, Fmt.parseDec_fmtFixed q d, Fmt.fmt_value_close q d⟩

example : parseDec (fmtFixed (1 / 3) 6) = some (333333 / 1000000) := by decide +kernel

/-! ## C16.b — save then load -/

/-- C16.b `save_load`: loading the file written by `save_values_and_dt(values, dt, label)` succeeds and
    returns the same number of points, `|dt' − dt| ≤ ½·10⁻⁴` and `|v'ᵢ − vᵢ| ≤ ½·10⁻⁶` (exact-decimal model
    of the parsed numbers). -/
theorem save_load (v : List ℚ) (dt : ℚ) (label : String) (hl : NoLineBreak label) :
    ∃ v' dt', loadText (saveText v dt label) = .ok (v', dt') ∧ v'.length = v.length ∧
      |dt' - dt| ≤ 1 / 2 / (10 : ℚ) ^ 4 ∧
      ∀ i (h : i < v.length) (h' : i < v'.length), |v'[i] - v[i]| ≤ 1 / 2 / (10 : ℚ) ^ 6 := by
  refine ⟨_, _, loadText_saveText v dt label hl, by simp, written_close dt 4, ?_⟩
  intro i h h'
  rw [List.getElem_map]
  exact written_close _ 6

example : NoLineBreak "my label, x # y" ∧
    loadText (saveText [3 / 2, -3 / 128, 1 / 3] (5 / 2) "my label, x # y") =
      .ok ([3 / 2, -11719 / 500000, 333333 / 1000000], 5 / 2) := by decide +kernel

/-- the guard is needed: a form feed in the label is a line break for `str.splitlines()` (not for the file
    iterator of `np.genfromtxt`), the header is then looked for in the wrong line — `IndexError`, as observed
    in Python. -/
example : ¬ NoLineBreak "a\x0cb" ∧ loadText (saveText [1] (1 / 100) "a\x0cb") = .error .IndexError := by
  decide +kernel

/-- the object part written by `save_signal` is `save_values_and_dt(signal.values, signal.dt, signal.label)` -/
theorem save_signal_eq (s : Loaded) : save_signal s = saveText s.values s.dt s.label := rfl

/-- C16.b for `load_sig(ffp, m)`: a `Signal` with the default label `'m1'`, `n` points,
    `|dt' − dt| ≤ ½·10⁻⁴`, `|v'ᵢ − m·vᵢ| ≤ |m|·½·10⁻⁶`. -/
theorem save_load_sig (v : List ℚ) (dt : ℚ) (label : String) (hl : NoLineBreak label) (m : ℚ) :
    ∃ r, load_sig (saveText v dt label) m = .ok r ∧ r.ty = .Signal ∧ r.label = "m1" ∧
      r.values.length = v.length ∧ |r.dt - dt| ≤ 1 / 2 / (10 : ℚ) ^ 4 ∧
      ∀ i (h : i < v.length) (h' : i < r.values.length),
        |r.values[i] - m * v[i]| ≤ |m| * (1 / 2 / (10 : ℚ) ^ 6) := by
  refine ⟨⟨.Signal, (v.map (fun x => written x 6)).map (· * m), written dt 4, defaultLabel⟩, ?_, rfl, rfl,
    by simp, written_close dt 4, ?_⟩
  · unfold load_sig; rw [loadText_saveText v dt label hl]
  · intro i h h'
    simp only [List.getElem_map]
    have e : written v[i] 6 * m - m * v[i] = m * (written v[i] 6 - v[i]) := by ring
    rw [e, abs_mul]
    exact mul_le_mul_of_nonneg_left (written_close _ 6) (abs_nonneg m)

example : load_sig (saveText [3 / 2, -3 / 128] (1 / 100) "a b") (-5 / 2) =
    .ok ⟨.Signal, [-15 / 4, 11719 / 200000], 1 / 100, "m1"⟩ := by decide +kernel

/-- C16.b for `load_asig(ffp, load_label, m)`: an `AccSignal`, the saved label when requested (else `'m1'`),
    `n` points, `|dt' − dt| ≤ ½·10⁻⁴`, `|v'ᵢ − m·vᵢ| ≤ |m|·½·10⁻⁶`. -/
theorem save_load_asig (v : List ℚ) (dt : ℚ) (label : String) (hl : NoLineBreak label) (load_label : Bool)
    (m : ℚ) :
    ∃ r, load_asig (saveText v dt label) load_label m = .ok r ∧ r.ty = .AccSignal ∧
      r.label = (if load_label then label else "m1") ∧
      r.values.length = v.length ∧ |r.dt - dt| ≤ 1 / 2 / (10 : ℚ) ^ 4 ∧
      ∀ i (h : i < v.length) (h' : i < r.values.length),
        |r.values[i] - m * v[i]| ≤ |m| * (1 / 2 / (10 : ℚ) ^ 6) := by
  refine ⟨⟨.AccSignal, (v.map (fun x => written x 6)).map (· * m), written dt 4,
    if load_label then label else defaultLabel⟩, ?_, rfl, rfl, by simp, written_close dt 4, ?_⟩
  · unfold load_asig
    rw [loadText_saveText v dt label hl, firstLine_saveText v dt label hl]
    cases load_label <;> rfl
  · intro i h h'
    simp only [List.getElem_map]
    have e : written v[i] 6 * m - m * v[i] = m * (written v[i] 6 - v[i]) := by ring
    rw [e, abs_mul]
    exact mul_le_mul_of_nonneg_left (written_close _ 6) (abs_nonneg m)

example : load_asig (saveText [3 / 2, -3 / 128] (12 : ℚ) "a, b # c") true 2 =
      .ok ⟨.AccSignal, [3, -11719 / 250000], 12, "a, b # c"⟩ ∧
    load_asig (saveText [3 / 2] (12 : ℚ) "a, b # c") false 2 = .ok ⟨.AccSignal, [3], 12, "m1"⟩ := by
  decide +kernel

/-- C16.b for `load_signal(ffp, astype)` with a requested type: the requested object, label `'m1'`, `n` points,
    `|dt' − dt| ≤ ½·10⁻⁴`, `|v'ᵢ − vᵢ| ≤ ½·10⁻⁶`. -/
theorem save_load_signal (v : List ℚ) (dt : ℚ) (label : String) (hl : NoLineBreak label)
    (astype : String) (ty : SigType)
    (hty : (astype = "signal" ∧ ty = .Signal) ∨ (astype = "acc_sig" ∧ ty = .AccSignal)) :
    ∃ r, load_signal (saveText v dt label) astype = .ok (some r) ∧ r.ty = ty ∧ r.label = "m1" ∧
      r.values.length = v.length ∧ |r.dt - dt| ≤ 1 / 2 / (10 : ℚ) ^ 4 ∧
      ∀ i (h : i < v.length) (h' : i < r.values.length), |r.values[i] - v[i]| ≤ 1 / 2 / (10 : ℚ) ^ 6 := by
  refine ⟨⟨ty, v.map (fun x => written x 6), written dt 4, defaultLabel⟩, ?_, rfl, rfl,
    by simp, written_close dt 4, ?_⟩
  · unfold load_signal; rw [loadText_saveText v dt label hl]
    rcases hty with ⟨rfl, rfl⟩ | ⟨rfl, rfl⟩
    · rfl
    · dsimp only; rw [if_neg (by decide), if_pos rfl]
  · intro i h h'
    simp only [List.getElem_map]
    exact written_close _ 6

example : load_signal (saveText [3 / 2, -3 / 128] (1 : ℚ) "x") "acc_sig" =
    .ok (some ⟨.AccSignal, [3 / 2, -11719 / 500000], 1, "m1"⟩) := by decide +kernel

/-- object-level round trip through `save_signal`: for a signal object `s` (label without line breaks),
    `load_asig(save_signal(s), load_label=True)` gives back type, label, length, `dt` to `½·10⁻⁴`, values to
    `½·10⁻⁶`. -/
theorem save_signal_load_asig (s : Loaded) (hl : NoLineBreak s.label) :
    ∃ r, load_asig (save_signal s) true 1 = .ok r ∧ r.ty = .AccSignal ∧ r.label = s.label ∧
      r.values.length = s.values.length ∧ |r.dt - s.dt| ≤ 1 / 2 / (10 : ℚ) ^ 4 ∧
      ∀ i (h : i < s.values.length) (h' : i < r.values.length),
        |r.values[i] - s.values[i]| ≤ 1 / 2 / (10 : ℚ) ^ 6 := by
  obtain ⟨r, h1, h2, h3, h4, h5, h6⟩ := save_load_asig s.values s.dt s.label hl true 1
  refine ⟨r, h1, h2, by simpa using h3, h4, h5, ?_⟩
  intro i h h'
  have := h6 i h h'
  simpa using this

example : load_asig (save_signal ⟨.AccSignal, [1 / 3, -2], 1 / 50, "rec 7"⟩) true 1 =
    .ok ⟨.AccSignal, [333333 / 1000000, -2], 1 / 50, "rec 7"⟩ := by decide +kernel

/-! ## C16.c — returned type per entry point -/

/-- C16.c: `load_sig` returns a `Signal` whenever it returns. -/
theorem load_sig_type (text : String) (m : ℚ) (r : Loaded) (h : load_sig text m = .ok r) : r.ty = .Signal := by
  unfold load_sig at h
  split at h
  · cases h
  · cases h; rfl

example : (load_sig "l\n1 0.5\n2.5" 3).map (·.ty) = .ok .Signal := by decide +kernel

/-- C16.c: `load_asig` returns an `AccSignal` whenever it returns. -/
theorem load_asig_type (text : String) (ll : Bool) (m : ℚ) (r : Loaded) (h : load_asig text ll m = .ok r) :
    r.ty = .AccSignal := by
  unfold load_asig at h
  split at h
  · cases h
  · split at h
    · split at h
      · cases h
      · cases h; rfl
    · cases h; rfl

example : (load_asig "l\n1 0.5\n2.5" true 3).map (·.ty) = .ok .AccSignal := by decide +kernel

/-- C16.c: `load_signal` — the table of returned types.  On a loadable file: `'signal'` → `Signal`,
    `'acc_sig'` → `AccSignal`, and any other `astype` — in particular the **default** `'sig'` — returns `None`
    (observation: the default matches neither branch). -/
theorem load_signal_type (text : String) (vals : List ℚ) (dt : ℚ) (h : loadText text = .ok (vals, dt)) :
    load_signal text "signal" = .ok (some ⟨.Signal, vals, dt, "m1"⟩) ∧
    load_signal text "acc_sig" = .ok (some ⟨.AccSignal, vals, dt, "m1"⟩) ∧
    load_signal text = .ok none ∧
    ∀ astype, astype ≠ "signal" → astype ≠ "acc_sig" → load_signal text astype = .ok none := by
  unfold load_signal
  rw [h]
  refine ⟨rfl, ?_, ?_, ?_⟩
  · dsimp only; rw [if_neg (by decide), if_pos rfl]; rfl
  · dsimp only; rw [if_neg (by decide), if_neg (by decide)]
  · intro a h1 h2
    dsimp only; rw [if_neg h1, if_neg h2]

example : loadText "l\n1 0.5\n2.5" = .ok ([5 / 2], 1 / 2) ∧ load_signal "l\n1 0.5\n2.5" = .ok none ∧
    load_signal "l\n1 0.5\n2.5" "signal" = .ok (some ⟨.Signal, [5 / 2], 1 / 2, "m1"⟩) := by decide +kernel

/-- C16.c: an exception of `load_values_and_dt` propagates unchanged through every entry point. -/
theorem load_error_propagates (text : String) (e : ErrKind) (h : loadText text = .error e)
    (m : ℚ) (ll : Bool) (astype : String) :
    load_sig text m = .error e ∧ load_asig text ll m = .error e ∧ load_signal text astype = .error e := by
  unfold load_sig load_asig load_signal
  rw [h]
  exact ⟨rfl, rfl, rfl⟩

example : loadText "only a label" = .error .IndexError ∧ loadText "l\n1 x\n2.5" = .error .ValueError ∧
    loadText "l\n1 0.5\nabc" = .error .ValueError := by decide +kernel

end EqsigVerif.Props.C16
