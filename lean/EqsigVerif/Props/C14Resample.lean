import EqsigVerif.Model.Resample
import EqsigVerif.Lemmas.Cplx
import EqsigVerif.Lemmas.CplxC
import EqsigVerif.Lemmas.Resample
/-!
# C14.f — periodic (Fourier) resampling reproduces band-limited periodic signals exactly

Model: `Model/Resample.lean` (`scipy.signal.resample(x, num)`, two-sided branch, no window), the last step of
`eqsig.fns.time_step.resample_to_approx_dt` (the length `num = new_npts` handed to it is
`Model.TimeStep.resampleNpts`, C14.a).  `fft/ifft` are the defining sums `Cplx.dft/idft` over Mathlib's `ℂ`
with the twiddles `twC N m = e^{-2πi m/N}` — external assumption **FftIsDft** (DESIGN §3.3); rounding is
outside the statement (exact complex arithmetic).
-/
set_option linter.unusedSectionVars false
set_option linter.unusedVariables false
namespace EqsigVerif.Props.C14
open EqsigVerif EqsigVerif.Cplx EqsigVerif.Wire EqsigVerif.Model.Resample Complex Finset

/-- **C14.f** (band-limited exactness).  Let the record of `N` samples be a trigonometric polynomial that is
periodic over the record, `x_j = Σ_{|k| ≤ K} c_k e^{2πi k j/N}`, with highest harmonic `K` strictly below the
old *and* the new Nyquist frequency (`2K < N`, `2K < num`; arbitrary complex coefficients, in particular every
real record of that band).  Then `scipy.signal.resample(x, num)` returns `num` samples, and they are the
*same* trigonometric polynomial sampled on the new grid: `y_m = Σ_{|k| ≤ K} c_k e^{2πi k m/num}` — up- and
down-sampling, odd and even lengths alike. -/
theorem resample_bandlimited (c : ℤ → ℂ) (K N num : ℕ) (hKN : 2 * K < N) (hKn : 2 * K < num)
    (x : List ℂ) (hlen : x.length = N)
    (hx : ∀ j, j < N →
      x.getD j 0 = ∑ k ∈ Icc (-(K : ℤ)) K, c k * cexp (2 * Real.pi * I * k * j / N)) :
    resample (α := ℝ) twC x num = .ok (resampleFourier (α := ℝ) twC x num) ∧
    (resampleFourier (α := ℝ) twC x num).length = num ∧
    ∀ m, m < num →
      (resampleFourier (α := ℝ) twC x num).getD m 0
        = ∑ k ∈ Icc (-(K : ℤ)) K, c k * cexp (2 * Real.pi * I * k * m / num) := by
  have hX : ∀ b, b < N → (dft twC x N).getD b 0 = bins c K N (N : ℂ) b :=
    dft_trigPoly c K N x (fun j hj => by rw [hx j hj, trigPoly_eq])
  refine ⟨by simp [resample, hlen, show num ≠ 0 by omega, show N ≠ 0 by omega],
    by simp [resampleFourier], fun m hm => ?_⟩
  rw [resample_of_spectrum c K N num (by omega) (by omega) (by omega) (by omega) (fun h => by omega)
    x hlen hX m hm, trigPoly_eq]

/-- non-vacuity: the real record `x_j = 2 + 2·cos(πj/2) = [4, 2, 0, 2]` (`N = 4`, `K = 1`,
`c₀ = 2, c_{±1} = 1`) satisfies the hypotheses, for up-sampling to `num = 8` and down-sampling to `num = 3` -/
example : 2 * 1 < 4 ∧ 2 * 1 < 8 ∧ 2 * 1 < 3 ∧ ([4, 2, 0, 2] : List ℂ).length = 4 ∧
    ∀ j, j < 4 → ([4, 2, 0, 2] : List ℂ).getD j 0 =
      ∑ k ∈ Icc (-((1 : ℕ) : ℤ)) (1 : ℕ),
        (if k = 0 then (2 : ℂ) else 1) * cexp (2 * Real.pi * I * k * j / (4 : ℕ)) := by
  refine ⟨by omega, by omega, by omega, rfl, ?_⟩
  intro j hj
  have hI : Icc (-((1 : ℕ) : ℤ)) (1 : ℕ) = {-1, 0, 1} := by decide
  simp only [exp_quarter_zpow, hI]
  interval_cases j <;> norm_num [Finset.sum_insert, zpow_neg, Complex.inv_I]

/-- **C14.f** (band limit *at* a Nyquist frequency).  The exactness of `resample_bandlimited` extends to the
closed band `2K ≤ N`, `2K ≤ num`:
* down-sampling to an even `num = 2K` (harmonic `K` exactly at the NEW Nyquist frequency): exact — SciPy unites
  the bins `K` and `N − K` (`Y[-m//2] += X[-m//2]`), and `c_K e^{iπm} + c_{−K} e^{−iπm} = (c_K + c_{−K})(−1)^m`;
* up-sampling from an even `N = 2K` (harmonic `K` exactly at the OLD Nyquist frequency): exact provided the
  component there is a cosine, `c_{−K} = c_K` (the samples only determine `c_K + c_{−K}`; SciPy splits the bin in
  halves: `Y[m//2] /= 2; Y[num-m//2] = Y[m//2]`);
* `num = N`: always (see `resample_same_length`). -/
theorem resample_bandlimited_closed (c : ℤ → ℂ) (K N num : ℕ) (hN : 1 ≤ N) (hn : 1 ≤ num)
    (hKN : 2 * K ≤ N) (hKn : 2 * K ≤ num)
    (hc : 2 * K = N → N < num → c (-(K : ℤ)) = c K)
    (x : List ℂ) (hlen : x.length = N)
    (hx : ∀ j, j < N →
      x.getD j 0 = ∑ k ∈ Icc (-(K : ℤ)) K, c k * cexp (2 * Real.pi * I * k * j / N)) :
    resample (α := ℝ) twC x num = .ok (resampleFourier (α := ℝ) twC x num) ∧
    (resampleFourier (α := ℝ) twC x num).length = num ∧
    ∀ m, m < num →
      (resampleFourier (α := ℝ) twC x num).getD m 0
        = ∑ k ∈ Icc (-(K : ℤ)) K, c k * cexp (2 * Real.pi * I * k * m / num) := by
  have hX : ∀ b, b < N → (dft twC x N).getD b 0 = bins c K N (N : ℂ) b :=
    dft_trigPoly c K N x (fun j hj => by rw [hx j hj, trigPoly_eq])
  refine ⟨by simp [resample, hlen, show num ≠ 0 by omega, show N ≠ 0 by omega],
    by simp [resampleFourier], fun m hm => ?_⟩
  rw [resample_of_spectrum c K N num hN hn hKN hKn hc x hlen hX m hm, trigPoly_eq]

/-- non-vacuity, up-sampling boundary: `x_j = 1 + 2·cos(πj/2) + 2·cos(πj) = [5, −1, 1, −1]`, `N = 4 = 2K`,
`c_k = 1` (so `c_{−2} = c_2`: a cosine at the old Nyquist frequency), `num = 6` -/
example : 1 ≤ 4 ∧ 1 ≤ 6 ∧ 2 * 2 ≤ 4 ∧ 2 * 2 ≤ 6 ∧ ([5, -1, 1, -1] : List ℂ).length = 4 ∧
    (∀ j, j < 4 → ([5, -1, 1, -1] : List ℂ).getD j 0 =
      ∑ k ∈ Icc (-((2 : ℕ) : ℤ)) (2 : ℕ), (fun _ => (1 : ℂ)) k * cexp (2 * Real.pi * I * k * j / (4 : ℕ))) ∧
    (2 * 2 = 4 → 4 < 6 → (fun _ : ℤ => (1 : ℂ)) (-((2 : ℕ) : ℤ)) = (fun _ : ℤ => (1 : ℂ)) (2 : ℕ)) := by
  refine ⟨by omega, by omega, by omega, by omega, rfl, ?_, fun _ _ => rfl⟩
  intro j hj
  have hI : Icc (-((2 : ℕ) : ℤ)) (2 : ℕ) = {-2, -1, 0, 1, 2} := by decide
  have h6 : (I : ℂ) ^ 6 = -1 := by rw [show 6 = 2 * 3 from rfl, pow_mul, I_sq]; norm_num
  simp only [exp_quarter_zpow, hI]
  interval_cases j <;> norm_num [Finset.sum_insert, zpow_neg, Complex.inv_I, zpow_ofNat, h6]

/-- non-vacuity, down-sampling boundary: `x_j = 2 + 2·cos(πj/2) = [4, 2, 0, 2]` (`N = 4`, `K = 1`) down to
`num = 2 = 2K` samples (harmonic 1 exactly at the new Nyquist frequency; the side condition is vacuous) -/
example : 1 ≤ 4 ∧ 1 ≤ 2 ∧ 2 * 1 ≤ 4 ∧ 2 * 1 ≤ 2 ∧ ([4, 2, 0, 2] : List ℂ).length = 4 ∧
    (∀ j, j < 4 → ([4, 2, 0, 2] : List ℂ).getD j 0 =
      ∑ k ∈ Icc (-((1 : ℕ) : ℤ)) (1 : ℕ),
        (if k = 0 then (2 : ℂ) else 1) * cexp (2 * Real.pi * I * k * j / (4 : ℕ))) ∧
    (2 * 1 = 4 → 4 < 2 → (if (-((1 : ℕ) : ℤ)) = 0 then (2 : ℂ) else 1) = (if ((1 : ℕ) : ℤ) = 0 then (2 : ℂ) else 1)) := by
  refine ⟨by omega, by omega, by omega, by omega, rfl, ?_, fun h => by omega⟩
  intro j hj
  have hI : Icc (-((1 : ℕ) : ℤ)) (1 : ℕ) = {-1, 0, 1} := by decide
  simp only [exp_quarter_zpow, hI]
  interval_cases j <;> norm_num [Finset.sum_insert, zpow_neg, Complex.inv_I]

/-- **C14.f** (a cosine exactly at the old Nyquist frequency, up-sampling).  The record `x_j = a·cos(πj) = a·(−1)^j`
of even length `N = 2P` is reproduced on every finer grid `num > N` as the cosine of the same frequency,
`y_m = a·cos(π·N·m/num)` — the Nyquist bin is split in two halves. -/
theorem resample_nyquist_cosine (a : ℂ) (P num : ℕ) (hP : 1 ≤ P) (hup : 2 * P < num)
    (x : List ℂ) (hlen : x.length = 2 * P) (hx : ∀ j, j < 2 * P → x.getD j 0 = a * (-1) ^ j) :
    (resampleFourier (α := ℝ) twC x num).length = num ∧
    ∀ m, m < num →
      (resampleFourier (α := ℝ) twC x num).getD m 0
        = a * Complex.cos (Real.pi * ((2 * P : ℕ) : ℂ) * m / num) := by
  have hn0 : (num : ℂ) ≠ 0 := by exact_mod_cast (by omega : num ≠ 0)
  obtain ⟨_, h2, h3⟩ := resample_bandlimited_closed
    (fun k => if k = (P : ℤ) ∨ k = -(P : ℤ) then a / 2 else 0) P (2 * P) num (by omega) (by omega)
    (by omega) (by omega) (fun _ _ => by simp) x hlen (fun j hj => by
      rw [hx j hj, sum_pm P hP, exp_nyquist P j hP, exp_nyquist_neg P j hP]; ring)
  refine ⟨h2, fun m hm => ?_⟩
  rw [h3 m hm, sum_pm P hP, Complex.cos, ← mul_add]
  have e1 : (2 * Real.pi * I * (((P : ℕ) : ℤ) : ℂ) * m / num) = Real.pi * ((2 * P : ℕ) : ℂ) * m / num * I := by
    push_cast; ring
  have e2 : (2 * Real.pi * I * ((-((P : ℕ) : ℤ) : ℤ) : ℂ) * m / num)
      = -(Real.pi * ((2 * P : ℕ) : ℂ) * m / num) * I := by
    push_cast; ring
  rw [e1, e2]
  ring

/-- non-vacuity: `x = [3, −3, 3, −3]` (`a = 3`, `P = 2`) up-sampled to `num = 6` -/
example : 1 ≤ 2 ∧ 2 * 2 < 6 ∧ ([3, -3, 3, -3] : List ℂ).length = 2 * 2 ∧
    ∀ j, j < 2 * 2 → ([3, -3, 3, -3] : List ℂ).getD j 0 = 3 * (-1) ^ j := by
  refine ⟨by omega, by omega, rfl, ?_⟩
  intro j hj
  interval_cases j <;> norm_num

/-- **C14.f** (unchanged length).  `scipy.signal.resample(x, len(x)) = x` for every non-empty record
(no band condition): the spectrum is copied bin by bin, nothing is united or split, `s_fac = 1`. -/
theorem resample_same_length (x : List ℂ) (hx : 1 ≤ x.length) :
    resample (α := ℝ) twC x x.length = .ok x := by
  have hN0 : x.length ≠ 0 := by omega
  simp only [resample, hN0, if_false]
  rw [resampleFourier_same x hx]

example : resample (α := ℝ) twC [3, -1, 4, 1, -5] 5 = .ok [3, -1, 4, 1, -5] :=
  resample_same_length _ (by simp)

/-- **C14.f** (up-sampling, ANY record — no band condition).  A record of `N` samples is always the sampling of
exactly one *balanced* trigonometric polynomial of degree `⌊N/2⌋` (`c_{−N/2} = c_{N/2}` for even `N`: a cosine at
the Nyquist frequency); for every `num ≥ N`, `scipy.signal.resample(x, num)` is that same polynomial sampled on
the finer grid.  (Existence is stated; the coefficients are `c_k = X_{k mod N}/N`, halved at `|k| = N/2`.) -/
theorem resample_upsample_interpolant (x : List ℂ) (N num : ℕ) (hN : 1 ≤ N) (hlen : x.length = N)
    (hup : N ≤ num) :
    ∃ c : ℤ → ℂ,
      (2 * (N / 2) = N → c (-((N / 2 : ℕ) : ℤ)) = c ((N / 2 : ℕ) : ℤ)) ∧
      (∀ j, j < N → x.getD j 0
        = ∑ k ∈ Icc (-((N / 2 : ℕ) : ℤ)) (N / 2 : ℕ), c k * cexp (2 * Real.pi * I * k * j / N)) ∧
      (∀ m, m < num → (resampleFourier (α := ℝ) twC x num).getD m 0
        = ∑ k ∈ Icc (-((N / 2 : ℕ) : ℤ)) (N / 2 : ℕ), c k * cexp (2 * Real.pi * I * k * m / num)) := by
  have hsym : 2 * (N / 2) = N → coef x (-((N / 2 : ℕ) : ℤ)) = coef x ((N / 2 : ℕ) : ℤ) :=
    fun h => coef_symm x (N / 2) (by omega) (by omega)
  refine ⟨coef x, hsym, fun j hj => ?_, fun m hm => ?_⟩
  · rw [record_eq_trigPoly x N hN hlen j hj, trigPoly_eq]
  · rw [resample_of_spectrum (coef x) (N / 2) N num hN (by omega) (by omega) (by omega)
      (fun h _ => hsym h) x hlen (dft_bins_coef x N hlen) m hm, trigPoly_eq]

example : 1 ≤ 5 ∧ ([3, -1, 4, 1, -5] : List ℂ).length = 5 ∧ 5 ≤ 8 := by simp

/-- **C14.f** (retained samples).  Refining by an integer factor `r` (what `resample_to_approx_dt` does for
`target_dt < dt` whenever `r·npts` is even or `even=False`) keeps every original sample at its instant:
`resample(x, r·N)[r·j] = x[j]` for every record, band-limited or not — the Fourier analogue of C14.b. -/
theorem resample_retains_samples (x : List ℂ) (r : ℕ) (hx : 1 ≤ x.length) (hr : 1 ≤ r)
    (j : ℕ) (hj : j < x.length) :
    (resampleFourier (α := ℝ) twC x (r * x.length)).length = r * x.length ∧
    (resampleFourier (α := ℝ) twC x (r * x.length)).getD (r * j) 0 = x.getD j 0 := by
  refine ⟨by simp [resampleFourier], ?_⟩
  have h1 : x.length ≤ r * x.length := Nat.le_mul_of_pos_left _ hr
  have h2 : r * j < r * x.length := Nat.mul_lt_mul_of_pos_left hj hr
  rw [resample_of_spectrum (coef x) (x.length / 2) x.length (r * x.length) hx (by omega) (by omega)
      (by omega) (fun h _ => coef_symm x (x.length / 2) (by omega) (by omega)) x rfl
      (dft_bins_coef x x.length rfl) (r * j) h2,
    trigPoly_refine _ _ _ _ _ hx hr, ← record_eq_trigPoly x x.length hx rfl j hj]

example : 1 ≤ ([3, -1, 4, 1, -5] : List ℂ).length ∧ 1 ≤ 2 ∧ 3 < ([3, -1, 4, 1, -5] : List ℂ).length := by
  simp

/-- **C14.f** (complete description, ANY record and ANY new length).  With `c` the coefficients of the record's
balanced trigonometric interpolant (degree `⌊N/2⌋`), `scipy.signal.resample(x, num)` is that polynomial *truncated to
the harmonics `|k| ≤ ⌊min(num, N)/2⌋`* and sampled on the new grid: nothing is lost when up-sampling; when
down-sampling exactly the harmonics above the new Nyquist frequency are removed (ideal anti-aliasing filter), the
others are kept unchanged — in particular a record band-limited below the new Nyquist frequency is reproduced. -/
theorem resample_truncated_interpolant (x : List ℂ) (N num : ℕ) (hN : 1 ≤ N) (hn : 1 ≤ num)
    (hlen : x.length = N) :
    ∃ c : ℤ → ℂ,
      (2 * (N / 2) = N → c (-((N / 2 : ℕ) : ℤ)) = c ((N / 2 : ℕ) : ℤ)) ∧
      (∀ j, j < N → x.getD j 0
        = ∑ k ∈ Icc (-((N / 2 : ℕ) : ℤ)) (N / 2 : ℕ), c k * cexp (2 * Real.pi * I * k * j / N)) ∧
      (∀ m, m < num → (resampleFourier (α := ℝ) twC x num).getD m 0
        = ∑ k ∈ Icc (-((min num N / 2 : ℕ) : ℤ)) (min num N / 2 : ℕ),
            c k * cexp (2 * Real.pi * I * k * m / num)) := by
  refine ⟨coef x, fun h => coef_symm x (N / 2) (by omega) (by omega), fun j hj => ?_, fun m hm => ?_⟩
  · rw [record_eq_trigPoly x N hN hlen j hj, trigPoly_eq]
  · rw [resample_truncated x N num hN hn hlen m hm, trigPoly_eq]

example : 1 ≤ 5 ∧ 1 ≤ 3 ∧ ([3, -1, 4, 1, -5] : List ℂ).length = 5 := by simp

/-- **C14.f** (real records).  A real record is resampled to a real record: the imaginary parts of the two-sided
(`fft/ifft`) branch that the model transcribes vanish, so its real parts `resampleReal` — what SciPy's `rfft/irfft`
branch returns for a real array — are the whole result. -/
theorem resample_real_of_real (x : List ℂ) (num : ℕ) (hx : 1 ≤ x.length) (hn : 1 ≤ num)
    (hreal : ∀ j, (x.getD j 0).im = 0) (m : ℕ) (hm : m < num) :
    ((resampleFourier (α := ℝ) twC x num).getD m 0).im = 0 ∧
    (resampleFourier (α := ℝ) twC x num).getD m 0
      = (((resampleReal (α := ℝ) twC x num).getD m 0 : ℝ) : ℂ) := by
  have him : ((resampleFourier (α := ℝ) twC x num).getD m 0).im = 0 :=
    Complex.conj_eq_iff_im.mp (resample_real x x.length num hx hn rfl
      (fun j => Complex.conj_eq_iff_im.mpr (hreal j)) m hm)
  refine ⟨him, ?_⟩
  have hl : m < (resampleFourier (α := ℝ) twC x num).length := by simpa [resampleFourier] using hm
  have hre : (resampleReal (α := ℝ) twC x num).getD m 0
      = ((resampleFourier (α := ℝ) twC x num).getD m 0).re := by
    simp only [resampleReal, List.getD_eq_getElem?_getD, List.getElem?_map, List.getElem?_eq_getElem hl,
      Option.map_some, Option.getD_some, cxlike_re]
  rw [hre]
  exact Complex.ext (by rw [Complex.ofReal_re]) (by rw [Complex.ofReal_im, him])

example : 1 ≤ ([3, -1, 4, 1, -5] : List ℂ).length ∧ 1 ≤ 8 ∧
    ∀ j, (([3, -1, 4, 1, -5] : List ℂ).getD j 0).im = 0 := by
  refine ⟨by simp, by omega, ?_⟩
  intro j
  rcases j with _ | _ | _ | _ | _ | j <;> simp

end EqsigVerif.Props.C14
