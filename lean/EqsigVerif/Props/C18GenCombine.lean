import EqsigVerif.Gen.ClusterFns
import EqsigVerif.Lemmas.Rest2
import EqsigVerif.Props.C18Combine
/-!
# C18 — translator tie: the `Cluster` helpers of `eqsig/multiple.py` REGENERATED from the source

`Gen/ClusterFns.lean` (plug-in `tools/py2lean_x_rest2.py::gen_cluster`): the three accessors (`list(self.signals.items())[index][k]`), `combine_motions`
(WHICH index is filtered by WHICH `butter_pass(cut_off=…)` in WHICH order, in place; the final sum with NumPy broadcasting), the loop of
`generate_response_spectrums`, and `calculate_ratios` (the attribute `self.motions` that the class does not define).
-/
set_option linter.unusedSectionVars false
set_option linter.unusedVariables false
namespace EqsigVerif.Props.C18
open EqsigVerif EqsigVerif.Wire EqsigVerif.Np EqsigVerif.NpV EqsigVerif.Model.Single3

/-- **bridge** `Cluster.values_by_index` (and `signal_by_index`, the same subscript) -/
theorem gen_valuesByIndex (signals : List (List ℚ)) (index : Int) :
    Gen.ClusterFns.valuesByIndex signals index = valuesByIndex signals index ∧
    Gen.ClusterFns.signalByIndex signals index = valuesByIndex signals index := by
  unfold Gen.ClusterFns.valuesByIndex Gen.ClusterFns.signalByIndex valuesByIndex
  constructor <;> (cases NpR.pyGetE signals index <;> rfl)

example : Gen.ClusterFns.valuesByIndex [[1, 2], [3, 4, 5]] (-1) = .ok [3, 4, 5] ∧ Gen.ClusterFns.signalByIndex [[1, 2], [3, 4, 5]] 2 = .error .IndexError := by
  decide +kernel

/-- **bridge** `Cluster.name_by_index`: the same Python subscript on the keys -/
theorem gen_nameByIndex (names : List String) (index : Int) : Gen.ClusterFns.nameByIndex names index = NpR.pyGetE names index := by
  unfold Gen.ClusterFns.nameByIndex
  cases NpR.pyGetE names index <;> rfl

example : Gen.ClusterFns.nameByIndex ["m0", "m1"] (-2) = .ok "m0" ∧ Gen.ClusterFns.nameByIndex ["m0", "m1"] 2 = .error .IndexError := by decide +kernel

/-- the in-place store of the generated code = the model's `pyPos` / `List.set` -/
theorem pySet_eq {γ : Type} (l : List γ) (i : Int) (v : γ) :
    NpW.pySet l i v = (match pyPos l.length i with | some k => l.set k v | none => l) := by
  unfold NpW.pySet pyPos
  simp only []
  split_ifs <;> first | rfl | (exact List.set_eq_of_length_le (by omega)) | (exfalso; omega)

theorem zipBE_add (a b : List ℚ) : NpF.zipBE (fun x y => x + y) a b = addBroadcastE a b := by
  unfold NpF.zipBE addBroadcastE Np.addL
  split_ifs
  · rfl
  · rcases a with _ | ⟨x, _ | _⟩ <;> rcases b with _ | ⟨y, _ | _⟩ <;> rfl

/-- **bridge** `Cluster.combine_motions`: generated = hand model for all clusters, indices (negative ones, out of range, equal) and filter outcomes -/
theorem gen_combineMotions (hp lp : List ℚ → Except ErrKind (List ℚ)) (signals : List (List ℚ)) (lo hi : Int) :
    Gen.ClusterFns.combineMotions hp lp signals lo hi = combineMotions hp lp signals lo hi := by
  unfold Gen.ClusterFns.combineMotions combineMotions
  simp only [pySet_eq, zipBE_add]
  rfl

example : Gen.ClusterFns.combineMotions (fun x => .ok (x.map (· * 2))) (fun x => .ok (x.map (· + 1))) [[1, 2], [10, 20]] 0 1 =
    .ok ([22, 43], [[2, 3], [20, 40]]) := by decide +kernel

/-- the defaults `low_index=0, high_index=1`, `order=4`, `remove_gibbs=0` -/
theorem gen_combineMotions_defaults : Gen.ClusterFns.combineMotionsDefaults = (0, 1, 4, 0) := rfl

/-- **C18 `combine_motions_spec` transported to the generated code** (distinct valid indices: `motion = lp(rec[lo]) + hp(rec[hi])`, both records REPLACED) -/
theorem gen_combine_motions_spec (hp lp : List ℚ → Except ErrKind (List ℚ)) (signals : List (List ℚ)) (lo hi : Nat)
    (hlo : lo < signals.length) (hhi : hi < signals.length) (hne : lo ≠ hi) (h' l' : List ℚ)
    (hh : hp signals[hi] = .ok h') (hl : lp signals[lo] = .ok l') (hlen : l'.length = h'.length) :
    Gen.ClusterFns.combineMotions hp lp signals (lo : Int) (hi : Int) = .ok (addL l' h', (signals.set hi h').set lo l') := by
  rw [gen_combineMotions]; exact combine_motions_spec hp lp signals lo hi hlo hhi hne h' l' hh hl hlen

example : Gen.ClusterFns.combineMotions (fun x => .ok (x.map (· * 2))) (fun _ => .error .ValueError) [[1, 2], [10, 20]] 0 5 = .error .IndexError := by
  decide +kernel

/-- `Cluster.generate_response_spectrums()`: returns iff every signal's `generate_response_spectrum()` does; otherwise the exception of the FIRST
failing signal -/
theorem gen_generateResponseSpectrums (gen : Nat → Except ErrKind Unit) (n : Nat) :
    ((∀ i, i < n → gen i = .ok ()) → Gen.ClusterFns.generateResponseSpectrums gen n = .ok ()) ∧
    (∀ k e, k < n → gen k = .error e → (∀ i, i < k → gen i = .ok ()) → Gen.ClusterFns.generateResponseSpectrums gen n = .error e) := by
  unfold Gen.ClusterFns.generateResponseSpectrums NpP.forRangeE
  simp only [Nat.sub_zero]
  have key : ∀ (m a : Nat), ((∀ i, a ≤ i → i < a + m → gen i = .ok ()) → NpP.forCountFrom (fun (_ : Unit) i => gen i) a m () = .ok ()) ∧
      (∀ k e, a ≤ k → k < a + m → gen k = .error e → (∀ i, a ≤ i → i < k → gen i = .ok ()) →
        NpP.forCountFrom (fun (_ : Unit) i => gen i) a m () = .error e) := by
    intro m
    induction m with
    | zero => intro a; exact ⟨fun _ => rfl, fun k e h1 h2 => by omega⟩
    | succ m ih =>
      intro a
      constructor
      · intro h
        simp only [NpP.forCountFrom, h a (by omega) (by omega)]
        exact (ih (a + 1)).1 (fun i h1 h2 => h i (by omega) (by omega))
      · intro k e h1 h2 hk hb
        by_cases hka : k = a
        · subst hka; simp only [NpP.forCountFrom, hk]
        · simp only [NpP.forCountFrom, hb a (by omega) (by omega)]
          exact (ih (a + 1)).2 k e (by omega) (by omega) hk (fun i h3 h4 => hb i (by omega) h4)
  constructor
  · intro h; exact (key n 0).1 (fun i _ h2 => h i (by omega))
  · intro k e h1 h2 h3; exact (key n 0).2 k e (by omega) (by omega) h2 (fun i _ h4 => h3 i h4)

example : Gen.ClusterFns.generateResponseSpectrums (fun i => if i = 1 then .error .AttributeError else .ok ()) 3 = .error .AttributeError ∧
    Gen.ClusterFns.generateResponseSpectrums (fun _ => .ok ()) 3 = .ok () := by decide +kernel

/-- **bridge** `Cluster.calculate_ratios` -/
theorem gen_calculateRatios (spectra : Except ErrKind Unit) : Gen.ClusterFns.calculateRatios spectra = calculateRatios spectra := by
  unfold Gen.ClusterFns.calculateRatios calculateRatios
  cases spectra <;> rfl

/-- **C18 `calculate_ratios_never_returns` transported**: the generated method never returns -/
theorem gen_calculate_ratios_never_returns (spectra : Except ErrKind Unit) : Gen.ClusterFns.calculateRatios spectra ≠ .ok () := by
  rw [gen_calculateRatios]
  unfold calculateRatios
  cases spectra <;> simp [bind, Except.bind]

example : Gen.ClusterFns.calculateRatios (.ok ()) = .error .AttributeError ∧ Gen.ClusterFns.calculateRatiosMissingAttr = "motions" := by decide +kernel

end EqsigVerif.Props.C18
