import EqsigVerif.Model.Peaks
import EqsigVerif.Lemmas.Peaks
/-!
# C13 (a–c) — Peak-only series conserve total variation

Samples are read with the total accessor `v.getD i 0` (all indices that occur are `< v.length`).
`sign` is the model's `np.sign`; `firstMove v = v[P[1]] - v[P[0]]` with `P = peaks v`.
-/
namespace EqsigVerif.Props.C13
open EqsigVerif.Model.Peaks EqsigVerif.Lemmas.Peaks

/-- **C13.a** For a non-constant series `determine_peaks_only_delta_series` returns (no exception) a series `δ` of the
record's length that is zero away from `peaks v`, is `0` at the first reported index and, at the `(k+1)`-th reported
index, equals `sign(first movement) · (v[P[k+1]] − v[P[k]])` (so the first non-zero entry is positive);
`Σ|δ|` is the total variation `Σ|v[i+1] − v[i]|`, and `|Σ δ| = |v[last] − v[0]|`. -/
theorem delta_series_spec (v : List ℚ) (hv : NonConstant v) :
    ∃ δ, deltaSeries v = .ok δ ∧ δ.length = v.length ∧
      (∀ i, i ∉ peaks v → δ.getD i 0 = 0) ∧
      δ.getD ((peaks v).getD 0 0) 0 = 0 ∧
      (∀ k, k + 1 < (peaks v).length →
        δ.getD ((peaks v).getD (k+1) 0) 0 =
          sign (firstMove v) * (v.getD ((peaks v).getD (k+1) 0) 0 - v.getD ((peaks v).getD k 0) 0)) ∧
      (δ.map (fun x => |x|)).sum = (List.zipWith (fun a b => |b - a|) v v.tail).sum ∧
      |δ.sum| = |v.getD (v.length - 1) 0 - v.getD 0 0| := by
  have hl := peaks_length_ge v
  have hlen := diffs0_pvs_length v
  refine ⟨_, deltaSeries_eq v hv, series2_length _ _, fun i hi => series2_getD_not_mem _ _ hv i hi, ?_, ?_, ?_, ?_⟩
  · have := series2_getD_pd v _ hv hlen 0 (by omega)
    rw [show (peaks v).getD 0 0 = pd v 0 from rfl, this]; rfl
  · intro k hk
    have := series2_getD_pd v _ hv hlen (k+1) hk
    rw [show (peaks v).getD (k+1) 0 = pd v (k+1) from rfl, this, diffs0_getD_succ _ k (by simpa using hk),
      pvs_getD v hv (k+1) hk, pvs_getD v hv k (by omega), ← sgn1_eq v hv]
    unfold at' pd; ring
  · rw [series2_sum_map (fun x => |x|) abs_zero v _ hv hlen, sum_abs_diffs0]
    unfold pvs
    rw [tv_pv v hv, tv_eq_zipWith]
  · have := series2_sum_map id rfl v _ hv hlen
    simp only [List.map_id] at this
    rw [this, sum_diffs0 _ (pvs_ne_nil v), pvs_head v hv, pvs_last v hv, sub_zero, abs_sgn1_mul v hv]
    rfl

example : NonConstant [3, 5, 4, 4, 6, 1] ∧ deltaSeries [3, 5, 4, 4, 6, 1] = .ok [0, 2, -1, 0, 2, -5] := by
  decide +kernel

/-- **C13.c** (delta series) invariance under a constant shift of the series (any series; both sides raise the same
exception on empty/constant input). -/
theorem delta_series_shift (v : List ℚ) (c : ℚ) : deltaSeries (v.map (· + c)) = deltaSeries v :=
  peakOnlySeries_shift _ v c

example : deltaSeries (([3, 5, 4, 4, 6, 1] : List ℚ).map (· + 7)) = .ok [0, 2, -1, 0, 2, -5] := by
  decide +kernel

/-- **C13.b** For a non-constant series `determine_pseudo_cyclic_peak_only_series` returns (no exception) a series `p`
of the record's length, zero away from `peaks v`, whose entry at the `k`-th reported index is
`(-1)^(k+1) · sign(first movement) · (v[P[k]] − v[0])`, and whose sum is
`TV/2 + (v[last] − v[0]) · dir / 2`, where `TV = Σ|v[i+1] − v[i]|` and `dir = ±1` is the direction of the final
movement, `dir = sign(v[P[-1]] − v[P[-2]])`.  (Formula confirmed by brute force on 97 620 integer series first.) -/
theorem pseudo_cyclic_sum (v : List ℚ) (hv : NonConstant v) :
    ∃ p, pseudoCyclicSeries v = .ok p ∧ p.length = v.length ∧
      (∀ i, i ∉ peaks v → p.getD i 0 = 0) ∧
      (∀ k, k < (peaks v).length →
        p.getD ((peaks v).getD k 0) 0 =
          (if k % 2 = 0 then -1 else 1) * sign (firstMove v) * (v.getD ((peaks v).getD k 0) 0 - v.getD 0 0)) ∧
      p.sum = (List.zipWith (fun a b => |b - a|) v v.tail).sum / 2 +
        (v.getD (v.length - 1) 0 - v.getD 0 0) *
          sign (v.getD ((peaks v).getD ((peaks v).length - 1) 0) 0 -
                v.getD ((peaks v).getD ((peaks v).length - 2) 0) 0) / 2 := by
  have hl := peaks_length_ge v
  refine ⟨_, pseudoCyclicSeries_eq v hv, series2_length _ _, fun i hi => series2_getD_not_mem _ _ hv i hi, ?_, ?_⟩
  · intro k hk
    have := series2_getD_pd v (pseudoVals (pvs v)) hv (by simp) k hk
    rw [show (peaks v).getD k 0 = pd v k from rfl, this, pseudoVals_getD _ k (by simpa using hk),
      pvs_getD v hv k hk, ← sgn1_eq v hv]
    unfold at'
    split <;> ring
  · rw [pseudo_sum v hv, tv_eq_zipWith]
    have e : (peaks v).length - 2 + 1 = (peaks v).length - 1 := by omega
    unfold dlt pd at'
    rw [e]

example : NonConstant [3, 5, 4, 4, 6, 1] ∧ pseudoCyclicSeries [3, 5, 4, 4, 6, 1] = .ok [0, 2, -1, 0, 3, 2] := by
  decide +kernel

/-- **C13.c** (pseudo-cyclic series) invariance under a constant shift of the series. -/
theorem pseudo_cyclic_shift (v : List ℚ) (c : ℚ) : pseudoCyclicSeries (v.map (· + c)) = pseudoCyclicSeries v :=
  peakOnlySeries_shift _ v c

example : pseudoCyclicSeries (([3, 5, 4, 4, 6, 1] : List ℚ).map (· + 7)) = .ok [0, 2, -1, 0, 3, 2] := by
  decide +kernel

end EqsigVerif.Props.C13
