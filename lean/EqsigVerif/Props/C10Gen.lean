import EqsigVerif.Props.C10
import EqsigVerif.Props.C09Sem
import EqsigVerif.Gen.ImDur
/-!
# C10 — translator tie for the duration functions of `eqsig/im.py`

`Gen/ImDur.lean` is regenerated on every run by `tools/py2lean_x_im.py` from the statements of `calc_sig_dur_vals`,
`calc_sig_dur`, `calc_significant_duration`, `calc_brac_dur`, `calc_bracketed_duration`, `calc_acc_rms`, `calc_a_rms`
(one definition per value of the flag `se`; partial operations `x[-1]`, `x[0]` are binds of the `Except ErrKind` monad in
Python's evaluation order).  The hand models `Model.Im.sigDurSeries`, `sigDurVals`, `sigDur`, `bracDurSE`, `bracDur` are what
the C10 theorems talk about; the bridges below make them statements about the generated definitions (all at `ℚ`, the type of
the hand models), and the `gen_…_spec` / `gen_bounds` theorems restate C10.a / C10.b / C10.f for the generated definitions.
-/
set_option linter.unusedSectionVars false
set_option linter.unusedVariables false
namespace EqsigVerif.Props.C10
open EqsigVerif EqsigVerif.Np EqsigVerif.Wire EqsigVerif.Model.Im EqsigVerif.Lemmas.Im

/-! ## the shape the translator emits for "`np.where(lo < im < hi)[0]`, first and last index, times `dt`" -/

/-- the generated mask of both significant-duration functions is the model's `sigMask` -/
theorem gen_sig_mask (s e tot : ℚ) :
    (fun x : ℚ => decide (s * tot < x) && decide (x < e * tot)) = sigMask s e tot := rfl

/-- `se=True` shape: `tot ← im[-1]`, `i0 ← ind[0]`, `i1 ← ind[-1]`, `(i0*dt, i1*dt)` is `sigDurSeries` -/
theorem dur_shape_se (im : List ℚ) (dt s e : ℚ) :
    (do let v1 ← Gen.ImDur.pyLast im
        let v2 ← Gen.ImDur.pyFirst (whereIdx (fun x => decide (s * v1 < x) && decide (x < e * v1)) im)
        let v3 ← Gen.ImDur.pyLast (whereIdx (fun x => decide (s * v1 < x) && decide (x < e * v1)) im)
        pure ((v2 : ℚ) * dt, (v3 : ℚ) * dt) : Except ErrKind (ℚ × ℚ)) = sigDurSeries im dt s e := by
  unfold sigDurSeries Gen.ImDur.pyLast Gen.ImDur.pyFirst firstLast?
  cases im.getLast? with
  | none => rfl
  | some tot =>
    simp only [bind, Except.bind]
    rw [← gen_sig_mask s e tot]
    cases (whereIdx (fun x : ℚ => decide (s * tot < x) && decide (x < e * tot)) im).head? <;>
      cases (whereIdx (fun x : ℚ => decide (s * tot < x) && decide (x < e * tot)) im).getLast? <;> rfl

/-- `se=False` shape: the same binds, `i1*dt - i0*dt` -/
theorem dur_shape_dur (im : List ℚ) (dt s e : ℚ) :
    (do let v1 ← Gen.ImDur.pyLast im
        let v2 ← Gen.ImDur.pyFirst (whereIdx (fun x => decide (s * v1 < x) && decide (x < e * v1)) im)
        let v3 ← Gen.ImDur.pyLast (whereIdx (fun x => decide (s * v1 < x) && decide (x < e * v1)) im)
        pure ((v3 : ℚ) * dt - (v2 : ℚ) * dt) : Except ErrKind ℚ) = durOf (sigDurSeries im dt s e) := by
  unfold sigDurSeries Gen.ImDur.pyLast Gen.ImDur.pyFirst firstLast? durOf
  cases im.getLast? with
  | none => rfl
  | some tot =>
    simp only [bind, Except.bind]
    rw [← gen_sig_mask s e tot]
    cases (whereIdx (fun x : ℚ => decide (s * tot < x) && decide (x < e * tot)) im).head? <;>
      cases (whereIdx (fun x : ℚ => decide (s * tot < x) && decide (x < e * tot)) im).getLast? <;> rfl

/-- the two shapes for any mask that is *semantically* the model's `sigMask` (so that commuted products in the source,
e.g. `cum_acc2[-1] * start`, still bridge) -/
theorem dur_shape_se' (m : ℚ → ℚ → Bool) (im : List ℚ) (dt s e : ℚ) (hm : ∀ tot x, m tot x = sigMask s e tot x) :
    (do let v1 ← Gen.ImDur.pyLast im
        let v2 ← Gen.ImDur.pyFirst (whereIdx (fun x => m v1 x) im)
        let v3 ← Gen.ImDur.pyLast (whereIdx (fun x => m v1 x) im)
        pure ((v2 : ℚ) * dt, (v3 : ℚ) * dt) : Except ErrKind (ℚ × ℚ)) = sigDurSeries im dt s e := by
  have : m = fun tot x => sigMask s e tot x := by funext tot x; exact hm tot x
  subst this
  exact dur_shape_se im dt s e

theorem dur_shape_dur' (m : ℚ → ℚ → Bool) (im : List ℚ) (dt s e : ℚ) (hm : ∀ tot x, m tot x = sigMask s e tot x) :
    (do let v1 ← Gen.ImDur.pyLast im
        let v2 ← Gen.ImDur.pyFirst (whereIdx (fun x => m v1 x) im)
        let v3 ← Gen.ImDur.pyLast (whereIdx (fun x => m v1 x) im)
        pure ((v3 : ℚ) * dt - (v2 : ℚ) * dt) : Except ErrKind ℚ) = durOf (sigDurSeries im dt s e) := by
  have : m = fun tot x => sigMask s e tot x := by funext tot x; exact hm tot x
  subst this
  exact dur_shape_dur im dt s e

/-! ## `calc_sig_dur_vals`, `calc_significant_duration` -/

/-- `calc_sig_dur_vals(motion, dt, start, end, se=True)` -/
theorem gen_sig_dur_vals_se (motion : List ℚ) (dt s e : ℚ) :
    Gen.ImDur.sigDurValsSE motion dt s e = sigDurVals motion dt s e :=
  dur_shape_se' _ _ dt s e (by intro tot x; simp [sigMask, mul_comm])

/-- `calc_sig_dur_vals(motion, dt, start, end, se=False)` -/
theorem gen_sig_dur_vals_dur (motion : List ℚ) (dt s e : ℚ) :
    Gen.ImDur.sigDurValsDur motion dt s e = sigDurValsDur motion dt s e :=
  dur_shape_dur' _ _ dt s e (by intro tot x; simp [sigMask, mul_comm])

/-- `calc_significant_duration` (deprecated) forwards to `calc_sig_dur_vals` with the callee's default `se=False` -/
theorem gen_significant_duration (motion : List ℚ) (dt s e : ℚ) :
    Gen.ImDur.significantDuration motion dt s e = sigDurValsDur motion dt s e :=
  dur_shape_dur' _ _ dt s e (by intro tot x; simp [sigMask, mul_comm])

/-- the defaults `start=0.05`, `end=0.95` of both functions are the 5 % – 95 % fractions of the property -/
theorem gen_sig_dur_defaults :
    (Gen.ImDur.sigDurValsStartDefault : ℚ) = 1 / 20 ∧ (Gen.ImDur.sigDurValsEndDefault : ℚ) = 19 / 20 ∧
    (Gen.ImDur.sigDurStartDefault : ℚ) = 1 / 20 ∧ (Gen.ImDur.sigDurEndDefault : ℚ) = 19 / 20 := by
  unfold Gen.ImDur.sigDurValsStartDefault Gen.ImDur.sigDurValsEndDefault Gen.ImDur.sigDurStartDefault
    Gen.ImDur.sigDurEndDefault
  norm_num

example : Gen.ImDur.sigDurValsSE [1, 2, 3, 4, 5] (1/2 : ℚ) (1/20) (19/20) = .ok (1/2, 3/2) ∧
    Gen.ImDur.sigDurValsDur [1, 2, 3, 4, 5] (1/2 : ℚ) (1/20) (19/20) = .ok 1 ∧
    Gen.ImDur.significantDuration [1, 2, 3, 4, 5] (1/2 : ℚ) (1/20) (19/20) = .ok 1 ∧
    Gen.ImDur.sigDurValsSE [0, 5, 0] (1 : ℚ) (1/20) (19/20) = .error .IndexError := by decide +kernel

/-! ## `calc_sig_dur` -/

/-- `calc_sig_dur(asig, start, end, im=None, se=True)`: the series is the generated `_raw_calc_arias_intensity`, i.e. the
model's `arias` with the constant `pi / (2 * 9.81)` of the source (`gen_arias`) -/
theorem gen_sig_dur_se_none (pi dt : ℚ) (a : List ℚ) (s e : ℚ) :
    Gen.ImDur.sigDurSE pi dt a s e none = sigDurSeries (arias (pi / (2 * 9.81)) dt a) dt s e :=
  dur_shape_se' _ _ dt s e (by intro tot x; simp [sigMask, mul_comm])

/-- `calc_sig_dur(asig, start, end, im=f, se=True)` with `f(asig) = v` -/
theorem gen_sig_dur_se_some (pi dt : ℚ) (a v : List ℚ) (s e : ℚ) :
    Gen.ImDur.sigDurSE pi dt a s e (some v) = sigDurSeries v dt s e :=
  dur_shape_se' _ _ dt s e (by intro tot x; simp [sigMask, mul_comm])

/-- `calc_sig_dur(…, se=False)`, both forms of `im` -/
theorem gen_sig_dur_dur (pi dt : ℚ) (a v : List ℚ) (s e : ℚ) :
    Gen.ImDur.sigDurDur pi dt a s e none = durOf (sigDurSeries (arias (pi / (2 * 9.81)) dt a) dt s e) ∧
    Gen.ImDur.sigDurDur pi dt a s e (some v) = durOf (sigDurSeries v dt s e) :=
  ⟨dur_shape_dur' _ _ dt s e (by intro tot x; simp [sigMask, mul_comm]), dur_shape_dur' _ _ dt s e (by intro tot x; simp [sigMask, mul_comm])⟩

/-- default measure: for any positive value of `pi` the generated function is the model's `sigDur` on the `ℚ` core
(`arias_constant_cancels`; the constant `pi / (2 * 9.81)` is positive) -/
theorem gen_sig_dur_model (pi dt : ℚ) (hpi : 0 < pi) (a : List ℚ) (s e : ℚ) :
    Gen.ImDur.sigDurSE pi dt a s e none = sigDur a dt s e ∧
    Gen.ImDur.sigDurDur pi dt a s e none = sigDurDur a dt s e := by
  have hk : (0 : ℚ) < pi / (2 * 9.81) := by apply div_pos hpi; norm_num
  refine ⟨?_, ?_⟩
  · rw [gen_sig_dur_se_none, arias_constant_cancels _ hk]
  · rw [(gen_sig_dur_dur pi dt a [] s e).1, arias_constant_cancels _ hk]; rfl

example : Gen.ImDur.sigDurSE (22/7 : ℚ) (1/2) [1, 2, 3, 4, 5] (1/20) (19/20) none = .ok (1/2, 3/2) ∧
    Gen.ImDur.sigDurDur (22/7 : ℚ) (1/2) [1, 2, 3, 4, 5] (1/20) (19/20) none = .ok 1 ∧
    Gen.ImDur.sigDurSE (22/7 : ℚ) (1/2) [1, 2, 3, 4, 5] (1/20) (19/20) (some [0, 1, 3, 6, 10]) = .ok (1/2, 3/2) := by
  decide +kernel

/-! ## C10.a / C10.b for the generated definitions -/

/-- C10.a `sigdur_spec` for the generated `calc_sig_dur_vals` (both `se` forms): with `im = cumsum(motion²)`, if `i0` / `i1`
are the first / last sample strictly between `s·tot` and `e·tot`, the results are `(i0·dt, i1·dt)` and the difference -/
theorem gen_sigdur_spec_vals (motion : List ℚ) (dt s e tot : ℚ)
    (htot : (cumsum (Np.sq motion)).getLast? = some tot) (i0 i1 : Nat)
    (h0 : Between (cumsum (Np.sq motion)) s e tot i0) (h1 : Between (cumsum (Np.sq motion)) s e tot i1)
    (hfl : ∀ j, Between (cumsum (Np.sq motion)) s e tot j → i0 ≤ j ∧ j ≤ i1) :
    Gen.ImDur.sigDurValsSE motion dt s e = .ok ((i0 : ℚ) * dt, (i1 : ℚ) * dt) ∧
    Gen.ImDur.sigDurValsDur motion dt s e = .ok ((i1 : ℚ) * dt - (i0 : ℚ) * dt) ∧
    Gen.ImDur.significantDuration motion dt s e = .ok ((i1 : ℚ) * dt - (i0 : ℚ) * dt) := by
  obtain ⟨a, b⟩ := sigdur_spec _ dt s e tot htot i0 i1 h0 h1 hfl
  exact ⟨by rw [gen_sig_dur_vals_se]; exact a, by rw [gen_sig_dur_vals_dur]; exact b,
    by rw [gen_significant_duration]; exact b⟩

example : Gen.ImDur.sigDurValsSE [1, 2, 3, 4, 5] (1/2 : ℚ) (1/20) (19/20) = .ok (((1 : Nat) : ℚ) * (1/2), ((3 : Nat) : ℚ) * (1/2)) := by
  decide +kernel

/-- C10.a `sigdur_spec` for the generated `calc_sig_dur` with a user supplied measure (`im(asig) = v`) and with the default
Arias measure (`v = arias (pi/(2·9.81)) dt a`) -/
theorem gen_sigdur_spec (pi dt : ℚ) (a : List ℚ) (im : Option (List ℚ)) (v : List ℚ)
    (hv : v = match im with | none => arias (pi / (2 * 9.81)) dt a | some w => w)
    (s e tot : ℚ) (htot : v.getLast? = some tot) (i0 i1 : Nat)
    (h0 : Between v s e tot i0) (h1 : Between v s e tot i1) (hfl : ∀ j, Between v s e tot j → i0 ≤ j ∧ j ≤ i1) :
    Gen.ImDur.sigDurSE pi dt a s e im = .ok ((i0 : ℚ) * dt, (i1 : ℚ) * dt) ∧
    Gen.ImDur.sigDurDur pi dt a s e im = .ok ((i1 : ℚ) * dt - (i0 : ℚ) * dt) := by
  obtain ⟨x, y⟩ := sigdur_spec v dt s e tot htot i0 i1 h0 h1 hfl
  cases im with
  | none => subst hv; exact ⟨by rw [gen_sig_dur_se_none]; exact x, by rw [(gen_sig_dur_dur pi dt a [] s e).1]; exact y⟩
  | some w => subst hv; exact ⟨by rw [gen_sig_dur_se_some]; exact x, by rw [(gen_sig_dur_dur pi dt a v s e).2]; exact y⟩

/-- C10.b `bounds` for the generated definitions: `0 ≤ t_start ≤ t_end ≤ (n−1)·dt` (`n` = length of the cumulative series) -/
theorem gen_bounds (pi dt : ℚ) (hdt : 0 ≤ dt) (a motion v : List ℚ) (s e ts te : ℚ) :
    (Gen.ImDur.sigDurValsSE motion dt s e = .ok (ts, te) →
      0 ≤ ts ∧ ts ≤ te ∧ te ≤ ((motion.length - 1 : Nat) : ℚ) * dt) ∧
    (Gen.ImDur.sigDurSE pi dt a s e (some v) = .ok (ts, te) → 0 ≤ ts ∧ ts ≤ te ∧ te ≤ ((v.length - 1 : Nat) : ℚ) * dt) ∧
    (Gen.ImDur.sigDurSE pi dt a s e none = .ok (ts, te) → 0 ≤ ts ∧ ts ≤ te ∧ te ≤ ((a.length - 1 : Nat) : ℚ) * dt) := by
  refine ⟨?_, ?_, ?_⟩
  · intro h
    rw [gen_sig_dur_vals_se] at h
    have := bounds _ dt s e ts te hdt h
    simpa [Np.sq] using this
  · intro h; rw [gen_sig_dur_se_some] at h; exact bounds _ dt s e ts te hdt h
  · intro h
    rw [gen_sig_dur_se_none] at h
    have := bounds _ dt s e ts te hdt h
    simpa [arias, ariasCore, Np.sq] using this

example : (0 : ℚ) ≤ 1/2 ∧ (1/2 : ℚ) ≤ 3/2 ∧ (3/2 : ℚ) ≤ ((([1, 2, 3, 4, 5] : List ℚ).length - 1 : Nat) : ℚ) * (1/2) :=
  (gen_bounds 3 (1/2) (by norm_num) [] [1, 2, 3, 4, 5] [] (1/20) (19/20) (1/2) (3/2)).1 (by decide +kernel)

/-! ## `calc_brac_dur`, `calc_bracketed_duration` -/

/-- `time[np.where(mask)]` with `time = np.arange(npts) * dt`: in-range indices pick `i * dt` -/
theorem takeIdx_time (n : Nat) (dt : ℚ) (idx : List Nat) (h : ∀ i ∈ idx, i < n) :
    takeIdx ((Np.arange n).map (fun (x : Nat) => (x : ℚ) * dt)) idx = idx.map (fun (i : Nat) => (i : ℚ) * dt) := by
  unfold takeIdx Np.arange
  apply List.map_congr_left
  intro i hi
  simp [List.getD_eq_getElem?_getD, h i hi]

/-- the guarded fancy indexing `time[np.where(mask)]` succeeds when all indices are in range -/
theorem pyTake_time (n : Nat) (dt : ℚ) (idx : List Nat) (h : ∀ i ∈ idx, i < n) :
    Gen.ImDur.pyTake ((Np.arange n).map (fun (x : Nat) => (x : ℚ) * dt)) idx =
      .ok (idx.map (fun (i : Nat) => (i : ℚ) * dt)) := by
  unfold Gen.ImDur.pyTake
  rw [if_pos, takeIdx_time n dt idx h]
  rw [List.all_eq_true]
  intro i hi
  simpa [Np.arange] using h i hi

/-- `calc_brac_dur(asig, threshold, se=True)` for an object with `npts = len(values)`: never raises, and returns the model's
`bracDurSE` -/
theorem gen_brac_dur_se (a : List ℚ) (dt thr : ℚ) :
    Gen.ImDur.bracDurSE a.length dt a thr = .ok (bracDurSE a dt thr) := by
  unfold Gen.ImDur.bracDurSE bracDurSE
  rw [pyTake_time a.length dt _ (fun i hi => ((mem_whereIdx _ a i).mp hi).1)]
  unfold Gen.ImDur.pyFirst Gen.ImDur.pyLast Gen.ImDur.catchIndexError firstLast?
  simp only [bind, Except.bind]
  rw [List.head?_map, List.getLast?_map]
  cases (whereIdx (fun x => decide (thr < absv x)) a).head? <;>
    cases (whereIdx (fun x => decide (thr < absv x)) a).getLast? <;> rfl

/-- `calc_brac_dur(asig, threshold, se=False)` -/
theorem gen_brac_dur (a : List ℚ) (dt thr : ℚ) :
    Gen.ImDur.bracDur a.length dt a thr = .ok (bracDur a dt thr) := by
  unfold Gen.ImDur.bracDur bracDur bracDurSE
  rw [pyTake_time a.length dt _ (fun i hi => ((mem_whereIdx _ a i).mp hi).1)]
  unfold Gen.ImDur.pyFirst Gen.ImDur.pyLast Gen.ImDur.catchIndexError firstLast?
  simp only [bind, Except.bind]
  rw [List.head?_map, List.getLast?_map]
  cases h0 : (whereIdx (fun x => decide (thr < absv x)) a).head? <;>
    cases h1 : (whereIdx (fun x => decide (thr < absv x)) a).getLast? <;> rfl

/-- `calc_bracketed_duration` (deprecated) forwards to `calc_brac_dur` with the callee's default `se=False` -/
theorem gen_bracketed_duration (a : List ℚ) (dt thr : ℚ) :
    Gen.ImDur.bracketedDuration a.length dt a thr = .ok (bracDur a dt thr) := gen_brac_dur a dt thr

example : Gen.ImDur.bracDurSE 5 (1/2 : ℚ) [1, -3, 2, 5, -1] 2 = .ok (some (1/2, 3/2)) ∧
    Gen.ImDur.bracDur 5 (1/2 : ℚ) [1, -3, 2, 5, -1] 2 = .ok 1 ∧
    Gen.ImDur.bracketedDuration 5 (1/2 : ℚ) [1, -3, 2, 5, -1] 2 = .ok 1 ∧
    Gen.ImDur.bracDurSE 5 (1/2 : ℚ) [1, -3, 2, 5, -1] 5 = .ok none ∧
    Gen.ImDur.bracDur 5 (1/2 : ℚ) [1, -3, 2, 5, -1] 5 = .ok 0 := by decide +kernel

/-- C10.f `bracdur_spec` for the generated `calc_brac_dur` (both `se` forms) and the deprecated wrapper -/
theorem gen_bracdur_spec (a : List ℚ) (dt thr : ℚ) (i0 i1 : Nat)
    (h0 : Exceeds a thr i0) (h1 : Exceeds a thr i1) (hfl : ∀ j, Exceeds a thr j → i0 ≤ j ∧ j ≤ i1) :
    Gen.ImDur.bracDurSE a.length dt a thr = .ok (some ((i0 : ℚ) * dt, (i1 : ℚ) * dt)) ∧
    Gen.ImDur.bracDur a.length dt a thr = .ok ((i1 : ℚ) * dt - (i0 : ℚ) * dt) ∧
    Gen.ImDur.bracketedDuration a.length dt a thr = .ok ((i1 : ℚ) * dt - (i0 : ℚ) * dt) := by
  obtain ⟨x, y⟩ := bracdur_spec a dt thr i0 i1 h0 h1 hfl
  rw [gen_brac_dur_se, gen_brac_dur, gen_bracketed_duration, x, y]
  exact ⟨rfl, rfl, rfl⟩

/-- C10.f: `(None, None)` / `0` iff no sample exceeds the threshold — for the generated definitions -/
theorem gen_bracdur_none_iff (a : List ℚ) (dt thr : ℚ) :
    (Gen.ImDur.bracDurSE a.length dt a thr = .ok none ↔ ¬ ∃ i, Exceeds a thr i) ∧
    ((¬ ∃ i, Exceeds a thr i) → Gen.ImDur.bracDur a.length dt a thr = .ok 0) := by
  obtain ⟨x, y, _⟩ := bracdur_none_iff a dt thr
  refine ⟨?_, fun h => by rw [gen_brac_dur, y h]⟩
  rw [gen_brac_dur_se, ← x]
  constructor
  · intro h; exact Except.ok.inj h
  · intro h; rw [h]

/-! ## `calc_acc_rms`, `calc_a_rms` (no hand model: characterised directly) -/

/-- `calc_a_rms` has been removed from the library: it raises `ValueError` for every input -/
theorem gen_a_rms (dt : ℚ) (a : List ℚ) (thr : ℚ) : Gen.ImDur.aRms dt a thr = .error .ValueError := rfl

/-- `calc_acc_rms(asig, threshold)`: with `(i0, i1)` the first / last sample exceeding the threshold (the model's `bracIdx`) it
is `sqrt(1/t_b01 · trapz(values[i0:i1]², dx=dt))`, and `0` when no sample exceeds (for any `sqrt` and any value of the
attribute `asig.t_b01`) -/
theorem gen_acc_rms (sqrt : ℚ → ℚ) (dt tb : ℚ) (a : List ℚ) (thr : ℚ) :
    Gen.ImDur.accRms sqrt dt tb a thr = .ok (match bracIdx a thr with
      | some (i0, i1) => sqrt (1 / tb * trapz dt (Np.sq (slice a i0 i1)))
      | none => 0) := by
  unfold Gen.ImDur.accRms bracIdx bracMask firstLast? Gen.ImDur.pyFirst Gen.ImDur.pyLast Gen.ImDur.catchIndexError
  cases h0 : (whereIdx (fun x => decide (thr < absv x)) a).head? <;>
    cases h1 : (whereIdx (fun x => decide (thr < absv x)) a).getLast? <;> try rfl

example : Gen.ImDur.accRms (fun x => x) (1/2 : ℚ) 1 [1, -3, 2, 5, -1] 2 = .ok (13/4) ∧
    Gen.ImDur.accRms (fun x => x) (1/2 : ℚ) 1 [1, -3, 2, 5, -1] 5 = .ok 0 ∧
    Gen.ImDur.aRms (1/2 : ℚ) [1, -3, 2, 5, -1] 5 = .error .ValueError := by decide +kernel

end EqsigVerif.Props.C10
