import EqsigVerif.Props.C09
import EqsigVerif.Props.C09Gen
import EqsigVerif.Props.C09Sem
import EqsigVerif.Gen.ImCavDp
import EqsigVerif.Gen.ImDur
/-!
# C09 — translator tie for the loop of `calc_cav_dp` (and for `calc_unit_kinetic_energy`, `calc_cumulative_abs_displacement`)

`Gen/ImCavDp.lean` is regenerated on every run by `tools/py2lean_x_im.py`: `cavDpStep` is the body of
`for i in range(0, total_seconds)` as a state transformer on `(start, pga_max, cav_dp, cav_dp_1_series)`, `cavDp` the function
around it (`total_seconds = int(time[-1])`, `forRange`, `np.interp(time, np.arange(total_seconds), series)`).  Python / NumPy
functions without a prelude combinator are parameters of the generated definitions; the bridges instantiate them with the hand
models of `Model/Im.lean`: `int ↦ intQ` (floor), `np.arange(a, b, s) ↦ arangeQ`, `scipy.integrate.trapezoid(y, x) ↦ trapezoidXY x y`,
`np.interp(x, arange(len fp), fp) ↦ interpUnit`; the literals `9.81` / `0.025` are the parameters `g` / `gate`, instantiated with
`Model.Im.gAcc` / `Model.Im.gate`, which `Props/C09Gen.lean` (`gen_cavdp_g`, `gen_cavdp_gate`) proves equal to the literals of the
source extracted in `Gen/Consts.lean`.

Proved: `gen_cavdp_step` (one pass of the generated loop body = `Model.Im.cavDpWindow`, for any `dt` with `int(1/dt) = pps`, on an
in-range window), `gen_cavdp_loop` (the generated `forRange` = `Model.Im.cavDpLoop`), `gen_cavdp` (the generated function =
`Model.Im.cavDp a pps` for `dt = 1/pps`, `time = arange(n)·dt`, every record), and the C09.e theorems restated for the
generated function.  Pattern-checked by the translator (not proved): see `incoming/tw_im/NOTES.md`.
-/
set_option linter.unusedSectionVars false
set_option linter.unusedVariables false
namespace EqsigVerif.Props.C09
open EqsigVerif EqsigVerif.Np EqsigVerif.Wire EqsigVerif.Model.Im EqsigVerif.Lemmas.Im

/-! ## the parameters of the generated definitions at `ℚ` -/

/-- Python `int(x)` for `x ≥ 0` -/
def intQ (q : ℚ) : Nat := (Rat.floor q).toNat

/-- `scipy.integrate.trapezoid(y, x)` -/
def trapezoidQ (y x : List ℚ) : ℚ := trapezoidXY x y

/-- `np.interp(x, xp, fp)` for `xp = np.arange(len(fp))` (`ValueError` on an empty table); other `xp` are not modelled -/
def interpQ (x : List ℚ) (xp : List Nat) (fp : List ℚ) : Except ErrKind (List ℚ) :=
  if xp = List.range fp.length then
    if fp.isEmpty then .error .ValueError else .ok (x.map (interpUnit fp))
  else .error .Other

theorem intQ_inv (pps : Nat) (hp : 0 < pps) : intQ (1 / (1 / (pps : ℚ))) = pps := by
  unfold intQ
  have : (1 / (1 / (pps : ℚ))) = ((pps : Nat) : ℚ) := by simp
  rw [this]
  show (⌊((pps : Nat) : ℚ)⌋).toNat = pps
  rw [Int.floor_natCast]; rfl

theorem map_absv (l : List ℚ) : l.map (fun x => absv x) = absL l := rfl

/-! ## one pass of the loop body -/

/-- the generated loop body of `calc_cav_dp` on an in-range window is the model's `cavDpWindow`: the window start advances by
`points_per_sec`, the window value is added to the running sum, the sum is appended to the series (`pga_max` is dead state) -/
theorem gen_cavdp_step (a : List ℚ) (dt : ℚ) (pps : Nat) (hint : intQ (1 / dt) = pps) (start : Nat) (pm cav : ℚ)
    (ser : List ℚ) (hr : start + pps + 1 ≤ a.length) :
    ∃ pm', Gen.ImCavDp.cavDpStep intQ arangeQ trapezoidQ dt gAcc gate a (start, pm, cav, ser) =
      match cavDpWindow (a.map (· / gAcc)) pps dt start with
      | .error k => .error k
      | .ok w => .ok (start + pps, pm', cav + w, ser ++ [cav + w]) := by
  unfold Gen.ImCavDp.cavDpStep cavDpWindow
  simp only [hint]
  have hg : Gen.ImCavDp.pyGetRange (a.map (fun x => x / gAcc)) start (start + pps + 1) =
      .ok (slice (a.map (· / gAcc)) start (start + pps + 1)) := by
    unfold Gen.ImCavDp.pyGetRange
    rw [if_pos (Or.inl (by simpa using hr))]
  rw [hg]
  simp only [bind, Except.bind, map_absv]
  generalize hT : arangeQ ((start : ℚ) * dt) ((start : ℚ) * dt + 1) dt = T
  generalize hidx : whereIdx (fun t => decide ((start : ℚ) * dt ≤ t) && decide (t ≤ ((start + pps : Nat) : ℚ) * dt)) T = idx
  generalize hA : absL (slice (a.map (· / gAcc)) start (start + pps + 1)) = A
  have hx : Gen.ImCavDp.pyTake T idx = .ok (takeIdx T idx) := by
    unfold Gen.ImCavDp.pyTake
    rw [if_pos]
    rw [List.all_eq_true]
    intro i hi
    rw [← hidx] at hi
    simpa using ((mem_whereIdx _ T i).mp hi).1
  rw [hx]
  simp only []
  unfold Gen.ImCavDp.pyTake
  by_cases hall : (idx.all fun i => decide (i < A.length)) = true
  · rw [if_pos hall, if_pos hall]
    simp only []
    unfold Gen.ImCavDp.pyMax
    cases hm : maxL? A with
    | none => exact ⟨pm, rfl⟩
    | some P =>
      simp only []
      by_cases hlt : P - gate < 0
      · rw [if_pos hlt, if_pos hlt]
        exact ⟨_, rfl⟩
      · rw [if_neg hlt, if_neg hlt, if_pos (not_lt.mp hlt)]
        exact ⟨_, rfl⟩
  · rw [if_neg hall, if_neg hall]
    exact ⟨pm, rfl⟩

/-! ## the loop -/

/-- the generated `for i in range(0, rem)` from state `(start, pga_max, cav_dp, series)` is the model's `cavDpLoop` (all windows
in range): the series grows by the model's list of running sums -/
theorem gen_cavdp_loop (a : List ℚ) (dt : ℚ) (pps : Nat) (hint : intQ (1 / dt) = pps) (rem : Nat) :
    ∀ (start : Nat) (pm cav : ℚ) (ser : List ℚ), start + rem * pps + 1 ≤ a.length →
    ∃ pm' cav', Gen.ImCavDp.forRange (Gen.ImCavDp.cavDpStep intQ arangeQ trapezoidQ dt gAcc gate a) rem (start, pm, cav, ser) =
      match cavDpLoop (a.map (· / gAcc)) pps dt rem start cav with
      | .error k => .error k
      | .ok rest => .ok (start + rem * pps, pm', cav', ser ++ rest) := by
  induction rem with
  | zero => intro start pm cav ser _; exact ⟨pm, cav, by simp [Gen.ImCavDp.forRange, cavDpLoop]⟩
  | succ r ih =>
    intro start pm cav ser h
    have hw : start + pps + 1 ≤ a.length := by
      have : start + (r + 1) * pps + 1 = start + pps + 1 + r * pps := by ring
      omega
    obtain ⟨pm1, hstep⟩ := gen_cavdp_step a dt pps hint start pm cav ser hw
    unfold Gen.ImCavDp.forRange cavDpLoop
    rw [hstep]
    cases hwin : cavDpWindow (a.map (· / gAcc)) pps dt start with
    | error k => exact ⟨pm, cav, rfl⟩
    | ok w =>
      simp only [bind, Except.bind]
      have h' : start + pps + r * pps + 1 ≤ a.length := by
        have : start + (r + 1) * pps + 1 = start + pps + r * pps + 1 := by ring
        omega
      obtain ⟨pm2, cav2, hrec⟩ := ih (start + pps) pm1 (cav + w) (ser ++ [cav + w]) h'
      rw [hrec]
      cases cavDpLoop (a.map (· / gAcc)) pps dt r (start + pps) (cav + w) with
      | error k => exact ⟨pm, cav, rfl⟩
      | ok rest =>
        refine ⟨pm2, cav2, ?_⟩
        simp only [List.append_assoc, List.singleton_append]
        have : start + pps + r * pps = start + (r + 1) * pps := by ring
        rw [this]

/-! ## the function -/

/-- `calc_cav_dp(asig)` for an object with `dt = 1/pps`, `time = np.arange(npts)·dt`: the generated function is the model's
`cavDp` — for every record (errors included) -/
theorem gen_cavdp (a : List ℚ) (pps : Nat) (hp : 0 < pps) :
    Gen.ImCavDp.cavDp intQ arangeQ trapezoidQ interpQ (1 / (pps : ℚ)) gAcc gate a
      ((List.range a.length).map (fun (i : Nat) => (i : ℚ) * (1 / (pps : ℚ)))) = Model.Im.cavDp a pps := by
  unfold Gen.ImCavDp.cavDp Model.Im.cavDp
  rw [if_neg (by omega)]
  cases a with
  | nil => rfl
  | cons x xs =>
    simp only []
    have hlast : Gen.ImCavDp.pyLast ((List.range (x :: xs).length).map (fun (i : Nat) => (i : ℚ) * (1 / (pps : ℚ)))) =
        .ok ((((x :: xs).length - 1 : Nat) : ℚ) * (1 / (pps : ℚ))) := by
      unfold Gen.ImCavDp.pyLast
      rw [List.getLast?_map]
      simp [List.getLast?_range]
    rw [hlast]
    simp only [bind, Except.bind]
    have hts : intQ ((((x :: xs).length - 1 : Nat) : ℚ) * (1 / (pps : ℚ))) = totalSeconds (x :: xs).length pps := rfl
    have hts' : (Rat.floor ((((x :: xs).length - 1 : Nat) : ℚ) * (1 / (pps : ℚ)))).toNat =
        totalSeconds (x :: xs).length pps := rfl
    rw [hts, hts']
    have hle := (totalSeconds_le (x :: xs).length pps hp).2
    have hin : 0 + totalSeconds (x :: xs).length pps * pps + 1 ≤ (x :: xs).length := by
      have : 0 < (x :: xs).length := by simp
      omega
    obtain ⟨pm', cav', hloop⟩ := gen_cavdp_loop (x :: xs) (1 / (pps : ℚ)) pps (intQ_inv pps hp)
      (totalSeconds (x :: xs).length pps) 0 0 0 [] hin
    rw [hloop]
    have hlen : (0 + totalSeconds (x :: xs).length pps) * pps + 1 ≤ ((x :: xs).map (· / gAcc)).length := by
      simpa using hin
    have hm := cavDpLoop_eq ((x :: xs).map (· / gAcc)) pps hp (totalSeconds (x :: xs).length pps) 0 0 hlen
    rw [Nat.zero_mul] at hm
    rw [hm]
    simp only [List.nil_append]
    have hl : (cumsumFrom 0 (winVals ((x :: xs).map (· / gAcc)) pps 0 (totalSeconds (x :: xs).length pps))).length
        = totalSeconds (x :: xs).length pps := by simp [winVals]
    unfold interpQ Np.arange
    rw [hl, if_pos rfl]
    cases hE : (cumsumFrom 0 (winVals ((x :: xs).map (· / gAcc)) pps 0 (totalSeconds (x :: xs).length pps))).isEmpty with
    | true => simp
    | false => simp [List.map_map, Function.comp_def]

example : Gen.ImCavDp.cavDp intQ arangeQ trapezoidQ interpQ (1/2 : ℚ) gAcc gate [1/8, 1/8, 1, 1/8, 1/8]
      [0, 1/2, 1, 3/2, 2] = .ok [25/3924, 325/15696, 275/7848, 275/7848, 275/7848] ∧
    Gen.ImCavDp.cavDpStep intQ arangeQ trapezoidQ (1/2 : ℚ) gAcc gate [1/8, 1/8, 1, 1/8, 1/8] (0, 0, 0, []) =
      .ok (2, 100/981, 25/3924, [25/3924]) ∧
    Gen.ImCavDp.cavDp intQ arangeQ trapezoidQ interpQ (1/2 : ℚ) gAcc gate [1/8, 1] [0, 1/2] = .error .ValueError := by
  decide +kernel

/-! ## C09.e for the generated function -/

/-- C09.e closed form for the generated `calc_cav_dp`, with the literals of the source (`Gen.Consts`) -/
theorem gen_cavdp_closed_form (a : List ℚ) (pps : Nat) (hp : 0 < pps) (hdur : pps + 1 ≤ a.length) :
    Gen.ImCavDp.cavDp intQ arangeQ trapezoidQ interpQ (1 / (pps : ℚ)) Gen.Consts.cavdpGRat Gen.Consts.cavdpGateRat a
      ((List.range a.length).map (fun (i : Nat) => (i : ℚ) * (1 / (pps : ℚ)))) =
    .ok ((List.range a.length).map (fun (i : Nat) =>
      interpUnit (cumsum (winVals (a.map (· / gAcc)) pps 0 (totalSeconds a.length pps))) ((i : ℚ) * (1 / (pps : ℚ))))) := by
  rw [← gen_cavdp_g, ← gen_cavdp_gate, gen_cavdp a pps hp]
  exact cavdp_closed_form a pps hp hdur

/-- C09.a / C09.e for the generated `calc_cav_dp`: record length, non-negative, non-decreasing -/
theorem gen_cavdp_length_nonneg_monotone (a : List ℚ) (pps : Nat) (hp : 0 < pps) (hdur : pps + 1 ≤ a.length) :
    ∃ s, Gen.ImCavDp.cavDp intQ arangeQ trapezoidQ interpQ (1 / (pps : ℚ)) Gen.Consts.cavdpGRat Gen.Consts.cavdpGateRat a
        ((List.range a.length).map (fun (i : Nat) => (i : ℚ) * (1 / (pps : ℚ)))) = .ok s ∧
      s.length = a.length ∧ (∀ y ∈ s, 0 ≤ y) ∧ s.Pairwise (· ≤ ·) := by
  rw [← gen_cavdp_g, ← gen_cavdp_gate, gen_cavdp a pps hp]
  exact cavdp_length_nonneg_monotone a pps hp hdur

/-- C09.e for the generated `calc_cav_dp`: every sample below `0.025 g` ⇒ CAVdp ≡ 0 -/
theorem gen_cavdp_zero_of_all_below_gate (a : List ℚ) (pps : Nat) (hp : 0 < pps) (hdur : pps + 1 ≤ a.length)
    (h : ∀ x ∈ a, |x| / gAcc < gate) :
    Gen.ImCavDp.cavDp intQ arangeQ trapezoidQ interpQ (1 / (pps : ℚ)) Gen.Consts.cavdpGRat Gen.Consts.cavdpGateRat a
      ((List.range a.length).map (fun (i : Nat) => (i : ℚ) * (1 / (pps : ℚ)))) = .ok (List.replicate a.length 0) := by
  rw [← gen_cavdp_g, ← gen_cavdp_gate, gen_cavdp a pps hp]
  exact cavdp_zero_of_all_below_gate a pps hp hdur h

/-! ## `calc_unit_kinetic_energy`, `calc_cumulative_abs_displacement` (generated in `Gen/ImDur.lean`) -/

/-- `calc_unit_kinetic_energy`: the generated function on the object's velocity is the model's `unitKineticEnergy`
(`0.5 * v * |v|`, `np.diff`, `np.insert(·, 0, kin[0])`, `np.cumsum(abs(·))`; `kin[0]` of an empty record is `IndexError`) -/
theorem gen_unit_kinetic_energy (dt : ℚ) (a : List ℚ) :
    Gen.ImDur.unitKineticEnergy (velocity dt a) = unitKineticEnergy dt a := by
  unfold Gen.ImDur.unitKineticEnergy unitKineticEnergy
  have hk : (velocity dt a).map (fun x => (0.5 : ℚ) * x * absv x) = kinEnergy (velocity dt a) := by
    unfold kinEnergy
    apply List.map_congr_left
    intro x _; norm_num
  rw [hk]
  unfold Gen.ImDur.pyFirst cumAbsDelta
  cases kinEnergy (velocity dt a) with
  | nil => rfl
  | cons k0 ks => rfl

/-- `calc_cumulative_abs_displacement` forwards to `calc_integral_of_abs_velocity` -/
theorem gen_cumulative_abs_displacement (dt : ℚ) (a : List ℚ) :
    Gen.ImDur.cumulativeAbsDisplacement dt (velocity dt a) = intAbsVel dt a := rfl

/-- C09.a for the generated `calc_unit_kinetic_energy`: on a non-empty record a non-decreasing series of the record's length -/
theorem gen_unit_kinetic_energy_series (dt : ℚ) (a : List ℚ) (h : a ≠ []) :
    ∃ s, Gen.ImDur.unitKineticEnergy (velocity dt a) = .ok s ∧ s.length = a.length ∧ s.Pairwise (· ≤ ·) := by
  obtain ⟨s, h1, _, h3, h4⟩ := unit_kinetic_energy_series dt a h
  exact ⟨s, by rw [gen_unit_kinetic_energy]; exact h1, h3, h4⟩

example : Gen.ImDur.unitKineticEnergy (velocity (1/2 : ℚ) [1, -2, 3, -8]) = .ok [0, 1/32, 1/16, 27/32] ∧
    Gen.ImDur.unitKineticEnergy ([] : List ℚ) = .error .IndexError ∧
    Gen.ImDur.cumulativeAbsDisplacement (1/2 : ℚ) (velocity (1/2 : ℚ) [1, -2, 3]) = [0, 1/8, 1/8] := by decide +kernel

end EqsigVerif.Props.C09
