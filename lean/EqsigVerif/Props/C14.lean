import EqsigVerif.Model.TimeStep
import EqsigVerif.Lemmas.Interp
import EqsigVerif.Lemmas.TimeStep
import Mathlib.Data.List.NodupEquivFin
/-!
# C14 — Resampling keeps the record: bounded step, retained samples

Model: `EqsigVerif/Model/TimeStep.lean` (`factorRule`, `interpToApproxDt`, `interpValues`, `outLen`).
`q = dt / target_dt` is the exact quotient; the impl decides on the binary64 quotient (the harness passes the
impl's decision to `interpToApproxDt` and separately compares `factorRule` on the exact quotient).

All theorems about the output samples are stated on `interpValues values factor even`, which by
`entry_point` *is* the first component of `interpToApproxDt values dt factor even` (and of
`interpArrayToApproxDt values dt target even` with `factor = factorRule (dt/target)`).
-/
namespace EqsigVerif.Props.C14
open EqsigVerif.Model.TimeStep EqsigVerif.Interp

/-- the entry points never raise for `dt, target > 0` and return `(interpValues …, dt / factor)` -/
theorem entry_point (x : List ℚ) (dt target : ℚ) (even : Bool) (hdt : 0 < dt) (ht : 0 < target) :
    interpArrayToApproxDt x dt target even =
        .ok (interpValues x (factorRule (dt / target)) even, dt / factorRule (dt / target)) ∧
    ∀ f : ℚ, f ≠ 0 → interpToApproxDt x dt f even = .ok (interpValues x f even, dt / f) := by
  constructor
  · have hf : factorRule (dt / target) ≠ 0 := (factorRule_pos _ (div_pos hdt ht)).ne'
    simp [interpArrayToApproxDt, factorRule?, ht.ne', hdt.ne', interpToApproxDt, hf, bind, Except.bind]
  · intro f hf
    simp [interpToApproxDt, hf]

example : interpArrayToApproxDt [1, 3, 2] (1/2) (1/4) false = .ok ([1, 2, 3, 5/2, 2, 2], 1/4) := by
  decide +kernel

/-! ## C14.a — the factor rule -/

/-- **C14.a** `factor_rule`. For `dt, target > 0`, `q = dt/target`, `factor = factorRule q`:
the new step `dt/factor` does not exceed the target; `q ≥ 1 → factor = ⌈q⌉`, a positive integer;
`q < 1 → 1/factor = ⌊1/q⌋`, a positive integer; `q = 1 → factor = 1`. -/
theorem factor_rule (dt target : ℚ) (hdt : 0 < dt) (ht : 0 < target) :
    0 < factorRule (dt / target) ∧
    dt / factorRule (dt / target) ≤ target ∧
    (1 ≤ dt / target →
        factorRule (dt / target) = ((⌈dt / target⌉ : ℤ) : ℚ) ∧
        ∃ k : ℕ, 1 ≤ k ∧ factorRule (dt / target) = (k : ℚ)) ∧
    (dt / target < 1 →
        1 / factorRule (dt / target) = ((⌊1 / (dt / target)⌋ : ℤ) : ℚ) ∧
        ∃ m : ℕ, 1 ≤ m ∧ 1 / factorRule (dt / target) = (m : ℚ)) ∧
    (dt / target = 1 → factorRule (dt / target) = 1) := by
  have hq : 0 < dt / target := div_pos hdt ht
  set q := dt / target with hqdef
  have hpos := factorRule_pos q hq
  refine ⟨hpos, ?_, ?_, ?_, ?_⟩
  · -- dt / factor ≤ target  ⇔  q ≤ factor
    rw [div_le_iff₀ hpos]
    have h := le_factorRule q hq
    have : dt = q * target := by rw [hqdef]; field_simp
    rw [this]
    have := mul_le_mul_of_nonneg_right h ht.le
    linarith
  · intro h1
    refine ⟨factorRule_of_ge_one q h1, ?_⟩
    have hc : 1 ≤ ⌈q⌉ := by
      rw [Int.le_ceil_iff]; simpa using lt_of_lt_of_le (by norm_num : (0:ℚ) < 1) h1
    refine ⟨⌈q⌉.toNat, by omega, ?_⟩
    rw [factorRule_of_ge_one q h1]
    have : ((⌈q⌉.toNat : ℕ) : ℤ) = ⌈q⌉ := Int.toNat_of_nonneg (by omega)
    exact_mod_cast congrArg (fun z : ℤ => (z : ℚ)) this.symm
  · intro h1
    have hfl := one_le_floor_inv q hq h1
    have e : 1 / factorRule q = ((⌊1 / q⌋ : ℤ) : ℚ) := by
      rw [factorRule_of_lt_one q h1, one_div_one_div]
    refine ⟨e, ⌊1 / q⌋.toNat, by omega, ?_⟩
    rw [e]
    have : ((⌊1 / q⌋.toNat : ℕ) : ℤ) = ⌊1 / q⌋ := Int.toNat_of_nonneg (by omega)
    exact_mod_cast congrArg (fun z : ℤ => (z : ℚ)) this.symm
  · intro h1
    rw [h1, factorRule_one]

-- non-vacuity: refinement 0.07/0.02 → 4, decimation 0.02/0.07 → 1/3, equal steps → 1
example : (0:ℚ) < 7/100 ∧ (0:ℚ) < 1/50 ∧ factorRule ((7/100) / (1/50)) = 4 ∧
    factorRule ((1/50) / (7/100)) = 1/3 ∧ factorRule ((1/50) / (1/50)) = 1 := by decide +kernel

/-! ## C14.e — the consumer `gen_response_spectrum` -/

/-- **C14.e** `gen_response_spectrum` calls `interp_to_approx_dt(self, min_dt_ratio * min(periods), even=False)`
only under `if target < dt` (`eqsig/single.py`), i.e. with `q = dt/target > 1`: the factor is then an integer `≥ 2`
(so the record is refined, every original sample retained by C14.b; feeds C03.d). -/
theorem consumer_integer_factor (dt target : ℚ) (ht : 0 < target) (hlt : target < dt) :
    ∃ k : ℕ, 2 ≤ k ∧ factorRule (dt / target) = (k : ℚ) ∧ (k : ℚ) = ((⌈dt / target⌉ : ℤ) : ℚ) := by
  have hq : 1 < dt / target := by rw [lt_div_iff₀ ht]; linarith
  have h2 := two_le_ceil _ hq
  refine ⟨⌈dt / target⌉.toNat, by omega, ?_, ?_⟩
  · rw [factorRule_of_gt_one _ hq]
    have : ((⌈dt / target⌉.toNat : ℕ) : ℤ) = ⌈dt / target⌉ := Int.toNat_of_nonneg (by omega)
    exact_mod_cast congrArg (fun z : ℤ => (z : ℚ)) this.symm
  · have : ((⌈dt / target⌉.toNat : ℕ) : ℤ) = ⌈dt / target⌉ := Int.toNat_of_nonneg (by omega)
    exact_mod_cast congrArg (fun z : ℤ => (z : ℚ)) this

example : (0:ℚ) < 3/1000 ∧ (3/1000 : ℚ) < 1/100 ∧ factorRule ((1/100) / (3/1000)) = 4 := by decide +kernel

/-! ## C14.b — refinement (`factor = k ∈ ℕ`, `k ≥ 1`) -/

/-- **C14.b (length)** `len out = k·n`, or `2⌊k·n/2⌋` when `even`. -/
theorem refinement_length (x : List ℚ) (k : ℕ) (even : Bool) :
    (interpValues x (k : ℚ) even).length = if even then 2 * (k * x.length / 2) else k * x.length := by
  rw [length_interpValues]
  cases even
  · simp [outLen_refine_odd]
  · simp [outLen_refine_even]

example : (interpValues [1, 3, 2] (3 : ℕ) true).length = 8 ∧ (interpValues [1, 3, 2] (3 : ℕ) false).length = 9 := by
  decide +kernel

/-- **C14.b (retained samples)** `out[k·i] = x[i]` for every output index of the form `k·i`. -/
theorem refinement_retains (x : List ℚ) (k : ℕ) (hk : 1 ≤ k) (even : Bool) (i : ℕ)
    (hi : k * i < (interpValues x (k : ℚ) even).length) :
    ∃ h : i < x.length, (interpValues x (k : ℚ) even)[k * i] = x[i] := by
  have hlen := hi
  rw [length_interpValues] at hlen
  have hle := outLen_refine_le x.length k even
  have hix : i < x.length := by
    by_contra hcon
    have : k * x.length ≤ k * i := Nat.mul_le_mul_left k (not_lt.mp hcon)
    omega
  refine ⟨hix, ?_⟩
  rw [interpValues_getElem]
  have hkq : (k : ℚ) ≠ 0 := by exact_mod_cast (by omega : k ≠ 0)
  have : (((k * i : ℕ)) : ℚ) / (k : ℚ) = (i : ℚ) := by push_cast; field_simp
  rw [this, interpUnit_node _ _ _ _ hix, getD_of_lt _ _ hix]

example : ∃ h : 2 < [1, 3, 2].length, (interpValues [1, 3, 2] (3 : ℕ) false)[3 * 2]'(by decide +kernel) = ([1, 3, 2] : List ℚ)[2] :=
  ⟨by decide, by decide +kernel⟩

/-- **C14.b (between samples)** `out[k·i + r] = (1 − r/k)·x[i] + (r/k)·x[i+1]` for `r < k`, `i + 1 < n`:
a convex combination of the two *adjacent* input samples. -/
theorem refinement_between (x : List ℚ) (k : ℕ) (even : Bool) (i r : ℕ) (hr : r < k)
    (hi : i + 1 < x.length) (hj : k * i + r < (interpValues x (k : ℚ) even).length) :
    (interpValues x (k : ℚ) even)[k * i + r] =
      (1 - (r : ℚ) / (k : ℚ)) * x[i] + ((r : ℚ) / (k : ℚ)) * x[i + 1] := by
  rw [interpValues_getElem]
  have hk0 : (0 : ℚ) < (k : ℚ) := by exact_mod_cast (by omega : 0 < k)
  have e : (((k * i + r : ℕ)) : ℚ) / (k : ℚ) = (i : ℚ) + (r : ℚ) / (k : ℚ) := by
    push_cast; field_simp
  have ht0 : (0 : ℚ) ≤ (r : ℚ) / (k : ℚ) := by positivity
  have ht1 : (r : ℚ) / (k : ℚ) < 1 := by
    rw [div_lt_one hk0]; exact_mod_cast hr
  rw [e, interpUnit_between _ _ _ i _ hi ht0 ht1, getD_of_lt _ _ (by omega), getD_of_lt _ _ hi]

example : (interpValues [1, 3, 2] (4 : ℕ) false)[4 * 1 + 3]'(by decide +kernel) = (1 - 3/4) * 3 + (3/4) * 2 := by
  decide +kernel

/-- **C14.b (tail)** past the last input sample (`j ≥ k·(n−1)`) the output repeats `x[n−1]`
(`np.interp`'s default `right`). -/
theorem refinement_tail (x : List ℚ) (k : ℕ) (hk : 1 ≤ k) (even : Bool) (j : ℕ)
    (hj : j < (interpValues x (k : ℚ) even).length) (hjt : k * (x.length - 1) ≤ j) :
    ∃ h : x.length - 1 < x.length, (interpValues x (k : ℚ) even)[j] = x[x.length - 1] := by
  have hlen := hj
  rw [length_interpValues] at hlen
  have hle := outLen_refine_le x.length k even
  have hn : 0 < x.length := by
    rcases Nat.eq_zero_or_pos x.length with h | h
    · have : k * x.length = 0 := by rw [h]; simp
      omega
    · exact h
  have hne : x ≠ [] := by intro h; rw [h] at hn; simp at hn
  refine ⟨by omega, ?_⟩
  rw [interpValues_getElem]
  have hk0 : (0 : ℚ) < (k : ℚ) := by exact_mod_cast (by omega : 0 < k)
  rcases eq_or_lt_of_le hjt with h | h
  · have : (j : ℚ) / (k : ℚ) = ((x.length - 1 : ℕ) : ℚ) := by
      rw [← h]; push_cast; field_simp
    rw [this, interpUnit_node _ _ _ _ (by omega), getD_of_lt _ _ (by omega)]
  · have : ((x.length - 1 : ℕ) : ℚ) < (j : ℚ) / (k : ℚ) := by
      rw [lt_div_iff₀ hk0]
      have : (((x.length - 1) * k : ℕ) : ℚ) < (j : ℚ) := by
        exact_mod_cast (by rw [Nat.mul_comm]; exact h)
      push_cast at this ⊢; linarith
    rw [interpUnit_right _ _ _ _ hne this, getD_of_lt _ _ (by omega)]

example : (interpValues [1, 3, 2] (4 : ℕ) false)[11]'(by decide +kernel) = 2 := by decide +kernel

/-- **C14.b (convex combination / range)** every output sample is a convex combination of two input samples;
hence any bounds `lo ≤ x[i] ≤ hi` of the record hold for the output (`min x ≤ out[j] ≤ max x`). -/
theorem refinement_convex (x : List ℚ) (k : ℕ) (even : Bool) (j : ℕ)
    (hj : j < (interpValues x (k : ℚ) even).length) :
    ∃ a ∈ x, ∃ b ∈ x, ∃ t : ℚ, 0 ≤ t ∧ t ≤ 1 ∧ (interpValues x (k : ℚ) even)[j] = (1 - t) * a + t * b := by
  have hlen := hj
  rw [length_interpValues] at hlen
  have hle := outLen_refine_le x.length k even
  have hn : 0 < x.length := by
    rcases Nat.eq_zero_or_pos x.length with h | h
    · have : k * x.length = 0 := by rw [h]; simp
      omega
    · exact h
  have hne : x ≠ [] := by intro h; rw [h] at hn; simp at hn
  rw [interpValues_getElem]
  obtain ⟨a, b, t, ha, hb, ht0, ht1, he⟩ :=
    interpUnit_convex x (x.getD 0 0) (x.getD (x.length - 1) 0) ((j : ℚ) / (k : ℚ)) hne
  have hmem : ∀ v ∈ x.getD 0 0 :: x.getD (x.length - 1) 0 :: x, v ∈ x := by
    intro v hv
    simp only [List.mem_cons] at hv
    rcases hv with rfl | rfl | hv
    · exact getD_mem x 0 hn
    · exact getD_mem x _ (by omega)
    · exact hv
  exact ⟨a, hmem a ha, b, hmem b hb, t, ht0, ht1, he⟩

theorem refinement_range (x : List ℚ) (k : ℕ) (even : Bool) (lo hi : ℚ)
    (hx : ∀ v ∈ x, lo ≤ v ∧ v ≤ hi) : ∀ v ∈ interpValues x (k : ℚ) even, lo ≤ v ∧ v ≤ hi := by
  intro v hv
  obtain ⟨j, hj, rfl⟩ := List.getElem_of_mem hv
  obtain ⟨a, ha, b, hb, t, ht0, ht1, he⟩ := refinement_convex x k even j hj
  obtain ⟨ha1, ha2⟩ := hx a ha
  obtain ⟨hb1, hb2⟩ := hx b hb
  rw [he]
  have h1t : 0 ≤ 1 - t := by linarith
  constructor
  · nlinarith [mul_le_mul_of_nonneg_left ha1 h1t, mul_le_mul_of_nonneg_left hb1 ht0]
  · nlinarith [mul_le_mul_of_nonneg_left ha2 h1t, mul_le_mul_of_nonneg_left hb2 ht0]

example : ∀ v ∈ interpValues [1, 3, 2] (3 : ℕ) true, (1 : ℚ) ≤ v ∧ v ≤ 3 := by decide +kernel

/-! ## C14.c — decimation (`factor = 1/m`, `m ∈ ℕ`, `m ≥ 1`) -/

/-- **C14.c (length)** `len out = ⌈n/m⌉ = (n + m − 1) / m`, or `2·trunc((n/m)/2) = 2·(n / (2m))` when `even`. -/
theorem decimation_length (x : List ℚ) (m : ℕ) (hm : 1 ≤ m) (even : Bool) :
    (interpValues x (1 / (m : ℚ)) even).length =
      if even then 2 * (x.length / (2 * m)) else (x.length + m - 1) / m := by
  rw [length_interpValues]
  cases even
  · rw [outLen_decim_odd _ _ hm]; rfl
  · rw [outLen_decim_even]; rfl

example : (interpValues [0, 1, 2, 3, 4, 5, 6] (1 / ((3 : ℕ) : ℚ)) false).length = 3 ∧
    (interpValues [0, 1, 2, 3, 4, 5, 6] (1 / ((3 : ℕ) : ℚ)) true).length = 2 := by decide +kernel

/-- **C14.c (samples)** `out[j] = x[j·m]`: every output sample is the input sample at `m` times its index. -/
theorem decimation_samples (x : List ℚ) (m : ℕ) (hm : 1 ≤ m) (even : Bool) (j : ℕ)
    (hj : j < (interpValues x (1 / (m : ℚ)) even).length) :
    ∃ h : j * m < x.length, (interpValues x (1 / (m : ℚ)) even)[j] = x[j * m] := by
  have hlen := hj
  rw [length_interpValues] at hlen
  have hidx := decim_index_lt x.length m hm even j hlen
  refine ⟨hidx, ?_⟩
  rw [interpValues_getElem]
  have hm0 : (m : ℚ) ≠ 0 := by exact_mod_cast (by omega : m ≠ 0)
  have : (j : ℚ) / (1 / (m : ℚ)) = ((j * m : ℕ) : ℚ) := by push_cast; field_simp
  rw [this, interpUnit_node _ _ _ _ hidx, getD_of_lt _ _ hidx]

example : (interpValues [0, 1, 2, 3, 4, 5, 6] (1 / ((3 : ℕ) : ℚ)) false)[2]'(by decide +kernel) = 6 := by
  decide +kernel

/-- **C14.c (subsequence)** the decimated record is a subsequence of the input. -/
theorem decimation_sublist (x : List ℚ) (m : ℕ) (hm : 1 ≤ m) (even : Bool) :
    (interpValues x (1 / (m : ℚ)) even).Sublist x := by
  rw [List.sublist_iff_exists_fin_orderEmbedding_get_eq]
  have hidx : ∀ ix : Fin (interpValues x (1 / (m : ℚ)) even).length, ix.val * m < x.length :=
    fun ix => (decimation_samples x m hm even ix.val ix.isLt).1
  refine ⟨OrderEmbedding.ofStrictMono (fun ix => ⟨ix.val * m, hidx ix⟩) ?_, ?_⟩
  · intro a b hab
    have : a.val < b.val := hab
    show a.val * m < b.val * m
    exact Nat.mul_lt_mul_of_pos_right this (by omega)
  · intro ix
    obtain ⟨h, he⟩ := decimation_samples x m hm even ix.val ix.isLt
    show (interpValues x (1 / (m : ℚ)) even).get ix = x.get ⟨ix.val * m, hidx ix⟩
    simp only [List.get_eq_getElem]; exact he

example : (interpValues [0, 1, 2, 3, 4, 5, 6] (1 / ((3 : ℕ) : ℚ)) true) = [0, 3] := by decide +kernel

/-! ## C14.d — covered duration, even length -/

/-- **C14.d (even length)** the output length is even whenever `even=True`, for every factor. -/
theorem even_length (x : List ℚ) (f : ℚ) : 2 ∣ (interpValues x f true).length := by
  rw [length_interpValues]; exact even_outLen _ _

example : (interpValues [1, 2, 3, 4, 5, 6, 7] (1 / 2) true).length = 2 ∧
    (interpValues [1, 2, 3] 3 true).length = 8 := by decide +kernel

/-- **C14.d** covered duration, `dt, target > 0`, `factor = factorRule (dt/target)`, `new_dt = dt/factor`,
`L = len out`: `|(L − 1)·new_dt − (n − 1)·dt| < 2·max(dt, new_dt)` for `even=False` (any quotient) and for
refinement (`dt/target ≥ 1`, any `even`). -/
theorem covered_duration (x : List ℚ) (dt target : ℚ) (hdt : 0 < dt) (ht : 0 < target) (even : Bool)
    (hcase : even = false ∨ 1 ≤ dt / target) :
    |(((interpValues x (factorRule (dt / target)) even).length : ℚ) - 1) * (dt / factorRule (dt / target))
        - ((x.length : ℚ) - 1) * dt|
      < 2 * max dt (dt / factorRule (dt / target)) := by
  rw [length_interpValues]
  obtain ⟨-, -, hge, hlt, -⟩ := factor_rule dt target hdt ht
  rcases le_or_gt 1 (dt / target) with h1 | h1
  · obtain ⟨-, k, hk, hf⟩ := hge h1
    rw [hf]; exact duration_refine x.length k hk dt hdt even
  · obtain ⟨-, m, hm, hf⟩ := hlt h1
    have hev : even = false := by
      rcases hcase with h | h
      · exact h
      · exact absurd h (not_le.mpr h1)
    have hf' : factorRule (dt / target) = 1 / (m : ℚ) := by
      rw [← hf, one_div_one_div]
    rw [hf', hev]; exact duration_decim_odd x.length m hm dt hdt

-- non-vacuity: decimation by 9 without `even` (4 samples cover 0.27 s of 0.32 s), refinement by 4 with `even`
example : (0:ℚ) < 1/100 ∧ (0:ℚ) < 9/100 ∧ factorRule ((1/100) / (9/100)) = 1/9 ∧
    outLen 33 (1/9) false = 4 ∧ factorRule ((7/100) / (1/50)) = 4 ∧ outLen 33 4 true = 132 := by decide +kernel

/-- **C14.d, decimation with `even=True`** — `duration_even_decimation_partial`.
Full statement of the property ("the covered duration changes by less than two steps",
`< 2·max(dt, new_dt)`) is **false** here: the code computes `2·int((n/m)/2)` from the *fractional* count `n/m`
and can drop almost two samples more than `arange(n/m)` keeps (finding F14-1; counterexample below).
What holds, and is proved: `|(L − 1)·new_dt − (n − 1)·dt| < 3·new_dt`. -/
theorem duration_even_decimation_partial (x : List ℚ) (dt target : ℚ) (hdt : 0 < dt) (ht : 0 < target)
    (hq : dt / target < 1) :
    |(((interpValues x (factorRule (dt / target)) true).length : ℚ) - 1) * (dt / factorRule (dt / target))
        - ((x.length : ℚ) - 1) * dt|
      < 3 * (dt / factorRule (dt / target)) := by
  rw [length_interpValues]
  obtain ⟨-, -, -, hlt, -⟩ := factor_rule dt target hdt ht
  obtain ⟨-, m, hm, hf⟩ := hlt hq
  have hf' : factorRule (dt / target) = 1 / (m : ℚ) := by
    rw [← hf, one_div_one_div]
  rw [hf']; exact duration_decim_even x.length m hm dt hdt

/-- kernel-checked counterexample to the "< 2 steps" statement for decimation with `even=True`:
`n = 33`, `dt = 1/100`, `target = 9/100` → factor `1/9`, `2` output samples, covered duration `0.09` instead of
`0.32`: the difference `0.23` is `2.56` new steps. -/
example :
    let dt : ℚ := 1/100; let target : ℚ := 9/100; let f := factorRule (dt / target)
    f = 1/9 ∧ outLen 33 f true = 2 ∧
    ¬ (abs ((((outLen 33 f true : ℕ) : ℚ) - 1) * (dt / f) - ((33 : ℚ) - 1) * dt) < 2 * max dt (dt / f)) ∧
    (abs ((((outLen 33 f true : ℕ) : ℚ) - 1) * (dt / f) - ((33 : ℚ) - 1) * dt) < 3 * (dt / f)) := by
  decide +kernel

end EqsigVerif.Props.C14
