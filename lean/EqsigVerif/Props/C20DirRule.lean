import EqsigVerif.Model.Fns
import EqsigVerif.Spec.Fns
import EqsigVerif.Spec.FnsDir
import EqsigVerif.Lemmas.Fns
import EqsigVerif.Lemmas.FnsDir
/-!
# C20.d/e — the `dir` rule of the step fit: which splits are excluded and which split is then selected

`calc_step_fn_steps_vals(values, ind)` has no `dir` argument; the direction enters through
`ind = np.argmin(calc_step_fn_vals_error(values, pow, dir))` (`Spec.FnsDir.dirSplit`).
Vocabulary: `Spec.FnsDir.DirExcluded d values k` — the code's comparison `pre_mean[k] < post_mean[k]` (`'down'`) /
`pre_mean[k] > post_mean[k]` (`'up'`), where BOTH means contain the split sample `k`.
-/
namespace EqsigVerif.Props.C20
open EqsigVerif EqsigVerif.Np EqsigVerif.Wire EqsigVerif.Model.Fns EqsigVerif.Spec.Fns EqsigVerif.Lemmas.Fns
open EqsigVerif.Spec.FnsDir EqsigVerif.Lemmas.FnsDir

/-- **C20.d** (`dir` rule, all three option values in one statement): for a non-empty series, with `M` the largest
step-fit error, entry `k` of `calc_step_fn_vals_error(values, pow, dir)` is `10·M` when split `k` is excluded by `dir`
and the step-fit error `stepFitErr values pow k` otherwise (`dir = None` excludes nothing). -/
theorem step_err_dir_excluded (values : List ℚ) (hne : values ≠ []) (p : Nat) (d : Dir) :
    ∃ M, M ∈ (List.range values.length).map (stepFitErr values p) ∧
      (∀ e ∈ (List.range values.length).map (stepFitErr values p), e ≤ M) ∧
      stepErr values p d = .ok ((List.range values.length).map (fun k =>
        if DirExcluded d values k then M * 10 else stepFitErr values p k)) :=
  stepErr_dirExcluded values hne p d

example : stepErr [1, 3, 2, 0] 1 .up = .ok [10/3, 40, 40, 40] ∧
    (List.range 4).map (fun k => decide (DirExcluded .up [1, 3, 2, 0] k)) = [false, true, true, true] ∧
    (List.range 4).map (stepFitErr [1, 3, 2, 0] 1) = [10/3, 4, 2, 4] := by decide +kernel

/-- **C20.e** (`dir` rule, the selected split): for a non-empty series, every power and every `dir`, the split
`k = np.argmin(calc_step_fn_vals_error(values, pow, dir))` exists (`k < n`) and
* if EVERY split is excluded (all entries equal `10·M`) it is split `0`;
* otherwise it is NOT excluded, it minimises the step-fit error among the non-excluded splits, and it is the FIRST
  such minimiser (ties: lowest index) — excluded splits never win, not even when the largest error `M` is `0`
  (then the series is constant and nothing is excluded);
* `calc_step_fn_steps_vals(values, k)` returns the means of the samples strictly before / strictly after sample `k`. -/
theorem step_dir_split (values : List ℚ) (hne : values ≠ []) (p : Nat) (d : Dir) :
    ∃ k, dirSplit values p d = .ok k ∧ k < values.length ∧
      ((∀ j, j < values.length → DirExcluded d values j) → k = 0) ∧
      ((∃ j, j < values.length ∧ ¬ DirExcluded d values j) →
        ¬ DirExcluded d values k ∧
        (∀ j, j < values.length → ¬ DirExcluded d values j → stepFitErr values p k ≤ stepFitErr values p j) ∧
        (∀ j, j < k → ¬ DirExcluded d values j → stepFitErr values p k < stepFitErr values p j)) ∧
      stepLevels values (some (k : Int)) = .ok (mean? (values.take k), mean? (values.drop (k + 1))) := by
  obtain ⟨k, hk, hlt, h1, h2⟩ := dirSplit_spec values hne p d
  exact ⟨k, hk, hlt, h1, h2, stepLevels_some values k hlt⟩

/-- some but not all splits excluded; the global minimiser (split 2, error 2) is excluded, split 0 is selected -/
example : dirSplit [1, 3, 2, 0] 1 .up = .ok 0 ∧ dirSplit [1, 3, 2, 0] 1 .down = .ok 2 ∧
    dirSplit [1, 3, 2, 0] 1 .none = .ok 2 := by decide +kernel
/-- every split excluded: split 0 -/
example : dirSplit [2, 2, 0, 1] 1 .up = .ok 0 ∧ stepErr [2, 2, 0, 1] 1 .up = .ok [30, 30, 30, 30] ∧
    (∀ j, j < 4 → DirExcluded .up [2, 2, 0, 1] j) := by
  refine ⟨by decide +kernel, by decide +kernel, ?_⟩
  intro j hj
  have : j = 0 ∨ j = 1 ∨ j = 2 ∨ j = 3 := by omega
  rcases this with rfl | rfl | rfl | rfl <;> decide +kernel
/-- only split 0 is excluded; without `dir` the errors `[8, 28/3, 28/3, 8, 48/5]` tie at splits 0 and 3 and the first
(split 0) wins; with `'up'` split 0 is excluded and split 3 wins -/
example : stepErr [3, -1, 3, -1, 3] 1 .up = .ok [96, 28/3, 28/3, 8, 48/5] ∧
    dirSplit [3, -1, 3, -1, 3] 1 .up = .ok 3 ∧ dirSplit [3, -1, 3, -1, 3] 1 .none = .ok 0 := by decide +kernel
example : dirSplit [] 1 .up = .error .IndexError := by decide +kernel

/-- **C20.d** the two end splits are compared with the OVERALL mean: split `0` is excluded under `'down'` iff the first
sample is below the mean of the whole series (`'up'`: above); the last split `n−1` (the one-level fit, "no step") is
excluded under `'down'` iff the last sample is above the overall mean (`'up'`: below). -/
theorem step_dir_excluded_ends (values : List ℚ) (hne : values ≠ []) :
    (DirExcluded .down values 0 ↔ values.head hne < mean values) ∧
    (DirExcluded .up values 0 ↔ values.head hne > mean values) ∧
    (DirExcluded .down values (values.length - 1) ↔ mean values < values.getLast hne) ∧
    (DirExcluded .up values (values.length - 1) ↔ mean values > values.getLast hne) :=
  ⟨(dirExcluded_first values hne).1, (dirExcluded_first values hne).2,
   (dirExcluded_last values hne).1, (dirExcluded_last values hne).2⟩

example : DirExcluded .down [0, 2, 1] 0 ∧ ¬ DirExcluded .down [0, 2, 1] 2 ∧ mean [0, 2, 1] = 1 := by
  decide +kernel

/-- **Observation (docstring vs code), kernel-checked.** The docstring says "if 'up', then all downward steps are set to
10x maximum error".  False of the code (and the model): for `[-3, -5, -2, 3, -5]`, `dir='up'`, split 3 is NOT
excluded although the fitted step function of that split goes DOWN (`−7/4 → −5`); it is even the selected split, and
the levels `calc_step_fn_steps_vals` then returns go down as well (`−10/3 → −5`).  Reason: the code compares
`mean(values[:k+1])` with `mean(values[k:])` (both contain sample `k`), not the two fitted levels. -/
example : dirSplit [-3, -5, -2, 3, -5] 1 .up = .ok 3 ∧ ¬ DirExcluded .up [-3, -5, -2, 3, -5] 3 ∧
    mean (([-3, -5, -2, 3, -5] : List ℚ).take 4) = -7/4 ∧ mean (([-3, -5, -2, 3, -5] : List ℚ).drop 4) = -5 ∧
    stepLevels [-3, -5, -2, 3, -5] (some 3) = .ok (some (-10/3), some (-5)) := by decide +kernel

end EqsigVerif.Props.C20
