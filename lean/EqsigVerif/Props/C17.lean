import EqsigVerif.Model.Single
import EqsigVerif.Lemmas.Single
import EqsigVerif.Lemmas.Detrend
import EqsigVerif.Lemmas.ZeroPhase
/-!
# C17 — Butterworth bookkeeping / linearity, detrending, `add_*`, running average

Model: `EqsigVerif/Model/Single.lean` (tree with the planned fixes).  `filtfilt ∘ butter` and `np.polyfit` are
external (kind X): they enter as an abstract operator `F` resp. as named hypotheses.
-/
set_option linter.unusedVariables false
set_option linter.unusedSimpArgs false
set_option linter.unnecessarySeqFocus false
namespace EqsigVerif.Props.C17
open EqsigVerif EqsigVerif.Model.Single
open EqsigVerif.Wire (ErrKind)

/-! ## C17.a — `butter_pass` bookkeeping -/

/-- **C17.a** (`butter_bookkeeping`). For every record length `n`, every `remove_gibbs` mode and every
`gibbs_extra ≥ 0`: `0 ≤ s_len` (a `Nat`), `f_len = s_len + n ≤ new_len`; the array handed to SciPy has length
`new_len`; `new_len = n` without padding and `new_len = 2^(⌈log₂ n⌉ + gibbs_extra)` with it, where
`⌈log₂ n⌉ = ceilLog2 n` is the least `k` with `n ≤ 2^k`; and for every length-preserving external operator `F`
the result has exactly the length of the record. (`dt` is not an input or output of the model: untouched.) -/
theorem butter_bookkeeping (v : List ℚ) (mode : GibbsMode) (ge gr : ℕ) (F : List ℚ → List ℚ)
    (hF : ∀ x, (F x).length = x.length) :
    let bk := butterBookkeeping v.length mode ge
    bk.2.2 = bk.2.1 + v.length ∧ bk.2.2 ≤ bk.1 ∧
    (butterPad v mode ge gr).length = bk.1 ∧
    bk.1 = (if mode = .none then v.length else 2 ^ (ceilLog2 v.length + ge)) ∧
    (∀ k, 1 ≤ v.length → (ceilLog2 v.length ≤ k ↔ v.length ≤ 2 ^ k)) ∧
    (butterPass F v mode ge gr).length = v.length := by
  intro bk
  obtain ⟨h1, h2⟩ := bookkeeping_bounds v.length mode ge
  have h3 := length_butterPad v mode ge gr
  refine ⟨h1, h2, h3, ?_, fun k hn => ceilLog2_le_iff _ k hn, ?_⟩
  · cases mode <;> simp [bk, butterBookkeeping]
  · rw [butterPass_eq]
    simp only [Np.slice, List.length_drop, List.length_take, hF, h3]
    omega

/-- non-vacuity: a 5-sample record, `'mid'`, `gibbs_extra = 1`: `new_len = 16`, `s_len = 5`, `f_len = 10` -/
example : butterBookkeeping 5 .mid 1 = (16, 5, 10) ∧
    (butterPass id [1, 2, 3, 4, 5] .mid 1 2) = [1, 2, 3, 4, 5] ∧
    butterPad [1, 2, 3, 4, 5] .end 0 2 = [3/2, 3/2, 3/2, 1, 2, 3, 4, 5] := by decide +kernel

/-- **C17.a** (type selection table): `(None, f) → low f`, `(f, None) → high f`, `(f₁, f₂) → band`, for the three
accepted containers (with the fix `np.ndarray` is accepted). -/
theorem filter_select_table (c : Container) (hc : c ≠ .other) (f f1 f2 : ℚ) :
    filterSelect c [none, some f] = .ok (.low, [f]) ∧
    filterSelect c [some f, none] = .ok (.high, [f]) ∧
    filterSelect c [some f1, some f2] = .ok (.band, [f1, f2]) := by
  cases c <;> simp_all [filterSelect]

example : filterSelect .ndarray [none, some 15] = .ok (.low, [15]) := by decide +kernel

/-- **C17.a** (argument checks): `ValueError` is raised by the checks exactly when the container is not a
list/tuple/ndarray or its length is not 2. -/
theorem filter_select_value_error (c : Container) (items : List (Option ℚ)) :
    filterSelect c items = .error .ValueError ↔ (c = .other ∨ items.length ≠ 2) := by
  cases c <;> (try simp [filterSelect]) <;>
  · rcases items with _ | ⟨a, _ | ⟨b, _ | ⟨d, r⟩⟩⟩ <;> (try simp [filterSelect]) <;>
    · cases a <;> cases b <;> simp [filterSelect]

example : filterSelect .list [some 1] = .error .ValueError ∧
    filterSelect .other [some 1, some 2] = .error .ValueError := by decide +kernel

/-! ## C17.b — linearity -/

/-- **C17.b** (`butter_linear`). If the external operator (`filtfilt(b, a, ·)` for the fixed `(b, a)` of the call) is
additive and homogeneous on arrays of one length, then `butter_pass` is additive and homogeneous in the record, for
every padding mode (the padding values are means of the record, hence linear). -/
theorem butter_linear (F : List ℚ → List ℚ)
    (hFadd : ∀ x y, x.length = y.length → F (Np.addL x y) = Np.addL (F x) (F y))
    (hFsmul : ∀ c x, F (Np.scale c x) = Np.scale c (F x))
    (v w : List ℚ) (c : ℚ) (mode : GibbsMode) (ge gr : ℕ) (hvw : v.length = w.length) :
    butterPass F (Np.addL v w) mode ge gr
      = Np.addL (butterPass F v mode ge gr) (butterPass F w mode ge gr) ∧
    butterPass F (Np.scale c v) mode ge gr = Np.scale c (butterPass F v mode ge gr) := by
  constructor
  · rw [butterPass_eq, butterPass_eq, butterPass_eq, length_addL v w hvw, ← hvw,
      butterPad_addL v w mode ge gr hvw,
      hFadd _ _ (by rw [length_butterPad, length_butterPad, hvw]), slice_addL]
  · rw [butterPass_eq, butterPass_eq, length_scale, butterPad_scale, hFsmul, slice_scale]

/-- non-vacuity: a linear, length-preserving stand-in for the filter (`y[i] = 2·x[i]`), `'mid'` padding -/
example :
    let F : List ℚ → List ℚ := fun x => x.map (2 * ·)
    butterPass F (Np.addL [1, 2, 3] [4, 0, -1]) .mid 1 2
      = Np.addL (butterPass F [1, 2, 3] .mid 1 2) (butterPass F [4, 0, -1] .mid 1 2) := by decide +kernel

/-! ## C17.c — zero phase (stretch) -/

/-- **C17.c** (stretch). Zero phase of forward–backward filtering: for a rational transfer function `H = B/A` with **real**
coefficients, `H(e^{iω})·H(e^{−iω}) = ‖H(e^{iω})‖²` — the two-pass frequency response is a real, non-negative gain
(the squared magnitude), no phase.  (That SciPy's `butter` yields the analytic Butterworth magnitude and the edge
handling of `filtfilt` are **S**, not proved.) -/
theorem zero_phase (B A : Polynomial ℝ) (ω : ℝ) :
    ZeroPhase.H B A (Complex.exp (Complex.I * ω)) * ZeroPhase.H B A (Complex.exp (-(Complex.I * ω)))
      = ((‖ZeroPhase.H B A (Complex.exp (Complex.I * ω))‖ ^ 2 : ℝ) : ℂ) :=
  ZeroPhase.zero_phase B A ω

/-- non-vacuity: a first-order section `H(z) = (1 + z)/(3 − z)` at `ω = 1` -/
example :
    let B : Polynomial ℝ := Polynomial.C 1 + Polynomial.X
    let A : Polynomial ℝ := Polynomial.C 3 - Polynomial.X
    (ZeroPhase.H B A (Complex.exp (Complex.I * (1 : ℝ))) * ZeroPhase.H B A (Complex.exp (-(Complex.I * (1 : ℝ))))).im = 0 := by
  intro B A
  rw [zero_phase B A 1]
  exact Complex.ofReal_im _

/-! ## C17.d — detrending -/

/-- **C17.d** (`detrend_projection`, T + X). `r = remove_poly y` computed with coefficients `cofs` (`k + 1` of them, highest
power first), `x = linspace(0, 1, n)`, `V = span{1, x, …, x^k} ⊂ ℝⁿ`, `P` the orthogonal projection onto `V`:
* the result has the length of the record and `y − r ∈ V` — for **any** coefficients (exactly one polynomial of degree
  `≤ k` is subtracted);
* if `np.polyfit` returns least-squares coefficients (`PolyfitIsLSQ`: residual ⟂ `1, x, …, x^k`) then `r = y − P y`,
  `P r = 0` (the best-fit polynomial of the result is zero), detrending again changes nothing (idempotent, as lists),
  and adding any `q ∈ V` to the record beforehand gives the same result.
Object-level `Signal.remove_poly` and `fns.generic.remove_poly` are the same model function `removePoly`. -/
theorem detrend_projection (k : ℕ) (v cofs : List ℚ) (hc : cofs.length = k + 1) :
    let n := v.length
    let V := polySpace n k
    let r := removePolyWith cofs v
    r.length = n ∧
    toVec n v - toVec n r ∈ V ∧
    (PolyfitIsLSQ n k cofs v →
      toVec n r = toVec n v - V.starProjection (toVec n v) ∧
      V.starProjection (toVec n r) = 0 ∧
      (∀ cofs', cofs'.length = k + 1 → PolyfitIsLSQ n k cofs' r → removePolyWith cofs' r = r) ∧
      (∀ q cofs', q.length = n → toVec n q ∈ V → cofs'.length = k + 1 →
        PolyfitIsLSQ n k cofs' (Np.addL v q) → removePolyWith cofs' (Np.addL v q) = r)) := by
  intro n V r
  have hrlen : r.length = n := length_removePolyWith cofs v
  refine ⟨hrlen, correction_mem k v cofs hc, fun hlsq => ?_⟩
  have hr : toVec n r = resid V (toVec n v) := removePoly_eq_resid k v cofs hc hlsq
  refine ⟨hr, by rw [hr]; exact proj_resid V _, ?_, ?_⟩
  · intro cofs' hc' hlsq'
    have h1 := removePoly_eq_resid k r cofs' hc' (by rw [hrlen]; exact hlsq')
    rw [hrlen] at h1
    apply toVec_injective n _ _ (by rw [length_removePolyWith, hrlen]) hrlen
    rw [h1, hr, resid_idem]
  · intro q cofs' hq hqV hc' hlsq'
    have hlen : (Np.addL v q).length = n := by simp [Np.addL, hq, n]
    have h1 := removePoly_eq_resid k (Np.addL v q) cofs' hc' (by rw [hlen]; exact hlsq')
    rw [hlen] at h1
    apply toVec_injective n _ _ (by rw [length_removePolyWith, hlen]) hrlen
    rw [h1, hr, toVec_addL n v q rfl hq, resid_add_mem V _ _ hqV]

/-- non-vacuity: record `[0, 1, 5]` on `x = [0, 1/2, 1]`, degree 1; the least-squares line is `5x − 1/2`, the
coefficients `[5, -1/2]` satisfy the hypothesis and the residual is `[1/2, -1, 1/2]` -/
example : removePolyWith [5, -1/2] [0, 1, 5] = [1/2, -1, 1/2] ∧ PolyfitIsLSQ 3 1 [5, -1/2] [0, 1, 5] := by
  have h : removePolyWith [5, -1/2] [0, 1, 5] = [1/2, -1, 1/2] := by decide +kernel
  refine ⟨h, ?_⟩
  intro j hj
  have hx : linspace01 3 = [0, 1/2, 1] := by decide +kernel
  rw [h]
  interval_cases j <;>
    simp [toVec, powVec, hx, PiLp.inner_apply, Fin.sum_univ_three] <;> norm_num

/-! ## C17.e — `add_constant`, `add_series`, `add_signal` -/

/-- **C17.e** `add_constant`: element-wise, same length. -/
theorem add_constant_spec (v : List ℚ) (c : ℚ) :
    (addConstant v c).length = v.length ∧
    ∀ i (hi : i < v.length), (addConstant v c)[i]'(by simpa [addConstant] using hi) = v[i] + c := by
  simp [addConstant]

example : addConstant [1, 2, 3] (1/2) = [3/2, 5/2, 7/2] := by decide +kernel

/-- **C17.e** `add_series`: raises (`SignalProcessingError`) iff the lengths differ; otherwise the element-wise sum. -/
theorem add_series_spec (v s : List ℚ) :
    (addSeries v s = .error .SignalProcessingError ↔ s.length ≠ v.length) ∧
    (s.length = v.length → ∃ r, addSeries v s = .ok r ∧ r.length = v.length ∧
      ∀ i (hi : i < v.length) (hs : i < s.length) (hr : i < r.length), r[i] = v[i] + s[i]) := by
  unfold addSeries
  constructor
  · by_cases h : s.length = v.length <;> simp [h]
  · intro h
    refine ⟨Np.addL v s, by simp [h], by simp [Np.addL, h], ?_⟩
    intro i hi hs hr
    simp [Np.addL]

example : addSeries [1, 2, 3] [10, 20, 30] = .ok [11, 22, 33] ∧
    addSeries [1, 2, 3] [10, 20] = .error .SignalProcessingError := by decide +kernel

/-- **C17.e** `add_signal`: succeeds iff the operand is a `Signal` with the same `dt` and the same number of
points, and then adds element-wise (it is `add_series` of the operand's values); every failure is a
`SignalProcessingError`. -/
theorem add_signal_spec (dt : ℚ) (v : List ℚ) (o : Operand) :
    ((∃ r, addSignal dt v o = .ok r) ↔ ∃ vals, o = .signal dt vals ∧ vals.length = v.length) ∧
    (∀ vals, o = .signal dt vals → addSignal dt v o = addSeries v vals) ∧
    ((¬ ∃ r, addSignal dt v o = .ok r) → addSignal dt v o = .error .SignalProcessingError) := by
  cases o with
  | notSignal => simp [addSignal]
  | signal dt' vals' =>
    by_cases hdt : dt' = dt
    · subst hdt
      by_cases hl : vals'.length = v.length <;> simp [addSignal, addSeries, hl]
    · have hdt' : ¬ dt = dt' := fun h => hdt h.symm
      simp [addSignal, hdt, hdt']

example : addSignal (1/2) [1, 2] (.signal (1/2) [5, 5]) = .ok [6, 7] ∧
    addSignal (1/2) [1, 2] (.signal (1/4) [5, 5]) = .error .SignalProcessingError ∧
    addSignal (1/2) [1, 2] .notSignal = .error .SignalProcessingError := by decide +kernel

/-- **C17.e** (`remove_average`): subtracts `np.mean(values[:section])`; with the default `section = -1` that is the mean of all
samples **but the last** (records of at least two samples; a one-sample record gives `nan`, tag `.ZeroDivisionError`). -/
theorem remove_average_default (v : List ℚ) (h : 2 ≤ v.length) :
    removeAverage v = .ok (v.map (· - mean (v.take (v.length - 1)))) ∧
    ∀ x : ℚ, removeAverage [x] = .error .ZeroDivisionError := by
  constructor
  · have hidx : normIdx v.length (-1) = v.length - 1 := by
      unfold normIdx
      simp only [show ((-1 : ℤ) < 0) by omega, if_true]
      omega
    have hne : (v.take (v.length - 1)).isEmpty = false := by
      rw [List.isEmpty_eq_false_iff]; intro h0
      have := congrArg List.length h0
      simp at this; omega
    simp [removeAverage, pyTo, hidx, mean?, hne]
  · intro x
    simp [removeAverage, pyTo, normIdx, mean?]

example : removeAverage [1, 3, 100] = .ok [-1, 1, 98] := by decide +kernel

/-! ## C17.f — running average -/

/-- **C17.f** (`running_average_spec`), in full (fixed tree): for every record and every width `w` (also `w = 0`,
`w > n`, even `w`): the output has the length of the record and
`out[i] = mean {orig[j] : |j − i| ≤ ⌊w/2⌋, 0 ≤ j < n}` (`window n i h` is that index set, it contains `i`). -/
theorem running_average_spec (v : List ℚ) (w : ℕ) :
    (runningAverage v w).length = v.length ∧
    ∀ i (hi : i < v.length),
      i ∈ window v.length i (w / 2) ∧
      (runningAverage v w)[i]'(by simpa using hi)
        = (∑ j ∈ window v.length i (w / 2), v.getD j 0) / ((window v.length i (w / 2)).card : ℚ) := by
  refine ⟨length_runningAverage v w, fun i hi => ⟨self_mem_window _ _ _ hi, ?_⟩⟩
  rw [runningAverage_getElem v w i hi, runningAverageAt_eq_window v w i hi]

/-- non-vacuity: width 3 and the even width 4 near the end, and a width larger than the record -/
example : runningAverage [1, 2, 3, 4, 5] 3 = [3/2, 2, 3, 4, 9/2] ∧
    runningAverage [1, 2, 3, 4, 5] 4 = [2, 5/2, 3, 7/2, 4] ∧
    runningAverage [1, 2, 6] 7 = [3, 3, 3] := by decide +kernel

end EqsigVerif.Props.C17
