import EqsigVerif.Model.Stockwell
import EqsigVerif.Lemmas.Cplx
import EqsigVerif.Lemmas.CplxC
import EqsigVerif.Lemmas.Stockwell
import EqsigVerif.Lemmas.Inverse
/-!
# C15 — Stockwell transform: definition, Fourier marginal (and inverse)

Model: `Model/Stockwell.lean` instantiated at Mathlib's `ℝ`/`ℂ` (`CxLike ℝ ℂ`), twiddles
`twC N m = e^{-2πi m/N}`, `Real.exp`, `Real.pi`.  `np.fft.fft/ifft` and `scipy.fftpack.fft/ifft` are the
defining sums (external assumption **FftIsDft**, DESIGN §3.3).
Notation: `n = len(acc)`, `N = 2⌊n/2⌋`, `X = dft twC acc N` (the spectrum of the record truncated to
`N` samples), `S` the result; row `r` of `S` belongs to harmonic `k = N/2 − r`.
-/
set_option linter.unusedSectionVars false
set_option linter.unusedVariables false
namespace EqsigVerif.Props.C15
open EqsigVerif EqsigVerif.Cplx EqsigVerif.Wire EqsigVerif.Model.Stockwell Finset Complex

/-! ## C15.a -/

/-- **C15.a** for a record of length `n ≥ 2` the transform succeeds and is an `(N/2) × N` array,
`N = 2⌊n/2⌋`; row `r` is the inverse DFT of the windowed, shifted spectrum of harmonic `k = N/2 − r`
(row 0 = Nyquist, last row = first harmonic).  Holds for every twiddle table / `exp` / `π`
(so also for the `Float` instantiation's structure). -/
theorem shape (tw : ℕ → ℕ → ℂ) (exp : ℝ → ℝ) (pi : ℝ) (acc : List ℂ) (h : 2 ≤ acc.length) :
    ∃ S, transform tw exp pi acc = .ok S ∧ S.length = acc.length / 2 ∧
      (∀ row ∈ S, row.length = 2 * (acc.length / 2)) ∧
      ∀ r (hr : r < S.length), S[r] =
        idft tw (prodRow exp pi (dft tw acc (2 * (acc.length / 2))) (acc.length / 2)
          (acc.length / 2 - r)) (2 * (acc.length / 2)) := by
  refine ⟨_, transform_eq tw exp pi acc h, by simp, ?_, ?_⟩
  · intro row hrow
    obtain ⟨r, _, rfl⟩ := List.mem_map.mp hrow
    simp
  · intro r hr
    simp

/-- **C15.a** records shorter than 2 samples raise (`ValueError` from the FFT with `n = 0`). -/
theorem short_record_raises (tw : ℕ → ℕ → ℂ) (exp : ℝ → ℝ) (pi : ℝ) (acc : List ℂ)
    (h : acc.length < 2) : transform tw exp pi acc = .error .ValueError := by
  have : 2 * (acc.length / 2) = 0 := by omega
  simp [transform, this]

example : (2 : ℕ) ≤ ([1, 2, 3, 4, 5] : List ℂ).length := by decide

/-! ## C15.c -/

/-- **C15.c** both implementations (`transform`, `transform_w_scipy_fft`) have the same model. -/
theorem implementations_agree (tw : ℕ → ℕ → ℂ) (exp : ℝ → ℝ) (pi : ℝ) (acc : List ℂ) :
    transformWScipyFft tw exp pi acc = transform tw exp pi acc := rfl

/-- **C15.c** the transform is additive in the record … -/
theorem transform_add (tw : ℕ → ℕ → ℂ) (exp : ℝ → ℝ) (pi : ℝ) (x y : List ℂ)
    (hxy : x.length = y.length) (h : 2 ≤ x.length) :
    ∃ Sx Sy, transform tw exp pi x = .ok Sx ∧ transform tw exp pi y = .ok Sy ∧
      transform tw exp pi (List.zipWith (· + ·) x y)
        = .ok (List.zipWith (List.zipWith (· + ·)) Sx Sy) := by
  have hl : (List.zipWith (· + ·) x y).length = x.length := by simp [hxy]
  refine ⟨_, _, transform_eq tw exp pi x h, transform_eq tw exp pi y (hxy ▸ h), ?_⟩
  rw [transform_eq tw exp pi _ (by rw [hl]; exact h), hl, ← hxy, zipWith_map_range]
  congr 1
  apply List.map_congr_left
  intro r _
  rw [dft_add tw x y _ hxy, prodRow_add _ _ _ _ (by simp), idft_add _ _ _ _ (by simp)]

/-- **C15.c** … and homogeneous for real factors `c` (`conj c = c`). -/
theorem transform_smul (tw : ℕ → ℕ → ℂ) (exp : ℝ → ℝ) (pi : ℝ) (c : ℂ) (hc : starRingEnd ℂ c = c)
    (x : List ℂ) (h : 2 ≤ x.length) :
    ∃ S, transform tw exp pi x = .ok S ∧
      transform tw exp pi (x.map (c * ·)) = .ok (S.map (fun row => row.map (c * ·))) := by
  refine ⟨_, transform_eq tw exp pi x h, ?_⟩
  rw [transform_eq tw exp pi _ (by simpa using h), List.length_map, List.map_map]
  congr 1
  apply List.map_congr_left
  intro r _
  simp only [Function.comp]
  rw [dft_smul, prodRow_smul _ _ c hc, idft_smul]

example : starRingEnd ℂ ((3 : ℝ) : ℂ) = ((3 : ℝ) : ℂ) := Complex.conj_ofReal 3

/-! ## C15.b -/

/-- **C15.b** (core, `T` + **FftIsDft**) code-shaped definition: for a REAL record, every cell is
`S[r][j] = (1/N) Σ_{m<N} X[(m−k) mod N] · e^{−2π² m̃²/k²} · e^{2πi mj/N}`, `k = N/2 − r`, `m̃` the signed
index (`m` for `m ≤ N/2`, `m − N` above) — the Toeplitz rows `conj X[k−m]` (`m ≤ k`), `X[m−k]` (`m > k`)
are the cyclic shift of the spectrum by Hermitian symmetry. -/
theorem definition_code_shaped (x : List ℂ) (h : 2 ≤ x.length)
    (hx : ∀ j, starRingEnd ℂ (x.getD j 0) = x.getD j 0) :
    ∃ S, transform twC Real.exp Real.pi x = .ok S ∧
      ∀ r, r < x.length / 2 → ∀ j, j < 2 * (x.length / 2) →
        (S.getD r []).getD j 0 =
          (∑ m ∈ range (2 * (x.length / 2)),
            (dft twC x (2 * (x.length / 2))).getD
                ((m + 2 * (x.length / 2) - (x.length / 2 - r)) % (2 * (x.length / 2))) 0 *
              (Real.exp (-(2 * Real.pi ^ 2 * signedIdx (x.length / 2) m ^ 2
                / ((x.length / 2 - r : ℕ) : ℝ) ^ 2)) : ℝ) *
              cexp (2 * Real.pi * I * m * j / (2 * (x.length / 2) : ℕ)))
            / (2 * (x.length / 2) : ℕ) := by
  refine ⟨_, transform_eq twC Real.exp Real.pi x h, ?_⟩
  intro r hr j hj
  have hnd : 1 ≤ x.length / 2 := by omega
  rw [getD_map_range _ _ _ hr, idftC_getD _ _ _ hj]
  congr 1
  apply Finset.sum_congr rfl
  intro m hm
  have hm' : m < 2 * (x.length / 2) := Finset.mem_range.mp hm
  rw [prodRow_getD _ _ _ _ _ _ hm', shiftEntry_of_real x _ _ m (by omega) (by omega) hm' hx,
    gaussEntry_real _ _ m hnd (by omega) hm', conj_omega_pow]
  congr 2
  push_cast
  ring

/-- **C15.b** (stretch, proved) textbook form: for a REAL record the code's array is the complex conjugate of the
discrete S-transform with a Gaussian window of width `1/f`,
`S[r][j] = conj( (1/N) Σ_{m<N} X[(m+k) mod N] · e^{−2π² m̃²/k²} · e^{2πi mj/N} )`, `k = N/2 − r`
(re-indexing `m ↦ −m mod N`, Hermitian symmetry of `X`, evenness of the window). -/
theorem definition_textbook (x : List ℂ) (h : 2 ≤ x.length)
    (hx : ∀ j, starRingEnd ℂ (x.getD j 0) = x.getD j 0) :
    ∃ S, transform twC Real.exp Real.pi x = .ok S ∧
      ∀ r, r < x.length / 2 → ∀ j, j < 2 * (x.length / 2) →
        (S.getD r []).getD j 0 = starRingEnd ℂ
          ((∑ m ∈ range (2 * (x.length / 2)),
            (dft twC x (2 * (x.length / 2))).getD ((m + (x.length / 2 - r)) % (2 * (x.length / 2))) 0 *
              (Real.exp (-(2 * Real.pi ^ 2 * signedIdx (x.length / 2) m ^ 2
                / ((x.length / 2 - r : ℕ) : ℝ) ^ 2)) : ℝ) *
              cexp (2 * Real.pi * I * m * j / (2 * (x.length / 2) : ℕ)))
            / (2 * (x.length / 2) : ℕ)) := by
  refine ⟨_, transform_eq twC Real.exp Real.pi x h, ?_⟩
  intro r hr j hj
  have hnd : 1 ≤ x.length / 2 := by omega
  set P := x.length / 2 with hPdef
  set N := 2 * P with hNdef
  set k := P - r with hkdef
  have hk0 : 1 ≤ k := by omega
  have hkP : k ≤ P := by omega
  rw [getD_map_range _ _ _ hr, idftC_getD _ _ _ hj, map_div₀, map_natCast, map_sum]
  congr 1
  rw [sum_range_negMod N]
  apply Finset.sum_congr rfl
  intro m hm
  have hm' : m < N := Finset.mem_range.mp hm
  have hs : negMod N m < N := negMod_lt N m (by omega)
  have hE : cexp (2 * Real.pi * I * m * j / (N : ℕ)) = starRingEnd ℂ (omega N ^ (j * m)) := by
    rw [conj_omega_pow]; congr 1; push_cast; ring
  rw [prodRow_getD _ _ _ _ _ _ hs, shiftEntry_of_real x P k _ hk0 hkP hs hx,
    gaussEntry_real P k _ hnd hk0 hs, signedIdx_negMod_sq P m hnd hm', conj_omega_pow_negMod N j m hm',
    ← negMod_add N m k hm' (by omega) (by omega),
    ← dftC_conj_of_real_mod x N _ (Nat.mod_lt _ (by omega)) hx,
    map_mul, map_mul, Complex.conj_ofReal, hE, Complex.conj_conj]

/-! ## C15.d -/

/-- **C15.d** Fourier marginal: summing row `r` over time gives the conjugate Fourier coefficient of
its harmonic, `Σ_j S[r][j] = conj X[k]`, `k = N/2 − r` (only the `m = 0` term survives
`Σ_j e^{2πi mj/N} = N·[m ≡ 0]`, and the window is 1 at `m = 0`).  No realness assumption is needed. -/
theorem marginal (x : List ℂ) (h : 2 ≤ x.length) :
    ∃ S, transform twC Real.exp Real.pi x = .ok S ∧
      ∀ r, r < x.length / 2 →
        ∑ j ∈ range (2 * (x.length / 2)), (S.getD r []).getD j 0
          = starRingEnd ℂ ((dft twC x (2 * (x.length / 2))).getD (x.length / 2 - r) 0) := by
  refine ⟨_, transform_eq twC Real.exp Real.pi x h, ?_⟩
  intro r hr
  rw [getD_map_range _ _ _ hr]
  exact row_marginal x h r hr

example : (2 : ℕ) ≤ ([1, -2, 3, 5, 4] : List ℂ).length := by decide

/-! ## C15.e -/

/-- **C15.e** (stretch, proved) exact inverse: for a REAL record, `itransform(transform(x))` has `N` samples and
`itransform(transform(x))[j] = x_j − (Σ_l x_l)/N − (−1)^j·(Σ_l (−1)^l x_l)/N` — the record (truncated to
`N = 2⌊n/2⌋` samples) minus its mean and Nyquist components (C15.d + DFT inversion; the real part taken by
the code is written `.re`; the expression is real for a real record). -/
theorem inverse (x : List ℂ) (h : 2 ≤ x.length)
    (hx : ∀ j, starRingEnd ℂ (x.getD j 0) = x.getD j 0) :
    ∃ S y, transform twC Real.exp Real.pi x = .ok S ∧ itransform twC S = .ok y ∧
      y.length = 2 * (x.length / 2) ∧
      ∀ j, j < 2 * (x.length / 2) → y.getD j 0 =
        (x.getD j 0 - (∑ l ∈ range (2 * (x.length / 2)), x.getD l 0) / (2 * (x.length / 2) : ℕ)
          - (-1) ^ j * (∑ l ∈ range (2 * (x.length / 2)), (-1) ^ l * x.getD l 0)
            / (2 * (x.length / 2) : ℕ)).re := by
  have hP : 1 ≤ x.length / 2 := by omega
  set S := (List.range (x.length / 2)).map (fun r =>
      idft twC (prodRow Real.exp Real.pi (dft twC x (2 * (x.length / 2))) (x.length / 2)
        (x.length / 2 - r)) (2 * (x.length / 2))) with hS
  have hss : (S.map sumL).length = x.length / 2 := by simp [hS]
  have hss0 : (S.map sumL).length ≠ 0 := by omega
  set a : List ℂ := [0] ++ ((S.map sumL).tail.map (CxLike.conj : ℂ → ℂ)).reverse ++ [0]
    ++ (S.map sumL).tail with ha
  refine ⟨S, ((idft twC a (2 * (x.length / 2))).take (2 * (x.length / 2))).map (CxLike.re : ℂ → ℝ),
    transform_eq twC Real.exp Real.pi x h, ?_, ?_, ?_⟩
  · unfold itransform
    have hP0 : x.length / 2 ≠ 0 := by omega
    simp only [hss, hP0, if_false]
    rfl
  · simp
  · intro j hj
    rw [List.take_of_length_le (by simp), List.getD_eq_getElem?_getD, List.getElem?_map,
      List.getElem?_eq_getElem (by simpa using hj)]
    simp only [Option.map_some, Option.getD_some, cxlike_re]
    rw [getElem_eq_getD]
    congr 1
    refine idft_zeroed x a (x.length / 2) hP (fun k hk => ?_) j hj
    exact assembled_rowSums_getD x (S.map sumL) (x.length / 2) hP hss
      (fun r hr => rowSums_getD x h r hr) hx k hk

end EqsigVerif.Props.C15
