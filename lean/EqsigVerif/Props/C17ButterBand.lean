import EqsigVerif.Model.Butter
import EqsigVerif.Lemmas.Butter
import EqsigVerif.Lemmas.ButterDigital
import EqsigVerif.Lemmas.ButterTypes
import EqsigVerif.Lemmas.ButterBand
import EqsigVerif.Lemmas.ButterGain
import EqsigVerif.Lemmas.ButterSteady
import EqsigVerif.Lemmas.ButterPoly
import EqsigVerif.Lemmas.ButterBa
import EqsigVerif.Lemmas.ButterBandBa
/-!
# C17 — the `(b, a)` coefficient lists of `butter`, band pass included (closes `C17Butter.butter_ba_gain_partial`)

`Props/C17Butter.lean::butter_ba_gain_partial` proves `|freqResp(b, a)|² = gainSq` for the low and the high pass.  Missing was the band
pass: that `np.poly` of the `2n` band-pass poles is real.  It is — for **every** complex square root `cs` (`cs(u)·cs(u) = u`), without any
compatibility of `cs` with conjugation: `lp2bp_zpk` produces the PAIRS `h_j ± cs(h_j² − wo²)`, conjugation sends `h_j` to `h_{n−1−j}` and
`conj cs(h_j² − wo²)` to one of `± cs(h_{n−1−j}² − wo²)`, and the pair does not depend on that sign (`Lemmas/ButterBandBa.lean`).
So the hypothesis on `cs` is exactly the one `butter_bandpass_gain` already has; in particular it holds for the principal root
`csqrtC` and for any sign convention of a floating-point `csqrt` (over exact arithmetic).
-/
set_option linter.unusedSectionVars false
set_option linter.unusedVariables false
namespace EqsigVerif.Props.C17
open EqsigVerif EqsigVerif.Cplx EqsigVerif.Model.Butter EqsigVerif.Butter Complex
open EqsigVerif.Model.Single (FilterType)

/-- **realness of the band-pass coefficient lists.**  For every order `n`, cut-offs `0 < w_l < w_h < 1` and every complex square root
`cs`, the zeros of the digital band-pass filter are `n` times `+1` and `n` times `−1`, it has `2n` poles, and `np.poly` of the zeros and
of the poles has **real** coefficients — so the real-part step of `np.poly` / the model's `zpk2tf` discards nothing. -/
theorem butter_band_real (cs : ℂ → ℂ) (hcs : ∀ u, cs u * cs u = u) (n : ℕ) (wl wh : ℝ)
    (hwl : 0 < wl) (hlh : wl < wh) (hwh : wh < 1) :
    (digitalZpk (fnsC cs) n .band [wl, wh]).z = List.replicate n 1 ++ List.replicate n (-1) ∧
    (digitalZpk (fnsC cs) n .band [wl, wh]).p.length = 2 * n ∧
    (∀ c ∈ poly (digitalZpk (fnsC cs) n .band [wl, wh]).z, c.im = 0) ∧
    (∀ c ∈ poly (digitalZpk (fnsC cs) n .band [wl, wh]).p, c.im = 0) := by
  have hz : (digitalZpk (fnsC cs) n .band [wl, wh]).z = List.replicate n 1 ++ List.replicate n (-1) := by
    simp only [digitalZpk, analogZpk]
    rw [bilinear_z, lp2bp_z, lp2bp_p]
    simp only [List.map_replicate, List.length_append, List.length_map, List.length_range, List.length_replicate]
    have : n + n - n = n := by omega
    rw [this]
    simp [bilin]
  refine ⟨hz, ?_, ?_, ?_⟩
  · simp only [digitalZpk, analogZpk]
    rw [bilinear_p, lp2bp_p]
    simp; omega
  · apply poly_real_of_real
    intro r hr
    rw [hz, List.mem_append, List.mem_replicate, List.mem_replicate] at hr
    rcases hr with ⟨_, rfl⟩ | ⟨_, rfl⟩ <;> simp
  · obtain ⟨_, _, _, _, _, h, _⟩ := bandpass_ba cs hcs n wl wh hwl hlh hwh 1 one_ne_zero
    exact h

/-- non-vacuity: the principal square root, order 3, band `(1/8, 1/2)` -/
example := butter_band_real csqrtC csqrtC_mul_self 3 (1 / 8) (1 / 2) (by norm_num) (by norm_num) (by norm_num)

/-- **C17 gain (c′), `(b, a)` form, band pass.**  For every order `n ≥ 1`, cut-offs `0 < w_l < w_h < 1`, frequency `0 < w < 1` and every
complex square root `cs`, `butter(n, [w_l, w_h], 'band')` returns coefficient lists `b`, `a` of length `2n + 1` whose frequency response
`H(e^{iπw}) = Σ b_k e^{−iπwk} / Σ a_k e^{−iπwk}` (the model's `freqResp`, what `scipy.signal.freqz` evaluates and `filtfilt` applies twice)
has exactly the analytic squared magnitude `gainSq = 1/(1 + Ω^{2n})`, `Ω = (t² − t_l·t_h)/(t·(t_h − t_l))`, `t = tan(πw/2)`. -/
theorem butter_ba_gain_band (cs : ℂ → ℂ) (hcs : ∀ u, cs u * cs u = u) (n : ℕ) (hn : 1 ≤ n) (wl wh w : ℝ)
    (hwl : 0 < wl) (hlh : wl < wh) (hwh : wh < 1) (hw : 0 < w) (hw1 : w < 1) :
    ∃ b a, butter (fnsC cs) n .band [wl, wh] = .ok (b, a) ∧ b.length = 2 * n + 1 ∧ a.length = 2 * n + 1 ∧
      Complex.normSq (freqResp (fnsC cs) b a (Real.pi * w)) = gainSq (fnsC cs) n .band [wl, wh] w ∧
      gainSq (fnsC cs) n .band [wl, wh] w
        = 1 / (1 + ((Real.tan (Real.pi * w / 2) ^ 2 - Real.tan (Real.pi * wl / 2) * Real.tan (Real.pi * wh / 2))
            / (Real.tan (Real.pi * w / 2) * (Real.tan (Real.pi * wh / 2) - Real.tan (Real.pi * wl / 2)))) ^ (2 * n)) := by
  have hζ : cexp ((Real.pi * w : ℝ) * I) ≠ 0 := Complex.exp_ne_zero _
  obtain ⟨b, a, h1, h2, h3, _, h4⟩ := bandpass_ba cs hcs n wl wh hwl hlh hwh _ hζ
  have hg : gainSq (fnsC cs) n .band [wl, wh] w
      = 1 / (1 + ((Real.tan (Real.pi * w / 2) ^ 2 - Real.tan (Real.pi * wl / 2) * Real.tan (Real.pi * wh / 2))
          / (Real.tan (Real.pi * w / 2) * (Real.tan (Real.pi * wh / 2) - Real.tan (Real.pi * wl / 2)))) ^ (2 * n)) := by
    rw [gainSq_eq, gainRatio_band]
  refine ⟨b, a, h1, h2, h3, ?_, hg⟩
  rw [freqResp_eq_tfun, h4, bandpass_gain cs hcs n hn wl wh w hwl hlh hwh hw hw1, hg]

/-- non-vacuity: the principal square root, order 4, band `(1/8, 1/2)`, frequency `1/4` -/
example := butter_ba_gain_band csqrtC csqrtC_mul_self 4 (by norm_num) (1 / 8) (1 / 2) (1 / 4)
  (by norm_num) (by norm_num) (by norm_num) (by norm_num) (by norm_num)

/-- **C17 gain (c′), `(b, a)` form — FULL (every filter type `butter_pass` can request).**  The statement of
`C17Butter.butter_ba_gain_partial` with the band pass added: for every order `n ≥ 1`, accepted cut-offs and `0 < w < 1`, the lists
`(b, a)` returned by the model `butter` (lengths `n + 1`, resp. `2n + 1` for a band pass) satisfy `|freqResp b a (πw)|² = gainSq`. -/
theorem butter_ba_gain (cs : ℂ → ℂ) (hcs : ∀ u, cs u * cs u = u) (n : ℕ) (hn : 1 ≤ n) (wc wl wh w : ℝ)
    (hwc : 0 < wc) (hwc1 : wc < 1) (hwl : 0 < wl) (hlh : wl < wh) (hwh : wh < 1) (hw : 0 < w) (hw1 : w < 1) :
    (∃ b a, butter (fnsC cs) n .low [wc] = .ok (b, a) ∧ b.length = n + 1 ∧ a.length = n + 1 ∧
      Complex.normSq (freqResp (fnsC cs) b a (Real.pi * w)) = gainSq (fnsC cs) n .low [wc] w) ∧
    (∃ b a, butter (fnsC cs) n .high [wc] = .ok (b, a) ∧ b.length = n + 1 ∧ a.length = n + 1 ∧
      Complex.normSq (freqResp (fnsC cs) b a (Real.pi * w)) = gainSq (fnsC cs) n .high [wc] w) ∧
    (∃ b a, butter (fnsC cs) n .band [wl, wh] = .ok (b, a) ∧ b.length = 2 * n + 1 ∧ a.length = 2 * n + 1 ∧
      Complex.normSq (freqResp (fnsC cs) b a (Real.pi * w)) = gainSq (fnsC cs) n .band [wl, wh] w) := by
  have hζ : cexp ((Real.pi * w : ℝ) * I) ≠ 0 := Complex.exp_ne_zero _
  refine ⟨?_, ?_, ?_⟩
  · obtain ⟨b, a, h1, h2, h3, h4⟩ := lowpass_ba cs n wc hwc hwc1 _ hζ
    refine ⟨b, a, h1, h2, h3, ?_⟩
    rw [freqResp_eq_tfun, h4, lowpass_gain cs n hn wc w hwc hwc1 (by linarith) hw1, gainSq_eq, gainRatio_low]
  · obtain ⟨b, a, h1, h2, h3, h4⟩ := highpass_ba cs n wc hwc hwc1 _ hζ
    refine ⟨b, a, h1, h2, h3, ?_⟩
    rw [freqResp_eq_tfun, h4, highpass_gain cs n hn wc w hwc hwc1 hw hw1, gainSq_eq, gainRatio_high]
  · obtain ⟨b, a, h1, h2, h3, h4, _⟩ := butter_ba_gain_band cs hcs n hn wl wh w hwl hlh hwh hw hw1
    exact ⟨b, a, h1, h2, h3, h4⟩

example := butter_ba_gain csqrtC csqrtC_mul_self 4 (by norm_num) (3 / 10) (1 / 8) (1 / 2) (1 / 4)
  (by norm_num) (by norm_num) (by norm_num) (by norm_num) (by norm_num) (by norm_num) (by norm_num)

end EqsigVerif.Props.C17
