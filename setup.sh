#!/bin/bash
# MANIFEST.setup_cmd — build the framework from files on disk only (offline).
# 1. regenerate Gen/*.lean from /repo's working tree; 2. lake build everything (library, Props, driver).
set -u
cd "$(dirname "$0")"
export PYTHONDONTWRITEBYTECODE=1
mkdir -p .work evidence replays
/venv/bin/python tools/py2lean.py --repo "${EQSIG_REPO:-/repo}" 2>&1 | grep -v condarc
cd lean
# first try: everything; if a regenerated file breaks the build (edited sources), fall back so that the driver exists —
# the per-property checks redo translate+build themselves and report what no longer checks.
if ! lake build 2>&1 | grep -v condarc | tail -40; then :; fi
if [ ! -x .lake/build/bin/eqsig_driver ]; then
  echo "setup: driver missing after build, retrying with golden generated files"
  for f in EqsigVerif/GenGolden/*.lean; do
    sed 's/EqsigVerif\.GenGolden/EqsigVerif.Gen/g' "$f" > "EqsigVerif/Gen/$(basename "$f")"
  done
  lake build eqsig_driver EqsigVerif.Audit 2>&1 | grep -v condarc | tail -20
fi
test -x .lake/build/bin/eqsig_driver
