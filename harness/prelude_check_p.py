"""PRELUDE (third part) — differential test of the translator-target combinators of `Prelude/NpP.lean` and `Prelude/NpR.lean`
(DESIGN §3.2, §11.1, §11.4b).

The combinators the translator plug-ins `tools/py2lean_x_peaks.py` (`lean/EqsigVerif/Prelude/NpP.lean`) and
`tools/py2lean_x_rest.py` (`lean/EqsigVerif/Prelude/NpR.lean`) map Python statements to are exposed unchanged by
`lean/EqsigVerif/Handlers/PreludeP.lean` (handlers `np.p.*` / `np.r.*`).  `run_prelude_p(ctx)` evaluates the *real* NumPy /
SciPy / Python expression named in each definition's doc comment and the driver handler on the same inputs and compares
exactly (small dyadic rationals: every float operation involved is exact; the loop combinators are run on `Fraction`s, where
Python itself is exact; `np.mean` = the correctly rounded exact mean, rule `c_mean`).

Inputs per primitive: empty, length 1, ties, plateaus, boundary / out-of-range / negative indices, duplicates, values shorter /
longer than the index list, random dyadic arrays; 30-60 requests each.  Error kinds are compared exactly where the model claims
them: `np.take` / `np.put` / `np.delete` / `x[i]` / `x[idx]` / `x[i] = v` / `x[-1] = v` out of range = IndexError,
`a[lo:hi] = rhs` with a right-hand side of another length (and not of length 1) = ValueError, `min([])` = ValueError,
`np.fft.ifft(M, axis=1)` of rows of length 0 = ValueError, `np.argmax(M, axis=0)` without rows = ValueError, Python-float `a / 0.0`
= ZeroDivisionError, the loop variable read after a loop that did not run = UnboundLocalError (the model's `ErrKind.Other`; only
this exception type is accepted for it), `if b: raise E` / `try … except E` with the seven named kinds (+ OverflowError as `Other`).

The `for`-loop combinators (`forEnumE`, `forEnumFrom`, `forRangeE`, `forCountFrom`) are run with three fixed bodies each (see
`Handlers/PreludeP.lean`): `visit` records the loop variables in order, `horner` is order-sensitive and raises ValueError /
IndexError on two marked iterations (so *which* exception ends the loop is observable), `rec` is a list state that reads what the
previous iteration wrote and raises IndexError by itself when it runs off the list.

Inputs outside a definition's stated domain are never generated (the handlers answer `bad|... outside the modelled domain`):
`sliceStep` with `step = 0`, `insertAsc` into / `searchsortedRight` of an unsorted list, `trilRow` / `triuRow` with a row index
`>= len v`, `meanT` of the empty list at `Rat` (the `Float` twin `np.r.mean_t_f` covers it: `nan`), `ifftRowsE` with a row length
other than 0, 1, 2, 4 (the lengths with rational twiddles).  Not generated either: a `0 x 0` array for `np.r.ifft_rows`
(NOTES, finding 1: a list of rows cannot tell `0 x 0` from `0 x c`; NumPy raises ValueError for `0 x 0`).

Bookkeeping rules of `prelude_check.run_prelude` / `prelude_check_e.run_prelude_e`: `ctx.hist('PRELUDE/<handler>')`,
correspondence label `'PRELUDE <handler>'`, `ctx.count_case` is NOT called, the generator is derived from `ctx.rng` without
advancing it (seeded with the string `prelude-p/<bits>`: independent of the streams of the other two parts), a handler the driver
does not know yet is skipped with a note.
"""
import math
import random
import time
from fractions import Fraction

import numpy as np

import core
from core import w_rat, w_rats, w_bool, w_float, w_floats, p_rats, p_ints, p_float, cmp_exact, cmp_budget, call_impl
from prelude_check import (N_RANDOM, dy, arr, sizes, iarr, w_ints, flat, c_rats, c_ints, c_mean, _bound, _bounds,
                           missing_handlers)
from prelude_check_e import call_impl_other, c_scalar, c_index, c_rows, mat, fdy


# ------------------------------------------------------------------------------------------------
# helpers
# ------------------------------------------------------------------------------------------------

def _consistent(*vals):
    """Python's own alternatives must agree before they are used as the reference"""
    if any(v != vals[0] for v in vals[1:]):
        raise RuntimeError(f"Python/NumPy alternatives disagree: {vals!r}")
    return vals[0]


def c_opt_index(outs, val):
    tok = outs[0]
    if val is None:
        return None if tok == ['None'] else f"impl=IndexError model={tok!r}"
    if tok == ['None']:
        return f"impl={val!r} model=None (IndexError)"
    return cmp_exact([int(val)], p_ints(tok))


def c_unit(outs, val):
    return None if val is None and outs in ([], [[]]) else f"impl={val!r} model={outs!r}"


def idx_list(rng, n, k, neg=False, oor=0.0):
    """k indices into a length-n array: ends, duplicates, random; negative ones when `neg`; with probability `oor` one of them is
    just outside the valid range"""
    if n == 0:
        return [rng.choice([0, 0, 1] + ([-1] if neg else [])) for _ in range(k)]          # every index is out of range
    lo = -n if neg else 0
    idx = [rng.choice([0, n - 1, n - 1, lo, -1 if neg else 0, rng.randint(lo, n - 1)]) for _ in range(k)]
    if k and rng.random() < oor:
        idx[rng.randrange(k)] = rng.choice([n, n, n + 1, n + 5] + ([-n - 1, -n - 1, -n - 2] if neg else []))
    return idx


def distinct(rng, k):
    """k pairwise different small dyadics (so that which value landed where is observable)"""
    vals = rng.sample(range(-40, 41), min(k, 81)) + [100 + j for j in range(max(k - 81, 0))]
    return np.array([v / 4.0 + 100.0 for v in vals], dtype=float)


# ------------------------------------------------------------------------------------------------
# Prelude/NpP.lean.  Each generator yields (args, impl_result, compare, inputs) tuples.
# ------------------------------------------------------------------------------------------------

def g_wrap_idx(rng):
    def f(n, i):
        def one(seq):
            try:
                return int(seq[i])
            except IndexError:
                return None
        return _consistent(one(range(n)), one(np.arange(n)), one(list(range(n))))       # range, ndarray, list: the same rule
    for j in range(N_RANDOM + 16):
        n = sizes(rng, j, (0, 0, 0, 1, 1, 1, 2, 2, 3, 3))
        i = _bound(rng, n)
        yield [str(n), str(i)], call_impl(f, n, i), c_opt_index, {'n': n, 'i': i}


def g_take_p(rng):
    for i in range(N_RANDOM + 12):
        a = arr(rng, sizes(rng, i, (0, 0, 0, 1, 1, 2, 2, 3)))
        n = len(a)
        k = (0, 1, 2, 0, 1)[i] if i < 5 else rng.choice([0, 1, 2, 3, n, rng.randint(0, 2 * n + 1)])
        idx = idx_list(rng, n, k, oor=0.3)
        yield [w_rats(a), w_ints(idx)], call_impl(np.take, a, iarr(idx)), c_rats, {'l': a, 'idx': idx}


def g_take_i(rng):
    for i in range(N_RANDOM + 12):
        a = arr(rng, sizes(rng, i, (0, 0, 0, 1, 1, 2, 2, 3)))
        n = len(a)
        k = (0, 1, 2, 0, 1)[i] if i < 5 else rng.choice([0, 1, 2, 3, n, rng.randint(0, 2 * n + 1)])
        idx = idx_list(rng, n, k, neg=True, oor=0.3)
        if i % 7 == 6 and n > 0:
            idx = [0, -1]                                  # the `[0, len(values) - 1]` pattern of the peaks code
        yield [w_rats(a), w_ints(idx)], call_impl(np.take, a, iarr(idx)), c_rats, {'l': a, 'idx': idx}


# NOTES, finding 2: `np.put(base, idx, [])` with an EMPTY `base` and a non-empty `idx` raises IndexError ("cannot replace elements of
# an empty array": NumPy tests this before it looks at the values), while `NpP.putE` / `putIE` return `base` ("nothing raised when
# `vals` is empty").  Not generated as long as the combinator says so; set to True once it is repaired.
PUT_EMPTY_BASE_EMPTY_VALUES = False


def _put(base, idx, vals):
    b = base.copy()
    np.put(b, iarr(idx), vals)
    return b


def _g_put(neg, oor, empty_vals=True):
    def g(rng):
        for i in range(N_RANDOM + 16):
            base = arr(rng, sizes(rng, i, (0, 0, 1, 1, 2, 2, 3, 3)), rng.choice(['zeros', 'const', 'dyadic']))
            n = len(base)
            k = (0, 1, 0, 2, 1, 3)[i] if i < 6 else rng.choice([0, 1, 2, 3, n, n + 1, rng.randint(0, 2 * n + 1)])
            if not oor and n == 0:
                k = 0
            idx = idx_list(rng, n, k, neg=neg, oor=oor)
            # values: as many as indices / fewer (cycled) / one / more (surplus ignored) / none (nothing written, nothing raised)
            nv = rng.choice([k, k, k, 1, 1, 2, max(k - 1, 1), k + 1, k + 3] + ([0, 0] if empty_vals else []))
            if not empty_vals:
                nv = max(nv, 1)
            if nv == 0 and n == 0 and k > 0 and not PUT_EMPTY_BASE_EMPTY_VALUES:
                nv = 1
            if i % 4 == 3 and i >= 8:
                # the values go round at least once and a second time at least two steps far: pairwise different in-range positions,
                # 2 <= len(vals) <= len(idx) - 2 (a restart that does not continue with the SECOND value is visible)
                n = rng.randint(5, 16)
                base = arr(rng, n, rng.choice(['zeros', 'const', 'dyadic']))
                k = rng.randint(4, n)
                idx = rng.sample(range(n), k)
                if neg:
                    idx = [j - n if rng.random() < 0.5 else j for j in idx]
                nv = rng.choice([2, 2, 3, max(k // 2, 2), k - 2])
                nv = min(max(nv, 2), k - 2)
            if empty_vals and oor and i % 8 in (1, 5) and n > 0:
                # no values: nothing is written and nothing is raised, not even for a position outside a NON-EMPTY `base`
                idx = idx + [rng.choice([n, n + 1, n + 7] + ([-n - 1, -n - 3] if neg else []))]
                rng.shuffle(idx)
                nv = 0
            vals = distinct(rng, nv)
            yield [w_rats(base), w_ints(idx), w_rats(vals)], call_impl(_put, base, idx, vals), c_rats, \
                {'base': base, 'idx': idx, 'vals': vals}
    return g


def g_delete_p(rng):
    fs = [lambda a, rem: np.delete(a, rem), lambda a, rem: np.delete(a, list(rem)), lambda a, rem: np.delete(list(a), rem)]
    for i in range(N_RANDOM + 12):
        a = arr(rng, sizes(rng, i, (0, 0, 1, 1, 2, 2, 3)), rng.choice(['dyadic', 'mono', 'int']))
        n = len(a)
        k = (0, 1, 0, 1, 2)[i] if i < 5 else rng.choice([0, 1, 2, 2, 3, n, rng.randint(0, n + 2)])
        rem = idx_list(rng, n, k, oor=0.3)
        if k >= 2 and n >= 2 and rng.random() < 0.4:
            j = rng.randrange(n - 1)
            rem = rem[:-2] + [j, j + 1]                      # the `rem_i += [k, k+1]` pattern; duplicates allowed
        yield [w_rats(a), w_ints(rem)], call_impl(fs[i % 3], a, rem), c_rats, {'l': a, 'rem': rem}


def g_delete_from(rng):
    def f(rem, i, l):
        out = [x for k, x in enumerate(l, i) if k not in rem]
        if i == 0 and all(r < len(l) for r in rem):
            _consistent(out, list(np.delete(l, rem)))
        return out
    for j in range(N_RANDOM):
        l = arr(rng, sizes(rng, j, (0, 0, 1, 1, 2, 3)), 'dyadic')
        n = len(l)
        i = rng.choice([0, 0, 1, 2, rng.randint(0, 9)])
        rem = [rng.choice([i, i + n - 1, i - 1, i + n, rng.randint(0, i + n + 1)]) for _ in range(rng.choice([0, 1, 2, 3, n]))]
        rem = [max(r, 0) for r in rem]
        yield [w_ints(rem), str(i), w_rats(l)], call_impl(f, rem, i, l), c_rats, {'rem': rem, 'i': i, 'l': l}


def g_slice_step(rng):
    for i in range(N_RANDOM + 12):
        a = arr(rng, sizes(rng, i))
        n = len(a)
        start = rng.choice([0, 0, 1, 1, 2, n, max(n - 1, 0), n + 1, n + 3, rng.randint(0, n + 1)])
        step = rng.choice([1, 1, 2, 2, 2, 3, 4, max(n, 1), n + 1, rng.randint(1, n + 2)])
        if i < 4:
            start, step = ((0, 2), (1, 2), (0, 1), (1, 1))[i]           # `[::2]`, `[1::2]` of the peaks code
        src = a if i % 2 else list(a)
        yield [w_rats(a), str(start), str(step)], call_impl(lambda src=src, s=start, t=step: src[s::t]), c_rats, \
            {'l': a, 'start': start, 'step': step}


def g_stride_aux(rng):
    for i in range(N_RANDOM):
        a = arr(rng, sizes(rng, i))
        n = len(a)
        k = rng.choice([0, 0, 1, 2, n, max(n - 1, 0), n + 2, rng.randint(0, n + 1)])
        step = rng.choice([1, 2, 2, 3, 4, max(n, 1), n + 1, rng.randint(1, n + 2)])
        yield [str(step), str(k), w_rats(a)], call_impl(lambda a=a, k=k, t=step: a[k::t]), c_rats, {'l': a, 'k': k, 'step': step}


def g_iadd_from(rng):
    def f(a, k, s):
        b = a.copy()
        b[k:] += s
        return b
    for i in range(N_RANDOM + 8):
        a = arr(rng, sizes(rng, i, (0, 0, 1, 1, 2, 2, 3)))
        n = len(a)
        k = rng.choice([0, 0, 1, 1, 2, n, max(n - 1, 0), n + 1, n + 3, rng.randint(0, n + 1)])
        s = rng.choice([0.0, -0.25, 1.0, dy(rng), dy(rng)])
        yield [w_rats(a), str(k), w_rat(s)], call_impl(f, a, k, s), c_rats, {'l': a, 'k': k, 's': s}


def g_sign(rng):
    for i in range(N_RANDOM + 6):
        a = arr(rng, sizes(rng, i), rng.choice(['zeros', 'zeros', 'alt', 'dyadic', 'int', 'neg', 'ties']))
        f = np.sign if i % 2 else (lambda a: np.array([np.sign(x) for x in a], dtype=float))      # array and scalar calls
        yield [w_rats(a)], call_impl(f, a), c_rats, {'l': a}


def g_sign_int(rng):
    for i in range(N_RANDOM):
        l = [rng.choice([0, 0, -1, 1, rng.randint(-50, 50)]) for _ in range(sizes(rng, i))]
        yield [w_ints(l)], call_impl(np.sign, iarr(l)), c_ints, {'l': l}


def g_insert_asc(rng):
    import bisect

    def f(a, l):
        m = list(l)
        bisect.insort_left(m, a)
        return _consistent(sorted(l + [a]), m)
    for i in range(N_RANDOM + 8):
        l = sorted(rng.choice([0, 1, 2, rng.randint(0, 9), rng.randint(0, 200)]) for _ in range(sizes(rng, i, (0, 0, 1, 1, 2, 2, 3))))
        a = rng.choice(l + [0, 1, rng.randint(0, 9), rng.randint(0, 250), (max(l) + 1) if l else 3])
        yield [str(a), w_ints(l)], call_impl(f, a, l), c_ints, {'a': a, 'l': l}


def g_sort_asc(rng):
    def srt(l, inplace):
        a = iarr(l)
        if inplace:
            a.sort()
            return a
        return np.sort(a)
    for i in range(N_RANDOM + 8):
        l = [rng.choice([0, 1, rng.randint(0, 9), rng.randint(0, 1000)]) for _ in range(sizes(rng, i, (0, 0, 1, 1, 2, 2, 3)))]
        if i % 5 == 4:
            l = sorted(l, reverse=rng.random() < 0.5)
        yield [w_ints(l)], call_impl(srt, l, i % 3 != 2), c_ints, {'l': l}


def g_unique(rng):
    """NpU.unique = np.unique(l) of a 1-D integer index array (also what sorted(set(l)) is)"""
    def uq(l):
        r = np.unique(iarr(l))
        return _consistent([int(x) for x in r], sorted(set(int(x) for x in l)))
    fixed = [[], [0], [0, 0], [0, 0, 0], [3, 1, 2, 1, 3], [0, 3, 5, 7], [7, 5, 3, 0], [2, 2, 1, 1, 0, 0], [5, 0, 5, 0, 5]]
    for i in range(N_RANDOM + len(fixed)):
        if i < len(fixed):
            l = fixed[i]
        else:
            l = [rng.choice([0, 0, 1, 2, rng.randint(0, 9), rng.randint(0, 1000)]) for _ in range(sizes(rng, i - len(fixed), (0, 1, 2, 2, 3, 3)))]
            if i % 4 == 0:
                l = sorted(l, reverse=rng.random() < 0.3)          # already sorted (the switched-peak case), with / without repeats
            if i % 7 == 0:
                l = sorted(set(l))                                  # strictly ascending: np.unique must be the identity
        yield [w_ints(l)], call_impl(uq, l), c_ints, {'l': l}


def g_dedup_adj(rng):
    """NpU.dedupAdj = l[np.concatenate(([True], l[1:] != l[:-1]))] (the mask step of np.unique), any order of l"""
    def dd(l):
        a = iarr(l)
        if len(a) == 0:
            return a
        return a[np.concatenate(([True], a[1:] != a[:-1]))]
    fixed = [[], [4], [0, 0], [0, 0, 1, 1, 1, 0, 2], [1, 2, 3], [3, 3, 3, 3], [1, 0, 1, 0]]
    for i in range(N_RANDOM + len(fixed)):
        l = fixed[i] if i < len(fixed) else [rng.choice([0, 0, 1, 1, 2, rng.randint(0, 5)]) for _ in range(sizes(rng, i - len(fixed), (1, 2, 2, 3, 3, 4)))]
        yield [w_ints(l)], call_impl(dd, l), c_ints, {'l': l}


# ---- Python `for` loops -------------------------------------------------------------------------

BODIES = ('visit', 'horner', 'rec')
ABSENT = Fraction(1000)              # a marker value that never occurs in the data: that `raise` is never reached


def _py_enum(body, k0, c, init, e1, e2, l, a):
    """the real loops; k0 is None for `enumerate(l)`, a start value for `enumerate(l, k0)`"""
    it = enumerate(l) if k0 is None else enumerate(l, k0)
    if body == 'visit':
        ks, xs = [], []
        for k, x in it:
            ks = ks + [k]
            xs = xs + [x]
        return ks, xs
    if body == 'horner':
        s = init
        for k, x in it:
            if x == e1:
                raise ValueError("marked iteration 1")
            elif x == e2:
                raise IndexError("marked iteration 2")
            s = c * s + k * x
        return s
    a = list(a)
    for k, x in it:
        a[k + 1] = c * a[k] + x                              # IndexError by itself when k or k + 1 is beyond the list
    return a


def c_visit2(outs, val):
    if len(outs) != 2:
        return f"expected 2 output fields, got {len(outs)}"
    return cmp_exact(val[0], p_ints(outs[0])) or cmp_exact(val[1], p_rats(outs[1]))


def _cmp_body(body, two):
    if body == 'visit':
        return c_visit2 if two else (lambda outs, val: cmp_exact(val, p_ints(outs[0])))
    if body == 'horner':
        return c_scalar
    return lambda outs, val: cmp_exact(val, p_rats(outs[0]))


def _coef(rng):
    return rng.choice([Fraction(0), Fraction(1), Fraction(-1), Fraction(1, 2), Fraction(2), fdy(rng, -6, 6, 2)])


def _g_for_enum(with_start):
    def g(rng):
        for i in range(N_RANDOM + 14):
            body = BODIES[i % 3]
            n = (0, 0, 0, 1, 1, 1, 2, 2, 2)[i] if i < 9 else rng.choice([0, 1, 2, 3, 4, 5, 8, rng.randint(6, 30)])
            l = [fdy(rng) for _ in range(n)]
            k0 = rng.choice([0, 1, 1, 2, 3, rng.randint(0, 12)]) if with_start else None
            c, init = _coef(rng), rng.choice([Fraction(0), Fraction(1), fdy(rng)])
            # marked iterations: none / one / both (either order; the earlier one decides the exception)
            e1 = rng.choice([ABSENT, ABSENT] + l[-2:] + l[:1]) if l else ABSENT
            e2 = rng.choice([ABSENT, ABSENT] + l[:2] + l[-1:]) if l else ABSENT
            need = (k0 or 0) + n + 1                                    # length of `a` with which `rec` just does not raise
            la = rng.choice([need, need, need + 2, max(need - 1, 0), max(need - 2, 0), (k0 or 0) + 1, k0 or 0, 0])
            a = [fdy(rng) for _ in range(la)]
            args = [body, w_rat(c), w_rat(init), w_rat(e1), w_rat(e2), w_rats(l), w_rats(a)]
            if with_start:
                args = [str(k0)] + args
            yield args, call_impl(_py_enum, body, k0, c, init, e1, e2, l, a), _cmp_body(body, True), \
                {'body': body, 'k0': k0, 'c': c, 'init': init, 'e1': e1, 'e2': e2, 'l': l, 'a': a}
    return g


def _py_range(body, lo, hi, c, init, e1, e2, a):
    if body == 'visit':
        s = []
        for i in range(lo, hi):
            s = s + [i]
        return s
    if body == 'horner':
        s = init
        for i in range(lo, hi):
            if i == e1:
                raise ValueError("marked iteration 1")
            elif i == e2:
                raise IndexError("marked iteration 2")
            s = c * s + i
        return s
    a = list(a)
    for i in range(lo, hi):
        a[i + 1] = c * a[i] + a[i + 1]
    return a


def _g_for_range(count):
    """count=False: `np.p.for_range|body|a|b|…` = range(a, b), b <= a included; count=True: `np.p.for_count_from|body|a|n|…` =
    range(a, a + n)"""
    def g(rng):
        for j in range(N_RANDOM + 14):
            body = BODIES[j % 3]
            lo = (0, 0, 0, 1, 1, 1, 0, 0, 0, 3, 3, 3)[j] if j < 12 else rng.choice([0, 0, 1, 2, 3, rng.randint(0, 12)])
            n = (0, 0, 0, 0, 0, 0, 1, 1, 1, 2, 2, 2)[j] if j < 12 else rng.choice([0, 1, 2, 3, 4, 5, 8, rng.randint(6, 30)])
            hi = lo + n
            second = n
            if not count and rng.random() < 0.25:
                hi = rng.randint(0, lo)                                 # b <= a: no iteration
                n = 0
                second = hi
            elif not count:
                second = hi
            c, init = _coef(rng), rng.choice([Fraction(0), Fraction(1), fdy(rng)])
            marks = [lo, lo + 1, hi - 1, hi - 2, hi, lo - 1, rng.randint(lo, max(hi, lo))]
            e1 = max(rng.choice([999, 999] + marks), 0)
            e2 = max(rng.choice([999, 999] + marks), 0)
            need = lo + n + 1 if n else 0
            la = rng.choice([need, need, need + 2, max(need - 1, 0), max(need - 2, 0), lo + 1, lo, 0])
            a = [fdy(rng) for _ in range(la)]
            args = [body, str(lo), str(second), w_rat(c), w_rat(init), str(e1), str(e2), w_rats(a)]
            yield args, call_impl(_py_range, body, lo, lo + n if count else hi, c, init, e1, e2, a), _cmp_body(body, False), \
                {'body': body, 'a': lo, 'b_or_n': second, 'c': c, 'init': init, 'e1': e1, 'e2': e2, 'arr': a}
    return g


def g_last_range(rng):
    def f(a, b):
        for i in range(a, b):
            pass
        return i                                             # noqa: F821 (unbound when the loop did not run)
    pairs = [(a, b) for a in range(0, 5) for b in range(0, 5)] + \
        [(rng.randint(0, 40), rng.randint(0, 40)) for _ in range(20)]
    for a, b in pairs:
        yield [str(a), str(b)], call_impl_other(f, a, b, other=('UnboundLocalError',)), c_index, {'a': a, 'b': b}


# ------------------------------------------------------------------------------------------------
# Prelude/NpR.lean
# ------------------------------------------------------------------------------------------------

def _exceptions():
    exc = {'IndexError': IndexError, 'ValueError': ValueError, 'TypeError': TypeError, 'AssertionError': AssertionError,
           'ZeroDivisionError': ZeroDivisionError, 'AttributeError': AttributeError, 'Other': OverflowError}
    try:
        from eqsig.exceptions import SignalProcessingError
        exc['SignalProcessingError'] = SignalProcessingError
    except Exception:  # noqa
        pass
    return exc


def g_guard(rng):
    exc = _exceptions()

    def f(b, e):
        if b:
            raise e("guard")
        return None
    kinds = sorted(exc)
    for i in range(4 * len(kinds)):
        k = kinds[i % len(kinds)]
        x, y = dy(rng, -3, 3, 1), dy(rng, -3, 3, 1)
        b = [True, False, np.float64(x) < np.float64(y), x <= y][i // len(kinds)]          # bool and np.bool_
        yield [w_bool(bool(b)), k], call_impl_other(f, b, exc[k], other=('OverflowError',)), c_unit, {'b': bool(b), 'kind': k}


def g_try_catch(rng):
    exc = _exceptions()

    def run(block):
        if block[0] == 'err':
            raise exc[block[1]]("block")
        return block[1]

    def f(body, k, handler):
        try:
            return run(body)
        except exc[k]:
            return run(handler)
    kinds = sorted(exc)
    catchable = [k for k in kinds if k != 'Other']              # `except <Kind>` is modelled for the named kinds only

    def block(kind=None):
        if kind is None and rng.random() < 0.5:
            return ('ok', dy(rng))
        return ('err', kind or rng.choice(kinds))

    def w(b):
        return 'ok ' + w_rat(b[1]) if b[0] == 'ok' else 'err ' + b[1]
    cases = []
    for k in catchable:
        cases.append((('err', k), k, ('ok', dy(rng))))                                     # caught, handler returns
        cases.append((('err', k), k, ('err', rng.choice(kinds))))                          # caught, handler raises
        cases.append((('err', rng.choice([x for x in kinds if x != k])), k, ('ok', dy(rng))))     # another kind: not caught
        cases.append((('ok', dy(rng)), k, block()))                                        # body returns: handler not run
    cases.append((('err', 'Other'), 'TypeError', ('ok', 1.0)))
    while len(cases) < 48:
        cases.append((block(), rng.choice(catchable), block()))
    for body, k, handler in cases:
        yield [w(body), k, w(handler)], call_impl_other(f, body, k, handler, other=('OverflowError',)), c_scalar, \
            {'body': body, 'except': k, 'handler': handler}


def g_join(rng):
    alphabet = 'ab ,|\n0.5é€\t'

    def word():
        return ''.join(rng.choice(alphabet) for _ in range(rng.choice([0, 1, 1, 2, 3, rng.randint(0, 8)])))

    def cmp(outs, val):
        return cmp_exact([ord(ch) for ch in val], p_ints(outs[0]))
    fixed = [('', []), (',', []), (',', ['']), (',', ['a']), (',', ['a', 'bc']), ('', ['a', 'bc']), ('\n', ['', '']),
             (', ', ['', 'x', '']), ('ab', ['ab', 'ab', 'ab']), ('\n', ['lab', '2 0.0100', '1.50000'])]
    for i in range(N_RANDOM):
        sep, parts = fixed[i] if i < len(fixed) else (rng.choice(['', ',', '\n', ' ', word()]), [word() for _ in range(rng.randint(0, 6))])
        args = [w_ints(ord(ch) for ch in sep), w_ints(len(p) for p in parts), w_ints(ord(ch) for p in parts for ch in p)]
        yield args, call_impl(lambda sep=sep, parts=parts: sep.join(parts)), cmp, {'sep': sep, 'parts': parts}


def g_py_get_r(rng):
    for i in range(N_RANDOM + 12):
        a = arr(rng, sizes(rng, i, (0, 0, 1, 1, 1, 2, 2, 3)))
        n = len(a)
        k = rng.choice([0, -1, n - 1, n, -n, -n - 1, n + 1, -n - 2, rng.randint(-n - 2, n + 1)])
        src = a if i % 2 else list(a)                 # NumPy and list indexing: the same rule
        k = np.int64(k) if i % 3 == 0 else k          # Python and NumPy integers
        yield [w_rats(a), str(k)], call_impl(lambda src=src, k=k: src[k]), c_scalar, {'l': a, 'i': int(k)}


def g_take_r(rng):
    for i in range(N_RANDOM + 12):
        a = arr(rng, sizes(rng, i, (0, 0, 0, 1, 1, 2, 2, 3)))
        n = len(a)
        k = (0, 1, 2, 0, 1)[i] if i < 5 else rng.choice([0, 1, 2, 3, n, rng.randint(0, 2 * n + 1)])
        idx = idx_list(rng, n, k, neg=True, oor=0.3)
        yield [w_rats(a), w_ints(idx)], call_impl(lambda a=a, idx=idx: a[iarr(idx)]), c_rats, {'l': a, 'idx': idx}


def g_set_last(rng):
    def f(src, v):
        b = src.copy() if isinstance(src, np.ndarray) else list(src)
        b[-1] = v
        return b
    for i in range(N_RANDOM + 4):
        a = arr(rng, sizes(rng, i, (0, 0, 0, 0, 1, 1, 2, 2, 3)))
        v = dy(rng) + 100.0
        yield [w_rats(a), w_rat(v)], call_impl(f, a if i % 2 else list(a), v), c_rats, {'l': a, 'v': v}


def g_set(rng):
    def f(src, i, v):
        b = src.copy() if isinstance(src, np.ndarray) else list(src)
        b[i] = v
        return b
    for j in range(N_RANDOM + 12):
        a = arr(rng, sizes(rng, j, (0, 0, 1, 1, 1, 2, 2, 3)))
        n = len(a)
        i = rng.choice([0, 0, max(n - 1, 0), n, n + 1, rng.randint(0, n + 2), rng.randint(0, max(n - 1, 0))])
        v = dy(rng) + 100.0
        yield [w_rats(a), str(i), w_rat(v)], call_impl(f, a if j % 2 else list(a), i, v), c_rats, {'l': a, 'i': i, 'v': v}


def g_py_idx(rng):
    def f(n, i):
        return _consistent(slice(None, i).indices(n)[1], slice(i, None).indices(n)[0], len(range(n)[:i]),
                           n - len(range(n)[i:]), len(np.arange(n)[:i]))
    for j in range(N_RANDOM + 16):
        n = sizes(rng, j, (0, 0, 0, 1, 1, 1, 2, 2, 3))
        i = _bound(rng, n)
        yield [str(n), str(i)], call_impl(f, n, i), c_index, {'n': n, 'b': i}


def g_py_slice_r(rng):
    for i in range(N_RANDOM + 16):
        a = arr(rng, sizes(rng, i))
        lo, hi = _bounds(rng, len(a))
        src = a if i % 2 else list(a)
        yield [w_rats(a), str(lo), str(hi)], call_impl(lambda src=src, lo=lo, hi=hi: src[lo:hi]), c_rats, {'l': a, 'a': lo, 'b': hi}


def _g_slice1(f):
    def g(rng):
        for i in range(N_RANDOM + 12):
            a = arr(rng, sizes(rng, i))
            k = _bound(rng, len(a))
            src = a if i % 2 else list(a)
            yield [w_rats(a), str(k)], call_impl(f, src, k), c_rats, {'l': a, 'bound': k}
    return g


def g_fill_from_py(rng):
    def f(a, lo, v):
        b = a.copy()
        b[lo:] = v
        return b
    for i in range(N_RANDOM + 12):
        a = arr(rng, sizes(rng, i))
        lo = _bound(rng, len(a))
        v = dy(rng) + 100.0
        yield [w_rats(a), str(lo), w_rat(v)], call_impl(f, a, lo, v), c_rats, {'a': a, 'lo': lo, 'v': v}


def g_set_slice_py(rng):
    def f(a, lo, hi, rhs):
        b = a.copy()
        b[lo:hi] = rhs
        return b
    for i in range(N_RANDOM + 20):
        a = arr(rng, sizes(rng, i), rng.choice(['zeros', 'const', 'dyadic']))
        lo, hi = _bounds(rng, len(a))
        if i % 6 == 5 and len(a) >= 3:
            lo, hi = rng.choice([0, 1, -len(a)]), rng.choice([len(a) - 1, -1, len(a) - 1])     # a wide slice strictly inside `a`
        t = len(a[lo:hi])
        k = rng.choice([t, t, t, t, 1, 0, t + 1, max(t - 1, 0), 2])          # fits / length-1 broadcast / ValueError
        if i % 6 == 5:
            k = 1                                                            # one entry broadcast over the slice
        rhs = distinct(rng, k)
        yield [w_rats(a), str(lo), str(hi), w_rats(rhs)], call_impl(f, a, lo, hi, rhs), c_rats, \
            {'a': a, 'lo': lo, 'hi': hi, 'rhs': rhs}


def g_min(rng):
    fs = [min, lambda a: min(list(a)), lambda a: min(a.tolist())]
    for i in range(N_RANDOM + 8):
        a = arr(rng, sizes(rng, i, (0, 0, 0, 0, 1, 1, 2, 2, 3)))
        yield [w_rats(a)], call_impl(fs[i % 3], a), c_scalar, {'x': a}


def _g_clip(lower):
    def g(rng):
        if lower:
            fs = [lambda v, b: np.clip(v, b, None), np.maximum, lambda v, b: np.array([np.clip(x, b, None) for x in v], dtype=float)]
        else:
            fs = [lambda v, b: np.clip(v, None, b), np.minimum, lambda v, b: np.array([np.clip(x, None, b) for x in v], dtype=float)]
        for i in range(N_RANDOM + 6):
            v = arr(rng, sizes(rng, i))
            b = float(rng.choice(list(v) + [0.0, 0.0, 1e-10 if lower else 5.0, dy(rng)]))       # often exactly an entry
            yield [w_rats(v), w_rat(b)], call_impl(fs[i % 3], v, b), c_rats, {'v': v, 'bound': b}
    return g


def g_searchsorted_right(rng):
    for i in range(N_RANDOM + 10):
        x = np.sort(arr(rng, sizes(rng, i, (0, 0, 1, 1, 2, 2, 3)), rng.choice(['ties', 'plateau', 'dyadic', 'int', 'const'])))
        pool = list(x) + [dy(rng), -100.0, 100.0] + [(x[j] + x[j + 1]) / 2 for j in range(len(x) - 1)]
        q = np.array([rng.choice(pool) for _ in range(rng.choice([0, 1, 3, 8]))], dtype=float)
        yield [w_rats(x), w_rats(q)], call_impl(np.searchsorted, x, q, side='right'), c_ints, {'x': x, 'q': q}


def _g_tri_row(f):
    def g(rng):
        for i in range(N_RANDOM + 6):
            a = arr(rng, max(1, sizes(rng, i)))
            k = rng.choice([0, len(a) - 1, rng.randrange(len(a))])
            yield [w_rats(a), str(k)], call_impl(lambda a=a, k=k: f(a)[k]), c_rats, {'v': a, 'row': k}
    return g


def g_mean_t(rng):
    fs = [np.mean, lambda a: a.mean(), lambda a: np.sum(a) / len(a)]
    for i in range(N_RANDOM + 6):
        a = arr(rng, max(1, sizes(rng, i, (1, 1, 1, 2, 2, 3))))
        yield [w_rats(a)], call_impl(fs[i % 3], a), c_mean, {'x': a}


def g_mean_t_f(rng):
    def cmp(outs, val):
        m = p_float(outs[0][0])
        if math.isnan(float(val)) or math.isnan(m):
            return None if math.isnan(float(val)) and math.isnan(m) else f"impl={val!r} model={m!r}"
        return None if float(val) == m else f"impl={float(val)!r} model={m!r}"
    for i in range(N_RANDOM + 6):
        a = arr(rng, sizes(rng, i, (0, 0, 0, 0, 1, 1, 2, 2, 3)))
        yield [w_floats(a)], call_impl(np.mean, a), cmp, {'x': a}


def g_linspace01_r(rng):
    def cmp(outs, val, exact):
        m = p_rats(outs[0])
        if exact:
            return cmp_exact(flat(val), m)
        if len(flat(val)) != len(m):
            return f"length impl={len(flat(val))} model={len(m)}"
        return cmp_budget(flat(val), m, Fraction(1, 2 ** 50))[0]      # i*fl(1/(n-1)) vs i/(n-1): a few ulp
    for n in [0, 1, 2, 3, 5, 9, 17, 33, 65, 129] + [rng.randint(4, 200) for _ in range(30)]:
        exact = n <= 2 or (n - 1) & (n - 2) == 0
        yield [str(n)], call_impl(np.linspace, 0, 1.0, n), (lambda outs, val, exact=exact: cmp(outs, val, exact)), {'n': n}


def g_toeplitz_r(rng):
    from scipy.linalg import toeplitz
    for i in range(N_RANDOM + 8):
        nc = (0, 0, 1, 1, 2, 3)[i] if i < 6 else rng.choice([1, 2, 3, 4, rng.randint(1, 9)])
        nr = (0, 2, 0, 1, 3, 2)[i] if i < 6 else rng.choice([0, 1, 2, nc, nc + 1, rng.randint(1, 9)])
        c, r = distinct(rng, nc), distinct(rng, nr) + 50.0           # r[0] differs from c[0]: SciPy ignores r[0]
        yield [w_rats(c), w_rats(r)], call_impl(toeplitz, c, r), c_rows, {'c': c, 'r': r}


def g_ifft_rows(rng):
    def cmp(outs, val):
        v = np.asarray(val)
        if len(outs) != 4:
            return f"expected 4 output fields, got {len(outs)}"
        if p_ints(outs[0]) != [v.shape[0]]:
            return f"rows impl={v.shape[0]} model={outs[0]}"
        if p_ints(outs[1]) != [v.shape[1]] * v.shape[0]:
            return f"row lengths impl={v.shape[1]} (x{v.shape[0]}) model={outs[1]}"
        return cmp_exact(list(v.real.ravel()), p_rats(outs[2])) or cmp_exact(list(v.imag.ravel()), p_rats(outs[3]))
    shapes = [(0, 1), (0, 2), (0, 4), (1, 0), (2, 0), (3, 0), (1, 1), (1, 2), (1, 4), (2, 1), (2, 2), (2, 4)] + \
        [(rng.randint(1, 5), rng.choice([1, 2, 4, 4, 4])) for _ in range(24)]
    for i, (r, c) in enumerate(shapes):
        re, im = mat(rng, r, c), mat(rng, r, c)
        if i % 5 == 4:
            im = np.zeros((r, c))
        M = re + 1j * im
        yield [str(r), str(c), w_rats(re.ravel()), w_rats(im.ravel())], call_impl(np.fft.ifft, M, axis=1), cmp, {'M': [list(map(str, row)) for row in M]}


def g_argmax_axis0(rng):
    fs = [lambda M: np.argmax(M, axis=0), lambda M: M.argmax(axis=0)]
    shapes = [(0, 0), (0, 1), (0, 3), (1, 0), (2, 0), (1, 1), (1, 3), (2, 1), (2, 2), (3, 2)] + \
        [(rng.randint(1, 6), rng.randint(1, 5)) for _ in range(30)]
    for i, (r, c) in enumerate(shapes):
        M = arr(rng, r * c, rng.choice(['ties', 'ties', 'plateau', 'const', 'int', 'dyadic', 'zeros'])).reshape(r, c)
        yield [str(r), str(c), w_rats(M.ravel())], call_impl(fs[i % 2], M), c_ints, {'M': M}


def g_py_div(rng):
    for i in range(N_RANDOM + 8):
        q = dy(rng)
        b = rng.choice([0.0, -0.0, 1.0, -1.0, 2.0, 0.5, -0.25, dy(rng, -12, 12, 2), dy(rng, -12, 12, 2)])
        a = q * b if b != 0 else rng.choice([0.0, 1.0, dy(rng)])       # a / b = q exactly (products of small dyadics are exact)
        a, b = float(a), float(b)                                     # Python floats, not NumPy scalars
        yield [w_rat(a), w_rat(b)], call_impl(lambda a=a, b=b: a / b), c_scalar, {'a': a, 'b': b}


def g_py_div_f(rng):
    def cmp(outs, val):
        m = p_float(outs[0][0])
        return None if w_float(val) == w_float(m) else f"impl={val!r} model={m!r}"
    for i in range(N_RANDOM + 8):
        a = rng.choice([0.0, -0.0, 1.0, dy(rng), rng.uniform(-50, 50), rng.uniform(-1e-3, 1e-3)])
        b = rng.choice([0.0, -0.0, 0.0, 3.0, (2 * math.pi) * (2 * math.pi), dy(rng), rng.uniform(-50, 50), rng.uniform(-1e-3, 1e-3)])
        a, b = float(a), float(b)
        yield [w_float(a), w_float(b)], call_impl(lambda a=a, b=b: a / b), cmp, {'a': a, 'b': b}


PRIMITIVES_P = [
    # handler, generator                               -- the Lean definition under test
    ('np.p.wrap_idx', g_wrap_idx),                                         # NpP.wrapIdx
    ('np.p.take', g_take_p),                                               # NpP.takeE
    ('np.p.take_i', g_take_i),                                             # NpP.takeIE
    ('np.p.put', _g_put(neg=False, oor=0.3)),                              # NpP.putE (+ putCyc)
    ('np.p.put_i', _g_put(neg=True, oor=0.3)),                             # NpP.putIE (+ putCyc, wrapIdx)
    ('np.p.put_cyc', _g_put(neg=False, oor=0.0, empty_vals=False)),        # NpP.putCyc
    ('np.p.delete', g_delete_p),                                           # NpP.deleteE (+ deleteFrom)
    ('np.p.delete_from', g_delete_from),                                   # NpP.deleteFrom
    ('np.p.slice_step', g_slice_step),                                     # NpP.sliceStep (+ strideAux)
    ('np.p.stride_aux', g_stride_aux),                                     # NpP.strideAux
    ('np.p.iadd_from', g_iadd_from),                                       # NpP.iaddFrom
    ('np.p.sign', g_sign),                                                 # NpP.sign (Rat)
    ('np.p.sign_int', g_sign_int),                                         # NpP.sign (Int)
    ('np.p.insert_asc', g_insert_asc),                                     # NpP.insertAsc
    ('np.p.sort_asc', g_sort_asc),                                         # NpP.sortAsc
    ('np.u.unique', g_unique),                                             # NpU.unique (Prelude/NpU.lean, Handlers/PreludeU.lean)
    ('np.u.dedup_adj', g_dedup_adj),                                       # NpU.dedupAdj
    ('np.p.for_enum', _g_for_enum(False)),                                 # NpP.forEnumE
    ('np.p.for_enum_from', _g_for_enum(True)),                             # NpP.forEnumFrom
    ('np.p.for_range', _g_for_range(False)),                               # NpP.forRangeE
    ('np.p.for_count_from', _g_for_range(True)),                           # NpP.forCountFrom
    ('np.p.last_range', g_last_range),                                     # NpP.lastRangeE
    ('np.r.guard', g_guard),                                               # NpR.guardE
    ('np.r.try_catch', g_try_catch),                                       # NpR.tryCatchE
    ('np.r.join', g_join),                                                 # NpR.joinL
    ('np.r.py_get', g_py_get_r),                                           # NpR.pyGetE
    ('np.r.take', g_take_r),                                               # NpR.takeE
    ('np.r.set_last', g_set_last),                                         # NpR.setLastE
    ('np.r.set', g_set),                                                   # NpR.setE
    ('np.r.py_idx', g_py_idx),                                             # NpR.pyIdx
    ('np.r.py_slice', g_py_slice_r),                                       # NpR.pySlice
    ('np.r.py_from', _g_slice1(lambda a, k: a[k:])),                       # NpR.pyFrom
    ('np.r.py_to', _g_slice1(lambda a, k: a[:k])),                         # NpR.pyTo
    ('np.r.fill_from_py', g_fill_from_py),                                 # NpR.fillFromPy
    ('np.r.set_slice_py', g_set_slice_py),                                 # NpR.setSlicePyE
    ('np.r.min', g_min),                                                   # NpR.minE
    ('np.r.clip_lo', _g_clip(True)),                                       # NpR.clipLo
    ('np.r.clip_hi', _g_clip(False)),                                      # NpR.clipHi
    ('np.r.searchsorted_right', g_searchsorted_right),                     # NpR.searchsortedRight
    ('np.r.tril_row', _g_tri_row(np.tril)),                                # NpR.trilRow
    ('np.r.triu_row', _g_tri_row(np.triu)),                                # NpR.triuRow
    ('np.r.mean_t', g_mean_t),                                             # NpR.meanT (Rat, non-empty)
    ('np.r.mean_t_f', g_mean_t_f),                                         # NpR.meanT (Float, empty = nan)
    ('np.r.linspace01', g_linspace01_r),                                   # NpR.linspace01
    ('np.r.toeplitz', g_toeplitz_r),                                       # NpR.toeplitz
    ('np.r.ifft_rows', g_ifft_rows),                                       # NpR.ifftRowsE (Cx Rat, row lengths 0, 1, 2, 4)
    ('np.r.argmax_axis0', g_argmax_axis0),                                 # NpR.argmaxAxis0E
    ('np.r.py_div', g_py_div),                                             # NpR.pyDivE (Rat)
    ('np.r.py_div_f', g_py_div_f),                                         # NpR.pyDivE (Float)
]


def run_prelude_p(ctx, budget_s=6.0):
    """differentially test every combinator of Prelude/NpP.lean and Prelude/NpR.lean against the real NumPy/SciPy/Python;
    failures land in ctx.corr_failures (label 'PRELUDE <handler>').  Returns the number of requests queued."""
    t0 = time.time()
    state = ctx.rng.getstate()                       # derive a generator from ctx.rng without advancing it
    rng = random.Random('prelude-p/%d' % ctx.rng.getrandbits(64))      # a stream of its own (not run_prelude's, not run_prelude_e's)
    ctx.rng.setstate(state)
    names = [n for n, _ in PRIMITIVES_P]
    try:
        missing = missing_handlers(names)
    except Exception as e:  # noqa  (driver not built / not runnable)
        ctx.notes.append(f"prelude check (np.p.* / np.r.*) skipped: {type(e).__name__}: {e}")
        return 0
    if missing:
        ctx.notes.append('prelude handler missing: ' + ', '.join(sorted(missing)) + ' (driver not rebuilt?) - skipped')
    queued = 0
    skipped = []
    for name, gen_cases in PRIMITIVES_P:
        if name in missing:
            ctx.hist('PRELUDE-missing/' + name)
            continue
        if time.time() - t0 > budget_s:
            skipped.append(name)
            continue
        sub = random.Random(rng.getrandbits(64))    # one stream per primitive: skipping one does not shift the others
        for args, res, compare, inputs in gen_cases(sub):
            ctx.hist('PRELUDE/' + name)
            ctx.corr('PRELUDE ' + name, name + '|' + '|'.join(args), res, compare, inputs=inputs)
            queued += 1
    if skipped:
        ctx.notes.append(f"prelude (np.p.* / np.r.*) budget of {budget_s}s exhausted; not run: " + ', '.join(skipped))
    ctx.flush()
    ctx.hist('PRELUDE-requests', queued)
    return queued


if __name__ == '__main__':
    import os
    import sys
    from core import Ctx
    if os.environ.get('PRELUDE_DRIVER'):              # test against a scratch driver
        core.DRIVER = os.environ['PRELUDE_DRIVER']
    seed = int(sys.argv[1]) if len(sys.argv) > 1 else int(os.environ.get('VERIF_SEED', '0'))
    ctx = Ctx('PRELUDE', 'quick', seed)
    t = time.time()
    run_prelude_p(ctx)
    ctx.flush()
    bad = {}
    for f in ctx.corr_failures:
        bad[f['fn']] = bad.get(f['fn'], 0) + 1
    if os.environ.get('PRELUDE_VERBOSE'):
        print(ctx.corr_count)
    for f in ctx.corr_failures[:int(os.environ.get('PRELUDE_SHOW', '3'))]:
        print(f)
    print(f"requests={sum(ctx.corr_count.values())} primitives={len(ctx.corr_count)} failures={len(ctx.corr_failures)} "
          f"failing={bad} notes={ctx.notes} wall={time.time() - t:.2f}s")
    sys.exit(1 if ctx.corr_failures else 0)
