"""Independent reference for C01 (run by python3-vt, which has mpmath): the exact zero-initial-condition solution of
u'' + 2 xi w u' + w^2 u = a(t), a(t) the linear interpolation of the record, w = 2*pi/T (true pi), at the sample instants,
in 40-digit arithmetic.  (The library's sign convention: the response to ground acceleration a is driven by -a.)
stdin: JSON {"cases":[{"acc":[...], "dt":..., "T":..., "xi":...}, ...]}   stdout: JSON {"results":[{"u":[...], "v":[...]}, ...]}"""
import json
import sys
from mpmath import mp, mpf, sqrt, exp, sin, cos, pi

mp.dps = 40


def solve(acc, dt, T, xi):
    acc = [mpf(x) for x in acc]
    dt, T, xi = mpf(dt), mpf(T), mpf(xi)
    w = 2 * pi / T
    wd = w * sqrt(1 - xi * xi)
    e = exp(-xi * w * dt)
    s, c = sin(wd * dt), cos(wd * dt)
    u, v = mpf(0), mpf(0)
    us, vs = [u], [v]
    for i in range(len(acc) - 1):
        f0, f1 = acc[i], acc[i + 1]
        sl = (f1 - f0) / dt
        # particular solution p(t) = p0 + p1 t of u''+2 xi w u' + w^2 u = f0 + sl t
        p1 = sl / w ** 2
        p0 = (f0 - 2 * xi * w * p1) / w ** 2
        c1 = u - p0
        c2 = (v - p1 + xi * w * c1) / wd
        un = e * (c1 * c + c2 * s) + p0 + p1 * dt
        vn = e * (-xi * w * (c1 * c + c2 * s) + wd * (-c1 * s + c2 * c)) + p1
        u, v = un, vn
        us.append(u)
        vs.append(v)
    return [float(x) for x in us], [float(x) for x in vs]


def main():
    req = json.load(sys.stdin)
    out = []
    for c in req['cases']:
        u, v = solve(c['acc'], c['dt'], c['T'], c['xi'])
        out.append({'u': u, 'v': v})
    json.dump({'results': out}, sys.stdout)


if __name__ == '__main__':
    main()
