"""Memo / hidden-state probes (DESIGN §11.7).

Round 7 of the seeded changes showed one family the generators could not reach by drawing inputs: *state that survives a call* —
module-level or per-object memos keyed on partial information (count + first + last element of an array argument, `np.allclose`
to the previous argument, the number of Fourier points, a callable's `__name__`), one-entry caches that hand out their own arrays,
and setters that keep a cache when the new argument "looks like" the old one.  Such a change is invisible to any single call and to
repeated identical calls; it needs two *different but colliding* calls in a row.

This module wraps, inside the harness process only (nothing in /repo changes), every public module-level function of eqsig and the
replacement-style methods of Signal / AccSignal so that a share of the calls the property modules make anyway is

  * **preceded** by a call with a *colliding variant* of one argument (same length and same first/last element but another
    interior; two neighbouring samples exchanged — same length, ends, sum; every entry moved by a relative 3e-7; a float option
    replaced by another value; an integer moved by one) or by a call of another public function of the same module on the same record — the call the module asked for then runs on whatever
    state the variant left behind, and its result is judged by the module's own correspondence and oracles as usual;
  * for functions (not methods) additionally **followed** by variant + the same call again: the two results of the same arguments
    must be identical bit for bit (every property defines the result as a function of the arguments; C05 says it outright).

The probe draws from its own PRNG (derived from VERIF_SEED and the property id), so the module's own random choices are the same with
and without it.  `VERIF_NO_PROBE=1` switches it off.
"""
import functools
import hashlib
import inspect
import os
import random
import sys

import numpy as np

NP_BOOLS = False        # pass keyword booleans as np.bool_ in a share of the calls
P_PROBE = 0.3            # share of outermost calls that are probed
MAX_ELEMS = 120000       # skip calls whose array arguments are larger in total (cost)


class _State:
    enabled = False
    depth = 0
    ctx = None
    rng = None
    prop = ''
    n_pre = 0
    n_post = 0
    n_post_fail = 0
    n_timeout = 0


ST = _State()
_INSTALLED = False

# methods of Signal / AccSignal with replacement semantics: calling them with other arguments first and with the intended arguments
# afterwards must leave the object exactly as the intended call alone does
METHODS = {
    'Signal': ['reset_values', 'gen_fa_spectrum', 'gen_smooth_fa_spectrum', 'set_smooth_fa_frequecies_by_range'],
    'AccSignal': ['gen_response_spectrum', 'generate_response_spectrum', 'response_series'],
}
SETTERS = {
    'Signal': ['smooth_fa_frequencies', 'smooth_fa_freqs', 'smooth_freq_range', 'smooth_freq_points'],
    'AccSignal': ['response_times'],
}
NO_METHOD_PROBE = {'C04', 'C05'}     # these modules drive exact operation histories against the state-machine model themselves


def _is_num_seq(x):
    if isinstance(x, np.ndarray):
        return x.ndim == 1 and x.size >= 2 and x.dtype.kind in 'fiu'
    if isinstance(x, (list, tuple)) and len(x) >= 2:
        return all(isinstance(v, (int, float, np.integer, np.floating)) and not isinstance(v, bool) for v in x)
    return False


def _size(x):
    return x.size if isinstance(x, np.ndarray) else len(x)


def _rebuild(x, arr):
    if isinstance(x, np.ndarray):
        return arr.astype(x.dtype) if arr.dtype != x.dtype else arr
    vals = [type(v)(w) if isinstance(v, (int, float)) else w for v, w in zip(x, arr.tolist())]
    return type(x)(vals)


def _variant(x, kind):
    """a colliding variant of one argument, or None"""
    if _is_num_seq(x):
        a = np.array(x)
        if kind == 'interior':
            if a.size < 3:
                return None
            b = a.copy()
            if a.dtype.kind == 'f':
                b[1:-1] = (a[1:-1] + a[2:]) / 2
            else:
                b[1:-1] = a[2:]
            if np.array_equal(a, b):
                return None
            return _rebuild(x, b)
        if kind == 'first':
            # another first element (a leading 0 becomes non-zero and vice versa): memos keyed on shape only / on the tail
            b = a.copy()
            if a.dtype.kind == 'f':
                b[0] = (a[0] + a[1]) / 2 if a[0] != a[1] else a[0] + 1.0
            else:
                b[0] = a[1] if a[0] != a[1] else a[0] + 1
            return None if np.array_equal(a, b) else _rebuild(x, b)
        if kind == 'superset':
            # one more entry in front (the argument the module asked for is then a strict subset of the previous one)
            if a.dtype.kind != 'f' or a.size < 2:
                return None
            extra = a[0] / 2 if a[0] > 0 else (a[1] / 2 if a[1] > 0 else None)
            if extra is None or extra in a:
                return None
            b = np.concatenate([[extra], a]) if a[0] > 0 else np.concatenate([a[:1], [extra], a[1:]])
            if isinstance(x, np.ndarray):
                return b.astype(a.dtype)
            return type(x)(b.tolist())
        if kind == 'view':
            # the same bytes read as another dtype of the same width (memos keyed on the raw buffer)
            if not isinstance(x, np.ndarray) or not x.flags['C_CONTIGUOUS']:
                return None
            other = {'int16': 'uint16', 'uint16': 'int16', 'int32': 'uint32', 'uint32': 'int32', 'int64': 'uint64', 'uint64': 'int64',
                     'int8': 'uint8', 'uint8': 'int8', 'float64': 'int64', 'float32': 'int32'}.get(str(x.dtype))
            if other is None:
                return None
            b = x.view(other)
            if np.array_equal(b.astype(float), x.astype(float)):
                return None
            return b.copy()
        if kind == 'swap':
            if a.size < 4:
                return None
            idx = [i for i in range(1, a.size - 2) if a[i] != a[i + 1]]
            if not idx:
                return None
            i = idx[(int(abs(float(a[1])) * 1e6) + a.size) % len(idx)]
            b = a.copy()
            b[i], b[i + 1] = a[i + 1], a[i]
            return _rebuild(x, b)
        if kind == 'near':
            if a.dtype.kind != 'f' and not (isinstance(x, (list, tuple)) and any(isinstance(v, float) for v in x)):
                return None
            b = a.astype(float) * (1 + 3e-7)
            if np.array_equal(a, b):
                return None
            if isinstance(x, np.ndarray):
                return b.astype(a.dtype) if a.dtype.kind == 'f' else None
            return type(x)(b.tolist())
        return None
    if isinstance(x, (float, np.floating)) and kind == 'near':
        if x == 0 or not np.isfinite(x):
            return None
        return type(x)(x * (1 + 3e-7))
    if isinstance(x, (float, np.floating)) and kind == 'other':
        if not np.isfinite(x):
            return None
        return type(x)(x * 2 + 0.1)
    if isinstance(x, (int, np.integer)) and not isinstance(x, bool) and kind == 'step':
        if 2 <= x <= 10 ** 6:
            return type(x)(x + 1)
    return None


def _candidates(a, k, allow_scalars):
    """[(where, key, kind)] for every argument that has a variant"""
    out = []
    items = [('a', i, v) for i, v in enumerate(a)] + [('k', n, v) for n, v in k.items()]
    total = 0
    for _, _, v in items:
        if _is_num_seq(v):
            total += _size(v)
        elif isinstance(v, np.ndarray):
            total += v.size
    if total > MAX_ELEMS:
        return []
    for where, key, v in items:
        if _is_num_seq(v):
            out.append((where, key, 'interior'))
            out.append((where, key, 'near'))
            out.append((where, key, 'swap'))
            out.append((where, key, 'first'))
            out.append((where, key, 'superset'))
            if isinstance(v, np.ndarray) and v.dtype.kind in 'iu':
                out.append((where, key, 'view'))
        elif isinstance(v, (float, np.floating)) and not (where == 'a' and key == 0):
            out.append((where, key, 'near'))
            out.append((where, key, 'other'))
        elif allow_scalars and isinstance(v, (int, np.integer)) and not isinstance(v, bool):
            out.append((where, key, 'step'))
    return out


def _apply(a, k, cand):
    where, key, kind = cand
    v = (a[key] if where == 'a' else k[key])
    try:
        if _is_num_seq(v) and not np.all(np.isfinite(np.asarray(v, dtype=float))):
            return None
        w = _variant(v, kind)
    except Exception:  # noqa  (building a variant must never disturb the call the module asked for)
        return None
    if w is None:
        return None
    if where == 'a':
        a2 = list(a)
        a2[key] = w
        return tuple(a2), dict(k)
    k2 = dict(k)
    k2[key] = w
    return tuple(a), k2


def _same(r1, r2):
    if type(r1) is not type(r2):
        return False
    if isinstance(r1, np.ndarray):
        return r1.shape == r2.shape and r1.dtype == r2.dtype and bool(np.array_equal(r1, r2, equal_nan=(r1.dtype.kind in 'fc')))
    if isinstance(r1, (tuple, list)):
        return len(r1) == len(r2) and all(_same(x, y) for x, y in zip(r1, r2))
    if isinstance(r1, (float, np.floating)):
        return (r1 == r2) or (r1 != r1 and r2 != r2)
    if isinstance(r1, (int, str, bool, type(None), np.integer)):
        return r1 == r2
    return None   # not comparable (objects)


def _comparable(r):
    if isinstance(r, np.ndarray) or isinstance(r, (float, int, np.floating, np.integer, type(None))):
        return True
    if isinstance(r, (tuple, list)):
        return all(_comparable(x) for x in r)
    return False


def _brief(v):
    if isinstance(v, np.ndarray):
        return {'ndarray': v.tolist() if v.size <= 64 else {'size': int(v.size), 'head': v[:8].tolist(), 'tail': v[-4:].tolist()},
                'dtype': str(v.dtype)}
    if isinstance(v, (list, tuple)) and len(v) > 64:
        return {'len': len(v), 'head': list(v[:8])}
    if isinstance(v, (int, float, str, bool, type(None), list, tuple)):
        return v
    return repr(v)[:80]


class _ProbeTimeout(BaseException):
    pass


def _on_alarm(signum, frame):
    raise _ProbeTimeout()


def _run(orig, a, k, limit=2.0):
    """an extra call made by the probe (never the call the module asked for): exceptions are swallowed and the call is abandoned after
    `limit` seconds (a variant or a sibling function may be far outside its domain, e.g. one loop iteration per second of a record
    with dt = 1000)"""
    import signal
    import warnings
    old = None
    try:
        old = signal.signal(signal.SIGALRM, _on_alarm)
        signal.setitimer(signal.ITIMER_REAL, limit)
    except Exception:  # noqa  (not the main thread)
        old = None
    try:
        with warnings.catch_warnings():
            warnings.simplefilter('ignore')
            return ('ok', orig(*a, **k))
    except _ProbeTimeout:
        ST.n_timeout += 1
        return ('err', 'ProbeTimeout')
    except Exception as e:  # noqa
        return ('err', type(e).__name__)
    finally:
        if old is not None:
            try:
                signal.setitimer(signal.ITIMER_REAL, 0)
                signal.signal(signal.SIGALRM, old)
            except Exception:  # noqa
                pass


def _touch(obj):
    """read the cheap lazily cached quantities of a signal object (so that caches are filled in the state the colliding call left)"""
    names = ['npts', 'time', 'fa_spectrum', 'fa_frequencies', 'smooth_fa_spectrum', 'velocity', 'displacement', 'pga', 'pgv', 'pgd']
    try:
        if getattr(obj, 'npts', 10 ** 9) <= 1500:
            names += ['s_a', 's_d']
    except Exception:
        pass
    import warnings
    for n in names:
        try:
            with warnings.catch_warnings():
                warnings.simplefilter('ignore')
                getattr(obj, n)
        except Exception:
            pass


SIBLING_MODULES = ('eqsig.fns.peaks_and_crossings', 'eqsig.im', 'eqsig.fns.frequency', 'eqsig.fns.average', 'eqsig.fns.generic',
                   'eqsig.displacements', 'eqsig.sdof', 'eqsig.fns.time_step')
_SIBLINGS = {}    # module name -> [(name, original function, first parameter name)]


def _siblings_of(orig):
    out = []
    try:
        first = list(inspect.signature(orig).parameters)[0]
    except Exception:
        return out
    for name, f, p0 in _SIBLINGS.get(getattr(orig, '__module__', ''), []):
        if f is not orig and p0 == first:
            out.append((name, f))
    return out


TIME_NAMES = {'dt', 'step', 'periods', 'period', 'response_times', 'target_dt', 'travel_times', 'stt', 'time'}


def _timescale(orig, a, k):
    """the same call with every TIME-like argument (dt, periods, …) multiplied by 2: products such as w*dt = 2 pi dt / T are bit-identical,
    the step itself is not (memos keyed on a dimensionless combination)"""
    try:
        names = list(inspect.signature(orig).parameters)
    except Exception:  # noqa
        return None
    a2, k2, hit = list(a), dict(k), 0
    for i, v in enumerate(a):
        if i < len(names) and names[i] in TIME_NAMES and (isinstance(v, (float, np.floating)) or (_is_num_seq(v) and np.asarray(v).dtype.kind == 'f')):
            a2[i] = v * 2 if not isinstance(v, (list, tuple)) else type(v)(x * 2 for x in v)
            hit += 1
    for n, v in k.items():
        if n in TIME_NAMES and (isinstance(v, (float, np.floating)) or (_is_num_seq(v) and np.asarray(v).dtype.kind == 'f')):
            k2[n] = v * 2 if not isinstance(v, (list, tuple)) else type(v)(x * 2 for x in v)
            hit += 1
    return (tuple(a2), k2) if hit >= 2 else None


def _evict_args(a, k):
    """the same call shape with every array argument one element shorter (another memo key)"""
    def cut(v):
        if _is_num_seq(v) and _size(v) >= 3:
            return v[:-1]
        return v
    return tuple(cut(v) for v in a), {n: cut(v) for n, v in k.items()}


def _np_bool(v):
    """an equal truth value that is not the Python singleton (np.bool_ from a comparison): code that tests `is True` / `is False` is wrong"""
    if isinstance(v, bool):
        return np.bool_(v)
    return v


def _fresh_str(v):
    """an equal string that is not the interned literal (Python compares strings with ==; code that uses `is` is wrong)"""
    if isinstance(v, str) and len(v) >= 2:
        return ''.join(list(v))
    return v


CHECK_SETTINGS = True


def _settings_of(obj):
    """what an analysis function must leave alone on a signal object it is handed: record, time step, settings"""
    try:
        out = {'values': np.asarray(obj.values).tobytes(), 'dt': float(obj.dt), 'npts': int(obj.npts)}
        for n in ('response_times', 'smooth_fa_frequencies'):
            if hasattr(type(obj), n) or hasattr(obj, n):
                try:
                    x = getattr(obj, n)
                    out[n] = None if x is None else np.asarray(x, dtype=float).tobytes()
                except Exception:  # noqa
                    pass
        return out
    except Exception:  # noqa
        return None


def _signal_like(r):
    return type(r).__name__ in ('Signal', 'AccSignal') and hasattr(r, 'values') and hasattr(r, 'dt')


def _factory_check(st, qual, res, a, k):
    """an object handed out by a library function must report what a freshly constructed object with the same values and dt reports"""
    import copy
    import warnings
    try:
        vals = np.array(res.values)
        if vals.ndim != 1 or vals.size < 2 or vals.size > 20000 or not np.all(np.isfinite(vals.astype(float))):
            return
        probe_obj = copy.deepcopy(res)
        fresh = type(res)(vals, res.dt)
    except Exception:  # noqa
        return
    names = ['npts', 'time', 'fa_spectrum', 'fa_frequencies'] + (['velocity', 'displacement', 'pga', 'pgv', 'pgd'] if type(res).__name__ == 'AccSignal' else [])
    bad = []
    for n in names:
        try:
            with warnings.catch_warnings():
                warnings.simplefilter('ignore')
                x, y = getattr(probe_obj, n), getattr(fresh, n)
            same = (np.shape(x) == np.shape(y)) and bool(np.allclose(np.asarray(x), np.asarray(y), rtol=1e-9, atol=1e-12 * (1 + float(np.max(np.abs(vals)))), equal_nan=True))
        except Exception:  # noqa
            continue
        if not same:
            bad.append(n)
    st.ctx.oracle(f"{st.prop} an object returned by {qual} reports the derived quantities of a freshly constructed object with the same values and time step",
                  not bad, inputs={'function': qual, 'args': [_brief(v) for v in a], 'kwargs': {n: _brief(v) for n, v in k.items()},
                                   'values': _brief(vals), 'dt': float(res.dt)},
                  detail={'differs': bad}, facts={'fn': 'probe-factory', 'function': qual})


def _wrap_function(orig, qual):
    @functools.wraps(orig)
    def wrapper(*a, **k):
        st = ST
        if not st.enabled or st.depth > 0:
            return orig(*a, **k)
        st.depth += 1
        try:
            rng = st.rng
            if rng.random() < 0.5:
                a = tuple(_fresh_str(v) for v in a)
                k = {n: _fresh_str(v) for n, v in k.items()}
            if NP_BOOLS and rng.random() < 0.3:
                k = {n: _np_bool(v) for n, v in k.items()}
            snaps = [(i, v, _settings_of(v)) for i, v in enumerate(a) if _signal_like(v)][:2] if (CHECK_SETTINGS and rng.random() < 0.5) else []
            res0 = _wrapper_body(st, rng, orig, qual, a, k)
            if _signal_like(res0) and rng.random() < 0.5 and st.prop not in NO_METHOD_PROBE:
                _factory_check(st, qual, res0, a, k)
            for i, v, before in snaps:
                after = _settings_of(v)
                if before is not None and after is not None:
                    bad = [n for n in before if before[n] != after[n]]
                    st.ctx.oracle(f"{st.prop} an analysis function leaves the signal object it is given unchanged: {qual} does not alter the record, the time step or "
                                  f"the settings (response periods, smoothing frequencies) of its argument", not bad,
                                  inputs={'function': qual, 'argument_index': i, 'kwargs': {n: _brief(x) for n, x in k.items()},
                                          'values': _brief(np.asarray(v.values)), 'dt': float(v.dt)},
                                  detail={'changed': bad}, facts={'fn': 'probe-settings', 'function': qual})
            return res0
        finally:
            st.depth -= 1
    wrapper.__eqsig_probe__ = True
    return wrapper


def _wrapper_body(st, rng, orig, qual, a, k):
    if True:
        if True:
            if rng.random() >= P_PROBE:
                return orig(*a, **k)
            try:
                cands = _candidates(a, k, allow_scalars=False)
            except Exception:  # noqa
                cands = []
            if not cands:
                return orig(*a, **k)
            sibs = _siblings_of(orig) if a and sum(_size(v) for v in a if _is_num_seq(v)) <= 20000 else []
            if sibs and rng.random() < 0.3:
                # another public function of the same module on the same first argument, first (state shared between functions)
                nm, sib = rng.choice(sibs)
                extra = ()
                if rng.random() < 0.5:
                    # ... with non-default values of its numeric options, given positionally (state that depends on an option)
                    try:
                        ps = list(inspect.signature(sib).parameters.values())[1:]
                        vals = []
                        for q in ps:
                            d = q.default
                            if isinstance(d, bool) or d is inspect.Parameter.empty:
                                break
                            if isinstance(d, int):
                                vals.append(d + 1)
                            elif isinstance(d, float):
                                vals.append(d * 2 + 0.5)
                            else:
                                break
                        extra = tuple(vals[:rng.randint(1, max(1, len(vals)))]) if vals else ()
                    except Exception:  # noqa
                        extra = ()
                _run(sib, (a[0],) + extra, {})
                st.n_pre += 1
                st.ctx.hist('probe/pre-call/sibling')
                return orig(*a, **k)
            cand = rng.choice(cands)
            var = _apply(a, k, cand)
            if rng.random() < 0.15:
                ts = _timescale(orig, a, k)
                if ts is not None:
                    var, cand = ts, ('*', 'time', 'timescale')
            if var is None:
                return orig(*a, **k)
            _run(orig, *var)                      # the colliding call first
            st.n_pre += 1
            st.ctx.hist('probe/pre-call/' + cand[2])
            res = orig(*a, **k)                   # the call the module asked for (exceptions propagate as usual)
            if rng.random() < 0.5 and _comparable(res):
                _run(orig, *_evict_args(a, k))    # a call with another memo key (evicts one-entry memos)
                again = _run(orig, a, k, limit=60.0)
                if again == ('err', 'ProbeTimeout'):
                    return res
                st.n_post += 1
                ok = again[0] == 'ok' and _same(res, again[1]) is not False
                if not ok:
                    st.n_post_fail += 1
                st.ctx.oracle(f"{st.prop} the result is a function of the arguments: {qual} returns the same for the same arguments after an "
                              f"intervening call with other arguments", ok,
                              inputs={'function': qual, 'args': [_brief(v) for v in a], 'kwargs': {n: _brief(v) for n, v in k.items()},
                                      'varied': [cand[0], cand[1] if isinstance(cand[1], str) else int(cand[1]), cand[2]]},
                              detail={'first': _brief(res) if not isinstance(res, (tuple, list)) else [_brief(x) for x in res][:4],
                                      'again': again[1] if again[0] == 'err' else (_brief(again[1]) if not isinstance(again[1], (tuple, list))
                                                                                   else [_brief(x) for x in again[1]][:4])},
                              facts={'fn': 'probe', 'function': qual})
            return res


def _wrap_method(orig, qual):
    @functools.wraps(orig)
    def wrapper(self, *a, **k):
        st = ST
        if not st.enabled or st.depth > 0 or st.prop in NO_METHOD_PROBE:
            return orig(self, *a, **k)
        st.depth += 1
        try:
            rng = st.rng
            if rng.random() >= P_PROBE:
                return orig(self, *a, **k)
            try:
                cands = _candidates(a, k, allow_scalars=True)
            except Exception:  # noqa
                cands = []
            if not cands:
                return orig(self, *a, **k)
            cand = rng.choice(cands)
            var = _apply(a, k, cand)
            if var is None:
                return orig(self, *a, **k)
            _run(orig, (self,) + var[0], var[1])  # the colliding call first: the intended call must replace all of its effects
            _touch(self)                          # ... including whatever derived quantity was computed in between
            st.n_pre += 1
            st.ctx.hist('probe/pre-call-method/' + qual.split('.')[-1] + '/' + cand[2])
            return orig(self, *a, **k)
        finally:
            st.depth -= 1
    wrapper.__eqsig_probe__ = True
    return wrapper


def install():
    """wrap the public module-level functions of eqsig (in every eqsig module namespace that refers to them) and the
    replacement-style methods / setters of Signal and AccSignal; idempotent"""
    global _INSTALLED
    if _INSTALLED or os.environ.get('VERIF_NO_PROBE') == '1':
        return
    import importlib
    import pkgutil
    import eqsig
    mods = []
    for m in pkgutil.walk_packages(eqsig.__path__, 'eqsig.'):
        try:
            mods.append(importlib.import_module(m.name))
        except Exception:
            pass
    mods.append(eqsig)
    wrapped = {}
    for mod in mods:
        for name, obj in list(vars(mod).items()):
            if name.startswith('_') or not inspect.isfunction(obj) or getattr(obj, '__eqsig_probe__', False):
                continue
            if not str(getattr(obj, '__module__', '')).startswith('eqsig'):
                continue
            if name.startswith('plot') or name in ('deprecation', 'show', 'run'):
                continue
            if id(obj) not in wrapped:
                wrapped[id(obj)] = _wrap_function(obj, f"{obj.__module__}.{obj.__name__}")
                if obj.__module__ in SIBLING_MODULES:
                    try:
                        p0 = list(inspect.signature(obj).parameters)[0]
                        _SIBLINGS.setdefault(obj.__module__, []).append((obj.__name__, obj, p0))
                    except Exception:
                        pass
            setattr(mod, name, wrapped[id(obj)])
    from eqsig import single
    for cname, names in METHODS.items():
        cls = getattr(single, cname)
        for n in names:
            f = cls.__dict__.get(n)
            if inspect.isfunction(f) and not getattr(f, '__eqsig_probe__', False):
                setattr(cls, n, _wrap_method(f, f"{cname}.{n}"))
    for cname, names in SETTERS.items():
        cls = getattr(single, cname)
        for n in names:
            p = cls.__dict__.get(n)
            if isinstance(p, property) and p.fset is not None and not getattr(p.fset, '__eqsig_probe__', False):
                setattr(cls, n, property(p.fget, _wrap_method(p.fset, f"{cname}.{n}.setter"), p.fdel, p.__doc__))
    _INSTALLED = True


def enable(ctx):
    if not _INSTALLED:
        return
    ST.ctx = ctx
    ST.prop = ctx.prop
    ST.rng = random.Random((ctx.seed * 7919) ^ int(hashlib.sha256(('probe' + ctx.prop).encode()).hexdigest()[:8], 16))
    ST.enabled = True
    ST.depth = 0


def disable():
    ST.enabled = False


def summary():
    return {'pre_calls': ST.n_pre, 'post_consistency_checks': ST.n_post, 'post_failures': ST.n_post_fail, 'abandoned_extra_calls': ST.n_timeout}
