"""PRELUDE — differential test of the NumPy / SciPy prelude (DESIGN §3.2).

Every NumPy/SciPy/Python primitive the hand models rely on (`lean/EqsigVerif/Prelude/Np.lean`, `Prelude/Interp.lean` and the
look-alikes defined locally in `Model/*.lean`) is exposed unchanged by `lean/EqsigVerif/Handlers/Prelude.lean` (handlers
`np.*`).  `run_prelude(ctx)` calls the *real* NumPy/SciPy function and the driver handler on the same inputs and compares
exactly: all inputs are small dyadic rationals (integers x 2^-k), so every float operation involved is exact.

Inputs per primitive: empty, length 1, ties, plateaus, negative values, zeros, boundary indices, random dyadic arrays
(NaN-free), about 40-60 requests each.  Error kinds are compared where the model claims them (`np.max([])` = ValueError,
`cumulative_trapezoid([])` = ValueError, `l[i]` out of range = IndexError, broadcasting failures = ValueError, `np.interp`
with an empty table / different lengths = ValueError).  Inputs outside a definition's stated domain (e.g. `argmax([])`,
`np.take` out of range) are never generated; the handlers answer `bad|... outside the modelled domain` to them.

Bookkeeping: `ctx.hist('PRELUDE/<handler>')`, correspondence label `'PRELUDE <handler>'`; `ctx.count_case` is NOT called
(prelude cases do not count towards the property's own case numbers).  The generator is derived from `ctx.rng` without
advancing it, so wiring the prelude into a property run does not change the inputs the property itself generates.
A handler the driver does not know yet (driver not rebuilt) is skipped with a note instead of failing.
"""
import math
import random
import time
from fractions import Fraction

import numpy as np

import core
from core import fr, w_rat, w_rats, w_bool, p_rats, p_ints, cmp_exact, cmp_budget, call_impl

N_RANDOM = 40          # random requests per primitive (on top of the fixed edge cases)


# ------------------------------------------------------------------------------------------------
# generators (all values are small dyadic rationals: every float operation below is exact)
# ------------------------------------------------------------------------------------------------

def dy(rng, lo=-16, hi=16, kmax=3):
    """a small dyadic: integer in [lo, hi] times 2^-k"""
    return rng.randint(lo, hi) / float(2 ** rng.randint(0, kmax))


def arr(rng, n=None, kind=None):
    """float64 array of length n (default: 0..24, small lengths favoured) of one of several shapes"""
    if n is None:
        n = rng.choice([0, 1, 1, 2, 2, 3, 3, 4, 5, 6, 8, rng.randint(7, 24)])
    kind = kind or rng.choice(['dyadic', 'int', 'ties', 'plateau', 'zeros', 'const', 'mono', 'neg', 'alt'])
    if kind == 'dyadic':
        v = [dy(rng) for _ in range(n)]
    elif kind == 'int':
        v = [float(rng.randint(-9, 9)) for _ in range(n)]
    elif kind == 'ties':
        pool = [dy(rng) for _ in range(rng.randint(1, 3))]
        v = [rng.choice(pool) for _ in range(n)]
    elif kind == 'plateau':
        v = []
        while len(v) < n:
            v += [dy(rng)] * rng.randint(1, 4)
        v = v[:n]
    elif kind == 'zeros':
        v = [rng.choice([0.0, 0.0, dy(rng), -0.0]) for _ in range(n)]
    elif kind == 'const':
        c = dy(rng)
        v = [c] * n
    elif kind == 'mono':
        v = sorted(dy(rng) for _ in range(n))
        if rng.random() < 0.5:
            v.reverse()
    elif kind == 'neg':
        v = [-abs(dy(rng)) for _ in range(n)]
    else:  # alternating sign, crossing zero
        v = [(1 if i % 2 else -1) * abs(dy(rng)) for i in range(n)]
    return np.array(v, dtype=float)


def nonempty(rng, kind=None):
    return arr(rng, rng.choice([1, 1, 2, 2, 3, 4, 5, 6, 8, rng.randint(7, 24)]), kind)


def sizes(rng, i, fixed=(0, 1, 1, 2, 2, 3)):
    """first the fixed small lengths, then random ones"""
    return fixed[i] if i < len(fixed) else rng.choice([1, 2, 3, 4, 5, 6, 8, rng.randint(7, 24)])


def iarr(xs):
    return np.array(list(xs), dtype=int)


def w_ints(xs):
    return " ".join(str(int(x)) for x in xs)


def w_opt(x):
    return 'None' if x is None else w_rat(x)


def flat(v):
    return list(np.asarray(v).ravel())


# ------------------------------------------------------------------------------------------------
# comparisons
# ------------------------------------------------------------------------------------------------

def c_rats(outs, val):
    return cmp_exact(flat(val), p_rats(outs[0]))


def c_ints(outs, val):
    return cmp_exact([int(x) for x in flat(val)], p_ints(outs[0]))


def c_rats_all(outs, val):
    """every output list of the model (several definitions of the same primitive) equals the impl value"""
    for k, o in enumerate(outs):
        m = cmp_exact(flat(val), p_rats(o))
        if m is not None:
            return f"out{k}: {m}"
    return None


def c_rows(outs, val):
    rows = [list(r) for r in np.asarray(val)]
    if len(rows) != len(outs):
        return f"rows impl={len(rows)} model={len(outs)}"
    for k, (r, o) in enumerate(zip(rows, outs)):
        m = cmp_exact(r, p_rats(o))
        if m is not None:
            return f"row{k}: {m}"
    return None


def c_mean(outs, val):
    """np.mean: nan <-> None; otherwise the impl value is the correctly rounded exact mean (one division)"""
    for tok in outs[0]:
        if tok == 'None':
            if not math.isnan(float(val)):
                return f"impl={val!r} model=None"
        else:
            q = p_rats([tok])[0]
            if math.isnan(float(val)) or float(val) != q.numerator / q.denominator:
                return f"impl={val!r} model={float(q)!r}"
    return None


# ------------------------------------------------------------------------------------------------
# the primitives.  Each generator yields (args, impl_result, compare, inputs) tuples;
# args = list of wire strings (joined with '|' after the handler name).
# ------------------------------------------------------------------------------------------------

def _list_prim(f, with_empty=True, cmp=c_rats):
    def g(rng):
        for i in range(N_RANDOM + 6):
            a = arr(rng, sizes(rng, i) if with_empty else max(1, sizes(rng, i)))
            yield [w_rats(a)], call_impl(f, a), cmp, {'a': a}
    return g


def _scalar_list_prim(f, cmp=c_rats):
    def g(rng):
        for i in range(N_RANDOM + 6):
            a = arr(rng, sizes(rng, i))
            c = rng.choice([0.0, 1.0, -1.0, 10.0, dy(rng), dy(rng)])
            yield [w_rat(c), w_rats(a)], call_impl(f, c, a), cmp, {'c': c, 'a': a}
    return g


def g_ediff1d(rng):
    for i in range(N_RANDOM + 6):
        a = arr(rng, sizes(rng, i))
        b = rng.choice([10.0, 0.0, dy(rng)])
        if i % 2:
            res = call_impl(lambda: np.ediff1d(a, to_begin=b))
        else:
            res = call_impl(lambda: np.insert(np.diff(a), 0, b))
        yield [w_rat(b), w_rats(a)], res, c_rats, {'a': a, 'to_begin': b}


def g_cumtrapz(rng):
    from scipy.integrate import cumulative_trapezoid
    for i in range(N_RANDOM + 8):
        a = arr(rng, sizes(rng, i, (0, 0, 1, 1, 2, 2, 3)))
        dx = rng.choice([1.0, 0.5, 0.25, 2.0, 0.125, 0.0, dy(rng, 1, 12)])
        yield [w_rat(dx), w_rats(a)], call_impl(cumulative_trapezoid, a, dx=dx, initial=0), c_rats, {'y': a, 'dx': dx}


def g_cumtrapz_noinit(rng):
    from scipy.integrate import cumulative_trapezoid
    for i in range(N_RANDOM + 6):
        a = arr(rng, max(1, sizes(rng, i)))
        yield [w_rats(a)], call_impl(cumulative_trapezoid, a), c_rats, {'y': a}


def _zip_prim(f):
    def g(rng):
        for i in range(N_RANDOM + 6):
            n = sizes(rng, i)
            a, b = arr(rng, n), arr(rng, n)
            yield [w_rats(a), w_rats(b)], call_impl(f, a, b), c_rats, {'a': a, 'b': b}
    return g


def _extremum(fnp, fpy):
    def g(rng):
        for i in range(N_RANDOM + 8):
            a = arr(rng, sizes(rng, i, (0, 0, 1, 1, 2, 2, 3)))
            f = fnp if i % 2 == 0 else fpy      # np.max(a) and the builtin max(a): both raise ValueError on []
            yield [w_rats(a)], call_impl(f, a), (lambda outs, val: cmp_exact([val], p_rats(outs[0]))), {'a': a}
    return g


def _arg_prim(f):
    def g(rng):
        for i in range(N_RANDOM + 8):
            kind = rng.choice(['ties', 'plateau', 'const', 'zeros', 'dyadic', 'int', 'mono'])
            a = arr(rng, max(1, sizes(rng, i)), kind)
            yield [w_rats(a)], call_impl(f, a), (lambda outs, val: cmp_exact([int(val)], p_ints(outs[0]))), {'a': a}
    return g


def _where_prim(pred, kinds=('zeros', 'zeros', 'alt', 'int', 'ties', 'dyadic', 'const')):
    def g(rng):
        for i in range(N_RANDOM + 6):
            a = arr(rng, sizes(rng, i), rng.choice(kinds))
            yield [w_rats(a)], call_impl(lambda: np.where(pred(a))[0]), c_ints, {'a': a}
    return g


def g_where_gt(rng):
    for i in range(N_RANDOM + 6):
        a = arr(rng, sizes(rng, i))
        c = float(rng.choice(list(a) + [0.0, 1.0, dy(rng)]))     # often exactly an element: `>` is strict
        yield [w_rat(c), w_rats(a)], call_impl(lambda: np.where(a > c)[0]), c_ints, {'a': a, 'c': c}


def g_take(rng):
    for i in range(N_RANDOM + 6):
        a = arr(rng, sizes(rng, i))
        n = len(a)
        k = 0 if n == 0 else rng.choice([0, 1, 2, n, rng.randint(0, 2 * n)])
        idx = [rng.choice([0, n - 1, rng.randrange(n)]) for _ in range(k)]
        yield [w_rats(a), w_ints(idx)], call_impl(np.take, a, iarr(idx)), c_rats, {'a': a, 'idx': idx}


def g_put(rng):
    def put(base, idx, vals):
        b = base.copy()
        np.put(b, iarr(idx), vals)
        return b
    for i in range(N_RANDOM + 6):
        base = arr(rng, sizes(rng, i), rng.choice(['zeros', 'const', 'dyadic']))
        n = len(base)
        k = 0 if n == 0 else rng.choice([0, 1, 2, n, rng.randint(0, 2 * n)])
        idx = [rng.choice([0, n - 1, rng.randrange(n)]) for _ in range(k)]      # duplicates: the last one wins
        vals = arr(rng, k, 'dyadic')
        yield [w_rats(base), w_ints(idx), w_rats(vals)], call_impl(put, base, idx, vals), c_rats, \
            {'base': base, 'idx': idx, 'vals': vals}


def _pad_prim(left):
    def g(rng):
        for i in range(N_RANDOM + 6):
            a = arr(rng, sizes(rng, i))
            n = rng.choice([0, 0, 1, 2, 3, rng.randint(0, 12)])
            z = rng.choice([0.0, 0.0, dy(rng)])
            width = (n, 0) if left else (0, n)
            if z == 0.0 and i % 2:
                res = call_impl(np.pad, a, width)                 # the default fill value
            else:
                res = call_impl(np.pad, a, width, constant_values=z)
            yield [w_rats(a), str(n), w_rat(z)], res, c_rats, {'a': a, 'n': n, 'z': z}
    return g


def g_slice(rng):
    for i in range(N_RANDOM + 10):
        a = arr(rng, sizes(rng, i))
        n = len(a)
        lo = rng.choice([0, 0, 1, 1, n, n + 2, rng.randint(0, n // 2), rng.randint(0, n + 3)])
        hi = rng.choice([0, n, n, n + 1, max(n - 1, 0), rng.randint(n // 2, n + 3), rng.randint(0, n + 3)])
        yield [w_rats(a), str(lo), str(hi)], call_impl(lambda: a[lo:hi]), c_rats, {'a': a, 'lo': lo, 'hi': hi}


def g_arange(rng):
    for n in list(range(0, 12)) + [rng.randint(12, 80) for _ in range(30)]:
        yield [str(n)], call_impl(np.arange, n), c_ints, {'n': n}


def _unit_abscissae(rng, n):
    """query points for a table on the unit grid 0..n-1: outside, the end nodes, every kind of interior point"""
    k = rng.choice([0, 1, 2, 3, 6, 10])
    pool = [-1.0, -0.25, 0.0, float(n - 1), n - 1 + 0.25, float(n), n - 1.5, 0.5, float(max(n - 2, 0))]
    return np.array([rng.choice(pool + [dy(rng, -4, 4 * max(n, 1) + 4, 2), float(rng.randint(0, max(n, 1)))])
                     for _ in range(k)], dtype=float)


def g_interp_unit(rng):
    for i in range(N_RANDOM + 16):
        fp = arr(rng, sizes(rng, i, (0, 0, 0, 1, 1, 1, 2, 2, 3)))
        xs = _unit_abscissae(rng, len(fp))
        if i in (0, 3):
            xs = np.array([], dtype=float)
        if i in (1, 2) and len(xs) == 0:
            xs = np.array([0.0])
        left = rng.choice([None, None, 0.0, dy(rng)])
        right = rng.choice([None, None, 0.0, dy(rng)])
        res = call_impl(np.interp, xs, np.arange(len(fp)), fp, left=left, right=right)
        yield [w_rats(xs), w_rats(fp), w_opt(left), w_opt(right)], res, c_rats, \
            {'x': xs, 'fp': fp, 'left': left, 'right': right}


def _knots(rng, n):
    """strictly increasing abscissae whose spacings are powers of two (slopes are then exact)"""
    x = [dy(rng, -8, 8, 2)]
    for _ in range(n - 1):
        x.append(x[-1] + 2.0 ** rng.randint(-2, 2))
    return np.array(x[:n], dtype=float)


def g_interp(rng):
    for i in range(N_RANDOM + 16):
        n = sizes(rng, i, (0, 0, 1, 1, 1, 2, 2, 3))
        xp, fp = _knots(rng, n), arr(rng, n)
        if i % 9 == 8:                               # len(xp) != len(fp): ValueError
            fp = arr(rng, n + rng.choice([1, 2]))
        k = rng.choice([0, 1, 2, 4, 8])
        pool = list(xp) + ([xp[0] - 0.5, xp[0] - 4, xp[-1] + 0.25, xp[-1] + 8] if n else [0.0, 1.0])
        pool += [(xp[j] + xp[j + 1]) / 2 for j in range(n - 1)] + [xp[j] + (xp[j + 1] - xp[j]) / 4 for j in range(n - 1)]
        xs = np.array([rng.choice(pool) for _ in range(k)], dtype=float)
        if i == 0:
            xs = np.array([], dtype=float)
        if i == 1 and len(xs) == 0:
            xs = np.array([0.5])
        left = rng.choice([None, None, 0.0, dy(rng)])
        right = rng.choice([None, None, 0.0, dy(rng)])
        res = call_impl(np.interp, xs, xp, fp, left=left, right=right)
        yield [w_rats(xs), w_rats(xp), w_rats(fp), w_opt(left), w_opt(right)], res, c_rats, \
            {'x': xs, 'xp': xp, 'fp': fp, 'left': left, 'right': right}


def g_interp_unit_im(rng):
    for i in range(N_RANDOM + 6):
        fp = arr(rng, max(1, sizes(rng, i)))
        xs = _unit_abscissae(rng, len(fp))
        yield [w_rats(xs), w_rats(fp)], call_impl(np.interp, xs, np.arange(len(fp)), fp), c_rats, {'x': xs, 'fp': fp}


def g_interp_nat(rng):
    for i in range(N_RANDOM + 10):
        n = max(1, sizes(rng, i))
        xp = [rng.choice([0, 0, 1, 3])]
        fp = [dy(rng)]
        for _ in range(n - 1):
            if rng.random() < 0.7:
                gap = rng.choice([1, 1, 2, 4, 8])
                fp.append(dy(rng))
            else:                                    # arbitrary gap, ordinate step a multiple of it: slope still exact
                gap = rng.randint(1, 9)
                fp.append(fp[-1] + gap * dy(rng, -4, 4, 2))
            xp.append(xp[-1] + gap)
        hi = xp[-1] + 3
        xs = sorted({xp[0], xp[-1], hi} | {rng.randint(xp[0], hi) for _ in range(rng.choice([0, 2, 6, 12]))} | set(xp[:4]))
        res = call_impl(np.interp, np.array(xs, dtype=float), np.array(xp, dtype=float), np.array(fp))
        yield [w_ints(xs), w_ints(xp), w_rats(fp)], res, c_rats, {'x': xs, 'xp': xp, 'fp': fp}


def g_prev_knot(rng):
    from scipy.interpolate import interp1d
    for i in range(N_RANDOM + 10):
        n = max(1, sizes(rng, i))
        xs = [rng.choice([0, 0, 2])]
        for _ in range(n - 1):
            xs.append(xs[-1] + rng.choice([0, 0, 1, 1, 2, 5]))      # equal abscissae: the last one wins
        ys = arr(rng, n, rng.choice(['dyadic', 'mono', 'ties']))
        q = sorted(set(xs) | {rng.randint(xs[0], xs[-1]) for _ in range(rng.choice([0, 3, 8]))})
        res = call_impl(lambda: interp1d(xs, ys, kind='previous')(np.array(q, dtype=float)))
        yield [w_ints(q), w_ints(xs), w_rats(ys)], res, c_rats, {'i': q, 'knots_x': xs, 'knots_y': ys}


def g_searchsorted(rng):
    for i in range(N_RANDOM + 10):
        x = np.sort(arr(rng, sizes(rng, i), rng.choice(['ties', 'plateau', 'dyadic', 'int', 'const'])))
        pool = list(x) + [dy(rng), -100.0, 100.0] + [(x[j] + x[j + 1]) / 2 for j in range(len(x) - 1)]
        q = np.array([rng.choice(pool) for _ in range(rng.choice([0, 1, 3, 8]))], dtype=float)
        yield [w_rats(x), w_rats(q)], call_impl(np.searchsorted, x, q, side='right'), c_ints, {'x': x, 'q': q}


def g_nearest(rng):
    for i in range(N_RANDOM + 6):
        xf = nonempty(rng, rng.choice(['mono', 'ties', 'int', 'dyadic']))
        pool = list(xf) + [dy(rng)] + [(xf[j] + xf[j + 1]) / 2 for j in range(len(xf) - 1)]      # mid-points: ties
        xs = np.array([rng.choice(pool) for _ in range(rng.choice([1, 2, 5]))], dtype=float)
        res = call_impl(lambda: np.argmin(np.abs(xs[:, np.newaxis] - xf), axis=1))
        yield [w_rats(xf), w_rats(xs)], res, c_ints, {'xf': xf, 'x': xs}


def g_trapz(rng):
    from scipy.integrate import trapezoid
    for i in range(N_RANDOM + 8):
        a = arr(rng, sizes(rng, i, (0, 0, 1, 1, 2, 2, 3)))
        dx = rng.choice([1.0, 0.5, 0.25, 2.0, 0.0, dy(rng, 1, 12)])
        f = trapezoid if i % 2 else np.trapezoid
        yield [w_rat(dx), w_rats(a)], call_impl(f, a, dx=dx), (lambda outs, val: cmp_exact([val], p_rats(outs[0]))), \
            {'y': a, 'dx': dx}


def g_trapz_xy(rng):
    from scipy.integrate import trapezoid
    for i in range(N_RANDOM + 8):
        n = sizes(rng, i, (0, 0, 1, 1, 2, 2, 3))
        y = arr(rng, n)
        x = arr(rng, n, rng.choice(['mono', 'dyadic', 'plateau']))
        yield [w_rats(x), w_rats(y)], call_impl(trapezoid, y, x), (lambda outs, val: cmp_exact([val], p_rats(outs[0]))), \
            {'x': x, 'y': y}


def g_arange3(rng):
    def cmp(outs, val):
        return cmp_exact(flat(val), p_rats(outs[0])) or cmp_exact([len(val)], p_ints(outs[1]))
    for i in range(N_RANDOM + 10):
        step = rng.choice([1.0, 0.5, 0.25, 0.125, 2.0, 0.75, 1.5, dy(rng, 1, 12)])
        start = rng.choice([0.0, 0.0, dy(rng)])
        k = rng.choice([0, 1, 2, 3, rng.randint(0, 20)])
        k = max(k, 1) if i % 3 else k
        stop = start + rng.choice([k * step, k * step, k * step + step / 2, k * step - step / 4, k * step + step / 4,
                                   k * step + step, rng.choice([-step, 0.0, step / 4])])
        yield [w_rat(start), w_rat(stop), w_rat(step)], call_impl(np.arange, start, stop, step), cmp, \
            {'start': start, 'stop': stop, 'step': step}


def g_arange_len(rng):
    for i in range(N_RANDOM + 10):
        x = rng.choice([0.0, -1.0, -0.5, 1.0, 0.25, float(rng.randint(0, 40)), dy(rng, -8, 80, 3)])
        yield [w_rat(x)], call_impl(lambda: len(np.arange(x))), (lambda outs, val: cmp_exact([val], p_ints(outs[0]))), {'x': x}


def g_trunc(rng):
    def both(a):
        v1 = list(a.astype(int))                 # np.array(x, dtype=int): C cast
        v2 = [int(x) for x in a]                 # Python int(x)
        if [int(x) for x in v1] != v2:
            raise RuntimeError("astype(int) and int() disagree")
        return v2
    for i in range(N_RANDOM + 6):
        a = np.array([rng.choice([0.0, -0.5, 0.5, -1.0, 1.0, -1.5, 1.5, -0.125, dy(rng, -40, 40, 3)])
                      for _ in range(sizes(rng, i))], dtype=float)
        yield [w_rats(a)], call_impl(both, a), c_ints, {'x': a}


LIN_DIV = [1, 2, 3, 4, 5, 6, 8, 9, 10, 12, 15, 16, 18, 20, 24, 30, 36, 40, 45, 48, 60, 72, 90]   # 180/d is dyadic-exact


def g_linspace(rng):
    for i in range(N_RANDOM + 10):
        num = sizes(rng, i, (0, 1, 1, 2, 2, 3))
        start = dy(rng)
        step = rng.choice([0.0, 1.0, -1.0, 0.5, dy(rng, -12, 12, 3)])
        stop = start + step * max(num - 1, 1)                         # exact step: linspace is exact
        yield [w_rat(start), w_rat(stop), str(num)], call_impl(np.linspace, start, stop, num), c_rats, \
            {'start': start, 'stop': stop, 'num': num}


def g_linspace01(rng):
    def cmp(outs, val, exact):
        m = p_rats(outs[0])
        if exact:
            return cmp_exact(flat(val), m)
        return cmp_budget(flat(val), m, Fraction(1, 2 ** 50))[0]      # i*fl(1/(n-1)) vs i/(n-1): a few ulp
    for n in [0, 1, 2, 3, 5, 9, 17, 33, 65, 129] + [rng.randint(4, 200) for _ in range(30)]:
        exact = n <= 2 or (n - 1) & (n - 2) == 0
        yield [str(n)], call_impl(np.linspace, 0, 1.0, n), (lambda outs, val, exact=exact: cmp(outs, val, exact)), {'n': n}


def g_mod(rng):
    for i in range(N_RANDOM + 8):
        m = rng.choice([360.0, 360.0, 1.0, 2.0, 0.5, 0.75, dy(rng, 1, 12, 2)])
        n = sizes(rng, i)
        xs = np.array([rng.choice([0.0, m, -m, 2 * m, -3 * m, m / 2, -m / 2, -0.125, dy(rng, -64, 64, 3), dy(rng, -800, 800, 1)])
                       for _ in range(n)], dtype=float)
        yield [w_rats(xs), w_rat(m)], call_impl(np.mod, xs, m), c_rats, {'x': xs, 'm': m}


def g_rotated_degrees(rng):
    for i in range(N_RANDOM + 6):
        points = rng.choice(LIN_DIV) + 1 if i > 1 else 1 + i
        off = rng.choice([0.0, 0.0, 90.0, 180.0, -90.0, 45.0, 360.0, 22.5, float(rng.randint(-400, 400)), dy(rng, -720, 720, 2)])
        res = call_impl(lambda: np.mod(np.linspace(0 - off, 180 - off, points), 360))
        yield [w_rat(off), str(points)], res, c_rats, {'off': off, 'points': points}


def g_ceil_log2(rng):
    def f(n):
        e = int(np.ceil(np.log2(n)))
        return [e, e, 2 ** e]
    ns = list(range(1, 20)) + [2 ** k + d for k in (5, 6, 7, 10, 16, 20, 30) for d in (-1, 0, 1)] + \
        [rng.randint(20, 5000) for _ in range(12)]
    for n in ns:
        yield [str(n)], call_impl(f, n), c_ints, {'n': n}


def g_py_get(rng):
    for i in range(N_RANDOM + 12):
        a = arr(rng, sizes(rng, i, (0, 0, 1, 1, 1, 2, 2, 3)))
        n = len(a)
        k = rng.choice([0, -1, n - 1, n, -n, -n - 1, n + 1, rng.randint(-n - 2, n + 1)])
        src = a if i % 2 else list(a)                 # NumPy and list indexing: the same rule
        yield [w_rats(a), str(k)], call_impl(lambda: src[k]), (lambda outs, val: cmp_exact([val], p_rats(outs[0]))), \
            {'a': a, 'i': k}


def _bound(rng, n):
    return rng.choice([0, 1, -1, n, -n, n - 1, n + 1, -n - 1, -n + 1, n + 3, -n - 3, rng.randint(-n - 2, n + 2)])


def _bounds(rng, n):
    """(lo, hi): half of the time arbitrary (often an empty slice), otherwise a low start and a high stop"""
    if rng.random() < 0.5:
        return _bound(rng, n), _bound(rng, n)
    return rng.choice([0, 1, -n, -n - 1, -n + 1, rng.randint(-n - 1, n // 2)]), \
        rng.choice([n, n + 1, -1, n - 1, n + 3, rng.randint(n // 2, n + 2)])


def _slice1(f):
    def g(rng):
        for i in range(N_RANDOM + 12):
            a = arr(rng, sizes(rng, i))
            k = _bound(rng, len(a))
            yield [w_rats(a), str(k)], call_impl(f, a, k), c_rats, {'a': a, 'bound': k}
    return g


def g_py_slice(rng):
    for i in range(N_RANDOM + 16):
        a = arr(rng, sizes(rng, i))
        lo, hi = _bounds(rng, len(a))
        lo = rng.choice([None, lo, lo])
        hi = rng.choice([None, hi, hi])
        yield [w_rats(a), 'None' if lo is None else str(lo), 'None' if hi is None else str(hi)], \
            call_impl(lambda: a[lo:hi]), c_rats, {'a': a, 'lo': lo, 'hi': hi}


def g_py_slice_single(rng):
    for i in range(N_RANDOM + 16):
        a = arr(rng, sizes(rng, i))
        lo, hi = _bounds(rng, len(a))
        yield [w_rats(a), str(lo), str(hi)], call_impl(lambda: a[lo:hi]), c_rats, {'a': a, 'lo': lo, 'hi': hi}


def g_slice_assign(rng):
    def assign(row, lo, hi, src):
        r = row.copy()
        r[lo:hi] = src
        return r
    for i in range(N_RANDOM + 16):
        row = arr(rng, sizes(rng, i), rng.choice(['zeros', 'const', 'dyadic']))
        n = len(row)
        lo, hi = _bounds(rng, n)
        t = len(row[lo:hi])
        k = rng.choice([t, t, t, 1, 0, t + 1, max(t - 1, 0), 2])       # fits / length-1 broadcast / ValueError
        src = arr(rng, k, 'dyadic')
        yield [w_rats(row), str(lo), str(hi), w_rats(src)], call_impl(assign, row, lo, hi, src), c_rats, \
            {'row': row, 'lo': lo, 'hi': hi, 'src': src}


def g_bcast_add(rng):
    for i in range(N_RANDOM + 12):
        n = sizes(rng, i)
        m = rng.choice([n, n, n, 1, 0, n + 1, 2])
        a, b = arr(rng, n), arr(rng, m)
        yield [w_rats(a), w_rats(b)], call_impl(lambda: a + b), c_rats, {'row': a, 'b': b}


def g_low_idx(rng):
    for ind in list(range(0, 12)) + [rng.randint(0, 500) for _ in range(10)]:
        for gt in (True, False):
            res = call_impl(lambda: int(np.clip(np.where(gt, ind - 1, ind), 0, None)))
            yield [str(ind), w_bool(gt)], res, (lambda outs, val: cmp_exact([val], p_ints(outs[0]))), {'ind': ind, 'gt': gt}


def g_high_idx(rng):
    for i in range(N_RANDOM + 10):
        n = rng.choice([0, 1, 2, 3, rng.randint(1, 40)])
        ind = rng.choice([0, max(n - 1, 0), max(n - 2, 0), rng.randint(0, max(n - 1, 0))])
        gt = rng.random() < 0.5
        res = call_impl(lambda: int(np.clip(np.where(gt, ind, ind + 1), None, n - 1)))
        yield [str(n), str(ind), w_bool(gt)], res, (lambda outs, val: cmp_exact([val], p_ints(outs[0]))), \
            {'n': n, 'ind': ind, 'gt': gt}


def _tri_row(f):
    def g(rng):
        for i in range(N_RANDOM + 6):
            a = arr(rng, max(1, sizes(rng, i)))
            k = rng.choice([0, len(a) - 1, rng.randrange(len(a))])
            yield [w_rats(a), str(k)], call_impl(lambda: f(a)[k]), c_rats, {'values': a, 'row': k}
    return g


def g_toeplitz(rng):
    from scipy.linalg import toeplitz
    for i in range(N_RANDOM + 6):
        c = arr(rng, max(1, sizes(rng, i)), 'dyadic')
        r = arr(rng, rng.choice([1, 2, len(c), len(c) + 1, rng.randint(1, 8)]), 'dyadic')      # r[0] is ignored by SciPy
        yield [w_rats(c), w_rats(r)], call_impl(toeplitz, c, r), c_rows, {'c': c, 'r': r}


def g_delete(rng):
    for i in range(N_RANDOM + 8):
        n = sizes(rng, i)
        l = sorted(rng.randint(0, 60) for _ in range(n))
        k = 0 if n == 0 else rng.choice([0, 1, 2, 2, n, rng.randint(0, n + 2)])
        rem = [rng.choice([0, n - 1, rng.randrange(n)]) for _ in range(k)]
        if k >= 2 and rng.random() < 0.5:
            j = rng.randrange(max(n - 1, 1))
            rem = rem[:-2] + [j, min(j + 1, n - 1)]             # the `rem_i += [k, k+1]` pattern, duplicates allowed
        yield [w_ints(l), w_ints(rem)], call_impl(np.delete, iarr(l), iarr(rem)), c_ints, {'l': l, 'rem': rem}


def g_sort(rng):
    def srt(l, inplace):
        a = iarr(l)
        if inplace:
            a.sort()
            return a
        return np.sort(a)
    for i in range(N_RANDOM + 6):
        l = [rng.choice([0, 1, rng.randint(0, 9), rng.randint(0, 1000)]) for _ in range(sizes(rng, i))]
        yield [w_ints(l)], call_impl(srt, l, i % 2 == 0), c_ints, {'l': l}


def _int_extremum(f):
    def g(rng):
        for i in range(N_RANDOM + 8):
            l = [rng.choice([0, -1, 1, rng.randint(-50, 50)]) for _ in range(sizes(rng, i, (0, 0, 1, 1, 2, 2, 3)))]
            yield [w_ints(l)], call_impl(f, iarr(l)), (lambda outs, val: cmp_exact([int(val)], p_ints(outs[0]))), {'l': l}
    return g


def g_mean(rng):
    for i in range(N_RANDOM + 8):
        a = arr(rng, sizes(rng, i, (0, 0, 1, 1, 2, 2, 3)))
        yield [w_rats(a)], call_impl(np.mean, a), c_mean, {'a': a}


PRIMITIVES = [
    # handler, generator                               -- the Lean definition under test
    ('np.cumsum', _list_prim(np.cumsum)),                                  # Np.cumsum
    ('np.sum', _list_prim(np.sum, cmp=lambda o, v: cmp_exact([v], p_rats(o[0])))),     # Np.sum
    ('np.rsum', _list_prim(np.sum, cmp=lambda o, v: cmp_exact([v], p_rats(o[0])))),    # Model.Fns.rsum
    ('np.diff', _list_prim(np.diff)),                                      # Np.diff
    ('np.diff_prepend', _scalar_list_prim(lambda p, a: np.diff(a, prepend=p))),        # Np.diffFrom
    ('np.ediff1d', g_ediff1d),                                             # Np.ediff1d
    ('np.cumtrapz', g_cumtrapz),                                           # Np.cumtrapz + Model.Im.nonempty?
    ('np.cumtrapz_noinit', g_cumtrapz_noinit),                             # Model.SpectraFns.cumtrapzNoInit
    ('np.scale', _scalar_list_prim(lambda c, a: c * a)),                   # Np.scale
    ('np.sq', _list_prim(lambda a: a ** 2)),                               # Np.sq
    ('np.add', _zip_prim(lambda a, b: a + b)),                             # Np.addL
    ('np.sub', _zip_prim(lambda a, b: a - b)),                             # Np.subL
    ('np.abs', _list_prim(np.abs)),                                        # Np.absL
    ('np.max', _extremum(np.max, max)),                                    # Np.maxL?
    ('np.min', _extremum(np.min, min)),                                    # Np.minL?
    ('np.argmax', _arg_prim(np.argmax)),                                   # Np.argmax
    ('np.argmin', _arg_prim(np.argmin)),                                   # Np.argmin
    ('np.where_eq0', _where_prim(lambda a: a == 0, ('zeros', 'zeros', 'zeros', 'int', 'alt'))),      # Np.whereIdx (x = 0)
    ('np.where_lt0', _where_prim(lambda a: a < 0)),                        # Np.whereIdx (x < 0)
    ('np.where_ne0', _where_prim(lambda a: a != 0)),                       # Np.whereIdx (x ≠ 0)
    ('np.where_gt', g_where_gt),                                           # Np.whereIdx (c < x)
    ('np.take', g_take),                                                   # Np.takeIdx
    ('np.put', g_put),                                                     # Np.putIdx
    ('np.pad_right', _pad_prim(False)),                                    # Np.padRight
    ('np.pad_left', _pad_prim(True)),                                      # Np.padLeft
    ('np.slice', g_slice),                                                 # Np.slice
    ('np.arange', g_arange),                                               # Np.arange
    ('np.interp_unit', g_interp_unit),                                     # Interp.npInterpUnit / interpUnit
    ('np.interp', g_interp),                                               # Interp.npInterp / interp
    ('np.interp_unit_im', g_interp_unit_im),                               # Model.Im.interpUnit
    ('np.interp_nat', g_interp_nat),                                       # Model.Peaks.interp
    ('np.prev_knot', g_prev_knot),                                         # Model.PowerLaw.prevKnot
    ('np.searchsorted_right', g_searchsorted),                             # Model.Fns.searchsortedRight
    ('np.nearest', g_nearest),                                             # Model.Fns.nearest
    ('np.trapz', g_trapz),                                                 # Model.Im.trapz
    ('np.trapz_xy', g_trapz_xy),                                           # Model.Im.trapezoidXY
    ('np.arange3', g_arange3),                                             # Model.Im.arangeQ / arangeLen
    ('np.arange_len', g_arange_len),                                       # Model.TimeStep.arangeLen
    ('np.trunc', g_trunc),                                                 # Model.TimeStep.truncZ
    ('np.linspace', g_linspace),                                           # Model.Multiple.linspace
    ('np.linspace01', g_linspace01),                                       # Model.Single.linspace01
    ('np.mod', g_mod),                                                     # Model.Multiple.npMod
    ('np.rotated_degrees', g_rotated_degrees),                             # Model.Multiple.rotatedDegrees
    ('np.ceil_log2', g_ceil_log2),                                         # Model.Single.ceilLog2, Model.Frequency.clog2/nextPow2
    ('np.py_get', g_py_get),                                               # Model.Fns.pyGet
    ('np.py_slice_to', _slice1(lambda a, k: a[:k])),                       # Model.Fns.pySliceTo
    ('np.py_slice_from', _slice1(lambda a, k: a[k:])),                     # Model.Fns.pySliceFrom
    ('np.py_to_single', _slice1(lambda a, k: a[:k])),                      # Model.Single.pyTo
    ('np.py_from_single', _slice1(lambda a, k: a[k:])),                    # Model.Single.pyFrom
    ('np.py_slice', g_py_slice),                                           # Model.TimeShift.pySlice
    ('np.py_slice_single', g_py_slice_single),                             # Model.Single.pySlice
    ('np.slice_assign', g_slice_assign),                                   # Model.TimeShift.sliceAssign / assignBroadcast
    ('np.bcast_add', g_bcast_add),                                         # Model.TimeShift.bcastAddRow
    ('np.low_idx', g_low_idx),                                             # Model.Fns.lowIdx
    ('np.high_idx', g_high_idx),                                           # Model.Fns.highIdx
    ('np.tril_row', _tri_row(np.tril)),                                    # Model.Fns.trilRow
    ('np.triu_row', _tri_row(np.triu)),                                    # Model.Fns.triuRow
    ('np.toeplitz', g_toeplitz),                                           # Model.Stockwell.toeplitz
    ('np.delete', g_delete),                                               # Model.Switched.npDelete
    ('np.sort', g_sort),                                                   # Model.Switched.sortAsc
    ('np.sign', _list_prim(np.sign, cmp=c_rats_all)),                      # Model.Switched.sgn, Model.Peaks.sign
    ('np.max_int', _int_extremum(np.max)),                                 # Model.TimeShift.maxInt?
    ('np.min_int', _int_extremum(np.min)),                                 # Model.TimeShift.minInt?
    ('np.mean', g_mean),                                                   # Model.Fns.mean?, Model.Single.mean?
]


def missing_handlers(names):
    """handlers the built driver does not know (`bad|unknown fn`): probed with an argument-less request each"""
    resps = core.run_driver(list(names))
    return {n for n, r in zip(names, resps) if r[0] == 'bad' and 'unknown fn' in r[1]}


def run_prelude(ctx, budget_s=6.0):
    """differentially test every prelude primitive against the real NumPy/SciPy; failures land in ctx.corr_failures
    (label 'PRELUDE <handler>').  Returns the number of requests queued."""
    t0 = time.time()
    state = ctx.rng.getstate()                       # derive a generator from ctx.rng without advancing it
    rng = random.Random(ctx.rng.getrandbits(64))
    ctx.rng.setstate(state)
    names = [n for n, _ in PRIMITIVES]
    try:
        missing = missing_handlers(names)
    except Exception as e:  # noqa  (driver not built / not runnable)
        ctx.notes.append(f"prelude check skipped: {type(e).__name__}: {e}")
        return 0
    if missing:
        ctx.notes.append('prelude handler missing: ' + ', '.join(sorted(missing)) + ' (driver not rebuilt?) - skipped')
    queued = 0
    skipped = []
    for name, gen_cases in PRIMITIVES:
        if name in missing:
            ctx.hist('PRELUDE-missing/' + name)
            continue
        if time.time() - t0 > budget_s:
            skipped.append(name)
            continue
        sub = random.Random(rng.getrandbits(64))    # one stream per primitive: skipping one does not shift the others
        for args, res, compare, inputs in gen_cases(sub):
            ctx.hist('PRELUDE/' + name)
            ctx.corr('PRELUDE ' + name, name + '|' + '|'.join(args), res, compare, inputs=inputs)
            queued += 1
    if skipped:
        ctx.notes.append(f"prelude budget of {budget_s}s exhausted; not run: " + ', '.join(skipped))
    ctx.flush()
    ctx.hist('PRELUDE-requests', queued)
    return queued


if __name__ == '__main__':
    import os
    import sys
    from core import Ctx
    if os.environ.get('PRELUDE_DRIVER'):              # test against a scratch driver
        core.DRIVER = os.environ['PRELUDE_DRIVER']
    seed = int(sys.argv[1]) if len(sys.argv) > 1 else int(os.environ.get('VERIF_SEED', '0'))
    ctx = Ctx('PRELUDE', 'quick', seed)
    t = time.time()
    run_prelude(ctx)
    ctx.flush()
    bad = {}
    for f in ctx.corr_failures:
        bad[f['fn']] = bad.get(f['fn'], 0) + 1
    print(ctx.corr_count, ctx.corr_failures[:3])
    print(f"requests={sum(ctx.corr_count.values())} primitives={len(ctx.corr_count)} failures={len(ctx.corr_failures)} "
          f"failing={bad} notes={ctx.notes} wall={time.time() - t:.2f}s")
    sys.exit(1 if ctx.corr_failures else 0)
