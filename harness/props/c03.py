"""C03 — response spectra are peak responses with consistent pseudo-spectral relations; energy spectra; asi/vsi."""
import math
from fractions import Fraction

import numpy as np

import gen
import core
from core import fr, w_rat, w_rats, p_rats, cmp_exact, cmp_budget, call_impl
from _c17_common import norm_res, cmp_seq, cmp_rows, w_rows, p_rows, DYADIC_DTS

PROP_MODULES = ['C03', 'C03a', 'C03Gen', 'C03Compose', 'C03GenSpectra', 'C03GenSpec2', 'C03GenSpec2b', 'C03Duhamel']

RULE = ("spectra: records n in 2..400 (quick) / 3000 of shapes hat/noise/sine/step/spike/int/1e+-6/zero, dt dyadic or in 10^[-3,0], 1..6 periods "
        "per call with T/dt log-uniform in [0.2, 2e4] or in {0.2,1,5.9,6,6.1,20}, optional leading 0, xi in {0,1e-3,0.05,0.3,0.7,0.99} u U[0,1), "
        "periods as list/tuple/array for both spectrum functions; the comparison T < 6*dt is decided on the float product the impl computes "
        "(model correspondence skipped when the exact product falls on the other side: float tie); object API: min_dt_ratio in {1,2,4,8} "
        "(and the lazy default), response_times with/without leading 0 on both sides of 20*dt, the F03-1 corner 6*dt' <= T < 6*dt; "
        "energy spectra on the same response series + realistic records (enveloped noise, n >= 200, T/dt >= 6, xi >= 0.02) + the short / "
        "coarse / lightly damped / narrow-band cases of F03-2; asi/vsi at the default grids and custom period arrays (>= 2 and 1 entries). "
        "distinct = hash of (function, record, dt, periods, xi, options); non-trivial = length >= 3 and not constant")
TIE = ("translator (PGA-substitution factor of both functions regenerated into Gen/Consts, bridge Props/C03Gen) + correspondence (hand model Model/SpectraFns.lean on exact rationals, fed with the impl's response rows; the response rows themselves "
       "are tied by C01: generated compute_a_and_b + recurrence)")
NOT_PROVED = ["finiteness in floating point (checked on every case)",
              "C03.d 's_a never below the raw value' in the corner 6*dt' <= T < 6*dt: false of code and model (open finding F03-1)",
              "C03.e 'final input energy >= 0': the discrete sum sum(a*v*dt) has no sign (open finding F03-2); enforced on realistic records only",
              "C03.c |true S_a / pseudo S_a - 1| < 3e-9 for xi = 0 uses C01.f (6.2831853 vs 2*pi); checked numerically here",
              "C03.d composition of the step decision with the C14 interpolation and the C01 response IS proved (Props/C03Compose: object_spectra_spec, object_spectra_retains, object_spectra_rows_sampled, object_spectra_sd_ge_raw); not proved: the same chain in binary64 (checked by exact reproduction on every case)",
              "IEEE rounding (measured); comparisons T < 6*dt and target_dt < dt are taken on the impl's float products/quotients"]
ASSUMPTIONS = ["libm exp/sin/cos/sqrt are the real functions up to rounding (response series, C01)"]

E12 = Fraction(1, 10**12)
ROWS_MAX = 700       # correspondence requests carry the response rows as exact rationals: only for n * len(periods) <= ROWS_MAX
BROADBAND = {'noise', 'burst', 'spike', 'step', 'hat'}


def prop_tol(dt, T, n):
    w = 2 * math.pi / T
    return 1e-6 + 5e-8 * (n * dt) / T + 2.3e-16 / (w * dt) ** 3


def record(rng, n, dt):
    k = rng.choice(['hat', 'noise', 'sine', 'step', 'spike', 'int', 'big', 'tiny', 'burst', 'zero'])
    if k == 'hat':
        a = np.zeros(n)
        a[rng.randrange(n)] = 1.0
    elif k == 'noise':
        a = gen.noise_record(rng, n)
    elif k == 'sine':
        a = gen.sine_record(rng, n, dt)
    elif k == 'step':
        a = gen.step_record(rng, n)
    elif k == 'spike':
        a = gen.spike_record(rng, n, 3.0)
    elif k == 'int':
        a = gen.int_record(rng, n)
    elif k == 'big':
        a = gen.noise_record(rng, n, 1e6)
    elif k == 'tiny':
        a = gen.noise_record(rng, n, 1e-6)
    elif k == 'burst':
        a = gen.noise_record(rng, n) * np.exp(-((np.arange(n) - n / 2) / max(n / 8, 1)) ** 2)
    else:
        a = np.zeros(n)
    return k, a


def mkcont(cont, periods):
    return {'list': list(periods), 'tuple': tuple(periods), 'array': np.array(periods, dtype=float)}[cont]


def same_triple(r1, r2):
    return r1[0] == r2[0] and (r1[1] == r2[1] if r1[0] == 'err' else all(np.array_equal(x, y) for x, y in zip(r1[1], r2[1])))


# ------------------------------------------------------------------------------------------- pseudo / true spectra, energy

def spectra(ctx):
    import eqsig
    from eqsig import sdof
    rng = ctx.rng
    n_cases = 300 if ctx.tier == 'quick' else 2500
    twopi = 2 * np.pi
    corpus = [(np.array([1.0, -2.0, 1.0]), 0.5, [0.0, 1.0, 3.0, 4.0], 0.05, 'corpus'),          # dyadic: T = 3 = 6 dt exactly (no substitution)
              (np.array([1.0, -2.0, 1.0, 0.5, -1.0, 2.0]), 0.25, [0, 1, 2, 3], 0.05, 'corpus-int-periods'),   # Python ints, leading 0
              (np.array([1.0, -2.0, 1.0, 0.5, -1.0, 2.0]), 0.25, [1, 2, 5], 0.05, 'corpus-int-periods'),
              (np.array([0.0, 1.0, 0.0, 0.0, 0.0, 0.0, 0.0, 0.0]), 0.25, [1.25, 1.5, 1.75], 0.0, 'corpus'),
              (np.array([1.0, 1.0]), 1.0, [0.5], 0.05, 'corpus-F03-2'),
              (np.array([2.0]), 0.5, [0.0, 1.0], 0.05, 'corpus')]
    # source hints: T/dt (or w*dt = 2 pi dt/T), xi, dt at / around every new float constant of the anchored files ([] on the unchanged tree)
    hv_r = gen.hint_values(ctx, 0.2, 2e4, cap=30, maps=(lambda c: c, lambda c: 6.2831853 / c, lambda c: 1 / c))
    hv_xi, hv_dt = gen.hint_values(ctx, 0.0, 0.999, cap=10), gen.hint_values(ctx, 1e-3, 1.0, cap=10, maps=(lambda c: c, lambda c: 1 / c))
    for i in range(n_cases + len(corpus)):
        if i < len(corpus):
            a, dt, periods, xi, kind = corpus[i]
            n = len(a)
            lead0 = periods[0] == 0
        else:
            n = gen.log_int(rng, 2, 400 if ctx.tier == 'quick' else 3000)
            dyadic_dt = i % 3 == 0
            dt = rng.choice(DYADIC_DTS) if dyadic_dt else (10 ** rng.uniform(-3, 0) if rng.random() < 0.5 else rng.choice([0.01, 0.005, 0.02, 0.1, 0.001]))
            if hv_dt and not dyadic_dt and rng.random() < 0.15:
                dt = rng.choice(hv_dt)
            kind, a = record(rng, n, dt)
            npd = rng.randint(1, 6)
            ratios = [math.exp(rng.uniform(math.log(0.2), math.log(2e4))) if rng.random() < 0.55 else rng.choice([0.2, 1, 5.9, 6, 6.1, 20, 5.75, 6.25])
                      for _ in range(npd)]
            if dyadic_dt:
                ratios = [round(r * 4) / 4 if r < 100 else float(round(r)) for r in ratios]
                ratios = [r if r > 0 else 0.25 for r in ratios]
            if hv_r and rng.random() < 0.3:
                ratios[rng.randrange(npd)] = rng.choice(hv_r)
            periods = [r * dt for r in ratios]
            if i % 11 == 0:
                periods = [float(rng.randint(1, 9)) for _ in range(npd)]     # integral periods (also sent as ints below)
            lead0 = rng.random() < 0.3
            if lead0:
                periods = [0.0] + periods
            xi = rng.choice([0.0, 1e-3, 0.05, 0.3, 0.7, 0.99]) if rng.random() < 0.7 else rng.uniform(0, 0.999)
            if hv_xi and rng.random() < 0.15:
                xi = rng.choice(hv_xi)
        P = len(periods)
        parr = np.array(periods, dtype=float)
        ctx.hist('record=' + kind)
        ctx.hist('leading0=' + str(bool(lead0)))
        ctx.hist('xi=' + ('0' if xi == 0 else ('<0.1' if xi < 0.1 else ('<0.9' if xi < 0.9 else '>=0.9'))))
        ctx.count_case(('sp', a.tobytes(), dt, tuple(periods), xi), gen.nontrivial_record(a),
                       sample={'fn': 'pseudo/true_response_spectra', 'n': n, 'dt': dt, 'periods': periods, 'xi': xi, 'record': kind} if i < 3 else None)
        inputs = {'motion': a, 'dt': dt, 'periods': periods, 'xi': xi}
        snap = a.copy()
        rr = call_impl(sdof.response_series, a, dt, parr, xi)
        if rr[0] != 'ok':
            ctx.oracle('C03 response_series returns on its domain', False, inputs, detail=rr)
            continue
        u, v, ac = rr[1]
        res_p = {c: call_impl(sdof.pseudo_response_spectra, a, dt, mkcont(c, periods), xi) for c in ('list', 'tuple', 'array')}
        res_t = {c: call_impl(sdof.true_response_spectra, a, dt, mkcont(c, periods), xi) for c in ('list', 'tuple', 'array')}
        if all(float(T) == int(T) for T in periods):
            # integer-valued periods given as Python ints / an integer ndarray must give the float results (w = 2*pi/T is not an integer)
            ip = [int(T) for T in periods]
            for cname, cont in (('int list', ip), ('int tuple', tuple(ip)), ('int array', np.array(ip, dtype=int))):
                for fn_name, ref in (('pseudo_response_spectra', res_p['array']), ('true_response_spectra', res_t['array'])):
                    ri = call_impl(getattr(sdof, fn_name), a, dt, cont, xi)
                    ctx.hist('integer period containers')
                    ctx.oracle(f'C03 {fn_name}: integer-typed period containers give the same spectra as float periods',
                               ref[0] == 'ok' and same_triple(ri, ref), {**inputs, 'container': cname},
                               detail={'got': ri[1] if ri[0] == 'ok' else ri, 'want': ref[1] if ref[0] == 'ok' else ref})
        ctx.oracle('C03.b pseudo_response_spectra: identical results for list, tuple and array period containers',
                   res_p['array'][0] == 'ok' and same_triple(res_p['list'], res_p['array']) and same_triple(res_p['tuple'], res_p['array']), inputs,
                   detail={c: (r[1] if r[0] == 'err' else 'ok') for c, r in res_p.items()})
        ctx.oracle('C03.c true_response_spectra: identical results for list, tuple and array period containers',
                   res_t['array'][0] == 'ok' and same_triple(res_t['list'], res_t['array']) and same_triple(res_t['tuple'], res_t['array']), inputs,
                   detail={c: (r[1] if r[0] == 'err' else 'ok') for c, r in res_t.items()})
        ctx.oracle('input record unchanged', np.array_equal(a, snap), inputs)
        # float decision of the PGA substitution, and whether the exact product agrees (else: float tie, model comparison skipped)
        fl_dec = [bool(T < dt * 6) for T in periods]
        ex_dec = [fr(T) < fr(dt) * 6 for T in periods]
        tie = fl_dec != ex_dec
        if tie:
            ctx.hist('float-tie T == fl(6*dt): model comparison skipped')
        pga = float(np.max(np.abs(a)))
        wtrue = np.array([1.0 if (j == 0 and periods[0] == 0) else 2 * math.pi / periods[j] for j in range(P)])
        max_u = np.max(np.abs(u), axis=1)
        finite_rows = bool(np.all(np.isfinite(u)) and np.all(np.isfinite(v)) and np.all(np.isfinite(ac)))
        for name, res in (('pseudo', res_p['array']), ('true', res_t['array'])):
            if res[0] != 'ok':
                continue
            sds, svs, sas = [np.asarray(x, dtype=float) for x in res[1]]
            cl = 'C03.b' if name == 'pseudo' else 'C03.c'
            ctx.oracle(f'{cl} {name} spectra: one entry per period, finite and non-negative',
                       len(sds) == len(svs) == len(sas) == P and all(bool(np.all(np.isfinite(x)) and np.all(x >= 0)) for x in (sds, svs, sas)), inputs)
            if not (len(sds) == len(svs) == len(sas) == P):
                continue
            ctx.oracle(f'{cl} {name} S_d == max_t |u(t)| of the response series', np.array_equal(sds, max_u), inputs)
            if name == 'pseudo':
                sc = max(float(np.max(wtrue * max_u)), 1e-300)
                ctx.oracle('C03.b pseudo S_v == (2 pi / T) * S_d', float(np.max(np.abs(svs - wtrue * max_u))) <= 1e-12 * sc, inputs)
                want_a = np.where(np.array(fl_dec), pga, wtrue ** 2 * max_u)
                ctx.oracle('C03.b pseudo S_a == (2 pi / T)^2 * S_d for T >= 6 dt and the peak ground acceleration for T < 6 dt',
                           float(np.max(np.abs(sas - want_a))) <= 1e-12 * max(float(np.max(np.abs(want_a))), 1e-300), inputs,
                           detail={'sas': sas, 'want': want_a})
                if lead0:
                    ctx.oracle('C03.b T = 0: S_d = S_v = 0 and S_a == peak ground acceleration', sds[0] == 0 and svs[0] == 0 and sas[0] == pga, inputs)
                if finite_rows and not tie and n * P <= ROWS_MAX:
                    ctx.corr('pseudo_response_spectra', f"c03.pseudo|{w_rat(twopi)}|{w_rat(dt)}|{w_rats(a)}|{w_rats(periods)}|{w_rows(u)}", res,
                             lambda outs, val: cmp_rows(ctx, 'pseudo_response_spectra', [list(x) for x in val], [p_rats(o) for o in outs], False, E12),
                             inputs=inputs)
            else:
                ctx.oracle('C03.c true S_v == max_t |v(t)|', np.array_equal(svs, np.max(np.abs(v), axis=1)), inputs)
                want_a = np.where(np.array(fl_dec), pga, np.max(np.abs(ac), axis=1))
                ctx.oracle('C03.c true S_a == max_t |a_total(t)| for T >= 6 dt and the peak ground acceleration for T < 6 dt',
                           np.array_equal(sas, want_a), inputs, detail={'sas': sas, 'want': want_a})
                if xi == 0 and res_p['array'][0] == 'ok':
                    psa = np.asarray(res_p['array'][1][2], dtype=float)
                    idx = [j for j in range(P) if not fl_dec[j] and psa[j] > 0]
                    ok = all(abs(sas[j] / psa[j] - 1) < 3e-9 for j in idx)
                    ctx.oracle('C03.c xi = 0, T >= 6 dt: true S_a equals the pseudo S_a (|ratio - 1| < 3e-9)', ok, inputs,
                               detail=[float(sas[j] / psa[j] - 1) for j in idx])
                if finite_rows and not tie and n * P <= ROWS_MAX:
                    ctx.corr('true_response_spectra', f"c03.true|{w_rat(dt)}|{w_rats(a)}|{w_rats(periods)}|{w_rows(u)}|{w_rows(v)}|{w_rows(ac)}", res,
                             lambda outs, val: cmp_rows(ctx, 'true_response_spectra', [list(x) for x in val], [p_rats(o) for o in outs], False, E12),
                             inputs=inputs)
        energy(ctx, a, dt, periods, xi, kind, v, inputs)
        if i % 25 == 24:
            ctx.flush()
    # error kinds of the two functions (period containers that cannot be indexed / empty)
    for per in ([], ):
        for fn, h in ((sdof.pseudo_response_spectra, 'pseudo'), (sdof.true_response_spectra, 'true')):
            a = np.array([1.0, -1.0, 2.0])
            res = norm_res(call_impl(fn, a, 0.5, per, 0.05))
            req = (f"c03.pseudo|{w_rat(twopi)}|1/2|{w_rats(a)}||" if h == 'pseudo' else f"c03.true|1/2|{w_rats(a)}||||")
            ctx.corr(f'{h}_response_spectra/empty periods', req, res, lambda outs, val: 'model returned ok', inputs={'periods': []})
    ctx.flush()


def energy(ctx, a, dt, periods, xi, kind, v, base_inputs):
    """C03.e on one response: both energy spectra equal their defining sums over the response series"""
    import eqsig
    from eqsig import sdof
    n = len(a)
    parr = np.array(periods, dtype=float)
    asig = ctx.aged(eqsig.AccSignal, a, dt)
    inputs = dict(base_inputs)
    r_uke = call_impl(sdof.calc_resp_uke_spectrum, asig, periods=periods, xi=xi)
    r_ie = call_impl(sdof.calc_input_energy_spectrum, asig, periods=parr, xi=xi)
    r_ies = call_impl(sdof.calc_input_energy_spectrum, asig, periods=parr, xi=xi, series=True)
    if not (r_uke[0] == r_ie[0] == r_ies[0] == 'ok'):
        ctx.oracle('C03.e energy spectra return on the domain of the response series', False, inputs, detail=[r_uke, r_ie, r_ies])
        return
    if not np.all(np.isfinite(v)):
        return
    uke, ie, ies = np.asarray(r_uke[1]), np.asarray(r_ie[1]), np.asarray(r_ies[1])
    P = len(periods)
    want_uke = [math.fsum(abs(0.5 * v[j][k + 1] ** 2 - 0.5 * v[j][k] ** 2) for k in range(n - 1)) for j in range(P)]
    terms = [[float(a[k]) * float(v[j][k]) * dt for k in range(n)] for j in range(P)]
    want_ie = [math.fsum(t) for t in terms]
    mag = [max(math.fsum(abs(x) for x in t), 1e-300) for t in terms]
    ctx.oracle('C03.e calc_resp_uke_spectrum == sum_k |delta(v^2/2)| over the response series, one entry per period',
               len(uke) == P and all(abs(uke[j] - want_uke[j]) <= 1e-12 * max(want_uke[j], 1e-300) for j in range(P)), inputs)
    ctx.oracle('C03.e calc_input_energy_spectrum == sum_k a[k] v[k] dt over the response series, one entry per period',
               len(ie) == P and all(abs(ie[j] - want_ie[j]) <= 1e-12 * mag[j] for j in range(P)), inputs)
    ok_series = ies.shape == (P, n)
    if ok_series:
        for j in range(P):
            run, worst = 0.0, 0.0
            cs = np.cumsum(np.array(terms[j]))
            worst = float(np.max(np.abs(ies[j] - cs))) if n else 0.0
            ok_series = ok_series and worst <= 1e-12 * mag[j] and abs(ies[j][-1] - ie[j]) <= 1e-12 * mag[j]
    ctx.oracle('C03.e calc_input_energy_spectrum(series=True) == running sums, whose last entry is the spectrum value', ok_series, inputs)
    if n * P > ROWS_MAX:
        corr_rows = False
    else:
        corr_rows = True
    if corr_rows:
        ctx.corr('calc_resp_uke_spectrum', f"c03.uke|{w_rows(v)}", r_uke,
                 lambda outs, val: cmp_seq(ctx, 'calc_resp_uke_spectrum', list(val), p_rats(outs[0]), False, E12), inputs=inputs)
        ctx.corr('calc_input_energy_spectrum', f"c03.input_energy|{w_rat(dt)}|{w_rats(a)}|{w_rows(v)}", r_ie,
                 lambda outs, val, mag=max(mag): cmp_budget(list(val), p_rats(outs[0]), E12, scale=mag)[0], inputs=inputs)
    if corr_rows and n * P <= 300:
        ctx.corr('calc_input_energy_spectrum(series=True)', f"c03.input_energy_series|{w_rat(dt)}|{w_rats(a)}|{w_rows(v)}", r_ies,
                 lambda outs, val, mag=max(mag): (None if len(val) == len(p_rows(outs[0])) and all(
                     cmp_budget(list(x), y, E12, scale=mag)[0] is None for x, y in zip(val, p_rows(outs[0]))) else 'series differ'),
                 inputs=inputs)
    # the sign clause
    for j in range(P):
        T = periods[j]
        if T == 0:
            continue
        scale = max(float(np.max(np.abs(ies[j]))) if ok_series and n else abs(ie[j]), 1e-300)
        facts = {'fn': 'calc_input_energy_spectrum', 'clause': 'final>=0', 'n': n, 'T_over_dt': T / dt, 'xi': xi, 'record': kind}
        ctx.hist('final-energy/' + ('realistic' if realistic(facts) else 'short-coarse-lightly-damped-or-narrow-band'))
        # two clause texts so that the failures of the open finding's region can never crowd out (40 kept per clause) one in the enforced region
        ctx.oracle('C03.e the input energy is non-negative at the end of the record'
                   + (' [broadband record, n >= 200, T/dt >= 6, xi >= 0.02]' if realistic(facts) else
                      ' [short / coarse / lightly damped / narrow-band: region of open finding F03-2]'), ie[j] >= -1e-9 * scale,
                   {**inputs, 'period': T}, detail={'final': float(ie[j]), 'peak |series|': scale}, facts=facts)


def realistic(facts):
    return (facts['n'] >= 200 and facts['T_over_dt'] >= 6 and facts['xi'] >= 0.02 and facts['record'] in BROADBAND)


def energy_realistic(ctx):
    """the sign clause where it must hold: broadband enveloped records, n >= 200, T/dt >= 6, xi >= 0.02"""
    from eqsig import sdof
    rng = ctx.rng
    for i in range(60 if ctx.tier == 'quick' else 600):
        n = rng.choice([200, 300, 500, 1000, 2000])
        dt = rng.choice([0.01, 0.005, 0.02, 0.1])
        kind = rng.choice(['noise', 'burst', 'spike', 'step'])
        a = {'noise': lambda: gen.noise_record(rng, n), 'spike': lambda: gen.spike_record(rng, n), 'step': lambda: gen.step_record(rng, n),
             'burst': lambda: gen.noise_record(rng, n) * np.exp(-((np.arange(n) - n / 2) / (n / 8)) ** 2)}[kind]()
        periods = [dt * r for r in [6.0, 6.5] + [math.exp(rng.uniform(math.log(6), math.log(2000))) for _ in range(4)]]
        xi = rng.choice([0.02, 0.05, 0.3, 0.7])
        ctx.hist('energy-realistic/record=' + kind)
        ctx.count_case(('er', a.tobytes(), dt, tuple(periods), xi), True)
        rr = call_impl(sdof.response_series, a, dt, np.array(periods), xi)
        if rr[0] == 'ok':
            energy(ctx, a, dt, periods, xi, kind, rr[1][1], {'motion': a, 'dt': dt, 'periods': periods, 'xi': xi})
        if i % 10 == 9:
            ctx.flush()
    ctx.flush()


# --------------------------------------------------------------------------------------------------------- object API

def object_api(ctx):
    import eqsig
    import eqsig.single
    from eqsig import sdof
    from eqsig.fns.time_step import interp_array_to_approx_dt
    rng = ctx.rng
    cases = [('corpus-F03-1', 'spike200', 0.01, [0.059], 4, 0.05)]
    n_cases = 200 if ctx.tier == 'quick' else 2000
    for i in range(n_cases):
        dyadic = i % 3 == 0
        dt = rng.choice([0.5, 0.25, 0.125, 0.0625]) if dyadic else rng.choice([0.01, 0.02, 0.005, 0.05])
        if dyadic:
            rt = sorted(rng.sample([dt * m * 5 / 4 for m in (1, 2, 3, 4, 5, 6, 8, 12, 16, 20, 40, 100)], rng.randint(1, 4)))
        else:
            rt = sorted(dt * math.exp(rng.uniform(math.log(1.0), math.log(300))) if rng.random() < 0.6 else dt * rng.choice([5.9, 6.0, 6.1, 10, 19.9, 20, 20.1, 40])
                        for _ in range(rng.randint(1, 4)))
        if rng.random() < 0.3 and len(rt) >= 1:
            rt = [0.0] + rt
        if rng.random() < 0.15 and 0.0 not in rt:
            rng.shuffle(rt)
        ratio = rng.choice([1, 2, 4, 8])
        xi = rng.choice([0.05, 0.0, 0.3, -1])
        cases.append(('dyadic' if dyadic else 'decimal', None, dt, rt, ratio, xi))
    calls = {}
    real_interp = eqsig.single.interp_array_to_approx_dt

    def spy(values, dt, target_dt=0.01, even=True):
        calls['interp'] = (float(target_dt), even)
        return real_interp(values, dt, target_dt, even=even)
    eqsig.single.interp_array_to_approx_dt = spy
    _np = core.no_probe()     # the spy records the LAST call: no probe calls in this section
    _np.__enter__()
    try:
        for ci, (kind, rec, dt, rt, ratio, xi) in enumerate(cases):
            if rec == 'spike200':
                a = np.zeros(200)
                a[100] = 1.0
                rkind = 'spike'
            else:
                n = gen.log_int(rng, 4, 200 if ctx.tier == 'quick' else 1500)
                rkind, a = record(rng, n, dt)
            n = len(a)
            inputs = {'values': a, 'dt': dt, 'response_times': rt, 'min_dt_ratio': ratio, 'xi': xi}
            ctx.hist('object/' + kind)
            ctx.hist(f'object/min_dt_ratio={ratio}')
            ctx.count_case(('obj', a.tobytes(), dt, tuple(rt), ratio, xi), gen.nontrivial_record(a),
                           sample={'fn': 'AccSignal.s_a/s_v/s_d', 'n': n, 'dt': dt, 'response_times': rt, 'min_dt_ratio': ratio} if ci < 2 else None)
            asig = ctx.aged(eqsig.AccSignal, a, dt, response_times=np.array(rt))
            calls.clear()
            res = call_impl(lambda: (asig.gen_response_spectrum(xi=xi, min_dt_ratio=ratio), (asig.s_d, asig.s_v, asig.s_a))[1])
            took_interp = 'interp' in calls
            xi_eff = 0.05 if xi == -1 else xi
            degenerate = (len(rt) == 0) or (rt[0] == 0 and len(rt) < 2)
            if res[0] != 'ok':
                ctx.oracle('C03.d gen_response_spectrum returns for response_times with a non-zero first or second entry', degenerate, inputs, detail=res)
                continue
            tmin = rt[0] if rt[0] != 0 else rt[1]
            target = max(tmin / 20, dt / ratio)
            # model of the decision; exact on dyadic inputs, else tolerant to the rounding of the two quotients (flip only at a float tie)
            def cmp_branch(outs, val, target=target, dt=dt):
                tok = outs[0]
                mk = tok[0]
                ik, it = val
                if mk == ik:
                    if mk == 'raw':
                        return None
                    mt = p_rats(tok[1:])[0]
                    return None if abs(mt - fr(it)) <= E12 * fr(it) else f"target_dt impl={it!r} model={float(mt)!r}"
                mt = p_rats(tok[1:])[0] if mk == 'interp' else fr(it)
                return None if abs(mt - fr(dt)) <= E12 * fr(dt) else f"branch impl={ik} model={mk}"
            ctx.corr('AccSignal.gen_response_spectrum/step decision', f"c03.gen_input|{w_rat(dt)}|{w_rat(ratio)}|{w_rats(rt)}",
                     ('ok', ('interp', calls['interp'][0]) if took_interp else ('raw', target)), cmp_branch, inputs=inputs)
            ctx.oracle('C03.d the record is interpolated (even=False, towards max(Tmin/20, dt/min_dt_ratio)) iff that target is < dt',
                       took_interp == (target < dt) and (not took_interp or (calls['interp'] == (target, False))), inputs,
                       detail={'interpolated': took_interp, 'target_dt': target})
            if target < dt:
                vi, dti = interp_array_to_approx_dt(a, dt, target, even=False)
                q = dt / dti
                ctx.oracle('C03.d integration step dt\' <= max(Tmin/20, dt/min_dt_ratio) with dt/dt\' an integer',
                           dti <= target * (1 + 1e-12) and abs(q - round(q)) <= 1e-9 and round(q) >= 1, inputs, detail={'dt_interp': dti, 'target': target})
            else:
                vi, dti = a, dt
            exp = sdof.pseudo_response_spectra(vi, dti, np.array(rt), xi_eff)
            got = res[1]
            ctx.oracle('C03.d AccSignal s_d/s_v/s_a == pseudo_response_spectra applied to the record at that step (exactly)',
                       all(np.array_equal(np.asarray(g), np.asarray(e)) for g, e in zip(got, exp)), inputs)
            if ratio == 4 and xi in (0.05, -1):
                lazy = eqsig.AccSignal(a, dt, response_times=np.array(rt))
                ctx.oracle('C03.d the lazy properties s_a/s_v/s_d use min_dt_ratio = 4, xi = 0.05',
                           np.array_equal(lazy.s_a, got[2]) and np.array_equal(lazy.s_v, got[1]) and np.array_equal(lazy.s_d, got[0]), inputs)
            # never below the raw-sample values
            raw = sdof.pseudo_response_spectra(a, dt, np.array(rt), xi_eff)
            for j, T in enumerate(rt):
                tol = 0.0 if T == 0 else 2 * prop_tol(dti, T, len(vi))
                pk = max(float(raw[0][j]), 1e-300)
                ctx.oracle('C03.d s_d is never below the value computed from the raw samples', got[0][j] >= raw[0][j] - tol * pk,
                           {**inputs, 'period': T}, detail={'object': float(got[0][j]), 'raw': float(raw[0][j])})
                ctx.oracle('C03.d s_v is never below the value computed from the raw samples',
                           got[1][j] >= raw[1][j] - tol * max(float(raw[1][j]), 1e-300), {**inputs, 'period': T},
                           detail={'object': float(got[1][j]), 'raw': float(raw[1][j])})
                corner = bool(T != 0 and (not T < dti * 6) and (T < dt * 6))
                if corner:
                    ctx.hist('object/F03-1 corner 6dt\' <= T < 6dt')
                ctx.oracle('C03.d s_a is never below the value computed from the raw samples'
                           + (" [corner 6*dt' <= T < 6*dt: region of open finding F03-1]" if corner else ''),
                           got[2][j] >= raw[2][j] - tol * max(float(raw[2][j]), 1e-300), {**inputs, 'period': T},
                           detail={'object': float(got[2][j]), 'raw': float(raw[2][j]), 'dt_interp': dti},
                           facts={'clause': 's_a never below raw', 'corner': corner, 'T': T, 'dt': dt, 'dt_interp': dti})
            if ci % 25 == 24:
                ctx.flush()
    finally:
        eqsig.single.interp_array_to_approx_dt = real_interp
        _np.__exit__(None, None, None)
    ctx.flush()


# -------------------------------------------------------------------------------------------------------- asi / vsi

def ctrapz_max(ps, c):
    acc, best = 0.0, None
    for k in range(len(ps) - 1):
        acc += (abs(ps[k + 1]) + abs(ps[k])) / 2.0
        best = c * acc if best is None or c * acc > best else best
    return best


def intensities(ctx):
    import eqsig
    from eqsig import sdof, im
    rng = ctx.rng
    for i in range(30 if ctx.tier == 'quick' else 300):
        n = gen.log_int(rng, 2, 300 if ctx.tier == 'quick' else 2000)
        dt = rng.choice([0.01, 0.005, 0.02])
        kind, a = record(rng, n, dt)
        asig = ctx.aged(eqsig.AccSignal, a, dt)
        xi = rng.choice([0.05, 0.02, 0.2])
        pchoice = rng.choice(['default', 'custom', 'custom', 'single', 'pair'])
        periods = {'default': None, 'custom': np.sort(np.array([rng.uniform(0.02, 3) for _ in range(rng.randint(3, 12))])),
                   'single': np.array([0.5]), 'pair': np.array([0.3, 0.2])}[pchoice]
        ctx.hist('asi-vsi/periods=' + pchoice)
        ctx.count_case(('int', a.tobytes(), dt, pchoice, xi), gen.nontrivial_record(a),
                       sample={'fn': 'calc_asi/calc_vsi', 'n': n, 'dt': dt, 'periods': pchoice} if i < 1 else None)
        for fn, name, grid, g in ((im.calc_asi, 'asi', np.arange(0.1, 1.51, 0.01), 9.81), (im.calc_vsi, 'vsi', np.arange(0.1, 2.51, 0.01), None)):
            pp = grid if periods is None else periods
            inputs = {'values': a, 'dt': dt, 'xi': xi, 'periods': 'default grid' if periods is None else pp}
            sds, psv, psa = sdof.pseudo_response_spectra(a, dt, pp, xi)
            ps = psa if name == 'asi' else psv
            if not np.all(np.isfinite(ps)):
                continue
            res = norm_res(call_impl(lambda: [float(fn(asig, xi=xi, periods=periods))]))
            req = f"c03.asi|{w_rat(0.01)}|{w_rat(9.81)}|{w_rats(ps)}" if name == 'asi' else f"c03.vsi|{w_rat(0.01)}|{w_rats(ps)}"
            ctx.corr('calc_' + name, req, res, lambda outs, val, name=name: cmp_seq(ctx, 'calc_' + name, list(val), p_rats(outs[0]), False, E12), inputs=inputs)
            if len(pp) < 2:
                ctx.oracle(f'C03.f calc_{name} needs at least two periods (ValueError otherwise)', res == ('err', 'ValueError'), inputs, detail=res)
                continue
            want = ctrapz_max(list(ps), 0.01)
            want = want / g if g else want
            ctx.oracle(f'C03.f calc_{name} == max(0.01 * cumulative_trapezoid(|pseudo spectrum|))' + (' / 9.81' if g else ''),
                       res[0] == 'ok' and abs(res[1][0] - want) <= 1e-12 * max(abs(want), 1e-300), inputs,
                       detail={'got': res[1] if res[0] == 'ok' else res, 'want': want})
    ctx.flush()


def run(ctx):
    spectra(ctx)
    energy_realistic(ctx)
    object_api(ctx)
    intensities(ctx)
    ctx.flush()


# ---- known findings -------------------------------------------------------------------------------------------------

def _m_f03_1(f):
    fa = f['facts']
    return fa.get('clause') == 's_a never below raw' and fa.get('corner') is True


def _m_f03_2(f):
    fa = f['facts']
    if fa.get('fn') != 'calc_input_energy_spectrum' or fa.get('clause') != 'final>=0':
        return False
    return not realistic(fa)


KNOWN_MATCHERS = {'F03-1': _m_f03_1, 'F03-2': _m_f03_2}


def known_witness(fid):
    import eqsig
    from eqsig import sdof
    if fid == 'F03-1':
        a = np.zeros(200)
        a[100] = 1.0
        asig = eqsig.AccSignal(a, 0.01, response_times=np.array([0.059]))
        asig.gen_response_spectrum(min_dt_ratio=4)
        raw = sdof.pseudo_response_spectra(a, 0.01, np.array([0.059]), 0.05)
        return bool(asig.s_a[0] < raw[2][0] * (1 - 1e-6))
    if fid == 'F03-2':
        asig = eqsig.AccSignal(np.array([1.0, 1.0]), 1.0)
        return bool(sdof.calc_input_energy_spectrum(asig, periods=np.array([0.5]), xi=0.05)[0] < 0)
    return True


# ---- extras2 (harness extension hx_a): large instances, extreme magnitudes, wrappers / defaults, containers, histories ----------------
#
# Not demanded (loud restriction of the domain on the pinned tree, or out of reach of an exact statement):
#   * list / tuple RECORDS for pseudo_/true_response_spectra raise AttributeError (absmax(motion) needs an ndarray): arrays only;
#   * unsigned-integer records: absmax negates the minimum in the record's dtype (see NOTES.md, suspected defect) -- not generated;
#   * joint rescaling of dt and the periods: compute_a_and_b uses w ** 3 (libm pow), which need not commute with a power of two bit for bit;
#   * calc_vsi_temporal needs np.trapz (absent from the pinned NumPy: AttributeError); sdof.single_elastic_response / slow_response_spectra
#     are a rectangle-rule Duhamel sum (O(dt) accurate), no clause of C03 applies to them.

X2_TAG = 'C03x'


def _x2_aged_cheap(ctx, cls, values, dt, **kw):
    """a long-record object that reached (values, dt) through a history WITHOUT the expensive reads of gen._touch: built on a short record of
    another length, cheap quantities read, record replaced"""
    rng = ctx.rng
    kind = rng.choice(['fresh', 'reset-other-length/read-before', 'reset-other-length'])
    ctx.hist('object-history(long)/' + kind)
    if kind == 'fresh':
        return cls(np.array(values, dtype=float), dt, **kw)
    s = cls(np.array([rng.uniform(-1, 1) for _ in range(rng.randint(3, 9))]), dt, **kw)
    if kind.endswith('read-before'):
        for name in ('npts', 'time', 'velocity', 'displacement', 'pga', 'pgv'):
            getattr(s, name)
    s.reset_values(np.array(values, dtype=float))
    return s


def _x2_expected_object(a, dt, rt, xi, ratio):
    """what AccSignal.gen_response_spectrum(xi, min_dt_ratio) must report: the pseudo spectra of the record at the step the property states"""
    from eqsig import sdof
    from eqsig.fns.time_step import interp_array_to_approx_dt
    rt = np.asarray(rt, dtype=float)
    tmin = rt[0] if rt[0] != 0 else rt[1]
    target = max(tmin / 20, dt / ratio)
    if target < dt:
        vi, dti = interp_array_to_approx_dt(a, dt, target, even=False)
    else:
        vi, dti = a, dt
    return sdof.pseudo_response_spectra(vi, dti, rt, 0.05 if xi == -1 else xi), dti, len(vi)


def _x2_eq3(r, b):
    return len(r) == len(b) and all(np.asarray(x).shape == np.asarray(y).shape and np.array_equal(np.asarray(x), np.asarray(y)) for x, y in zip(r, b))


def _x2_envelope(rng, n):
    return gen.noise_record(rng, n) * np.exp(-((np.arange(n) - n / 3) / (n / 5)) ** 2)


def x2_absmax(ctx):
    """sdof.absmax is the mechanism behind 'S_d = max_t |u(t)|' (signed extreme -> magnitude): it equals max|x| along the axis, for every sign
    pattern (all negative, all positive, -min == max), size and float/signed-integer dtype"""
    from eqsig import sdof
    rng = ctx.rng
    cl = 'C03 absmax(x, axis) == max |x| along that axis (every sign pattern, size and dtype)'
    small = [np.array([[1., -3., 2.], [5., -1., 0.], [-2., -1., -7.], [0., 0., 0.]]), np.array([[-1., 1.], [2., -2.], [-0., 0.]]),
             np.array([[1e300, -1.7e308], [5e-324, -5e-324], [-1e-310, 2e-320]]), np.array([[-4.]]), np.array([[3.], [-3.]])]
    for it in range(40 if ctx.tier == 'quick' else 400):
        r, c = rng.randint(1, 6), rng.randint(1, 9)
        x = np.array([[rng.choice([-2, -1, 0, 1, 2, 0.5, -0.5]) for _ in range(c)] for _ in range(r)], dtype=float)
        mode = rng.choice(['mixed', 'neg', 'pos', 'tie'])
        if mode == 'neg':
            x = -np.abs(x) - rng.choice([0, 1])
        elif mode == 'pos':
            x = np.abs(x)
        elif mode == 'tie':
            x[:, 0] = -np.max(np.abs(x), axis=1)
        small.append(x)
    shapes = [(2, 2 ** 19 + 3), (1200, 700)] if ctx.tier == 'quick' else [(3, 2 ** 20 + 5), (1500, 1000), (2, 2 ** 22 + 1), (5000, 900), (1, 2 ** 21)]
    shapes = shapes + [(1, c) for c in gen.hint_sizes(ctx, lo=4096, hi=2 ** 23, cap=5)]      # source hints: sizes around every new integer constant
    big = []
    for sh in shapes:
        seed = rng.randrange(2 ** 31)
        x = np.random.default_rng(seed).standard_normal(sh)
        x[0] = -np.abs(x[0])                    # a row whose extreme is the minimum
        x[-1, rng.randrange(sh[1])] = -9.0      # the extreme sits at a random column of the last row ...
        x[0, 0] = -12.0                         # ... in the first column of the first row, the last column of row 1 % rows
        x[1 % sh[0], -1] = 11.0
        big.append((x, {'x': f'standard_normal{sh} from numpy default_rng({seed}), row 0 negated in magnitude, x[0,0] = -12, x[1 % rows,-1] = 11, one -9 in the last row'}))
    for x, desc in [(x, None) for x in small] + big:
        ctx.hist('absmax/' + ('large' if desc else 'small'))
        ctx.count_case(('absmax', x.shape, x.tobytes() if x.size < 100 else x[:, :20].tobytes()), x.size >= 3)
        variants = [('float64', x)]
        if desc is None and np.all(x == np.round(x)) and np.max(np.abs(x)) < 100:
            variants += [('int64', x.astype(np.int64)), ('int32', x.astype(np.int32)), ('int8', x.astype(np.int8))]
        if desc is None and np.array_equal(x.astype(np.float32).astype(float), x):
            variants.append(('float32', x.astype(np.float32)))
        for lab, xv in variants:
            snap = xv.copy()
            for axis in (1, None, 0):
                want = np.max(np.abs(x), axis=axis)
                r = call_impl(sdof.absmax, xv, axis) if axis is not None else call_impl(sdof.absmax, xv)
                ok = r[0] == 'ok' and np.shape(r[1]) == np.shape(want) and bool(np.array_equal(np.asarray(r[1], dtype=float), want))
                ctx.oracle(cl, ok, desc or {'x': x, 'dtype': lab, 'axis': axis},
                           detail=None if ok else {'axis': axis, 'dtype': lab, 'got': r[1] if r[0] != 'ok' or np.size(r[1]) < 20 else 'array', 'want': want if np.size(want) < 20 else 'array'})
            ctx.oracle('C03 absmax leaves its argument unchanged', bool(np.array_equal(xv, snap)), desc or {'x': x, 'dtype': lab})


def x2_large(ctx):
    """LARGE instances (records of 5 000 - 60 000 samples, > 2^20 period x sample cells): the clauses of C03 evaluated with NumPy in O(cells)
    on the implementation's own response series, plus decomposition (entry i of a big job == the single-period call)"""
    import eqsig
    from eqsig import sdof, im
    rng = ctx.rng
    quick = ctx.tier == 'quick'
    jobs = [(23000, 5, True), (6000, 200, False)] if quick else [(23000, 5, True), (6000, 200, False), (60000, 3, True), (9000, 300, False), (40000, 12, True), (5001, 230, True)]
    # source hints: record lengths around every new integer constant; period counts that put the number of period x sample cells just above it
    jobs = jobs + [(m, 5, True) for m in gen.hint_sizes(ctx, lo=3001, hi=150000, cap=4)] + [(6000, c // 6000 + 1, False) for c in gen.hint_sizes(ctx, lo=2 ** 17, hi=6000000, cap=2)]
    for n, P, do_energy in jobs:
        dt = rng.choice([0.01, 0.005, 0.02])
        a = _x2_envelope(rng, n)
        a[n - 1 - rng.randrange(40)] = rng.choice([-1.5, 1.5]) * float(np.max(np.abs(a)))     # the peak ground acceleration sits at the very end
        xi = rng.choice([0.02, 0.05, 0.2, 0.0]) if not do_energy else rng.choice([0.02, 0.05, 0.2])
        body = np.exp(np.linspace(math.log(20 * dt), math.log(400 * dt), P))
        body[0] = 3.5 * dt                                  # one period below 6*dt (PGA substitution), one just above
        if P > 2:
            body[1] = 6.5 * dt
        lead0 = rng.random() < 0.5
        periods = np.concatenate([[0.0], body]) if lead0 else body
        NP = len(periods)
        inputs = {'motion': f'gaussian noise x gaussian envelope, n={n}, one sample of 1.5 x the peak among the last 40 (seed-derived)', 'dt': dt, 'xi': xi, 'cells': NP * n,
                  'periods': ('0, ' if lead0 else '') + f'3.5*dt, 6.5*dt, then log-spaced 20*dt..400*dt ({NP} in all)'}
        ctx.hist(f'large/{NP}x{n}')
        ctx.count_case(('x2-large', n, P, dt, xi, lead0, a[:8].tobytes()), True, sample={'fn': 'spectra (large instance)', **inputs})
        snap = a.copy()
        rr = call_impl(sdof.response_series, a, dt, periods, xi)
        rp = call_impl(sdof.pseudo_response_spectra, a, dt, periods, xi)
        rt_ = call_impl(sdof.true_response_spectra, a, dt, periods, xi)
        if not (rr[0] == rp[0] == rt_[0] == 'ok'):
            ctx.oracle('C03 large instance: response_series / pseudo_ / true_response_spectra return', False, inputs, detail=[rr[0], rp[0], rt_[0]])
            continue
        u, v, ac = rr[1]
        max_u, max_v, max_a = np.max(np.abs(u), axis=1), np.max(np.abs(v), axis=1), np.max(np.abs(ac), axis=1)
        pga = float(np.max(np.abs(a)))
        below = periods < dt * 6
        w = np.ones(NP)
        nz = periods != 0
        w[nz] = 2 * np.pi / periods[nz]
        psd, psv, psa = [np.asarray(x, dtype=float) for x in rp[1]]
        tsd, tsv, tsa = [np.asarray(x, dtype=float) for x in rt_[1]]
        fin = all(x.shape == (NP,) and bool(np.all(np.isfinite(x)) and np.all(x >= 0)) for x in (psd, psv, psa, tsd, tsv, tsa))
        ctx.oracle('C03.b/c large instance: one entry per period, finite and non-negative (pseudo and true spectra)', fin, inputs)
        if not fin:
            continue
        ctx.oracle('C03.b large instance: pseudo S_d == max_t |u(t)| of the response series (==)', bool(np.array_equal(psd, max_u)), inputs,
                   detail={'rows': np.nonzero(psd != max_u)[0][:5]})
        ctx.oracle('C03.c large instance: true S_d == max_t |u(t)|, S_v == max_t |v(t)| (==)', bool(np.array_equal(tsd, max_u) and np.array_equal(tsv, max_v)), inputs)
        ctx.oracle('C03.b large instance: pseudo S_v == (2 pi / T) * S_d', bool(np.all(np.abs(psv - w * max_u) <= 1e-12 * np.maximum(w * max_u, 1e-300))), inputs)
        want_pa = np.where(below, pga, w ** 2 * max_u)
        ctx.oracle('C03.b large instance: pseudo S_a == (2 pi / T)^2 * S_d for T >= 6 dt and the peak ground acceleration for T < 6 dt',
                   bool(np.all(np.abs(psa - want_pa) <= 1e-12 * np.maximum(want_pa, 1e-300))), inputs, detail={'sas': psa[:4], 'want': want_pa[:4]})
        want_ta = np.where(below, pga, max_a)
        ctx.oracle('C03.c large instance: true S_a == max_t |a_total(t)| for T >= 6 dt and the peak ground acceleration for T < 6 dt (==)',
                   bool(np.array_equal(tsa, want_ta)), inputs, detail={'sas': tsa[:4], 'want': want_ta[:4]})
        if lead0:
            ctx.oracle('C03.b large instance, T = 0: S_d = S_v = 0 and S_a == peak ground acceleration', psd[0] == 0 and psv[0] == 0 and psa[0] == pga and tsa[0] == pga, inputs)
        if xi == 0:
            idx = [j for j in range(NP) if not below[j] and psa[j] > 0]
            ctx.oracle('C03.c large instance, xi = 0, T >= 6 dt: true S_a equals the pseudo S_a (|ratio - 1| < 3e-9)', all(abs(tsa[j] / psa[j] - 1) < 3e-9 for j in idx), inputs)
        # decomposition: entry i of the big job == the call with that period alone (and with the leading 0 kept)
        for qj, j in enumerate(sorted(rng.sample(range(NP), min(NP, 2 if quick else 4)))):
            for fname, whole in ((('pseudo_response_spectra', (psd, psv, psa)), ('true_response_spectra', (tsd, tsv, tsa)))[qj % 2],):
                one = call_impl(getattr(sdof, fname), a, dt, periods[j:j + 1], xi)
                ok = one[0] == 'ok' and all(np.asarray(o).shape == (1,) and float(np.asarray(o)[0]) == float(wq[j]) for o, wq in zip(one[1], whole))
                ctx.oracle(f'C03 large instance: entry i of {fname} for a long period list == the single-period call (==)', ok, {**inputs, 'row': j, 'period': float(periods[j])},
                           detail=None if ok else {'single': one[1] if one[0] == 'ok' else one, 'whole': [float(wq[j]) for wq in whole]})
        ctx.oracle('input record unchanged', bool(np.array_equal(a, snap)), inputs)
        if not do_energy:
            continue
        asig = _x2_aged_cheap(ctx, eqsig.AccSignal, a, dt)
        r_uke = call_impl(sdof.calc_resp_uke_spectrum, asig, periods=periods, xi=xi)
        r_ie = call_impl(sdof.calc_input_energy_spectrum, asig, periods=periods, xi=xi)
        r_ies = call_impl(sdof.calc_input_energy_spectrum, asig, periods=periods, xi=xi, series=True)
        if not (r_uke[0] == r_ie[0] == r_ies[0] == 'ok'):
            ctx.oracle('C03.e energy spectra return on the domain of the response series', False, inputs, detail=[r_uke[0], r_ie[0], r_ies[0]])
            continue
        uke, ie, ies = np.asarray(r_uke[1]), np.asarray(r_ie[1]), np.asarray(r_ies[1])
        terms = a[None, :] * v * dt
        mag = np.maximum(np.sum(np.abs(terms), axis=1), 1e-300)
        want_ie = np.array([math.fsum(row.tolist()) for row in terms])
        want_uke = np.array([math.fsum(np.abs(np.diff(0.5 * row ** 2)).tolist()) for row in v])
        ctx.oracle('C03.e large instance: calc_resp_uke_spectrum == sum_k |delta(v^2/2)| over the response series, one entry per period',
                   uke.shape == (NP,) and bool(np.all(np.abs(uke - want_uke) <= 1e-11 * np.maximum(want_uke, 1e-300))), inputs)
        ctx.oracle('C03.e large instance: calc_input_energy_spectrum == sum_k a[k] v[k] dt over the response series, one entry per period',
                   ie.shape == (NP,) and bool(np.all(np.abs(ie - want_ie) <= 1e-11 * mag)), inputs, detail={'got': ie[:4], 'want': want_ie[:4]})
        ok_s = ies.shape == (NP, n) and bool(np.all(np.abs(ies - np.cumsum(terms, axis=1)) <= 1e-9 * mag[:, None]) and np.all(np.abs(ies[:, -1] - ie) <= 1e-9 * mag))
        ctx.oracle('C03.e large instance: calc_input_energy_spectrum(series=True) == running sums, whose last entry is the spectrum value', ok_s, inputs)
        for j in range(NP):
            T = float(periods[j])
            if T == 0 or T / dt < 20 or ie.shape != (NP,):
                continue
            facts = {'fn': 'calc_input_energy_spectrum', 'clause': 'final>=0', 'n': n, 'T_over_dt': T / dt, 'xi': xi, 'record': 'burst'}
            scale = max(float(np.max(np.abs(ies[j]))) if ok_s else abs(float(ie[j])), 1e-300)
            ctx.oracle('C03.e the input energy is non-negative at the end of the record [broadband record, n >= 200, T/dt >= 6, xi >= 0.02]', bool(ie[j] >= -1e-9 * scale),
                       {**inputs, 'period': T}, detail={'final': float(ie[j]), 'peak |series|': scale}, facts=facts)
    # object API on a long record (interpolating branch): s_d/s_v/s_a == the pseudo spectra of the record at the stated step; never below raw
    for n, ratio in ([(5200, 2)] if quick else [(5200, 2), (12000, 4), (30000, 1), (7001, 8)]) + [(m, 2) for m in gen.hint_sizes(ctx, lo=3001, hi=100000, cap=3)]:
        dt = rng.choice([0.01, 0.02])
        a = _x2_envelope(rng, n)
        rt = sorted(dt * math.exp(rng.uniform(math.log(8), math.log(300))) for _ in range(4))
        if rng.random() < 0.5:
            rt = [0.0] + rt
        inputs = {'values': f'gaussian noise x gaussian envelope, n={n} (seed-derived)', 'dt': dt, 'response_times': rt, 'min_dt_ratio': ratio}
        ctx.hist('large/object-api')
        ctx.count_case(('x2-large-obj', n, dt, tuple(rt), ratio, a[:8].tobytes()), True)
        asig = _x2_aged_cheap(ctx, eqsig.AccSignal, a, dt, response_times=np.array(rt))
        res = call_impl(lambda: (asig.gen_response_spectrum(min_dt_ratio=ratio), (asig.s_d, asig.s_v, asig.s_a))[1])
        exp, dti, ni = _x2_expected_object(a, dt, rt, -1, ratio)
        ctx.oracle('C03.d large instance: AccSignal s_d/s_v/s_a == pseudo_response_spectra applied to the record at the stated step (exactly)',
                   res[0] == 'ok' and _x2_eq3(res[1], exp), inputs, detail=None if res[0] == 'ok' else res)
        if res[0] != 'ok':
            continue
        raw = sdof.pseudo_response_spectra(a, dt, np.array(rt), 0.05)
        for q, nm in ((0, 's_d'), (1, 's_v')):
            ok = all(res[1][q][j] >= raw[q][j] - (0.0 if T == 0 else 2 * prop_tol(dti, T, ni)) * max(float(raw[q][j]), 1e-300) for j, T in enumerate(rt))
            ctx.oracle(f'C03.d {nm} is never below the value computed from the raw samples', ok, inputs, detail={'object': res[1][q], 'raw': raw[q]})
    # spectrum intensities at their default grids (141 / 241 periods) on a long record
    for n in ([5500] if quick else [5500, 20000]) + gen.hint_sizes(ctx, lo=3001, hi=60000, cap=3):
        dt = rng.choice([0.01, 0.005])
        a = _x2_envelope(rng, n)
        asig = _x2_aged_cheap(ctx, eqsig.AccSignal, a, dt)
        ctx.count_case(('x2-large-int', n, dt, a[:8].tobytes()), True)
        for fn, name, grid, g, q in ((im.calc_asi, 'asi', np.arange(0.1, 1.51, 0.01), 9.81, 2), (im.calc_vsi, 'vsi', np.arange(0.1, 2.51, 0.01), None, 1)):
            inputs = {'values': f'gaussian noise x gaussian envelope, n={n} (seed-derived)', 'dt': dt, 'xi': 'default', 'periods': 'default grid', 'cells': n * len(grid)}
            ctx.hist('large/' + name)
            ps = sdof.pseudo_response_spectra(a, dt, grid, 0.05)[q]
            want = float(np.max(0.01 * np.cumsum((np.abs(ps[1:]) + np.abs(ps[:-1])) / 2.0)))
            want = want / g if g else want
            res = call_impl(lambda: float(fn(asig)))
            ctx.oracle(f'C03.f large instance: calc_{name} == max(0.01 * cumulative_trapezoid(|pseudo spectrum|))' + (' / 9.81' if g else '') + ' with the default xi = 0.05 and period grid',
                       res[0] == 'ok' and abs(res[1] - want) <= 1e-12 * max(abs(want), 1e-300), inputs, detail={'got': res[1], 'want': want})


def x2_extreme(ctx):
    """the spectra are homogeneous in the record (degree 1: S_d, S_v, S_a, asi, vsi; degree 2: both energy spectra; degree 0: the periods of the
    largest spectral velocity / acceleration): exact under scaling by powers of two, also for records around 1e+-180 (degree 1) / 1e+-120
    (degree 2). (pseudo_response_spectra itself: C02 extras.)"""
    import eqsig
    from eqsig import sdof, im
    rng = ctx.rng
    for it in range(3 if ctx.tier == 'quick' else 30):
        n = rng.randint(8, 90)
        dt = rng.choice([0.01, 0.005, 0.02, 0.1])
        a = gen.noise_record(rng, n) if it % 2 else gen.dyadic_record(rng, n)
        if not np.any(a):
            a[n // 2] = 1.0
        periods = sorted(dt * rng.choice([3.0, 7.0, 12.5, 30.0, 100.0, 250.0]) for _ in range(rng.randint(2, 3)))
        if rng.random() < 0.4:
            periods = [0.0] + periods
        parr = np.array(periods)
        xi = rng.choice([0.0, 0.05, 0.3])
        ratio = rng.choice([1, 2, 4, 8])
        o0 = eqsig.AccSignal(a, dt, response_times=parr)
        base = {
            'true_response_spectra': call_impl(sdof.true_response_spectra, a, dt, parr, xi),
            'AccSignal.gen_response_spectrum': call_impl(lambda: (o0.gen_response_spectrum(xi=xi, min_dt_ratio=ratio), (o0.s_d, o0.s_v, o0.s_a))[1]),
            'calc_asi': call_impl(lambda: (im.calc_asi(o0, xi=xi, periods=parr[-2:]),)),
            'calc_vsi': call_impl(lambda: (im.calc_vsi(o0, xi=xi, periods=parr[-2:]),)),
        }
        base2 = {
            'calc_resp_uke_spectrum': call_impl(lambda: (sdof.calc_resp_uke_spectrum(o0, periods=parr, xi=xi),)),
            'calc_input_energy_spectrum': call_impl(lambda: (sdof.calc_input_energy_spectrum(o0, periods=parr, xi=xi),)),
            'calc_input_energy_spectrum(series=True)': call_impl(lambda: (sdof.calc_input_energy_spectrum(o0, periods=parr, xi=xi, series=True),)),
        }
        base0 = {'calc_max_velocity_period': call_impl(im.calc_max_velocity_period, o0), 'max_acceleration_period': call_impl(im.max_acceleration_period, o0)}
        ctx.count_case(('x2-extreme', a.tobytes(), dt, tuple(periods), xi, ratio), True)

        def again(name, o, sc_arr):
            if name == 'true_response_spectra':
                return call_impl(sdof.true_response_spectra, sc_arr, dt, parr, xi)
            if name == 'AccSignal.gen_response_spectrum':
                return call_impl(lambda: (o.generate_response_spectrum(xi=xi, min_dt_ratio=ratio), (o.s_d, o.s_v, o.s_a))[1])
            if name == 'calc_asi':
                return call_impl(lambda: (im.calc_asi(o, xi=xi, periods=parr[-2:]),))
            if name == 'calc_vsi':
                return call_impl(lambda: (im.calc_vsi(o, xi=xi, periods=parr[-2:]),))
            if name == 'calc_resp_uke_spectrum':
                return call_impl(lambda: (sdof.calc_resp_uke_spectrum(o, periods=parr, xi=xi),))
            if name == 'calc_input_energy_spectrum':
                return call_impl(lambda: (sdof.calc_input_energy_spectrum(o, periods=parr, xi=xi),))
            return call_impl(lambda: (sdof.calc_input_energy_spectrum(o, periods=parr, xi=xi, series=True),))
        for k in gen.EXTREME_POW2:
            sc = 2.0 ** k
            ctx.hist(f'extreme-scale/2^{k}')
            o = ctx.aged(eqsig.AccSignal, a * sc, dt, response_times=parr)
            inputs = {'values': a, 'dt': dt, 'periods': periods, 'xi': xi, 'min_dt_ratio': ratio, 'scale': f'2**{k}'}
            for name, b in base.items():
                if b[0] != 'ok':
                    continue
                r = again(name, o, a * sc)
                ok = r[0] == 'ok' and all(gen.scaled_exactly(np.asarray(x, dtype=float), np.asarray(y, dtype=float), sc) for x, y in zip(r[1], b[1]))
                ctx.oracle(f'C03 the spectra are homogeneous in the record: {name}(2^k a) == 2^k {name}(a) exactly, also for records around 1e-180 / 1e+180', ok, inputs,
                           detail=None if ok else {'got': r[1] if r[0] == 'ok' else r, 'base': b[1]})
            for name, b in base0.items():
                if b[0] != 'ok':
                    continue
                r = call_impl(getattr(im, name), o)
                ctx.oracle(f'C03 {name} (period of the largest spectral value) does not depend on the scale of the record, also at extreme scales',
                           r[0] == 'ok' and float(r[1]) == float(b[1]), inputs, detail={'base': b[1], 'scaled': r[1]})
        for k in (-400, 400, -200, 200):
            sc = 2.0 ** k
            ctx.hist(f'extreme-scale(degree 2)/2^{k}')
            o = ctx.aged(eqsig.AccSignal, a * sc, dt, response_times=parr)
            inputs = {'values': a, 'dt': dt, 'periods': periods, 'xi': xi, 'scale': f'2**{k}'}
            for name, b in base2.items():
                if b[0] != 'ok':
                    continue
                r = again(name, o, a * sc)
                ok = r[0] == 'ok' and all(gen.scaled_exactly(np.asarray(x, dtype=float), np.asarray(y, dtype=float), sc * sc) for x, y in zip(r[1], b[1]))
                ctx.oracle(f'C03.e the energy spectra are homogeneous of degree two: {name}(2^k a) == 4^k {name}(a) exactly, also for records around 1e-120 / 1e+120', ok, inputs,
                           detail=None if ok else {'got': r[1] if r[0] == 'ok' else r, 'base': b[1]})


def x2_wrappers_containers(ctx):
    """wrappers and defaults == the main path; record / period containers and dtypes == the float64 result"""
    import eqsig
    from eqsig import sdof, im
    rng = ctx.rng
    for it in range(14 if ctx.tier == 'quick' else 140):
        n = gen.log_int(rng, 3, 150)
        dt = rng.choice([0.01, 0.02, 0.005, 0.25, 0.5])
        whole = it % 2 == 0
        a = gen.int_record(rng, n) if whole else gen.dyadic_record(rng, n)
        rt = sorted(dt * rng.choice([2.0, 5.5, 6.0, 8.0, 16.0, 24.0, 64.0, 160.0]) for _ in range(rng.randint(2, 4)))
        if rng.random() < 0.35:
            rt = [0.0] + rt
        parr = np.array(rt)
        xi = rng.choice([0.05, 0.0, 0.3])
        ratio = rng.choice([1, 2, 4, 8])
        inputs = {'values': a, 'dt': dt, 'response_times': rt, 'xi': xi, 'min_dt_ratio': ratio}
        ctx.count_case(('x2-wrap', a.tobytes(), dt, tuple(rt), xi, ratio), gen.nontrivial_record(a))
        # (a) wrapper generate_response_spectrum == gen_response_spectrum
        o1, o2 = ctx.aged(eqsig.AccSignal, a, dt, response_times=parr), eqsig.AccSignal(a, dt, response_times=parr)
        r1 = call_impl(lambda: (o1.generate_response_spectrum(xi=xi, min_dt_ratio=ratio), (o1.s_d, o1.s_v, o1.s_a))[1])
        r2 = call_impl(lambda: (o2.gen_response_spectrum(xi=xi, min_dt_ratio=ratio), (o2.s_d, o2.s_v, o2.s_a))[1])
        ctx.oracle('C03.d wrapper AccSignal.generate_response_spectrum == gen_response_spectrum (same arguments, ==)',
                   r1[0] == r2[0] and (r1[0] != 'ok' or _x2_eq3(r1[1], r2[1])), inputs, detail=(r1[0], r2[0]))
        o3 = eqsig.AccSignal(gen.noise_record(rng, 5), dt)
        r3 = call_impl(lambda: (o3.reset_values(a), o3.generate_response_spectrum(response_times=parr, xi=xi, min_dt_ratio=ratio), (o3.s_d, o3.s_v, o3.s_a))[2])
        ctx.oracle('C03.d response_times passed as an argument == response_times given at construction (==)', r3[0] == r2[0] and (r3[0] != 'ok' or _x2_eq3(r3[1], r2[1])), inputs)
        # (b) documented defaults of the energy spectra and the spectrum intensities: periods = the object's response_times, xi = 0.05
        od = ctx.aged(eqsig.AccSignal, a, dt, response_times=parr)
        for fname, f, kw in (('calc_resp_uke_spectrum', sdof.calc_resp_uke_spectrum, {}), ('calc_input_energy_spectrum', sdof.calc_input_energy_spectrum, {}),
                             ('calc_input_energy_spectrum(series=True)', sdof.calc_input_energy_spectrum, {'series': True})):
            d0, d1 = call_impl(f, od, **kw), call_impl(f, od, periods=parr, xi=0.05, **kw)
            ctx.oracle(f'C03.e {fname}: the defaults are periods = response_times of the object and xi = 0.05 (==)',
                       d0[0] == d1[0] and (d0[0] != 'ok' or np.array_equal(np.asarray(d0[1]), np.asarray(d1[1]))), inputs, detail=(d0[0], d1[0]))
        if len(rt) >= 2:
            for fname in ('calc_asi', 'calc_vsi'):
                d0, d1 = call_impl(getattr(im, fname), od, periods=parr), call_impl(getattr(im, fname), od, xi=0.05, periods=parr)
                ctx.oracle(f'C03.f {fname}: the default damping is xi = 0.05 (==)', d0[0] == d1[0] and (d0[0] != 'ok' or float(d0[1]) == float(d1[1])), inputs, detail=(d0, d1))
        # (c) periods of the largest spectral velocity (xi = 0.15, 100 periods 0.1..2 s) / acceleration (xi = 0, 0.1..10 s): equality with the
        #     object API on a fresh object; the signal handed in keeps its own periods and spectra
        if it % 3 == 0 and np.any(a):
            before = call_impl(lambda: (np.array(od.s_a, copy=True), np.array(od.response_times, copy=True)))
            for fname, grid, xi_f, q in (('calc_max_velocity_period', np.logspace(-1, 0.3, 100), 0.15, 1), ('max_acceleration_period', np.logspace(-1, 1, 100), 0, 2)):
                exp = _x2_expected_object(np.asarray(a, dtype=float), dt, grid, xi_f, 4)[0][q]
                got = call_impl(getattr(im, fname), od)
                ctx.hist('wrappers/' + fname)
                ctx.oracle(f'C03 {fname} == the period, among its 100 log-spaced periods, of the largest entry of the AccSignal spectrum at its damping (==)',
                           got[0] == 'ok' and float(got[1]) == float(grid[int(np.argmax(exp))]), inputs, detail={'got': got[1], 'want': float(grid[int(np.argmax(exp))])})
            after = call_impl(lambda: (od.s_a, od.response_times))
            ctx.oracle('C03 the period-of-maximum functions leave the response periods and spectra of the signal they are given unchanged',
                       before[0] == after[0] == 'ok' and np.array_equal(before[1][0], after[1][0]) and np.array_equal(before[1][1], after[1][1]), inputs)
        # (d) record containers / dtypes. Array-level functions: ndarrays only (lists and tuples raise AttributeError on the pinned tree: a loud
        #     restriction of the domain); object API: every container (the constructor converts). Unsigned dtypes are not generated (NOTES.md).
        ref_p = call_impl(sdof.pseudo_response_spectra, a, dt, parr, xi)
        ref_t = call_impl(sdof.true_response_spectra, a, dt, parr, xi)
        ref_o = r2
        variants = [(lab, c, a) for lab, c in gen.container_variants(a)]
        if whole:
            variants += [(lab, c, fl) for lab, c, fl in gen.narrow_int_variants(a) if not lab.startswith('uint')]
        for lab, c, fl in variants:
            ctx.hist('record container=' + lab)
            same_numbers = fl is a
            if isinstance(c, np.ndarray):
                for fname, ref in (('pseudo_response_spectra', ref_p), ('true_response_spectra', ref_t)):
                    want = ref if same_numbers else call_impl(getattr(sdof, fname), fl, dt, parr, xi)
                    got = call_impl(getattr(sdof, fname), c, dt, parr, xi)
                    ctx.oracle(f'C03 {fname}: a record given as an integer / float32 / strided ndarray gives the spectra of the same numbers in float64 (==)',
                               want[0] == 'ok' and same_triple(got, want), {**inputs, 'container': lab, 'values': fl}, detail=None if got[0] == 'ok' else got)
            oc = call_impl(lambda: eqsig.AccSignal(c, dt, response_times=parr))
            if oc[0] == 'ok':
                got = call_impl(lambda: (oc[1].gen_response_spectrum(xi=xi, min_dt_ratio=ratio), (oc[1].s_d, oc[1].s_v, oc[1].s_a))[1])
                if same_numbers:
                    want = ref_o
                else:
                    ow = eqsig.AccSignal(fl, dt, response_times=parr)
                    want = call_impl(lambda: (ow.gen_response_spectrum(xi=xi, min_dt_ratio=ratio), (ow.s_d, ow.s_v, ow.s_a))[1])
                ctx.oracle('C03.d AccSignal built from a list / tuple / integer / float32 / strided record reports the spectra of the same numbers in float64 (==)',
                           want[0] == 'ok' and got[0] == 'ok' and _x2_eq3(got[1], want[1]), {**inputs, 'container': lab, 'values': fl}, detail=None if got[0] == 'ok' else got)
        # (e) period containers: float32 / strided ndarrays holding the same numbers
        p32 = parr.astype(np.float32)
        pv = [('strided', gen.container_variants(parr, arrays_only=True)[-1][1])]
        if np.array_equal(p32.astype(float), parr):
            pv.append(('float32', p32))
        for lab, pc in pv:
            ctx.hist('period container=' + lab)
            for fname, ref in (('pseudo_response_spectra', ref_p), ('true_response_spectra', ref_t)):
                got = call_impl(getattr(sdof, fname), a, dt, pc, xi)
                ctx.oracle(f'C03 {fname}: float32 / strided period arrays give the same spectra as the float64 array (==)', ref[0] == 'ok' and same_triple(got, ref),
                           {**inputs, 'period container': lab}, detail=None if got[0] == 'ok' else got)


def x2_histories(ctx):
    """consecutive gen_response_spectrum calls on ONE object that share some but not all of (record, periods, damping, min_dt_ratio), with exact
    repeats: after each call s_d/s_v/s_a are the pseudo spectra for the CURRENT record and the arguments of that call; arrays read earlier are
    not overwritten by a later call"""
    import eqsig
    rng = ctx.rng
    for it in range(25 if ctx.tier == 'quick' else 250):
        n = rng.randint(6, 80)
        dt = rng.choice([0.01, 0.02, 0.25])
        cur = gen.dyadic_record(rng, n)

        def new_rt():
            r = sorted(dt * rng.choice([3.0, 5.5, 6.0, 8.0, 16.0, 24.0, 64.0, 160.0]) for _ in range(rng.randint(2, 4)))
            return np.array([0.0] + r if rng.random() < 0.3 else r)
        rt, xi, ratio = new_rt(), rng.choice([0.05, 0.0, 0.3, -1]), rng.choice([1, 2, 4, 8])
        asig = eqsig.AccSignal(cur.copy(), dt, response_times=np.array(rt))
        held = []          # (array object, copy at the time it was read)
        hist = []
        for step in range(rng.randint(2, 6)):
            ch = rng.choice(['same', 'xi', 'ratio', 'rt-arg', 'rt-attr', 'record', 'record-same-length-scaled', 'lazy', 'change+lazy'])
            pass_rt = None
            if ch == 'xi':
                xi = rng.choice([x for x in (0.05, 0.0, 0.3, -1) if x != xi])
            elif ch == 'ratio':
                ratio = rng.choice([r for r in (1, 2, 4, 8) if r != ratio])
            elif ch == 'rt-arg':
                rt = new_rt()
                pass_rt = np.array(rt)
            elif ch == 'rt-attr':
                rt = new_rt()
                asig.response_times = np.array(rt)
            elif ch == 'record':
                cur = gen.dyadic_record(rng, rng.randint(6, 80))
                asig.reset_values(cur.copy())
            elif ch in ('record-same-length-scaled', 'change+lazy'):
                cur = cur * rng.choice([2.0, -0.5])
                asig.reset_values(cur.copy())
            hist.append(ch)
            inputs = {'start_record': 'dyadic', 'dt': dt, 'history': list(hist), 'current record': cur, 'response_times': rt, 'xi': xi, 'min_dt_ratio': ratio}
            if ch in ('lazy', 'change+lazy'):
                # no explicit call: the lazy properties regenerate (with the defaults xi = 0.05, min_dt_ratio = 4) only if the record or the
                # periods changed since the last generation; otherwise they report the spectra of the last generation
                if ch == 'change+lazy' or len(hist) == 1:
                    eff_xi, eff_ratio = 0.05, 4
                else:
                    eff_xi, eff_ratio = last_xi, last_ratio
                got = call_impl(lambda: (asig.s_d, asig.s_v, asig.s_a))
            else:
                eff_xi, eff_ratio = xi, ratio
                got = call_impl(lambda: (asig.gen_response_spectrum(response_times=pass_rt, xi=xi, min_dt_ratio=ratio), (asig.s_d, asig.s_v, asig.s_a))[1])
            last_xi, last_ratio = eff_xi, eff_ratio
            exp = _x2_expected_object(cur, dt, rt, eff_xi, eff_ratio)[0]
            ctx.hist('spectrum-history/' + ch)
            ctx.oracle('C03.d after any sequence of gen_response_spectrum calls / record and period changes on one object, s_d/s_v/s_a are the pseudo spectra of the '
                       'CURRENT record for the arguments of the last generation (==)', got[0] == 'ok' and _x2_eq3(got[1], exp), inputs,
                       detail=None if got[0] != 'ok' else {'s_a': got[1][2], 'want': exp[2]}, facts={'history': list(hist)})
            okh = all(np.array_equal(arr, cp) for arr, cp in held)
            ctx.oracle('C03.d spectra read from an object earlier are not overwritten when the object regenerates them', okh, inputs, facts={'history': list(hist)})
            if got[0] == 'ok':
                held.extend((x, np.array(x, copy=True)) for x in got[1])
        ctx.count_case(('x2-hist', cur.tobytes(), tuple(hist)), True, sample={'fn': 'gen_response_spectrum history', 'history': hist} if it < 1 else None)


def extras2(ctx):
    x2_absmax(ctx)
    x2_large(ctx)
    x2_extreme(ctx)
    x2_wrappers_containers(ctx)
    x2_histories(ctx)


_run_main2 = run


def run(ctx):
    _run_main2(ctx)
    extras2(ctx)
    ctx.flush()


# ---- open finding F03-4: arithmetic in the record's own integer dtype (see _narrow_findings.py) -------------------------------------------

import _narrow_findings as _NF  # noqa: E402


def _narrow_table():
    from eqsig import sdof
    return {'absmax': lambda x, dt: sdof.absmax(x),
            'pseudo_response_spectra': lambda x, dt: sdof.pseudo_response_spectra(x, dt, [0.0, dt * 2, 0.5], 0.05)}


try:
    KNOWN_MATCHERS
except NameError:
    KNOWN_MATCHERS = {}
KNOWN_MATCHERS['F03-4'] = _NF.matcher('F03-4')
_known_witness_prev = globals().get('known_witness')


def known_witness(fid):
    if fid == 'F03-4':
        from eqsig import sdof
        return float(sdof.absmax(np.array([40, 200], dtype=np.uint8))) != 200.0
    return _known_witness_prev(fid) if _known_witness_prev else True


_run_main_nf = run


def run(ctx):
    _run_main_nf(ctx)
    _NF.narrow_oracles(ctx, 'C03', _narrow_table(), variants_fn=_NF.absmax_variants)
    ctx.flush()


# evidence: how the model is tied to the source on every run (as built, supersedes the value above)
TIE = 'translator (spectra assembly -> Gen/SdofSpectra, constants -> Gen/Consts; Props/C03Gen, C03GenSpectra) + correspondence'


# ---- round-5 lessons: jobs beyond 2^24 cells after up-sampling; periods changed through response_series -------------------------------------

def extras_r5(ctx):
    import eqsig
    from eqsig import sdof
    rng = ctx.rng
    # (a) a HUGE object-level job: npts x periods x up-sampling factor > 2^24 cells.  The step rule target_dt = max(Tmin/20, dt/min_dt_ratio)
    # depends on the shortest period only, so a short period list with the same shortest period gives the same entries, bit for bit
    for n, npd, ratio in ([(1100, 2000, 8)] if ctx.tier == 'quick' else [(1100, 2000, 8), (2100, 1100, 8), (4200, 1000, 4)]) + \
            [(1100, c // 8800 + 1, 8) for c in gen.hint_sizes(ctx, lo=2 ** 21, hi=21000000, cap=1)]:      # source hints: cells after up-sampling just above a new integer constant
        dt = 0.02
        a = gen.noise_record(rng, n) * np.exp(-((np.arange(n) - n / 3) / (n / 5)) ** 2)
        periods = np.exp(np.linspace(np.log(0.05), np.log(4.0), npd))       # Tmin/20 = 0.0025 = dt/8: up-sampling by 8 is requested
        big = eqsig.AccSignal(a, dt)
        r = call_impl(lambda: (big.gen_response_spectrum(response_times=periods, min_dt_ratio=ratio), np.array(big.s_d), np.array(big.s_v), np.array(big.s_a))[1:])
        inputs = {'a': f'noise x envelope, n={n} (seeded)', 'dt': dt, 'periods': f'{npd} log-spaced 0.05..4 s', 'min_dt_ratio': ratio, 'cells_after_upsampling': n * npd * ratio}
        ctx.hist(f'huge job/{n}x{npd}x{ratio}')
        ctx.count_case(('huge', n, npd, ratio), True, sample={'fn': 'AccSignal.gen_response_spectrum (huge job)', **inputs})
        if r[0] != 'ok':
            ctx.oracle('C03 gen_response_spectrum returns for a huge job', False, inputs, detail=r)
            continue
        idx = sorted(set([0, 1, npd // 2, npd - 1] + [rng.randrange(npd) for _ in range(8)]))
        small = eqsig.AccSignal(a, dt)
        small.gen_response_spectrum(response_times=periods[idx], min_dt_ratio=ratio)
        ok = all(np.array_equal(x[idx], y) for x, y in zip(r[1], (small.s_d, small.s_v, small.s_a)))
        ctx.oracle('C03 object-level spectra of a HUGE job (> 2^24 cells after up-sampling) == the same periods computed in a short list with the same shortest period (==)',
                   bool(ok), {**inputs, 'rows': idx}, detail={'huge s_a': r[1][2][idx][:4], 'short s_a': np.asarray(small.s_a)[:4]})
    # (b) periods changed THROUGH response_series / gen_response_spectrum arguments after the spectra were cached: s_a/s_v/s_d follow
    for it in range(8 if ctx.tier == 'quick' else 60):
        n = rng.randint(30, 150)
        a = gen.noise_record(rng, n)
        o = eqsig.AccSignal(a, 0.01)
        t1 = np.array(sorted(rng.uniform(0.1, 2.0) for _ in range(rng.randint(2, 4))))
        t2 = np.array(sorted(rng.uniform(0.1, 2.0) for _ in range(rng.randint(2, 5))))
        how = rng.choice(['response_series(response_times=)', 'response_series positional', 'gen_response_spectrum then response_series'])
        _ = o.s_a if rng.random() < 0.5 else o.gen_response_spectrum(response_times=t1)
        if how == 'response_series(response_times=)':
            o.response_series(response_times=t2)
        elif how == 'response_series positional':
            o.response_series(t2)
        else:
            o.gen_response_spectrum(response_times=t1)
            o.response_series(response_times=t2, xi=0.05)
        f = eqsig.AccSignal(a, 0.01, response_times=t2)
        got = call_impl(lambda: (np.array(o.s_a), np.array(o.s_v), np.array(o.s_d), np.array(o.response_times)))
        want = (np.array(f.s_a), np.array(f.s_v), np.array(f.s_d), t2)
        ok = got[0] == 'ok' and all(np.shape(x) == np.shape(y) and np.array_equal(x, y) for x, y in zip(got[1], want))
        ctx.hist('periods changed through response_series/' + how)
        ctx.oracle('C03 object-level spectra follow the periods last set, also when they were set through response_series(response_times=...) after the spectra were cached',
                   ok, {'a': a, 'dt': 0.01, 'first_periods': t1, 'then': how, 'new_periods': t2},
                   detail=None if ok else {'s_a': got[1][0] if got[0] == 'ok' else got, 'fresh s_a': want[0]})


_run_main_r5 = run


def run(ctx):
    # response-spectrum leftovers (energy spectra, object-level rule, intensities, slow/Duhamel paths): generated code (Gen/Spec*) run by
    # the driver with the implementation's own callee results vs the implementation (harness/props/_c03_spec2.py)
    from _c03_spec2 import corr_spec2
    with core.no_probe():      # corr_spec2 records the callee invocations of the implementation: no probe calls in between
        corr_spec2(ctx)
        ctx.flush()
    _run_main_r5(ctx)
    extras_r5(ctx)
    ctx.flush()


# ---- round-9 lessons ----------------------------------------------------------------------------------------------------------------------
# (a) the quotient that decides the integration step -- 20*dt/T_min, or dt/(dt/min_dt_ratio) -- a NEAR MISS of a whole number (relative 1e-15 ..
#     1e-4 above and below k: periods typed to 5..9 digits such as 1/15 s = 0.0666666, T_min = 20*dt/k*(1 -+ eps), min_dt_ratio = k*(1 +- eps)):
#     the step rule (step <= target, whole factor = ceil of the quotient) and "spectra == pseudo spectra at that step" are the existing clauses;
# (b) every module-level function that takes a signal OBJECT and an explicit period list (energy spectra, cumulative spectra, asi/vsi) is a
#     read-only query: afterwards the object's response_times and its lazily read s_d/s_v/s_a are those of a fresh object with the periods the
#     harness CONFIGURED (the harness remembers them; it does not re-read them from the object).

def _r9_near_cases(rng, quick):
    cases = []
    # directed: typed decimal periods next to 20*dt/k
    for dt, k, digits in [(0.01, 3, 7), (0.01, 7, 7), (0.02, 6, 6), (0.005, 3, 8)] + \
            [(rng.choice([0.01, 0.02, 0.005, 0.05, 0.004, 0.0078125]), rng.randint(2, 15), rng.randint(5, 9)) for _ in range(10 if quick else 80)]:
        exact = 20 * dt / k
        for T in sorted({float(f'%.{digits}f' % exact), float(f'%.{digits}f' % exact) - 10.0 ** -digits, float(f'%.{digits}f' % exact) + 10.0 ** -digits}):
            cases.append((f'typed to {digits} digits', dt, T, rng.choice([r for r in (4, 8, 16, 32) if r > k])))
    # T_min = 20*dt/k * (1 -+ eps): the quotient is k*(1 +- eps)
    eps_list = [2.3e-16, 1e-15, 1e-14, 1e-12, 1e-10, 1e-9, 1e-8, 1e-7, 1e-6, 3e-6, 9e-6, 3e-5, 1e-4]
    grid = [(0.01, 3, 1e-6, -1), (0.01, 3, 1e-6, 1), (0.02, 7, 1e-8, -1), (0.005, 2, 1e-10, -1), (0.01, 5, 9e-6, -1)]
    for _ in range(40 if quick else 400):
        grid.append((rng.choice([0.01, 0.02, 0.005, 0.05, 0.004, 0.0078125, 0.25]), rng.randint(2, 12), rng.choice(eps_list), rng.choice([-1, 1])))
    for dt, k, eps, sign in grid:
        T = 20 * dt / k * (1 + sign * eps)
        cases.append(('Tmin = 20 dt / k (1 %s %g)' % ('+' if sign > 0 else '-', eps), dt, T, rng.choice([r for r in (4, 8, 16, 32) if r > k])))
    # the ratio-limited branch: dt / (dt / min_dt_ratio) next to a whole number (whole ratios that are not powers of two, ratios k (1 +- eps))
    for _ in range(25 if quick else 250):
        dt = rng.choice([0.01, 0.02, 0.005, 0.05, 0.004, 0.3])
        k = rng.randint(2, 12)
        ratio = k if rng.random() < 0.3 else k * (1 + rng.choice([-1, 1]) * rng.choice(eps_list))
        cases.append(('min_dt_ratio = k (1 +- eps)', dt, dt * rng.choice([0.5, 1.0, 20.0 / (k + 2)]), ratio))
    return cases


def r9_near_integer(ctx):
    import eqsig
    import eqsig.single
    from eqsig import sdof
    rng = ctx.rng
    real_interp = eqsig.single.interp_array_to_approx_dt
    seen = []

    def spy(values, dt, target_dt=0.01, even=True):
        out = real_interp(values, dt, target_dt, even=even)
        seen.append((float(target_dt), even, len(out[0]), float(out[1])))
        return out
    eqsig.single.interp_array_to_approx_dt = spy
    try:
        with core.no_probe():
            for ci, (kind, dt, tmin, ratio) in enumerate(_r9_near_cases(rng, ctx.tier == 'quick')):
                n = rng.randint(12, 60)
                a = gen.noise_record(rng, n) * np.hanning(n + 2)[1:-1]
                rt = [tmin] + sorted(tmin * rng.uniform(1.5, 30) for _ in range(rng.randint(0, 2)))
                if rng.random() < 0.25:
                    rt = [0.0] + rt
                xi = rng.choice([0.05, -1, 0.0, 0.2])
                inputs = {'values': a, 'dt': dt, 'response_times': rt, 'min_dt_ratio': ratio, 'xi': xi, 'family': kind}
                ctx.hist('near-whole step quotient/' + kind.split(' (')[0])
                ctx.count_case(('r9near', a.tobytes(), dt, tuple(rt), ratio, xi), True,
                               sample={'fn': 'AccSignal.gen_response_spectrum (near-whole step quotient)', 'dt': dt, 'response_times': rt, 'min_dt_ratio': ratio} if ci < 2 else None)
                asig = ctx.aged(eqsig.AccSignal, a, dt, response_times=np.array(rt)) if rng.random() < 0.3 else eqsig.AccSignal(a, dt, response_times=np.array(rt))
                del seen[:]
                res = call_impl(lambda: (asig.gen_response_spectrum(xi=xi, min_dt_ratio=ratio), (np.array(asig.s_d), np.array(asig.s_v), np.array(asig.s_a)))[1])
                if res[0] != 'ok':
                    ctx.oracle('C03.d gen_response_spectrum returns for response_times with a non-zero first or second entry', False, inputs, detail=res)
                    continue
                target = max(tmin / 20, dt / ratio)
                q = fr(dt) / fr(target)
                ctx.oracle('C03.d the record is interpolated (even=False, towards max(Tmin/20, dt/min_dt_ratio)) iff that target is < dt',
                           (len(seen) == 1 and seen[0][:2] == (target, False)) if target < dt else not seen, inputs, detail={'interp calls': list(seen), 'target_dt': target})
                if target < dt and len(seen) == 1:
                    dti = seen[0][3]
                    kf = fr(dt) / fr(dti)
                    k = round(kf)
                    ctx.hist('near-whole step quotient: quotient %s the whole number' % ('above' if q > round(q) else 'below' if q < round(q) else 'on'))
                    ctx.oracle('C03.d integration step dt\' <= max(Tmin/20, dt/min_dt_ratio) with dt/dt\' an integer',
                               dti <= target * (1 + 1e-12) and abs(kf - k) <= Fraction(1, 10 ** 9) and k >= 1 and seen[0][2] == k * n, inputs,
                               detail={'dt_interp': dti, 'target': target, 'dt/target': float(q), 'dt/dt_interp': float(kf), 'len': seen[0][2]})
                    # the whole factor is the ceiling of the quotient (either neighbour when the quotient is within 1e-12 of a whole number)
                    ks = {math.ceil(q), math.ceil(q * (1 - Fraction(1, 10 ** 12)))}
                    ctx.oracle('C03.d the sub-division is the smallest whole one that satisfies the step rule (ceil(dt / target))', k in ks, inputs,
                               detail={'factor': k, 'dt/target': float(q)})
                    ks.add(k)
                else:
                    ks = {1}
                xe = 0.05 if xi == -1 else xi
                ok = False
                for k in sorted(ks):
                    vi = a if k == 1 else np.interp(np.arange(k * n) / k, np.arange(n), a)
                    ok = ok or _x2_eq3(res[1], sdof.pseudo_response_spectra(vi, dt / k, np.array(rt), xe))
                ctx.oracle('C03.d AccSignal s_d/s_v/s_a == pseudo_response_spectra applied to the record at that step (exactly)', ok, inputs,
                           detail={'sub-divisions tried': sorted(ks), 's_d': res[1][0]})
    finally:
        eqsig.single.interp_array_to_approx_dt = real_interp
    ctx.flush()


def r9_queries_keep_periods(ctx):
    import eqsig
    import eqsig.im
    from eqsig import sdof
    rng = ctx.rng
    queries = [('sdof.calc_input_energy_spectrum', lambda s, p, xi: sdof.calc_input_energy_spectrum(s, periods=p, xi=xi)),
               ('sdof.calc_input_energy_spectrum(series=True)', lambda s, p, xi: sdof.calc_input_energy_spectrum(s, p, xi, series=True)),
               ('sdof.calc_resp_uke_spectrum', lambda s, p, xi: sdof.calc_resp_uke_spectrum(s, periods=p, xi=xi)),
               ('im.cumulative_response_spectra', lambda s, p, xi: eqsig.im.cumulative_response_spectra(s, 'arias_intensity', periods=p, xi=xi)),
               ('im.calc_asi', lambda s, p, xi: eqsig.im.calc_asi(s, xi=xi, periods=p)),
               ('im.calc_vsi', lambda s, p, xi: eqsig.im.calc_vsi(s, xi=xi, periods=p)),
               ('sdof.pseudo_response_spectra(asig.values)', lambda s, p, xi: sdof.pseudo_response_spectra(s.values, s.dt, p, xi)),
               ('sdof.response_series(asig.values)', lambda s, p, xi: sdof.response_series(s.values, s.dt, p, xi))]
    reps = 3 if ctx.tier == 'quick' else 20
    for it in range(reps * len(queries)):
        qname, q = queries[it % len(queries)]
        n = rng.randint(30, 200)
        dt = rng.choice([0.01, 0.02, 0.005])
        a = gen.noise_record(rng, n) * np.hanning(n)
        own = np.array(sorted(rng.uniform(0.05, 3.0) for _ in range(rng.randint(2, 5))))
        other = sorted(rng.uniform(0.05, 3.0) for _ in range(rng.choice([len(own), rng.randint(2, 6)])))
        other = rng.choice([list, tuple, np.array])(other) if 'asi' not in qname and 'vsi' not in qname and 'asig.values' not in qname else np.array(other)
        how = rng.choice(['periods at construction', 'response_times setter', 'gen_response_spectrum(response_times=) before', 'default periods'])
        if how == 'default periods':
            o = eqsig.AccSignal(a, dt)
            own = np.array(o.response_times)
        elif how == 'periods at construction':
            o = eqsig.AccSignal(a, dt, response_times=own)
        elif how == 'response_times setter':
            o = eqsig.AccSignal(a, dt)
            o.response_times = own
        else:
            o = eqsig.AccSignal(a, dt)
            o.gen_response_spectrum(response_times=own)
        read_before = rng.random() < 0.4
        if read_before:
            _ = o.s_a
        xi = rng.choice([0.05, None, 0.1]) if 'sdof.calc' in qname or 'cumulative' in qname else rng.choice([0.05, 0.1])
        r = call_impl(q, o, other, xi)
        if rng.random() < 0.3:
            call_impl(queries[rng.randrange(len(queries))][1], o, other, 0.05)
        fresh = eqsig.AccSignal(a, dt, response_times=np.array(own))
        inputs = {'values': a, 'dt': dt, 'configured response_times': own, 'configured through': how, 'spectra read before the query': read_before,
                  'query': qname, 'query periods': other, 'query xi': xi}
        ctx.hist('read-only query with explicit periods/' + qname)
        ctx.count_case(('r9query', a.tobytes(), dt, tuple(own), qname, tuple(np.asarray(other))), True)
        if r[0] != 'ok':
            ctx.oracle('C03.e energy spectra return on the domain of the response series', False, inputs, detail=r)
            continue
        got_rt = call_impl(lambda: np.array(o.response_times, dtype=float))
        ctx.oracle('C03.d a module-level query with an explicit period list leaves the response_times of the signal it is given unchanged',
                   got_rt[0] == 'ok' and got_rt[1].shape == own.shape and np.array_equal(got_rt[1], own), inputs, detail={'response_times afterwards': got_rt[1]})
        got = call_impl(lambda: (np.array(o.s_d), np.array(o.s_v), np.array(o.s_a)))
        want = (np.array(fresh.s_d), np.array(fresh.s_v), np.array(fresh.s_a))
        ok = got[0] == 'ok' and _x2_eq3(got[1], want)
        ctx.oracle('C03.d s_d/s_v/s_a read after a module-level query with other periods are the spectra for the signal\'s own period list (one entry per period, '
                   '== a fresh signal with the configured periods)', ok, inputs, detail=None if ok else {'s_d': got[1][0] if got[0] == 'ok' else got, 'fresh s_d': want[0]})
        if got[0] == 'ok' and len(got[1][0]) == len(own):
            w = 2 * np.pi / own
            sd, sv, sa = got[1]
            ctx.oracle('C03.b pseudo S_v == (2 pi / T) * S_d', bool(np.all(np.abs(sv - w * sd) <= 1e-12 * np.maximum(w * sd, 1e-300))), inputs)
    ctx.flush()


def extras_r9(ctx):
    r9_near_integer(ctx)
    r9_queries_keep_periods(ctx)


_run_main_r9 = run


def run(ctx):
    _run_main_r9(ctx)
    extras_r9(ctx)
    ctx.flush()
