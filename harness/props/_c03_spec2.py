"""C03 leftovers (tw_spec2): correspondence of the GENERATED definitions of tools/py2lean_x_spec2.py (driver handlers c03s.* / nps.*)
with the real functions.  Callees are spied on: the impl's callee arguments and results are sent along, the generated code must call
its callee stub with exactly those arguments and reproduce the result (exact ℚ arithmetic on the impl's doubles, budget 1e-12)."""
import math
from fractions import Fraction

import numpy as np

from core import w_rat, w_rats, w_bool, p_rats, cmp_exact, call_impl
from _c17_common import norm_res, cmp_seq, cmp_rows, w_rows, p_rows

E12 = Fraction(1, 10**12)
DTS = [0.5, 0.25, 0.125, 0.0625, 1.0]


class _Spy:
    """replace `module.name` by a recorder for the duration of a call"""

    def __init__(self, module, name, fake=None):
        self.module, self.name, self.fake, self.calls = module, name, fake, []

    def __enter__(self):
        self.real = getattr(self.module, self.name)

        def rec(*a, **k):
            out = self.fake(*a, **k) if self.fake else self.real(*a, **k)
            self.calls.append((a, k, out))
            return out
        setattr(self.module, self.name, rec)
        return self

    def __exit__(self, *exc):
        setattr(self.module, self.name, self.real)
        return False


def _dy(rng, n, q=8, amp=4):
    return np.array([rng.randint(-amp * q, amp * q) / q for _ in range(n)], dtype=float)


def _one(ctx, label, exact=False):
    return lambda outs, val: cmp_seq(ctx, label, list(val), p_rats(outs[0]), exact, E12)


def corr_spec2(ctx):
    import eqsig
    import eqsig.single
    from eqsig import sdof, im
    rng = ctx.rng
    N = 40 if ctx.tier == 'quick' else 200
    PI = float(np.pi)

    # ---------------------------------------------------------------- prelude NpT
    for i in range(N):
        l = _dy(rng, rng.randint(0, 9))
        if len(l):
            ctx.corr('PRELUDE nps.cummax', f"nps.cummax|{w_rats(l)}", ('ok', list(np.maximum.accumulate(l))), _one(ctx, 'nps.cummax', True))
        P, n = rng.randint(1, 4), rng.randint(1, 5)
        M = [_dy(rng, n) for _ in range(P)]
        ctx.corr('PRELUDE nps.trapz_axis0', f"nps.trapz_axis0|{w_rows(M)}", ('ok', list(np.trapezoid(np.array(M), axis=0))),
                 _one(ctx, 'nps.trapz_axis0', True))
        b = _dy(rng, rng.randint(1, 7))
        k = rng.randint(0, len(b))
        v = _dy(rng, len(b) - k)
        bb = b.copy()
        bb[k:] += v
        ctx.corr('PRELUDE nps.add_from', f"nps.add_from|{k}|{w_rats(b)}|{w_rats(v)}", ('ok', list(bb)), _one(ctx, 'nps.add_from', True))
        kk = rng.randint(0, len(b) + 1)
        ctx.corr('PRELUDE nps.py_at', f"nps.py_at|{w_rats(b)}|{kk}", norm_res(call_impl(lambda: [b[kk]])), _one(ctx, 'nps.py_at', True))
    ctx.flush()

    # ---------------------------------------------------------------- energy spectra (generated calc_resp_uke_spectrum / calc_input_energy_spectrum)
    for i in range(N):
        n = rng.randint(2, 24)
        dt = rng.choice(DTS)
        a = _dy(rng, n)
        rt = [rng.choice([1, 2, 3, 4, 6, 8]) * dt * rng.choice([1, 4, 16]) for _ in range(rng.randint(1, 3))]
        asig = eqsig.AccSignal(a, dt, response_times=rt)
        has_p, has_x = rng.random() < 0.6, rng.random() < 0.6
        ps = [rng.choice([1, 2, 5, 7, 12]) * dt for _ in range(rng.randint(1, 3))]
        xi = rng.choice([0.0, 0.05, 0.25, 0.5])
        kw = {}
        if has_p:
            kw['periods'] = np.array(ps) if i % 2 else ps
        if has_x:
            kw['xi'] = xi
        for mode, fn, kw2 in (('uke', sdof.calc_resp_uke_spectrum, {}), ('ie', sdof.calc_input_energy_spectrum, {}),
                              ('ies', sdof.calc_input_energy_spectrum, {'series': True})):
            with _Spy(sdof, 'response_series') as spy:
                res = call_impl(fn, asig, **kw, **kw2)
            if res[0] != 'ok' or len(spy.calls) != 1:
                continue
            (m_, d_, p_, x_), _, (U, V, A) = spy.calls[0]
            if not np.all(np.isfinite(V)):
                continue
            req = (f"c03s.energy|{mode}|{w_rat(dt)}|{w_rats(a)}|{w_rats(rt)}|{w_bool(has_p)}|{w_rats(ps)}|{w_bool(has_x)}|{w_rat(xi)}|"
                   f"{w_rats(list(np.asarray(p_, dtype=float)))}|{w_rat(float(x_)) if has_x else w_rat(Fraction(repr(float(x_))))}|{w_rows(V)}")
            inputs = {'values': a, 'dt': dt, 'response_times': rt, **kw, **kw2}
            if mode == 'ies':
                ctx.corr('calc_input_energy_spectrum(series=True) [generated]', req, ('ok', [list(r) for r in res[1]]),
                         lambda outs, val: cmp_rows(ctx, 'gen ies', val, p_rows(outs[0]), False, E12) if val and len(val[0]) else None, inputs=inputs)
            else:
                ctx.corr(f'calc_{mode} [generated]', req, ('ok', list(res[1])), _one(ctx, 'gen ' + mode), inputs=inputs)
    ctx.flush()

    # ---------------------------------------------------------------- AccSignal.gen_response_spectrum (generated rule + C14 model)
    for i in range(2 * N):
        n = rng.randint(1, 12)
        dt = rng.choice(DTS)
        a = _dy(rng, n)
        ratio = rng.choice([1, 2, 4, 8, 4, 0]) if i % 9 else 0
        kind = rng.choice(['small', 'frac', 'raw', 'lead0', 'short0', 'empty', 'one'])
        if kind == 'small':
            rt = [20 * dt / rng.choice([1, 2, 4, 8, 16])] + [rng.choice([2, 3, 5]) * dt * 20]
        elif kind == 'frac':
            rt = [5 * dt * rng.choice([1, 2, 3, 5, 6, 7]), 40 * dt]
        elif kind == 'raw':
            rt = [20 * dt * rng.choice([1, 2, 3]), 100 * dt]
        elif kind == 'lead0':
            rt = [0.0, 5 * dt * rng.choice([1, 2, 3, 4, 8]), 50 * dt]
        elif kind == 'short0':
            rt = [0.0]
        elif kind == 'empty':
            rt = []
        else:
            rt = [10 * dt]
        has_rt = rng.random() < 0.7
        self_rt = rt if not has_rt else [30 * dt, 60 * dt]
        xi = rng.choice([-1, -1, 0.02, 0.2, 0.0])
        asig = eqsig.AccSignal(a, dt, response_times=self_rt)
        P = len(rt)
        fake_out = (np.arange(P, dtype=float), np.arange(P, dtype=float) + 0.5, np.arange(P, dtype=float) + 0.25)
        kw = {'xi': xi, 'min_dt_ratio': ratio}
        if has_rt:
            kw['response_times'] = np.array(rt, dtype=float)
        with _Spy(eqsig.single.dh, 'pseudo_response_spectra', fake=lambda *a_, **k_: fake_out) as spy:
            res = call_impl(asig.gen_response_spectrum, **kw)
        inputs = {'values': a, 'dt': dt, 'response_times': rt, 'given': has_rt, 'xi': xi, 'min_dt_ratio': ratio}
        res = norm_res(res) if res[0] == 'err' else res
        if res[0] == 'err':
            ctx.corr('AccSignal.gen_response_spectrum/target_dt [generated]', f"c03s.gen_target|{w_rat(dt)}|{w_rat(ratio)}|{w_rats(rt)}", res,
                     lambda outs, val: 'model returned ok', inputs=inputs)
            ctx.corr('AccSignal.gen_response_spectrum/input [generated]', f"c03s.gen_input|{w_rat(dt)}|{w_rat(ratio)}|{w_rats(rt)}|{w_rats(a)}", res,
                     lambda outs, val: 'model returned ok', inputs=inputs)
            continue
        (vi, di, rti, xii), _, _ = spy.calls[0]
        vi = np.asarray(vi, dtype=float)
        ctx.corr('AccSignal.gen_response_spectrum/input [generated]', f"c03s.gen_input|{w_rat(dt)}|{w_rat(ratio)}|{w_rats(rt)}|{w_rats(a)}",
                 ('ok', (list(vi), float(di))),
                 lambda outs, val: (cmp_seq(ctx, 'gen input values', val[0], p_rats(outs[0]), False, E12)
                                    or cmp_seq(ctx, 'gen input dt', [val[1]], p_rats(outs[1]), False, E12)), inputs=inputs)
        # the whole method with the recorded callee arguments (the model's own interpolated record is sent as the expected motion)
        got = (list(np.asarray(asig.response_times, dtype=float)), list(asig._s_d), list(asig._s_v), list(asig._s_a))
        exact_in = Fraction(di) * round(dt / di) == Fraction(dt)       # the stub compares exactly: only when dt' is an exact quotient
        if exact_in and all(Fraction(x).denominator <= 2**40 for x in vi):
            req = (f"c03s.gen_spectrum|{w_rat(dt)}|{w_rat(ratio)}|{w_bool(has_rt)}|{w_rats(rt)}|{w_rats(self_rt)}|{w_rats(a)}|{w_rat(xi)}|{w_rat(0.05)}|"
                   f"{w_rats(vi)}|{w_rat(float(di))}|{w_rat(float(xii))}|{w_rats(fake_out[0])}|{w_rats(fake_out[1])}|{w_rats(fake_out[2])}")
            ctx.corr('AccSignal.gen_response_spectrum/whole method [generated]', req, ('ok', got),
                     lambda outs, val: next((m for m in (cmp_exact(list(val[k]), p_rats(outs[k])) for k in range(4)) if m), None), inputs=inputs)
    ctx.flush()

    # ---------------------------------------------------------------- calc_asi / calc_vsi / calc_vsi_temporal / cumulative_response_spectra
    had_trapz = hasattr(np, 'trapz')
    for i in range(N // 2):
        n = rng.randint(2, 30)
        dt = rng.choice([0.0625, 0.125, 0.03125])
        a = _dy(rng, n)
        asig = eqsig.AccSignal(a, dt)
        xi = rng.choice([0.05, 0.02, 0.2])
        pch = rng.choice(['default', 'custom', 'single', 'pair'])
        ps = {'default': None, 'custom': np.sort(np.array([rng.randint(2, 40) * dt for _ in range(rng.randint(3, 8))])),
              'single': np.array([8 * dt]), 'pair': np.array([6 * dt, 4 * dt])}[pch]
        for which, fn, stop in (('asi', im.calc_asi, 1.51), ('vsi', im.calc_vsi, 2.51)):
            with _Spy(sdof, 'pseudo_response_spectra') as spy:
                res = norm_res(call_impl(lambda: [float(fn(asig, xi=xi, periods=ps))]))
            if len(spy.calls) != 1:
                continue
            (m_, d_, p_), k_, (sd, sv, sa) = spy.calls[0]
            if not np.all(np.isfinite(sa)):
                continue
            grid = list(np.arange(0.1, stop, 0.01))
            req = (f"c03s.intensity|{which}|{w_rat(dt)}|{w_rats(a)}|{w_rat(xi)}|{w_bool(ps is not None)}|{w_rats([] if ps is None else ps)}|"
                   f"{w_rat(Fraction(str(stop)))}|{w_rats(grid)}|{w_rats(sd)}|{w_rats(sv)}|{w_rats(sa)}")
            # NOTE: the generated code asks `arange 0.1 <stop> 0.01` with the EXACT decimals; the default grid sent is NumPy's float grid
            if ps is None and list(np.asarray(p_, dtype=float)) != grid:
                ctx.oracle('calc_asi/vsi default grid is np.arange(0.1, stop, 0.01)', False, {'which': which})
            ctx.corr(f'calc_{which} [generated]', req, res, _one(ctx, 'gen ' + which), inputs={'values': a, 'dt': dt, 'xi': xi, 'periods': pch})
        # calc_vsi_temporal (needs np.trapz: removed from NumPy >= 2.4 — finding; evaluated with np.trapz = np.trapezoid)
        if ps is not None and len(ps) >= 1:
            if not had_trapz:
                raw = call_impl(im.calc_vsi_temporal, asig, xi=xi, periods=ps)
                ctx.hist('calc_vsi_temporal on this NumPy: ' + (raw[1] if raw[0] == 'err' else 'ok'))
                np.trapz = np.trapezoid
            try:
                with _Spy(sdof, 'nigam_and_jennings_response') as spy:
                    res = call_impl(im.calc_vsi_temporal, asig, xi=xi, periods=ps)
            finally:
                if not had_trapz:
                    del np.trapz
            if res[0] == 'ok' and len(spy.calls) == 1 and np.all(np.isfinite(spy.calls[0][2][0])):
                U = spy.calls[0][2][0]
                req = (f"c03s.vsi_temporal|{w_rat(PI)}|{w_rat(dt)}|{w_rats(a)}|{w_rat(xi)}|T|{w_rats(ps)}|{w_rats(list(np.arange(0.1, 2.51, 0.01)))}|{w_rows(U)}")
                ctx.corr('calc_vsi_temporal [generated]', req, ('ok', list(res[1])), _one(ctx, 'gen vsi_temporal'),
                         inputs={'values': a, 'dt': dt, 'xi': xi, 'periods': ps})
                ctx.corr('calc_vsi_temporal [model]', f"c03s.vsi_temporal_model|{w_rat(0.01)}|{w_rat(2 * PI)}|{w_rats(ps)}|{w_rows(U)}",
                         ('ok', list(res[1])), _one(ctx, 'model vsi_temporal'), inputs={'values': a, 'dt': dt, 'xi': xi, 'periods': ps})
        # cumulative_response_spectra
        rt = [4 * dt, 9 * dt]
        asig2 = eqsig.AccSignal(a, dt, response_times=rt)
        name = rng.choice(['arias_intensity', 'arias_intensity', 'cav'])
        hp, hx = rng.random() < 0.5, rng.random() < 0.5
        kw = {}
        pp = [rng.randint(2, 30) * dt for _ in range(rng.randint(1, 3))]
        if hp:
            kw['periods'] = pp
        if hx:
            kw['xi'] = xi
        with _Spy(sdof, 'response_series') as spy:
            res = norm_res(call_impl(lambda: [list(r) for r in im.cumulative_response_spectra(asig2, name, **kw)]))
        if len(spy.calls) == 1 and np.all(np.isfinite(spy.calls[0][2][2])):
            (m_, d_, p_, x_), _, (U, V, A) = spy.calls[0]
            req = (f"c03s.cum_arias|{w_rat(PI)}|{w_rat(dt)}|{w_rats(a)}|{w_rats(rt)}|{w_bool(name == 'arias_intensity')}|{w_bool(hp)}|{w_rats(pp)}|"
                   f"{w_bool(hx)}|{w_rat(xi)}|{w_rats(list(np.asarray(p_, dtype=float)))}|{w_rat(float(x_)) if hx else w_rat(Fraction(repr(float(x_))))}|{w_rows(A)}")
            ctx.corr('cumulative_response_spectra [generated]', req, res,
                     lambda outs, val: cmp_rows(ctx, 'gen cum arias', val, p_rows(outs[0]), False, E12),
                     inputs={'values': a, 'dt': dt, 'fun_name': name, **kw})
    ctx.flush()

    # ---------------------------------------------------------------- max-period functions, calc_sir
    for i in range(max(6, N // 6)):
        n = rng.randint(3, 60)
        dt = rng.choice([0.01, 0.02, 0.005])
        a = _dy(rng, n) if i else np.zeros(5)
        asig = eqsig.AccSignal(a, dt)
        for which, fn, grid, xi in (('v', im.calc_max_velocity_period, np.logspace(-1, 0.3, 100), 0.15),
                                    ('a', im.max_acceleration_period, np.logspace(-1, 1, 100), 0)):
            s = eqsig.AccSignal(a, dt)
            s.generate_response_spectrum(response_times=grid, xi=xi)
            if not np.all(np.isfinite(s.s_a)):
                continue
            res = norm_res(call_impl(lambda: [float(fn(asig))]))
            req = f"c03s.max_period|{which}|{w_rat(dt)}|{w_rats(a)}|{w_rats(grid)}|{w_rats(s.s_d)}|{w_rats(s.s_v)}|{w_rats(s.s_a)}"
            ctx.corr(f"{fn.__name__} [generated]", req, res, _one(ctx, 'gen max period', True), inputs={'values': a, 'dt': dt})
    for i in range(N):
        P = rng.randint(0, 7)
        ps = [0.1 * (k + 1) for k in range(P)]
        sp = [rng.randint(0, 3) / 2 for _ in range(P)]
        ctx.corr('periodAtMax [model] vs periods[np.argmax(spectrum)]', f"c03s.period_at_max|{w_rats(ps)}|{w_rats(sp)}",
                 norm_res(call_impl(lambda: [np.array(ps)[np.argmax(np.array(sp))]])), _one(ctx, 'periodAtMax', True), inputs={'spectrum': sp})
    for i in range(6):
        a = _dy(rng, rng.randint(3, 20))
        dt = 0.5
        asig = eqsig.AccSignal(a, dt)
        has = i % 2 == 1
        if has:
            asig.arias_intensity = 3.0
        dur = call_impl(im.calc_significant_duration, a, dt)
        res = norm_res(call_impl(lambda: [float(im.calc_sir(asig))]))
        req = f"c03s.sir|{w_bool(has)}|{w_rat(3.0)}|{w_bool(dur[0] == 'ok')}|{w_rat(float(dur[1]) if dur[0] == 'ok' else 0.0)}|{w_rat(dt)}|{w_rats(a)}"
        ctx.corr('calc_sir [generated]', req, res, lambda outs, val: 'model returned ok', inputs={'values': a, 'has arias_intensity': has})
    ctx.flush()

    # ---------------------------------------------------------------- single_elastic_response / slow_response_spectra
    class _Shim:
        def __getattr__(self, k):
            return getattr(np, k)
    shim = _Shim()
    shim.sqrt, shim.exp, shim.sin = (lambda x: x), (lambda t: 1 + t), (lambda t: t)
    for i in range(N):
        n = rng.randint(0, 10) if i % 7 else 0
        a = _dy(rng, n)
        step = rng.choice(DTS)
        T = rng.choice([1, 2, 3, 5, 8]) * step
        xi = rng.choice([0.0, 0.05, 0.25, 0.5])
        res = call_impl(sdof.single_elastic_response, a, step, T, xi)
        inputs = {'motion': a, 'step': step, 'period': T, 'xi': xi}
        if res[0] == 'ok':
            w_n = (2.0 * np.pi) / T
            w_d = w_n * np.sqrt(1 - xi ** 2)
            t = step * np.arange(n + 1)
            Ev, Sv = np.exp(-(xi * w_n) * t), np.sin(w_d * t)
            req = f"c03s.duhamel|{w_rat(step)}|{w_rats(a)}|{w_rat(float(w_d))}|{w_rats(Ev)}|{w_rats(Sv)}"
            ctx.corr('single_elastic_response [model duhamel / duhamelSumAt, impl exp & sin factors]', req, ('ok', list(res[1])),
                     lambda outs, val: (cmp_seq(ctx, 'duhamel loop', list(val), p_rats(outs[0]), False, Fraction(1, 10**11))
                                        or cmp_seq(ctx, 'duhamel sum', list(val), p_rats(outs[1]), False, Fraction(1, 10**11))), inputs=inputs)
        # the GENERATED loop, with the same rational stand-ins for sqrt / exp / sin on both sides
        real_np = sdof.np
        sdof.np = shim
        try:
            res2 = call_impl(sdof.single_elastic_response, a, step, T, xi)
        finally:
            sdof.np = real_np
        if res2[0] == 'ok':
            ctx.corr('single_elastic_response [generated loop, stand-in sqrt/exp/sin]',
                     f"c03s.ser_gen|{w_rat(PI)}|{w_rat(step)}|{w_rat(T)}|{w_rat(xi)}|{w_rats(a)}", ('ok', list(res2[1])),
                     _one(ctx, 'gen ser'), inputs=inputs)
        # slow_response_spectra
        ps = np.array([rng.choice([1, 2, 3, 5, 8, 13]) * step for _ in range(rng.randint(0, 3))])
        ps = np.array(sorted(set(ps)))
        xis = [xi] if i % 5 else []
        res3 = norm_res(call_impl(lambda: [list(x) for x in sdof.slow_response_spectra(a, step, ps, xis)]))
        rows = [list(sdof.single_elastic_response(a, step, p, xi)) for p in ps]
        req = f"c03s.slow|{w_rat(PI)}|{w_rat(step)}|{w_rats(a)}|{w_rats(ps)}|{w_rats(xis)}|{w_rows(rows)}"
        ctx.corr('slow_response_spectra [generated]', req, res3,
                 lambda outs, val: next((m for m in (cmp_seq(ctx, 'gen slow', list(val[k]), p_rats(outs[k]), False, E12) for k in range(3)) if m), None),
                 inputs={'motion': a, 'step': step, 'periods': ps, 'xis': xis})
    ctx.flush()
