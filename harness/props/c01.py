"""C01 — SDOF response series is the exact solution of the oscillator equation."""
import json
import math
import subprocess
from fractions import Fraction

import numpy as np

import gen
from core import fr, w_float, w_floats, p_floats, cmp_budget, call_impl, VERIF

RULE = ("records n in 2..3000 (log-uniform; <= 400 in quick) of shapes hat/noise/sinusoid(on+off resonance)/step/spike/integer/1e+-6 amplitude; "
        "dt in 10^[-3,0]; T/dt log-uniform in [0.2, 2e4]; 1..6 periods per call in random order, optional leading 0; xi in "
        "{0,1e-3,0.05,0.3,0.7,0.99} u U[0,1); periods as list/tuple/array; all three entry points must return identical arrays. "
        "Float twin (generated compute_a_and_b + hand recurrence) vs impl: 1e-9 of the series peak. Independent 40-digit reference "
        "(exact solution at true 2*pi/T) under the property's own tolerance. distinct = hash of (record, dt, periods, xi); "
        "non-trivial = length >= 3 and not constant")
TIE = ("translator (compute_a_and_b is regenerated from eqsig/sdof.py on every run; theorem computeABReal_eq_canon re-checked) + "
       "correspondence (recurrence loop, wrappers, leading-zero row)")
NOT_PROVED = ["floating-point error growth of the recurrence and the eps/(w*dt)^3 cancellation in B (measured against the 40-digit reference)"]
ASSUMPTIONS = ["libm exp/sin/cos/sqrt are the real functions up to rounding"]
EXTRA_TARGETS = ()


PROP_MODULES = ['C01', 'C01Gen']

def record(rng, n, dt):
    k = rng.choice(['hat', 'noise', 'sine', 'step', 'spike', 'int', 'big', 'tiny', 'resonant'])
    if k == 'hat':
        a = np.zeros(n)
        a[rng.randrange(n)] = 1.0
    elif k == 'noise':
        a = gen.noise_record(rng, n)
    elif k == 'sine':
        a = gen.sine_record(rng, n, dt)
    elif k == 'step':
        a = gen.step_record(rng, n)
    elif k == 'spike':
        a = gen.spike_record(rng, n, 3.0)
    elif k == 'int':
        a = gen.int_record(rng, n)
    elif k == 'big':
        a = gen.noise_record(rng, n, 1e6)
    elif k == 'tiny':
        a = gen.noise_record(rng, n, 1e-6)
    else:
        a = None
    return k, a


def mp_reference(cases):
    req = json.dumps({'cases': [{'acc': [float(x) for x in c['acc']], 'dt': c['dt'], 'T': c['T'], 'xi': c['xi']} for c in cases]})
    p = subprocess.run(['python3-vt', VERIF + '/harness/ref/nj_exact_mp.py'], input=req, capture_output=True, text=True, timeout=3000)
    if p.returncode != 0:
        raise RuntimeError('mpmath reference failed: ' + p.stderr[-500:])
    return json.loads(p.stdout)['results']


def prop_tol(dt, T, n):
    w = 2 * math.pi / T
    return 1e-6 + 5e-8 * (n * dt) / T + 2.3e-16 / (w * dt) ** 3


def run(ctx):
    import eqsig
    from eqsig import sdof
    rng = ctx.rng
    n_cases = 150 if ctx.tier == 'quick' else 1500
    ref_cases = []
    # source hints: T/dt (directly, or through w*dt = 2 pi dt/T), xi and dt at / around every new float constant of the anchored files
    hv = [('ratio', x) for x in gen.hint_values(ctx, 0.2, 2e4, cap=24, maps=(lambda c: c, lambda c: 6.2831853 / c, lambda c: 1 / c))] + \
         [('xi', x) for x in gen.hint_values(ctx, 0.0, 0.999, cap=6)] + [('dt', x) for x in gen.hint_values(ctx, 1e-3, 1.0, cap=6, maps=(lambda c: c, lambda c: 1 / c))]
    for i in range(n_cases + len(hv)):
        n = gen.log_int(rng, 2, 400 if ctx.tier == 'quick' else 3000) if i < n_cases else rng.randint(40, 300)
        dt = 10 ** rng.uniform(-3, 0) if rng.random() < 0.5 else rng.choice([0.01, 0.005, 0.02, 0.1, 0.001])
        if i >= n_cases and hv[i - n_cases][0] == 'dt':
            dt = hv[i - n_cases][1]
        kind, a = record(rng, n, dt)
        npd = rng.randint(1, 6)
        ratios = [math.exp(rng.uniform(math.log(0.2), math.log(2e4))) if rng.random() < 0.7 else rng.choice([0.2, 1, 5.9, 6, 20, 2e4])
                  for _ in range(npd)]
        if i >= n_cases and hv[i - n_cases][0] == 'ratio':
            ratios[0] = hv[i - n_cases][1]
            ctx.hist('source-hint/T over dt')
            if (i - n_cases) % 2 == 0:
                # a dyadic time step, so that the quotient T/dt the code forms is EXACTLY the hinted value (a test `T/dt == c` or `< c` next to it
                # is decided the way the constant says, not by the rounding of r*dt/dt)
                dt = rng.choice([2.0 ** -7, 2.0 ** -6, 2.0 ** -5])
                kind, a = record(rng, n, dt)
        periods = [r * dt for r in ratios]
        if kind == 'resonant':
            T0 = periods[0]
            a = np.sin(2 * math.pi * np.arange(n) * dt / T0)
        lead0 = rng.random() < 0.3
        if lead0:
            periods = [0.0] + periods
        xi = rng.choice([0.0, 1e-3, 0.05, 0.3, 0.7, 0.99]) if rng.random() < 0.7 else rng.uniform(0, 0.999)
        if i >= n_cases and hv[i - n_cases][0] == 'xi':
            xi = hv[i - n_cases][1]
        cont = rng.choice(['list', 'tuple', 'array'])
        pc = {'list': list(periods), 'tuple': tuple(periods), 'array': np.array(periods)}[cont]
        ctx.hist('record=' + kind)
        ctx.hist('periods=' + cont)
        ctx.hist('leading0=' + str(lead0))
        ctx.hist('xi=' + ('0' if xi == 0 else ('<0.1' if xi < 0.1 else ('<0.9' if xi < 0.9 else '>=0.9'))))
        ctx.count_case((a.tobytes(), dt, tuple(periods), xi), gen.nontrivial_record(a),
                       sample={'fn': 'response_series', 'n': n, 'dt': dt, 'periods': periods, 'xi': xi, 'record': kind} if i < 4 else None)
        snap = a.copy()
        r1 = call_impl(sdof.response_series, a, dt, pc, xi)
        if np.all(a == np.round(a)) and np.max(np.abs(a)) < 2 ** 40:
            # integer-valued record: an integer ndarray and a list of Python ints must give the float result (no dtype leak)
            for vname, va in (('int64 array', a.astype(np.int64)), ('list of ints', [int(x) for x in a])):
                rv = call_impl(sdof.response_series, va, dt, pc, xi)
                okv = rv[0] == r1[0] == 'ok' and all(np.array_equal(x, y) for x, y in zip(rv[1], r1[1]))
                ctx.hist('record container=' + vname)
                ctx.oracle('integer-typed records (int array, list of ints) give the same response as the float record', okv,
                           {'acc': a, 'dt': dt, 'periods': periods, 'xi': xi, 'container': vname},
                           detail=None if okv else {'max_dev_u': float(np.max(np.abs(np.asarray(rv[1][0], dtype=float) - r1[1][0]))) if rv[0] == 'ok' and r1[0] == 'ok' else rv})
        r2 = call_impl(sdof.nigam_and_jennings_response, a, dt, pc, xi)
        asig = ctx.aged(eqsig.AccSignal, a, dt)
        r3 = call_impl(asig.response_series, response_times=np.array(periods), xi=xi)
        inputs = {'acc': a, 'dt': dt, 'periods': periods, 'xi': xi}
        ctx.oracle('input record unchanged', np.array_equal(snap, a), inputs)
        same = r1[0] == r2[0] == r3[0] == 'ok' and all(np.array_equal(x, y) and np.array_equal(x, z) for x, y, z in zip(r1[1], r2[1], r3[1]))
        ctx.oracle('all entry points return identical arrays', same, inputs)
        req = f"nj_response|{w_float(xi)}|{w_float(dt)}|{w_floats(periods)}|{w_floats(a)}"

        def compare(outs, val, npd=len(periods), n=n, periods_f=list(periods), dt_f=dt):
            u, v, ac = val
            if len(outs) != 3 * npd:
                return f"rows impl={npd} model={len(outs) // 3}"
            for j in range(npd):
                for name, arr, o in (('u', u[j], outs[3 * j]), ('v', v[j], outs[3 * j + 1]), ('a', ac[j], outs[3 * j + 2])):
                    m = p_floats(o)
                    peak = max(float(np.max(np.abs(arr))), max((abs(x) for x in m), default=0.0))
                    # budget T (1e-9 of the series peak) plus the property's own cancellation term eps/(w dt)^3: for T/dt >~ 1e3 the
                    # B entries are differences of nearly equal terms, and impl and twin round them differently
                    T = periods_f[j]
                    extra = 0.0 if T == 0 else 2.3e-16 / (6.2831853 / T * dt_f) ** 3
                    msg, g = cmp_budget([float(x) for x in arr], m, Fraction(1e-9 + 16 * extra), scale=peak, abs_floor=Fraction(1, 10**300))
                    ctx.gap('response_series/' + name, g)
                    if msg:
                        return f"period[{j}] series {name}: {msg}"
            return None
        ctx.corr('response_series', req, r1, compare, inputs=inputs)
        if r1[0] != 'ok':
            ctx.oracle('response_series returns on its domain', False, inputs, detail=r1)
            continue
        u, v, ac = r1[1]
        ctx.oracle('C01.d shapes are len(periods) x len(record)', u.shape == v.shape == ac.shape == (len(periods), n), inputs)
        s = 1 if lead0 else 0
        if lead0:
            ok = bool(np.all(u[0] == 0) and np.all(v[0] == 0) and np.array_equal(ac[0], -a))
            ctx.oracle('C01.e leading T=0: zero displacement/velocity rows, sign-flipped record as acceleration', ok, inputs)
        w = 6.2831853 / np.array(periods[s:])
        want = -2 * xi * w[:, None] * v[s:] - (w ** 2)[:, None] * u[s:]
        scale = np.maximum(np.abs(want).max(axis=1), 1e-300)[:, None]
        ctx.oracle('C01.d third series == -(2 xi w v + w^2 u) sample by sample', bool(np.all(np.abs(ac[s:] - want) <= 1e-12 * scale)), inputs)
        ctx.oracle('zero initial conditions', bool(np.all(u[:, 0] == 0) and np.all(v[:, 0] == 0)), inputs)
        # independent reference (property-level oracle), a few short cases in quick, more in thorough
        if n <= 300 and (len(ref_cases) < (12 if ctx.tier == 'quick' else 300) or i >= n_cases):
            j = rng.randrange(s, len(periods)) if i < n_cases else s
            ref_cases.append({'acc': a, 'dt': dt, 'T': periods[j], 'xi': xi, 'u': u[j], 'v': v[j], 'inputs': inputs, 'j': j})
    ctx.flush()
    object_histories(ctx)
    # compute_a_and_b itself (translator tie): Float twin of the generated definition vs the impl, entry by entry
    for i in range(40 if ctx.tier == 'quick' else 400):
        xi = rng.choice([0.0, 1e-3, 0.05, 0.3, 0.7, 0.99])
        dt = 10 ** rng.uniform(-3, 0)
        T = dt * math.exp(rng.uniform(math.log(0.2), math.log(2e4)))
        w = 6.2831853 / T
        ra = call_impl(sdof.compute_a_and_b, xi, w, dt)
        ctx.hist('compute_a_and_b')

        def cmp_ab(outs, val, w=w, dt=dt):
            A, B = val
            impl = [A[0][0], A[0][1], A[1][0], A[1][1], B[0][0], B[0][1], B[1][0], B[1][1]]
            m = p_floats(outs[0])
            # the B entries are differences of nearly equal terms for small w*dt (the eps/(w dt)^3 term of the property): compare each
            # entry under a budget relative to the size of the terms that cancel in it
            terms = [1, 1 / w, w, 1, 1 / w ** 2 + 2 / (w ** 3 * dt), 1 / w ** 2 + 2 / (w ** 3 * dt), 2 / (w ** 2 * dt), 2 / (w ** 2 * dt)]
            for k in range(8):
                if abs(float(impl[k]) - m[k]) > 1e-9 * max(abs(m[k]), 1e-7 * terms[k]) + 1e-13 * terms[k]:
                    return f"entry {k}: impl={float(impl[k])!r} model={m[k]!r}"
            return None
        ctx.corr('compute_a_and_b', f"compute_ab|{w_float(xi)}|{w_float(w)}|{w_float(dt)}", ra, cmp_ab, inputs={'xi': xi, 'w': w, 'dt': dt})
    ctx.flush()
    if ref_cases:
        try:
            refs = mp_reference(ref_cases)
        except Exception as e:  # the reference is a search aid (kind S); its absence is recorded, not a verdict
            ctx.notes.append(f"mpmath reference unavailable: {e}")
            refs = []
        for c, r in zip(ref_cases, refs):
            ctx.hist('mp-reference')
            ru, rv = np.array(r['u']), np.array(r['v'])
            tol = prop_tol(c['dt'], c['T'], len(c['acc']))
            pu = max(np.max(np.abs(ru)), 1e-300)
            pv = max(np.max(np.abs(rv)), 1e-300)
            # 'relative to the series peak' is meaningless when the exact series vanishes at every sample instant (e.g. a spike
            # record with T == dt: the exact velocity is 0 at all samples); such degenerate cases are skipped, and counted
            amax = float(np.max(np.abs(c['acc'])))
            wn = 2 * math.pi / c['T']
            if amax == 0 or pu < 1e-4 * amax / wn ** 2 * min(1.0, (wn * c['dt']) ** 2) or pv < 1e-4 * amax / wn * min(1.0, wn * c['dt']):
                ctx.hist('mp-reference/degenerate-peak-skipped')
                continue
            # The implementation integrates the oscillator of frequency 6.2831853/T (C01.f: |c - 2 pi| < 8e-9): the resulting phase error
            # acts on the homogeneous part of the solution, whose amplitude is the NATURAL scale a_max/w (velocity), a_max/w^2
            # (displacement), not the series peak; when the record is nearly constant the series peak is orders of magnitude below the
            # natural scale (cancellation), and 'relative to the series peak' would amplify the 1.3e-9 relative frequency error without
            # bound. The absolute allowance 2e-8*(1+duration/T)*natural scale covers exactly that term.
            durT = len(c['acc']) * c['dt'] / c['T']
            eu = float(max(0.0, np.max(np.abs(c['u'] - ru)) - 2e-8 * (1 + durT) * amax / wn ** 2) / pu)
            ev = float(max(0.0, np.max(np.abs(c['v'] - rv)) - 2e-8 * (1 + durT) * amax / wn) / pv)
            ctx.gap('vs-exact-solution/u(relative to property tolerance)', eu / tol)
            ctx.oracle('C01 displacement/velocity == exact solution of u\'\'+2 xi w u\'+w^2 u = a(t) (40-digit reference, property tolerance)',
                       eu <= tol and ev <= tol, {**c['inputs'], 'period_index': c['j']}, detail={'err_u': eu, 'err_v': ev, 'tol': tol})


def object_histories(ctx):
    """AccSignal.response_series must return the array-level result for the object's CURRENT record, periods and damping after
    any sequence of calls and changes on the same object (multi-step histories: periods changed by attribute, through
    gen_response_spectrum / response_series arguments, record replaced or shifted, damping changed and changed back)."""
    import eqsig
    from eqsig import sdof
    rng = ctx.rng
    OPS = ['series()', 'series(rt)', 'series(xi)', 'rt=', 'gen_rs(rt)', 'gen_rs()', 'add_constant', 'reset_values', 's_a']
    # directed histories first (read - change ONE thing by every available route - read again), then random ones: detection of a stale
    # series must not depend on the luck of the draw
    directed = [['series()', ch, 'series()'] for ch in ('rt=', 'gen_rs(rt)', 'series(rt)', 'add_constant', 'reset_values', 'gen_rs()', 's_a')] + \
               [['series(xi)', ch, 'series()'] for ch in ('rt=', 'gen_rs(rt)', 'reset_values')] + \
               [['series(rt)', 'rt=', 'series()'], ['gen_rs(rt)', 'series()', 'rt=', 'series()'], ['series()', 'series(xi)', 'series()'],
                ['series()', 'series()', 'series()'], ['series(xi)', 'series(xi)', 'series()', 'series()'],
                ['s_a', 'series()', 'gen_rs(rt)', 's_a', 'series()']]
    n_random = 25 if ctx.tier == 'quick' else 300
    for i in range(len(directed) + n_random):
        n = rng.randint(8, 120)
        dt = rng.choice([0.01, 0.02, 0.005])
        if i < len(directed):
            dt = [0.01, 0.02][i % 2]      # directed words: a step for which the object's spectrum is computed on an interpolated record (T_min/20 < dt), whatever the draw
        a = gen.noise_record(rng, n)
        asig = eqsig.AccSignal(a.copy(), dt)
        cur_a = a.copy()
        cur_rt = np.array(asig.response_times)
        hist = []
        word = directed[i] if i < len(directed) else [rng.choice(OPS) for _ in range(rng.randint(2, 7))]
        for op in word:
            xi = 0.05
            if op == 'series(rt)':
                cur_rt = np.array(sorted(rng.uniform(0.05, 2.0) for _ in range(rng.randint(1, 4))))
                got = asig.response_series(response_times=cur_rt)
            elif op == 'series(xi)':
                xi = rng.choice([0.0, 0.1, 0.05, 0.3])
                got = asig.response_series(xi=xi)
            elif op == 'rt=':
                cur_rt = np.array(sorted(rng.uniform(0.05, 2.0) for _ in range(rng.randint(1, 4))))
                asig.response_times = cur_rt
                got = None
            elif op == 'gen_rs(rt)':
                cur_rt = np.array(sorted(rng.uniform(0.05, 2.0) for _ in range(rng.randint(1, 4))))
                asig.gen_response_spectrum(response_times=cur_rt)
                got = None
            elif op == 'gen_rs()':
                asig.gen_response_spectrum()
                got = None
            elif op == 'add_constant':
                c = rng.choice([0.5, -1.0, 2.0])
                asig.add_constant(c)
                cur_a = cur_a + c
                got = None
            elif op == 'reset_values':
                cur_a = gen.noise_record(rng, n)
                asig.reset_values(cur_a.copy())
                got = None
            elif op == 's_a':
                _ = asig.s_a
                got = None
            else:
                got = asig.response_series()
            hist.append(op)
            if got is not None:
                want = sdof.response_series(cur_a, dt, cur_rt, xi)
                ok = all(np.array_equal(x, y) for x, y in zip(got, want)) and got[0].shape == want[0].shape
                ctx.hist('object-history/' + op)
                ctx.oracle('AccSignal.response_series == response_series(current record, current periods, damping) after any history',
                           ok, {'history': list(hist), 'n': n, 'dt': dt, 'periods': cur_rt}, facts={'history': list(hist)})
                if rng.random() < 0.5:
                    # the caller edits the arrays it was handed (scale, abs in place): later calls must not see that
                    got[0][...] *= 100.0
                    np.abs(got[1], out=got[1])
                    got[2][...] = 0.0
                    hist.append('(caller edits the returned arrays in place)')
        ctx.count_case(('hist', a.tobytes(), tuple(hist)), True, sample={'fn': 'AccSignal history', 'history': hist} if i < 2 else None)


# ---- extras (round-3 lessons): extreme magnitudes -----------------------------------------------------------------------------------------

def extras(ctx):
    """the response is homogeneous of degree one in the record: response(2^k a) == 2^k response(a) bit for bit, through all three entry
    points, also for |k| = 600 (records around 1e-180 / 1e+180): no shortcut, tolerance or squared magnitude may depend on the scale"""
    import eqsig
    from eqsig import sdof
    rng = ctx.rng
    for it in range(6 if ctx.tier == 'quick' else 60):
        n = rng.randint(8, 120)
        dt = rng.choice([0.01, 0.005, 0.02, 0.1])
        a = gen.noise_record(rng, n) if it % 2 else gen.dyadic_record(rng, n)
        if not np.any(a):
            a[n // 2] = 1.0
        periods = [rng.choice([0.05, 0.1, 0.3, 1.0, 2.5]) for _ in range(rng.randint(1, 3))]
        if rng.random() < 0.4:
            periods = [0.0] + periods
        xi = rng.choice([0.0, 0.05, 0.3])
        base = call_impl(sdof.response_series, a, dt, np.array(periods), xi)
        if base[0] != 'ok':
            continue
        for k in gen.EXTREME_POW2:
            sc = 2.0 ** k
            ctx.hist(f'extreme-scale/2^{k}')
            ctx.count_case(('extreme', a.tobytes(), dt, tuple(periods), xi, k), True)
            calls = [('sdof.response_series', lambda: sdof.response_series(a * sc, dt, np.array(periods), xi)),
                     ('sdof.nigam_and_jennings_response', lambda: sdof.nigam_and_jennings_response(a * sc, dt, np.array(periods), xi)),
                     ('AccSignal.response_series', lambda: ctx.aged(eqsig.AccSignal, a * sc, dt).response_series(np.array(periods), xi))]
            for name, f in calls:
                r = call_impl(f)
                ok = r[0] == 'ok' and all(gen.scaled_exactly(np.asarray(g), np.asarray(b), sc) for g, b in zip(r[1], base[1]))
                ctx.oracle('C01 the three series are homogeneous in the record: response(2^k a) == 2^k response(a) exactly, also for records '
                           'around 1e-180 / 1e+180 (%s)' % name, ok,
                           {'a': a, 'dt': dt, 'periods': periods, 'xi': xi, 'scale': f'2**{k}'},
                           detail=None if ok else {'result': r[0] if r[0] != 'ok' else [float(np.max(np.abs(g))) for g in r[1]],
                                                   'expected_peaks': [float(np.max(np.abs(b))) * sc for b in base[1]]})


def extras_time(ctx):
    """time-scale covariance: response(a, s*dt, s*T) = (s^2 u, s v, acc) for every s > 0 -- no absolute time constant (a 'period is zero'
    tolerance, a smallest step) may enter.  Not bit-exact (w**3 goes through pow): 1e-9 of each row's peak."""
    from eqsig import sdof
    rng = ctx.rng
    for it in range(6 if ctx.tier == 'quick' else 40):
        n = rng.randint(8, 80)
        dt = rng.choice([0.01, 0.005, 0.02])
        a = gen.noise_record(rng, n)
        periods = np.array(sorted(dt * r for r in rng.sample([5.0, 8.0, 20.0, 40.0, 100.0], rng.randint(1, 3))))
        xi = rng.choice([0.0, 0.05, 0.3])
        base = call_impl(sdof.response_series, a, dt, periods, xi)
        if base[0] != 'ok':
            continue
        for k in (-30, -23, 30):
            s = 2.0 ** k
            ctx.hist(f'time-scale/2^{k}')
            ctx.count_case(('timescale', a.tobytes(), dt, tuple(periods), xi, k), True)
            r = call_impl(sdof.response_series, a, dt * s, periods * s, xi)
            ok = r[0] == 'ok'
            worst = None
            if ok:
                for name, got, want, f in zip('uva', r[1], base[1], (s * s, s, 1.0)):
                    for j in range(len(periods)):
                        pk = float(np.max(np.abs(want[j])))
                        e = float(np.max(np.abs(np.asarray(got[j]) / f - want[j])))
                        if e > 1e-9 * max(pk, 1e-300):
                            ok = False
                            worst = {'series': name, 'row': j, 'error': e, 'peak': pk}
            ctx.oracle('C01 time-scale covariance: response(a, s dt, s T) == (s^2 u, s v, a_osc) (1e-9 of the row peak), also for steps around 1e-11 s / 1e+7 s', ok,
                       {'a': a, 'dt': dt, 'periods': periods, 'xi': xi, 'time_scale': f'2**{k}'}, detail=worst if r[0] == 'ok' else r)


_run_main = run


def run(ctx):
    _run_main(ctx)
    extras(ctx)
    extras_time(ctx)
    ctx.flush()


# ---- extras2 (harness extension hx_a): large instances, containers / dtypes, arrays handed out earlier -------------------------------------
#
# Not demanded: a joint rescaling of dt and the periods by a power of two (the response would scale by 4^j, 2^j, 1) -- compute_a_and_b forms
# w ** 3 through libm pow, which need not commute with a power of two bit for bit; sdof.single_elastic_response / slow_response_spectra (a
# rectangle-rule Duhamel sum, O(dt) accurate: not the exact solution the property speaks about).

def _x2_phi(x):
    """phi1(x) = (e^x - 1)/x and phi2(x) = (e^x - 1 - x)/x^2 for complex x, by their Taylor series where the closed form cancels"""
    x = complex(x)
    if abs(x) < 0.5:
        p1, p2, t = 0j, 0j, 1 + 0j
        for k in range(1, 26):          # t = x^(k-1)/(k-1)!
            p1 += t / k
            p2 += t / (k * (k + 1))
            t *= x / k
        return p1, p2
    e = np.exp(x)
    return (e - 1) / x, (e - 1 - x) / (x * x)


def _x2_exact_row(a, dt, T, xi):
    """the exact zero-initial-condition solution of u'' + 2 xi w u' + w^2 u = a(t), w = 2 pi / T (true pi), a(t) piecewise linear, at the sample
    instants -- written independently of Nigam & Jennings' matrices: with lam = -xi w + i w_d the complex variable y = u' - conj(lam) u obeys
    y' = lam y + f, which integrates in closed form over a step with linear f; one complex first-order recurrence (scipy lfilter), O(n)"""
    from scipy.signal import lfilter
    w = 2 * math.pi / T
    wd = w * math.sqrt(1 - xi * xi)
    lam = complex(-xi * w, wd)
    p1, p2 = _x2_phi(lam * dt)
    i0, i1 = dt * p1, dt * p2
    f = np.asarray(a, dtype=float)          # the library's sign convention: the right-hand side is +a(t)
    g = np.concatenate([[0.0], f[:-1] * (i0 - i1) + f[1:] * i1])
    y = lfilter([1.0], [1.0, -np.exp(lam * dt)], g.astype(complex))
    u = y.imag / wd
    return u, y.real - xi * w * u


def x2_large(ctx):
    """LARGE instances (records of 5 000 - 60 000 samples, more than 2^20 period x sample cells): the clauses of C01 evaluated in O(cells) --
    identical arrays from the three entry points, the third series, the T = 0 row, zero initial state; the exact solution (independent O(n)
    closed-form integration with the true 2 pi, property tolerance) on a few rows; decomposition (row i == the single-period call, the response
    to the first m samples == the first m columns, both bit for bit)"""
    import eqsig
    from eqsig import sdof
    rng = ctx.rng
    quick = ctx.tier == 'quick'
    jobs = [(16000, 2, 2), (5500, 200, 3), (60000, 1, 1)] if quick else [(20000, 2, 3), (5500, 200, 3), (60000, 1, 3), (5000, 300, 3), (8192, 140, 3), (33000, 40, 3), (5001, 215, 2)]
    # source hints: record lengths around every new integer constant; period counts that put the number of period x sample cells just above it
    jobs = jobs + [(m, 2, 2) for m in gen.hint_sizes(ctx, lo=301, hi=400000, cap=6)] + [(5500, c // 5500 + 1, 2) for c in gen.hint_sizes(ctx, lo=2 ** 17, hi=6000000, cap=2)]
    for n, P, n_entry in jobs:
        dt = rng.choice([0.01, 0.005, 0.02])
        a = gen.noise_record(rng, n) * np.exp(-((np.arange(n) - n / 3) / (n / 5)) ** 2)
        a[n - 1 - rng.randrange(20)] = rng.choice([-2.0, 2.0])         # something happens at the very end of the record as well
        periods = np.exp(np.linspace(math.log(rng.uniform(3, 12) * dt), math.log(rng.uniform(200, 2000) * dt), P)) if P > 1 else np.array([rng.uniform(8, 80) * dt])
        lead0 = rng.random() < 0.5
        if lead0:
            periods = np.concatenate([[0.0], periods])
        NP = len(periods)
        xi = rng.choice([0.0, 0.02, 0.05, 0.3])
        inputs = {'acc': f'gaussian noise x gaussian envelope, n={n}, one sample of +-2 among the last 20 (seed-derived)', 'dt': dt, 'xi': xi, 'cells': NP * n,
                  'periods': ('0, ' if lead0 else '') + f'{P} log-spaced {periods[-P] / dt:.4g}*dt .. {periods[-1] / dt:.4g}*dt'}
        ctx.hist(f'large/{NP}x{n}')
        ctx.count_case(('x2-large', n, P, dt, xi, lead0, a[:8].tobytes()), True, sample={'fn': 'response_series (large instance)', **inputs})
        snap = a.copy()
        r1 = call_impl(sdof.response_series, a, dt, periods, xi)
        if r1[0] != 'ok':
            ctx.oracle('response_series returns on its domain', False, inputs, detail=r1)
            continue
        u, v, ac = r1[1]
        others = [('AccSignal.response_series', lambda: eqsig.AccSignal(a, dt).response_series(response_times=periods, xi=xi)),
                  ('nigam_and_jennings_response', lambda: sdof.nigam_and_jennings_response(a, dt, list(periods), xi))][:n_entry - 1]
        for name, f in others:
            r = call_impl(f)
            ctx.oracle('all entry points return identical arrays [large instance]', r[0] == 'ok' and all(np.array_equal(x, y) for x, y in zip(r[1], r1[1])), {**inputs, 'entry': name})
        ctx.oracle('input record unchanged', bool(np.array_equal(snap, a)), inputs)
        ctx.oracle('C01.d shapes are len(periods) x len(record) [large instance]', u.shape == v.shape == ac.shape == (NP, n), inputs)
        if not (u.shape == v.shape == ac.shape == (NP, n)):
            continue
        s = 1 if lead0 else 0
        if lead0:
            ctx.oracle('C01.e leading T=0: zero displacement/velocity rows, sign-flipped record as acceleration [large instance]',
                       bool(np.all(u[0] == 0) and np.all(v[0] == 0) and np.array_equal(ac[0], -a)), inputs)
        w = 6.2831853 / periods[s:]
        want = -2 * xi * w[:, None] * v[s:] - (w ** 2)[:, None] * u[s:]
        scale = np.maximum(np.abs(want).max(axis=1), 1e-300)[:, None]
        ctx.oracle('C01.d third series == -(2 xi w v + w^2 u) sample by sample [large instance]', bool(np.all(np.abs(ac[s:] - want) <= 1e-12 * scale)), inputs)
        ctx.oracle('zero initial conditions [large instance]', bool(np.all(u[:, 0] == 0) and np.all(v[:, 0] == 0)), inputs)
        ctx.oracle('all three series are finite [large instance]', bool(np.all(np.isfinite(u)) and np.all(np.isfinite(v)) and np.all(np.isfinite(ac))), inputs)
        # the exact solution on a few rows
        amax = float(np.max(np.abs(a)))
        for j in sorted(set([s, NP - 1] + [rng.randrange(s, NP) for _ in range(2)])):
            T = float(periods[j])
            ru, rv = _x2_exact_row(a, dt, T, xi)
            tol = prop_tol(dt, T, n)
            wn = 2 * math.pi / T
            pu, pv = max(float(np.max(np.abs(ru))), 1e-300), max(float(np.max(np.abs(rv))), 1e-300)
            durT = n * dt / T
            # same reading of 'relative to the series peak' as the 40-digit reference above: the phase drift of 6.2831853 vs 2 pi acts on the natural
            # scale a_max/w (velocity), a_max/w^2 (displacement)
            eu = float(max(0.0, np.max(np.abs(u[j] - ru)) - 2e-8 * (1 + durT) * amax / wn ** 2) / pu)
            ev = float(max(0.0, np.max(np.abs(v[j] - rv)) - 2e-8 * (1 + durT) * amax / wn) / pv)
            ctx.hist('large/exact-solution rows')
            ctx.gap('vs-exact-solution(large instances)/u,v (relative to property tolerance)', max(eu, ev) / tol)
            ctx.oracle('C01 displacement/velocity == exact solution of u\'\'+2 xi w u\'+w^2 u = a(t) (independent closed-form integration, property tolerance) [large instance]',
                       eu <= tol and ev <= tol, {**inputs, 'period_index': j, 'period': T}, detail={'err_u': eu, 'err_v': ev, 'tol': tol})
        # decomposition
        j = rng.randrange(s, NP)
        if NP > 1:
            one = call_impl(sdof.response_series, a, dt, periods[j:j + 1], xi)
            ctx.oracle('row i of a large job == the response computed for that period alone (==)',
                       one[0] == 'ok' and all(np.asarray(o).shape == (1, n) and np.array_equal(np.asarray(o)[0], wq[j]) for o, wq in zip(one[1], (u, v, ac))), {**inputs, 'row': j})
        m = rng.choice([n // 3, 4097, 5000] if quick else [n // 2, 4097, n - 1])
        rows = sorted(set([0, j]))
        pre = call_impl(sdof.response_series, a[:m], dt, periods[rows], xi) if not (lead0 and rows[0] != 0) else None
        if pre is not None:
            ctx.oracle('the response to the first m samples of a long record == the first m columns of the response to the whole record (==)',
                       pre[0] == 'ok' and all(np.array_equal(np.asarray(o), wq[rows][:, :m]) for o, wq in zip(pre[1], (u, v, ac))), {**inputs, 'm': m, 'rows': rows})


def x2_containers(ctx):
    """records given as list / tuple / int32 / int64 / float32 / strided ndarray, or as a narrow integer dtype with values near the dtype's
    limits, give exactly the response of the same numbers in float64 through all three entry points; likewise float32 / strided / integer
    period containers; arrays returned by an earlier call are not overwritten by a later one"""
    import eqsig
    from eqsig import sdof
    rng = ctx.rng
    for it in range(14 if ctx.tier == 'quick' else 140):
        n = gen.log_int(rng, 2, 120)
        dt = rng.choice([0.01, 0.02, 0.005, 0.25, 0.5])
        whole = it % 2 == 0
        a = gen.int_record(rng, n) if whole else gen.dyadic_record(rng, n)
        periods = [dt * rng.choice([0.5, 2.0, 6.0, 8.0, 16.0, 64.0, 512.0]) for _ in range(rng.randint(1, 3))]
        if rng.random() < 0.3:
            periods = [0.0] + periods
        parr = np.array(periods)
        xi = rng.choice([0.0, 0.05, 0.3, 0.9])
        base = call_impl(sdof.response_series, a, dt, parr, xi)
        ctx.count_case(('x2-cont', a.tobytes(), dt, tuple(periods), xi), gen.nontrivial_record(a))
        if base[0] != 'ok':
            continue
        keep = [np.array(x, copy=True) for x in base[1]]
        variants = [(lab, c, a) for lab, c in gen.container_variants(a)]
        if whole:
            variants += gen.narrow_int_variants(a)
        for lab, c, fl in variants:
            ctx.hist('record container=' + lab)
            want = base if fl is a else call_impl(sdof.response_series, fl, dt, parr, xi)
            entries = [('response_series', lambda: sdof.response_series(c, dt, parr, xi)), ('nigam_and_jennings_response', lambda: sdof.nigam_and_jennings_response(c, dt, parr, xi)),
                       ('AccSignal.response_series', lambda: ctx.aged(eqsig.AccSignal, fl, dt).response_series(response_times=parr, xi=xi) if not isinstance(c, np.ndarray)
                        else eqsig.AccSignal(c, dt).response_series(response_times=parr, xi=xi))]
            for name, f in entries:
                r = call_impl(f)
                ok = r[0] == want[0] == 'ok' and all(np.asarray(x).dtype == np.float64 and np.array_equal(x, y) for x, y in zip(r[1], want[1]))
                ctx.oracle('a record given as list / tuple / integer (any width) / float32 / strided ndarray gives the float64 response of the same numbers, through every entry point (==)',
                           ok, {'acc': fl, 'dt': dt, 'periods': periods, 'xi': xi, 'container': lab, 'entry': name}, detail=None if r[0] == 'ok' else r)
        pvs = [('strided', gen.container_variants(parr, arrays_only=True)[-1][1])]
        if np.array_equal(parr.astype(np.float32).astype(float), parr):
            pvs.append(('float32', parr.astype(np.float32)))
        if np.all(parr == np.round(parr)):
            pvs += [('int64', parr.astype(np.int64)), ('list of ints', [int(x) for x in parr])]
        for lab, pc in pvs:
            ctx.hist('period container=' + lab)
            r = call_impl(sdof.response_series, a, dt, pc, xi)
            ctx.oracle('periods given as float32 / strided / integer containers give the response of the same numbers in a float64 array (==)',
                       r[0] == 'ok' and all(np.array_equal(x, y) for x, y in zip(r[1], base[1])), {'acc': a, 'dt': dt, 'periods': periods, 'xi': xi, 'period container': lab})
        other = call_impl(sdof.response_series, -2.0 * a[::-1] + 1.0, dt, parr, xi)       # another record of the same length, same periods
        later = call_impl(lambda: ctx.aged(eqsig.AccSignal, 0.5 * a + 3.0, dt).response_series(response_times=parr, xi=xi))
        ctx.oracle('the arrays returned by response_series are not overwritten by later calls (other records of the same length, same periods)',
                   all(np.array_equal(x, y) for x, y in zip(base[1], keep)), {'acc': a, 'dt': dt, 'periods': periods, 'xi': xi}, detail=(other[0], later[0]))


def extras2(ctx):
    x2_large(ctx)
    x2_containers(ctx)


_run_main2 = run


def run(ctx):
    _run_main2(ctx)
    extras2(ctx)
    ctx.flush()


# evidence: how the model is tied to the source on every run (as built, supersedes the value above)
TIE = 'translator (compute_a_and_b -> Gen/SdofAB*, the recurrence loop and assembly of nigam_and_jennings_response -> Gen/SdofLoop, constant -> Gen/Consts; bridges Props/C01Gen, Lemmas/SdofODE) + correspondence (all three entry points, object histories) + 40-digit reference oracle'
