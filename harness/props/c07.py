"""C07 — Konno-Ohmachi smoothing is a normalised non-negative log-frequency window."""
import math
from fractions import Fraction

import numpy as np

import gen
from core import fr, w_rat, w_rats, w_float, w_floats, p_rats, p_floats, p_ints, cmp_exact, cmp_budget, call_impl

RULE = ("array level: Fourier grids of 2..40 (quick) / 2..120 (thorough) bins, uniform (k*df, with the zero-frequency bin) or "
        "positive non-uniform (without it); spectra random positive / constant / single spike / signed / dyadic / complex; target "
        "sets None (the grid itself), inside, outside, exactly on the grid, mixed, log-spaced; band in {5, 20, 40, 100} and uniform "
        "in [5, 100]. object level: Signal/AccSignal records of 8..200 (1000) samples with default and custom smoothing frequencies; "
        "bandwidth ratios {0.3, 0.5, 0.707, 0.9, 0.999} (+ 1.0 for the error branch). distinct = hash of (grid, spectrum, targets, "
        "band); non-trivial = at least 2 non-zero-frequency bins and a non-constant spectrum")
TIE = ("translator (the Konno-Ohmachi window expression of both functions is regenerated from eqsig/fns/frequency.py; rfl bridge Props/C07Gen to the model) + correspondence: the exact rational kernel Model/Frequency.smoothCore is run on the implementation's own raw "
       "window values (budget 1e-12), the Float twin of the whole function incl. the window (sin/log10 from libm) within 1e-9; "
       "bandwidth functions exactly")
NOT_PROVED = ["log10 / sin rounding of the window (Float twin vs impl, measured)",
              "off-grid targets: positivity of a column sum needs one non-vanishing window value (explicit hypothesis of "
              "C07.ko_column_sum_pos_of_exists; cannot fail in binary64) — evaluated numerically on every case",
              "target frequency 0 or negative (outside the domain: the code returns NaN)"]
BANDS = [5, 20, 40, 100]


# ------------------------------------------------------------------------------------------------
# independent window
# ------------------------------------------------------------------------------------------------

PROP_MODULES = ['C07', 'C07Gen', 'C07GenBand', 'C07SmoothFreqs', 'C07GenSmoothFreqs']

def ko_weight(band, f, fc):
    x = band * math.log10(f / fc)
    if x == 0:
        return 1.0
    return (math.sin(x) / x) ** 4


def ko_columns(band, fs, sm):
    """normalised Konno-Ohmachi weights, column j for target sm[j] (independent of the code: scalar math)"""
    cols = []
    for fc in sm:
        w = [ko_weight(band, f, fc) for f in fs]
        s = math.fsum(w)
        cols.append([x / s for x in w])
    return cols


def code_intermediates(fa_freqs, smooth, band):
    """the code's own intermediate arrays (same expressions as calc_smooth_fa_spectrum) for the exact-kernel correspondence"""
    f = np.asarray(fa_freqs, dtype=float)
    if f[0] == 0:
        f = f[1:]
    sm = f if smooth is None else np.asarray(smooth, dtype=float)
    with np.errstate(all='ignore'):
        amp = band * np.log10(f[:, np.newaxis] / sm[np.newaxis, :])
        raw = (np.sin(amp) / amp) ** 4
    return f, sm, amp, np.where(np.isnan(raw), 0.0, raw)


def cmp_q(ctx, fn, toks, val, tol=Fraction(1, 10**12)):
    msg, g = cmp_budget([float(x) for x in np.asarray(val).reshape(-1)], p_rats(toks), tol, abs_floor=Fraction(1, 10**300))
    ctx.gap(fn, g)
    return msg


def cmp_f(ctx, fn, toks, val, tol=Fraction(1, 10**9)):
    msg, g = cmp_budget([float(x) for x in np.asarray(val).reshape(-1)], p_floats(toks), tol, abs_floor=Fraction(1, 10**300))
    ctx.gap(fn, g)
    return msg


# ------------------------------------------------------------------------------------------------
# array-level case
# ------------------------------------------------------------------------------------------------

def array_case(ctx, kind, fr_, A, sm, band, small):
    from eqsig.fns import frequency as fq
    rng = ctx.rng
    fr_ = np.asarray(fr_, dtype=float)
    A = np.asarray(A)
    zero_bin = bool(fr_[0] == 0)
    fs = fr_[1:] if zero_bin else fr_
    Ap = np.abs(A[1:] if zero_bin else A)
    smv = fs if sm is None else np.asarray(sm, dtype=float)
    inputs = {'fa_frequencies': fr_, 'fa_spectrum': A, 'smooth_fa_frequencies': sm, 'band': band, 'kind': kind}
    ctx.hist('array/' + kind)
    ctx.hist('zero_bin=' + str(zero_bin))
    ctx.hist('targets=' + ('None' if sm is None else 'given'))
    ctx.hist('band=' + (str(band) if band in BANDS else 'other'))
    ctx.count_case((fr_.tobytes(), A.tobytes(), None if sm is None else smv.tobytes(), band), len(fs) >= 2 and len(set(Ap.tolist())) > 1,
                   sample={'fn': 'calc_smooth_fa_spectrum', 'bins': len(fr_), 'targets': None if sm is None else len(smv), 'band': band, 'kind': kind}
                   if ctx.evaluations % 53 == 0 else None)
    snaps = (fr_.copy(), A.copy(), None if sm is None else np.array(sm, dtype=float).copy())
    rs = call_impl(fq.calc_smooth_fa_spectrum, fr_, A, sm, band=band)
    rm = call_impl(fq.calc_smoothing_matrix_konno_1998, fr_, sm, band=band)
    ctx.oracle('input arrays unchanged', np.array_equal(fr_, snaps[0]) and np.array_equal(A, snaps[1]) and
               (sm is None or np.array_equal(np.asarray(sm, dtype=float), snaps[2])), inputs)
    # ---- correspondence
    _, _, amp, raw = code_intermediates(fr_, sm, band)
    m = len(fs)
    realA = np.abs(A) if np.iscomplexobj(A) else A.astype(float)
    if small:
        ctx.corr('calc_smooth_fa_spectrum (exact kernel on the impl raw weights)',
                 f"smooth_core_q|{w_rats(fr_)}|{w_rats(realA)}|{m}|{w_rats(amp.T.flatten())}|{w_rats(raw.T.flatten())}", rs,
                 lambda outs, val: cmp_q(ctx, 'smooth_core_q', outs[0], val), inputs=inputs)
        ctx.corr('calc_smoothing_matrix_konno_1998 (exact kernel)',
                 f"smooth_matrix_q|{m}|{w_rats(amp.T.flatten())}|{w_rats(raw.T.flatten())}", rm,
                 lambda outs, val: cmp_q(ctx, 'smooth_matrix_q', outs[0], np.asarray(val).T), inputs=inputs)
    ctx.corr('calc_smooth_fa_spectrum (Float twin)',
             f"smooth_f|{w_float(band)}|{w_floats(fr_)}|{w_floats(realA)}|{'-' if sm is None else w_floats(smv)}", rs,
             lambda outs, val: cmp_f(ctx, 'smooth_f', outs[0], val), inputs=inputs)
    ctx.corr('calc_smoothing_matrix_konno_1998 (Float twin)',
             f"smooth_matrix_f|{w_float(band)}|{w_floats(fr_)}|{'-' if sm is None else w_floats(smv)}", rm,
             lambda outs, val: cmp_f(ctx, 'smooth_matrix_f', outs[0], np.asarray(val).T), inputs=inputs)
    if rs[0] != 'ok' or rm[0] != 'ok':
        ctx.oracle('C07 smoothing returns on its domain (positive target frequencies)', False, inputs, detail=[rs[0], rm[0]])
        return
    real_ok = not np.iscomplexobj(np.asarray(rs[1])) and not np.iscomplexobj(np.asarray(rm[1]))
    ctx.oracle('C07.b smoothed amplitudes and weights are real numbers', real_ok, inputs)
    if not real_ok:
        return
    s = np.asarray(rs[1], dtype=float)
    M = np.asarray(rm[1], dtype=float)
    on_grid = [j for j, fc in enumerate(smv) if fc in set(fs.tolist())]
    facts = {'on_grid_targets': len(on_grid), 'zero_bin': zero_bin}
    # ---- C07.a
    ctx.oracle('C07.a smoothing matrix has one row per non-zero Fourier frequency and one column per target', M.shape == (len(fs), len(smv)), inputs,
               detail={'shape': list(M.shape)})
    ctx.oracle('C07.a weights are non-negative', bool(np.all(M >= 0)), inputs, facts=facts)
    ctx.oracle('C07.a every column of weights sums to 1', bool(np.all(np.abs(M.sum(axis=0) - 1) <= 1e-12)) if M.size else True, inputs,
               detail={'col_sums': M.sum(axis=0)[:8]}, facts=facts)
    # ---- C07.c window formula (weight 1 at f = fc before normalisation)
    if M.shape == (len(fs), len(smv)) and M.size:
        cols = np.array(ko_columns(band, fs.tolist(), smv.tolist())).T
        dev = np.abs(M - cols)
        okw = bool(np.all(dev <= 1e-9 * np.maximum(cols.max(axis=0), 1e-300)[np.newaxis, :]))
        ctx.oracle('C07.c weights are the normalised window [sin(b log10(f/fc)) / (b log10(f/fc))]^4 with weight 1 at f = fc', okw, inputs,
                   detail={'max_dev': float(dev.max())}, facts=facts)
        for j in on_grid[:3]:
            i0 = int(np.where(fs == smv[j])[0][0])
            i1 = (i0 + 1) % len(fs)
            if i1 != i0 and M[i0, j] > 0:
                want = ko_weight(band, fs[i1], smv[j])
                ctx.oracle('C07.c weight ratio to the centre bin is the raw window value (centre weight 1)',
                           abs(M[i1, j] / M[i0, j] - want) <= 1e-9 * max(want, 1e-12) + 1e-300, inputs,
                           detail={'target': float(smv[j]), 'ratio': float(M[i1, j] / M[i0, j]), 'window': want})
    # ---- C07.b
    ctx.oracle('C07.b one smoothed value per target frequency', s.shape == (len(smv),), inputs, detail={'shape': list(s.shape)})
    ctx.oracle('C07.c smoothed spectrum is finite (also when a target coincides with a Fourier frequency)', bool(np.all(np.isfinite(s))), inputs,
               facts=facts)
    ctx.oracle('C07.c weights are finite (also when a target coincides with a Fourier frequency)', bool(np.all(np.isfinite(M))), inputs, facts=facts)
    if not (np.all(np.isfinite(s)) and np.all(np.isfinite(M))):
        return
    if len(Ap) and s.shape == (len(smv),):
        lo, hi = float(Ap.min()), float(Ap.max())
        eps = 1e-12 * max(hi, 1e-300)
        ctx.oracle('C07.b min|A| <= smooth_j <= max|A| over the non-zero-frequency bins', bool(np.all(s >= lo - eps) and np.all(s <= hi + eps)), inputs,
                   detail={'min': lo, 'max': hi, 'smooth_min': float(s.min()), 'smooth_max': float(s.max())}, facts=facts)
        if M.shape == (len(fs), len(smv)):
            direct = np.array([math.fsum(float(Ap[i]) * float(M[i, j]) for i in range(len(fs))) for j in range(len(smv))])
            ctx.oracle('C07.b smoothed amplitude is the weighted mean sum_i |A_i| w_ij', bool(np.all(np.abs(s - direct) <= 1e-12 * max(hi, 1e-300))), inputs)
        alpha = rng.choice([-3.0, 0.5, 2.0, -1.0, 1e3])
        s2 = np.asarray(fq.calc_smooth_fa_spectrum(fr_, alpha * A, sm, band=band))
        ctx.oracle('C07.b smooth(alpha*A) == |alpha| * smooth(A)', bool(np.all(np.abs(s2 - abs(alpha) * s) <= 1e-12 * abs(alpha) * max(hi, 1e-300))),
                   {**inputs, 'alpha': alpha})
        c = rng.choice([1.0, 2.5, 0.125, 7e-3])
        s3 = np.asarray(fq.calc_smooth_fa_spectrum(fr_, np.full(len(fr_), c), sm, band=band))
        ctx.oracle('C07.b a constant spectrum is reproduced', bool(np.all(np.abs(s3 - c) <= 1e-12 * c)), {**inputs, 'constant': c},
                   detail={'max_dev': float(np.max(np.abs(s3 - c))) if len(s3) else 0.0})
        # deprecated alias with the other argument order
        if sm is not None:
            s4 = np.asarray(fq.generate_smooth_fa_spectrum(smv, fr_, A, band=band))
            ctx.oracle('generate_smooth_fa_spectrum (deprecated argument order) == calc_smooth_fa_spectrum', np.array_equal(s4, s), inputs)
    # ---- matrix form == direct form (needs the zero-frequency bin: the custom-matrix function always drops the first bin)
    if zero_bin and M.shape == (len(fs), len(smv)):
        class _Sig:   # the function only reads .fa_spectrum
            pass
        o = _Sig()
        o.fa_spectrum = A
        rc = call_impl(fq.calc_smooth_fa_spectrum_w_custom_matrix, o, M)
        okc = rc[0] == 'ok' and np.asarray(rc[1]).shape == s.shape and bool(np.all(np.abs(np.asarray(rc[1]) - s) <= 1e-12 * max(float(Ap.max()) if len(Ap) else 0.0, 1e-300)))
        ctx.oracle('C07.b matrix form (calc_smooth_fa_spectrum_w_custom_matrix) == direct form', okc, inputs)
        if small:
            ctx.corr('calc_smooth_fa_spectrum_w_custom_matrix', f"smooth_w_matrix_q|{w_rats(realA)}|{len(fs)}|{w_rats(M.T.flatten())}", rc,
                     lambda outs, val: cmp_q(ctx, 'smooth_w_matrix_q', outs[0], val), inputs=inputs)


# ------------------------------------------------------------------------------------------------
# object level + bandwidth
# ------------------------------------------------------------------------------------------------

def object_case(ctx, kind, v, dt, sm, band, cls_name):
    import eqsig
    from eqsig import im
    from eqsig.fns import frequency as fq
    rng = ctx.rng
    cls = getattr(eqsig, cls_name)
    inputs = {'values': v, 'dt': dt, 'smooth_fa_frequencies': sm, 'band': band, 'cls': cls_name, 'kind': kind}
    ctx.hist('object/' + cls_name)
    ctx.hist('object/' + kind)
    ctx.count_case((np.asarray(v).tobytes(), dt, None if sm is None else np.asarray(sm).tobytes(), band, cls_name), len(v) >= 4 and len(set(np.asarray(v).tolist())) > 1,
                   sample={'fn': cls_name + '.smooth_fa_spectrum', 'npts': len(v), 'dt': dt, 'band': band} if ctx.evaluations % 31 == 0 else None)
    asig = cls(np.array(v), dt)
    if sm is not None:
        if rng.random() < 0.5:
            asig.smooth_fa_frequencies = np.array(sm)
        else:
            asig = cls(np.array(v), dt, smooth_fa_freqs=np.array(sm))
    if band == 40 and rng.random() < 0.5:
        s_obj = np.array(asig.smooth_fa_spectrum)
    else:
        asig.gen_smooth_fa_spectrum(band=band)
        s_obj = np.array(asig.smooth_fa_spectrum)
    smv = np.array(asig.smooth_fa_frequencies)
    fa_f = np.array(asig.fa_frequencies)
    fa_s = np.array(asig.fa_spectrum)
    s_arr = np.asarray(fq.calc_smooth_fa_spectrum(fa_f, fa_s, smv, band=band))
    M = fq.calc_smoothing_matrix_konno_1998(fa_f, smv, band=band)
    s_mat = np.asarray(fq.calc_smooth_fa_spectrum_w_custom_matrix(asig, M))
    scale = max(float(np.max(np.abs(fa_s[1:]))) if len(fa_s) > 1 else 0.0, 1e-300)
    ctx.oracle('C07.b Signal.smooth_fa_spectrum == calc_smooth_fa_spectrum == matrix form', s_obj.shape == s_arr.shape == s_mat.shape and
               bool(np.all(np.abs(s_obj - s_arr) <= 1e-12 * scale) and np.all(np.abs(s_mat - s_arr) <= 1e-12 * scale)), inputs,
               detail={'max_dev_obj': float(np.max(np.abs(s_obj - s_arr))) if s_obj.shape == s_arr.shape and s_arr.size else None})
    ok_real = not np.iscomplexobj(s_obj) and bool(np.all(np.isfinite(s_obj)))
    ctx.oracle('C07.c smoothed spectrum is real and finite (object level)', ok_real, inputs)
    if not ok_real:
        return
    if len(fa_s) > 1:
        lo, hi = float(np.abs(fa_s[1:]).min()), float(np.abs(fa_s[1:]).max())
        ctx.oracle('C07.b min|A| <= smooth_j <= max|A| (object level)', bool(np.all(s_obj >= lo - 1e-12 * scale) and np.all(s_obj <= hi + 1e-12 * scale)), inputs)
    ctx.corr('Signal.smooth_fa_spectrum (Float twin)', f"smooth_f|{w_float(band)}|{w_floats(fa_f)}|{w_floats(np.abs(fa_s))}|{w_floats(smv)}", ('ok', s_obj),
             lambda outs, val: cmp_f(ctx, 'smooth_f(object)', outs[0], val), inputs=inputs)
    # ---- C07.d bandwidth
    for ratio in (rng.choice([0.3, 0.5, 0.707, 0.9, 0.999]), 0.707, 1.0):
        bw_case(ctx, asig, s_obj, smv, ratio, inputs)
    # the bandwidth functions only read the smoothed spectrum: the object's (cached) spectrum must be bit-for-bit what it was
    ctx.oracle('C07 the bandwidth functions leave the object\'s smoothed spectrum unchanged', np.array_equal(np.asarray(asig.smooth_fa_spectrum), s_obj),
               inputs, detail={'max_dev': float(np.max(np.abs(np.asarray(asig.smooth_fa_spectrum) - s_obj))) if len(s_obj) else 0.0})
    for ratio in (15, 2.0):
        ri = call_impl(fq.get_sig_array_indexes_range, s_obj, ratio=ratio)
        rf = call_impl(fq.get_sig_freq_range, asig, ratio=ratio)
        mx = max(s_obj) if len(s_obj) else 0.0
        if not borderline(s_obj, mx / ratio, fr(mx) / fr(ratio)):
            ctx.corr('get_sig_array_indexes_range', f"sig_idx_range_q|{w_rat(ratio)}|{w_rats(s_obj)}", ri,
                     lambda outs, val: cmp_exact([int(val[0]), int(val[1])], p_ints(outs[0])), inputs={**inputs, 'ratio': ratio})
        if ri[0] == 'ok':
            idx = [i for i, x in enumerate(s_obj) if x > mx / ratio]
            ctx.oracle('get_sig_array_indexes_range == first and last index above max/ratio; get_sig_freq_range the frequencies there',
                       [int(ri[1][0]), int(ri[1][1])] == [idx[0], idx[-1]] and rf[0] == 'ok' and
                       [float(x) for x in rf[1]] == [float(smv[idx[0]]), float(smv[idx[-1]])], {**inputs, 'ratio': ratio})


    # ---- object history: an explicit regeneration with another bandwidth after the spectrum has been read must take effect
    for meth in ('generate_smooth_fa_spectrum', 'gen_smooth_fa_spectrum'):
        band2 = rng.choice([b for b in (5, 10, 20, 40, 80, 100) if b != band])
        getattr(asig, meth)(band=band2)
        s2 = np.asarray(asig.smooth_fa_spectrum)
        want2 = np.asarray(fq.calc_smooth_fa_spectrum(fa_f, fa_s, smv, band=band2))
        ctx.hist('object-history/' + meth + '(band) after a read')
        ctx.oracle('C07.b after ' + meth + '(band=b) the object\'s smoothed spectrum is the smoothing with bandwidth b (also when a spectrum was cached)',
                   s2.shape == want2.shape and bool(np.all(np.abs(s2 - want2) <= 1e-12 * scale)), {**inputs, 'band2': band2},
                   detail={'max_dev': float(np.max(np.abs(s2 - want2))) if s2.shape == want2.shape and want2.size else None})


def borderline(s, lim_float, lim_exact):
    """the float limit the code computes (max*ratio, max/ratio) is rounded: an entry that lies between it and the exact limit
    would be classified differently by the exact model — such cases are not sent to the model"""
    for x in s:
        if (float(x) > float(lim_float)) != (fr(x) > lim_exact):
            return True
    return False


def bw_case(ctx, asig, s_obj, smv, ratio, inputs):
    from eqsig import im
    inputs = {**inputs, 'ratio': ratio}
    ctx.hist(f'bandwidth/ratio={ratio}')
    rb = call_impl(im.calc_bandwidth_freqs, asig, ratio=ratio)
    rlo = call_impl(im.calc_bandwidth_f_min, asig, ratio=ratio)
    rhi = call_impl(im.calc_bandwidth_f_max, asig, ratio=ratio)
    mx = max(s_obj) if len(s_obj) else 0.0
    if not borderline(s_obj, mx * ratio, fr(mx) * fr(ratio)):
        req = f"{w_rat(ratio)}|{w_rats(s_obj)}|{w_rats(smv)}"
        ctx.corr('calc_bandwidth_freqs', 'bandwidth_q|' + req, rb,
                 lambda outs, val: cmp_exact([float(val[0]), float(val[1])], p_rats(outs[0])), inputs=inputs)
        ctx.corr('calc_bandwidth_f_min', 'bandwidth_fmin_q|' + req, rlo, lambda outs, val: cmp_exact([float(val)], p_rats(outs[0])), inputs=inputs)
        ctx.corr('calc_bandwidth_f_max', 'bandwidth_fmax_q|' + req, rhi, lambda outs, val: cmp_exact([float(val)], p_rats(outs[0])), inputs=inputs)
    if not (0 < ratio < 1) or mx <= 0:
        ctx.hist('bandwidth/outside the ordered domain (error branch compared only)')
        return
    if rb[0] != 'ok' or rlo[0] != 'ok' or rhi[0] != 'ok':
        ctx.oracle('C07.d bandwidth limits exist for 0 < ratio < 1 and a positive smoothed maximum', False, inputs, detail=[rb[0], rlo[0], rhi[0]])
        return
    fmin, fmax = float(rb[1][0]), float(rb[1][1])
    fpeak = float(smv[int(np.argmax(s_obj))])
    asc = bool(np.all(np.diff(smv) > 0))
    ctx.oracle('C07.d calc_bandwidth_f_min / f_max are the components of calc_bandwidth_freqs', float(rlo[1]) == fmin and float(rhi[1]) == fmax, inputs)
    if asc:
        ctx.oracle('C07.d f_min <= f_peak <= f_max (bandwidth limits are ordered and bracket the smoothed peak)', fmin <= fpeak <= fmax, inputs,
                   detail={'f_min': fmin, 'f_peak': fpeak, 'f_max': fmax})
    above = [i for i, x in enumerate(s_obj) if x > mx * ratio]
    ctx.oracle('C07.d limits are the first and last smoothing frequency whose amplitude exceeds ratio*max',
               bool(above) and fmin == float(smv[above[0]]) and fmax == float(smv[above[-1]]), inputs)


# ------------------------------------------------------------------------------------------------
# generators
# ------------------------------------------------------------------------------------------------

def grid(rng, n, zero_bin):
    if zero_bin:
        df = rng.choice([0.25, 0.5, 0.1, 1.0 / 64, 0.048828125, 0.3])
        return np.arange(n) * df
    if rng.random() < 0.5:
        return (np.arange(n) + 1) * rng.choice([0.5, 0.25, 0.1])
    return np.cumsum([rng.choice([0.25, 0.5, 1.0, 0.125]) for _ in range(n)])


def spectrum(rng, n, kind):
    if kind == 'positive':
        return np.array([abs(rng.gauss(0, 1)) + 0.1 for _ in range(n)])
    if kind == 'constant':
        return np.full(n, rng.choice([2.5, 1.0, 1e-3]))
    if kind == 'spike':
        a = np.zeros(n)
        a[rng.randrange(n)] = 3.0
        return a
    if kind == 'signed':
        return np.array([rng.gauss(0, 1) for _ in range(n)])
    if kind == 'dyadic':
        return gen.dyadic_record(rng, n)
    if kind == 'two-bin':
        a = np.zeros(n)
        a[rng.randrange(n)] = 1.0
        a[rng.randrange(n)] = 2.0
        return a
    return np.array([complex(rng.gauss(0, 1), rng.gauss(0, 1)) for _ in range(n)])


def targets(rng, fs, kind):
    lo, hi = float(fs[0]), float(fs[-1])
    if kind == 'None':
        return None
    if kind == 'inside':
        return np.sort(np.array([math.exp(rng.uniform(math.log(lo), math.log(max(hi, lo * 1.0001)))) for _ in range(rng.randint(1, 7))]))
    if kind == 'outside':
        return np.array([lo / rng.choice([2, 10, 100]), hi * rng.choice([1.5, 10, 100])])
    if kind == 'on-grid':
        k = rng.randint(1, min(5, len(fs)))
        return np.array(sorted(rng.sample(fs.tolist(), k)))
    if kind == 'mixed':
        return np.sort(np.array([lo / 3, float(fs[len(fs) // 2]), math.sqrt(lo * hi) * 1.01 if hi > lo else lo * 1.1, hi, hi * 4]))
    return np.logspace(math.log10(lo / 2), math.log10(hi * 2), rng.randint(3, 9))


CORPUS = [
    # constant spectrum, target exactly on the grid, the suite's exponent mutation (4 -> 2) survivor
    ('constant on-grid', np.arange(9) * 0.25, np.full(9, 2.5), np.array([0.5, 1.0, 2.0]), 40),
    ('two-bin', np.arange(5) * 0.5, np.array([0.0, 1.0, 0.0, 2.0, 0.0]), np.array([0.5, 0.75, 1.5, 3.0]), 20),
    ('no zero bin, None', np.array([0.5, 1.0, 1.5, 2.0]), np.array([1.0, -2.0, 3.0, 0.5]), None, 5),
    ('single bin', np.array([0.0, 1.0]), np.array([7.0, 3.0]), np.array([0.3, 1.0, 5.0]), 100),
]


def run(ctx):
    rng = ctx.rng
    quick = ctx.tier == 'quick'
    for kind, fr_, A, sm, band in CORPUS:
        array_case(ctx, 'corpus/' + kind, fr_, A, sm, band, small=True)
    ctx.flush()
    # ---- search space of the design: constant spectrum / two-bin spectra / targets on the grid, every band
    for n in range(2, 13):
        for band in BANDS:
            for zero_bin in (True, False):
                g = grid(rng, n, zero_bin)
                fs = g[1:] if zero_bin else g
                if len(fs) == 0:
                    continue
                for sk in ('constant', 'two-bin'):
                    array_case(ctx, sk, g, spectrum(rng, n, sk), targets(rng, fs, rng.choice(['on-grid', 'None'])), band, small=True)
    ctx.flush()
    # ---- random structured
    n_cases = 600 if quick else 6000
    nmax = 40 if quick else 120
    # source hints: bandwidth b, target frequencies (absolute, and relative to a grid frequency) at / around every new float constant
    hv_b, hv_f = gen.hint_values(ctx, 5.0, 100.0, cap=12), gen.hint_values(ctx, 1e-4, 1e4, cap=16, maps=(lambda c: c, lambda c: 1 / c))
    for i in range(n_cases):
        n = gen.log_int(rng, 2, nmax)
        zero_bin = rng.random() < 0.6
        g = grid(rng, n, zero_bin)
        fs = g[1:] if zero_bin else g
        if len(fs) == 0:
            continue
        sk = rng.choice(['positive', 'constant', 'spike', 'signed', 'dyadic', 'complex', 'positive'])
        tk = rng.choice(['None', 'inside', 'outside', 'on-grid', 'mixed', 'logspace'])
        band = rng.choice(BANDS) if rng.random() < 0.7 else round(rng.uniform(5, 100), 3)
        sm = targets(rng, fs, tk)
        if hv_b and rng.random() < 0.2:
            band = rng.choice(hv_b)
        if hv_f and rng.random() < 0.25:
            fm = float(fs[rng.randrange(len(fs))])
            sm = np.sort(np.array([r * fm for r in rng.sample(hv_f, min(len(hv_f), 3))] + [r for r in hv_f if float(fs[0]) / 100 <= r <= float(fs[-1]) * 100][:3] + [fm]))
        small = len(fs) * (len(fs) if sm is None else len(sm)) <= 400
        array_case(ctx, sk + '/' + tk, g, spectrum(rng, n, sk), sm, band, small)
        if i % 100 == 99:
            ctx.flush()
    ctx.flush()
    # ---- consecutive calls (state carried between calls): the same Fourier grid, band and NUMBER of targets with the same first and
    # last target but different interior points (log-spaced, then linearly spaced, then jittered), and grids of equal size sharing
    # their end points — every call is judged on its own, so a result cached from the previous call shows
    for i in range(40 if quick else 400):
        n = rng.randint(6, 30)
        g = grid(rng, n, True)
        fs = g[1:]
        m = rng.randint(4, 12)
        lo, hi = float(fs[0]) * rng.uniform(0.8, 1.5), float(fs[-1]) * rng.uniform(0.6, 1.1)
        band = rng.choice(BANDS)
        A = spectrum(rng, n, 'positive')
        sm_log = np.logspace(math.log10(lo), math.log10(hi), m)
        sm_lin = np.linspace(lo, hi, m)
        sm_jit = sm_lin.copy()
        sm_jit[1:-1] = np.sort(sm_lin[1:-1] * np.array([rng.uniform(0.9, 1.1) for _ in range(m - 2)]))
        sm_log[0], sm_log[-1], sm_jit[0], sm_jit[-1] = sm_lin[0], sm_lin[-1], sm_lin[0], sm_lin[-1]
        for sm in (sm_log, sm_lin, sm_jit):
            array_case(ctx, 'consecutive/same-ends', g, A, sm, band, small=True)
        g2 = g.copy()
        g2[2:-1] = np.sort(g[2:-1] * np.array([rng.uniform(0.95, 1.05) for _ in range(len(g) - 3)])) if len(g) > 4 else g2[2:-1]
        array_case(ctx, 'consecutive/grid-same-ends', g2, A, sm_lin, band, small=True)
        ctx.flush()
    # ---- object level
    n_obj = 120 if quick else 1200
    for i in range(n_obj):
        npts = gen.log_int(rng, 8, 200 if quick else 1000)
        dt = gen.any_dt(rng) if i % 3 else gen.dyadic_dt(rng) / 64
        kind, v = gen.any_record(rng, npts, dt)
        if kind in ('big', 'tiny'):
            kind, v = 'noise', gen.noise_record(rng, npts)
        if i == 5:
            kind, v = 'zeros', np.zeros(npts)
        nyq = 0.5 / dt
        tk = rng.choice(['default', 'logspace', 'on-grid', 'fourier-range'])
        if tk == 'default':
            sm = None
        elif tk == 'logspace':
            sm = np.logspace(math.log10(nyq / 200), math.log10(nyq), rng.randint(5, 40))
        elif tk == 'on-grid':
            N = 1 << (npts - 1).bit_length()
            ks = sorted(rng.sample(range(1, N // 2), min(N // 2 - 1, rng.randint(2, 8))))
            sm = np.array(ks) / (N * dt)
        else:
            sm = np.linspace(nyq / 50, nyq * 0.9, rng.randint(4, 30))
        band = 40 if i % 2 else rng.choice(BANDS)
        object_case(ctx, kind + '/' + tk, v, dt, sm, band, rng.choice(['Signal', 'AccSignal']))
        if i % 20 == 19:
            ctx.flush()
    ctx.flush()


def replay_case(ctx, payload):
    """re-evaluates the recorded case; True iff no clause fails on it now"""
    inp = payload['inputs']
    sub = type(ctx)(ctx.prop, ctx.tier, ctx.seed)
    if 'fa_frequencies' in inp:
        A = np.array([complex(*x) if isinstance(x, list) else x for x in inp['fa_spectrum']])
        sm = None if inp['smooth_fa_frequencies'] is None else np.array(inp['smooth_fa_frequencies'], dtype=float)
        array_case(sub, 'replay', np.array(inp['fa_frequencies'], dtype=float), A, sm, inp['band'], small=False)
    else:
        sm = None if inp['smooth_fa_frequencies'] is None else np.array(inp['smooth_fa_frequencies'], dtype=float)
        object_case(sub, 'replay', np.array(inp['values'], dtype=float), inp['dt'], sm, inp['band'], inp.get('cls', 'AccSignal'))
    sub.pending = []
    for f in sub.oracle_failures:
        print('still failing:', f['clause'], f['detail'])
    return not sub.oracle_failures


# ---- extras (round-3 lessons): large problems, extreme magnitudes -----------------------------------------------------------------------

def extras(ctx):
    """(a) LARGE problems (more than 2^22, 2^23 weights): every target is smoothed independently of how many others are requested, so a
    subset of the targets computed alone reproduces the corresponding entries bit for bit; a constant spectrum is reproduced; the
    direct and the matrix form agree.  (b) the smoothed spectrum is homogeneous in the amplitudes, exactly for powers of two."""
    from eqsig.fns import frequency as fq
    rng = ctx.rng
    sizes = [(8192, 600)] if ctx.tier == 'quick' else [(8192, 600), (16384, 300), (4096, 1100), (2304, None)]
    # source hints: numbers of Fourier bins / of targets around every new integer constant, and target counts that put the number of weights just above it
    sizes = sizes + [(m, 50) for m in gen.hint_sizes(ctx, lo=121, hi=70000, cap=4)] + [(2048, m) for m in gen.hint_sizes(ctx, lo=13, hi=4000, cap=3)] + \
        [(8192, c // 8192 + 1) for c in gen.hint_sizes(ctx, lo=2 ** 18, hi=2 ** 24, cap=2)]
    for n_fa, n_sm in sizes:
        dt = 0.01
        fs = np.arange(n_fa) / (2 * n_fa * dt)
        A = np.abs(np.array([rng.gauss(0, 1) for _ in range(n_fa)])) + 0.1
        sm = None if n_sm is None else np.exp(np.linspace(math.log(0.2), math.log(40.0), n_sm))
        band = rng.choice([20, 40])
        inputs = {'fa_frequencies': f'arange({n_fa})/(2*{n_fa}*0.01)', 'fa_spectrum': '|gauss|+0.1 (seeded)', 'band': band,
                  'smooth_fa_frequencies': 'None' if sm is None else f'{n_sm} log-spaced 0.2..40 Hz', 'weights': n_fa * (n_sm or n_fa - 1)}
        ctx.hist(f'large-problem/{n_fa}x{n_sm}')
        ctx.count_case(('large', n_fa, n_sm, band), True, sample={'fn': 'calc_smooth_fa_spectrum (large problem)', **inputs})
        whole = call_impl(fq.calc_smooth_fa_spectrum, fs, A, sm, band=band)
        if whole[0] != 'ok':
            ctx.oracle('C07 calc_smooth_fa_spectrum returns for a large problem', False, inputs, detail=whole)
            continue
        s = np.asarray(whole[1])
        smv = fs[1:] if sm is None else sm
        ctx.oracle('C07.b min|A| <= smooth_j <= max|A| (large problem)', bool(s.shape == smv.shape and np.all(s >= A[1:].min() * (1 - 1e-12)) and np.all(s <= A[1:].max() * (1 + 1e-12))),
                   inputs, detail={'shape': s.shape, 'min': float(s.min()) if s.size else None, 'max': float(s.max()) if s.size else None})
        idx = sorted(set([0, 1, len(smv) // 2, len(smv) - 2, len(smv) - 1] + [rng.randrange(len(smv)) for _ in range(20)]))
        sub = np.asarray(fq.calc_smooth_fa_spectrum(fs, A, smv[idx], band=band))
        ok = s.shape == smv.shape and bool(np.array_equal(sub, s[idx]))
        ctx.oracle('C07 every target is smoothed independently: a subset of the targets computed alone == the same entries of the large result (==)', ok, inputs,
                   detail=None if ok else {'targets': idx, 'alone': sub, 'in_large_result': s[idx] if s.shape == smv.shape else s.shape})
        const = np.asarray(fq.calc_smooth_fa_spectrum(fs, np.full(n_fa, 2.5), sm, band=band))
        ctx.oracle('C07.b a constant spectrum is reproduced (large problem)', bool(const.shape == smv.shape and np.all(np.abs(const - 2.5) <= 1e-11)), inputs,
                   detail={'min': float(const.min()) if const.size else None, 'max': float(const.max()) if const.size else None})
        if n_sm is not None:
            M = fq.calc_smoothing_matrix_konno_1998(fs, sm, band=band)
            viaM = np.asarray(fq.calc_smooth_fa_spectrum_w_custom_matrix(type('O', (), {'fa_spectrum': A})(), M))
            ctx.oracle('C07.c matrix form == direct form (large problem, 1e-12)', bool(viaM.shape == s.shape and np.all(np.abs(viaM - s) <= 1e-12 * A.max())), inputs)
    # the window depends on frequency RATIOS only: rescaling all frequencies (spectrum grid and targets) by a power of two changes nothing,
    # bit for bit -- with and without the zero-frequency bin, down to grids whose first frequency is ~1e-12 Hz (slow processes) and up to 1e+12 Hz
    for it in range(6 if ctx.tier == 'quick' else 40):
        n_fa = rng.choice([17, 64, 129])
        zero_bin = it % 2 == 0
        fs0 = (np.arange(n_fa) if zero_bin else np.arange(1, n_fa + 1)) / (2 * n_fa * 0.01)
        A = np.abs(np.array([rng.gauss(0, 1) for _ in range(n_fa)])) + 0.01
        sm0 = np.exp(np.linspace(math.log(0.5), math.log(30.0), 9))
        for sm_ in (sm0, None):
            base = call_impl(fq.calc_smooth_fa_spectrum, fs0, A, sm_)
            M0 = call_impl(fq.calc_smoothing_matrix_konno_1998, fs0, sm_)
            for k in (-40, 40, -25):
                sc = 2.0 ** k
                ctx.hist(f'frequency-scale/2^{k}/' + ('with' if zero_bin else 'without') + ' zero bin')
                r = call_impl(fq.calc_smooth_fa_spectrum, fs0 * sc, A, None if sm_ is None else sm_ * sc)
                ok = r[0] == base[0] and (r[0] != 'ok' or (np.shape(r[1]) == np.shape(base[1]) and np.array_equal(np.asarray(r[1]), np.asarray(base[1]))))
                ctx.oracle('C07 smoothing depends on frequency ratios only: all frequencies x 2^k (grid with or without the zero bin, given or default targets) '
                           'leaves the smoothed spectrum unchanged (==)', ok,
                           {'fa_frequencies': fs0, 'fa_spectrum': A, 'smooth_fa_frequencies': sm_, 'scale': f'2**{k}', 'zero_bin': zero_bin},
                           detail=None if ok else {'base': base[1] if base[0] != 'ok' else np.asarray(base[1])[:4], 'scaled': r[1] if r[0] != 'ok' else np.asarray(r[1])[:4]})
                Mk = call_impl(fq.calc_smoothing_matrix_konno_1998, fs0 * sc, None if sm_ is None else sm_ * sc)
                okm = Mk[0] == M0[0] and (Mk[0] != 'ok' or (np.shape(Mk[1]) == np.shape(M0[1]) and np.array_equal(np.asarray(Mk[1]), np.asarray(M0[1]), equal_nan=True)))
                ctx.oracle('C07 the smoothing matrix depends on frequency ratios only (all frequencies x 2^k, ==)', okm,
                           {'fa_frequencies': fs0, 'smooth_fa_frequencies': sm_, 'scale': f'2**{k}', 'zero_bin': zero_bin})
            if M0[0] == 'ok' and base[0] == 'ok':
                M = np.asarray(M0[1])
                ctx.oracle('C07.c the matrix form with default targets is finite, normalised and equals the direct form', bool(
                    np.all(np.isfinite(M)) and M.shape[0] == (n_fa - 1 if zero_bin else n_fa) and np.allclose(M.sum(axis=0), 1.0, rtol=1e-12) and
                    np.allclose(np.dot(A[1:] if zero_bin else A, M), np.asarray(base[1]), rtol=1e-12, atol=0)),
                    {'fa_frequencies': fs0, 'fa_spectrum': A, 'smooth_fa_frequencies': sm_, 'zero_bin': zero_bin}, detail={'matrix_shape': M.shape})
    for it in range(4 if ctx.tier == 'quick' else 30):
        n_fa = rng.choice([17, 64, 129])
        fs = np.arange(n_fa) / (2 * n_fa * 0.01)
        A = np.abs(np.array([rng.gauss(0, 1) for _ in range(n_fa)])) + 0.01
        sm = np.exp(np.linspace(math.log(0.5), math.log(30.0), 9))
        base = np.asarray(fq.calc_smooth_fa_spectrum(fs, A, sm))
        for k in gen.EXTREME_POW2:
            sc = 2.0 ** k
            ctx.hist(f'extreme-scale/2^{k}')
            r = call_impl(fq.calc_smooth_fa_spectrum, fs, A * sc, sm)
            ctx.oracle('C07.b smooth(2^k A) == 2^k smooth(A) exactly, also at extreme scales', r[0] == 'ok' and gen.scaled_exactly(np.asarray(r[1]), base, sc),
                       {'fa_frequencies': fs, 'fa_spectrum': A, 'smooth_fa_frequencies': sm, 'scale': f'2**{k}'})


_run_main = run


def run(ctx):
    _run_main(ctx)
    extras(ctx)
    ctx.flush()


# ---- extras2 (harness extension hx_a): large OBJECT-level problems, extreme time steps, setters / wrappers, containers, histories ----------
#
# Not demanded: Python lists / tuples for the frequency and amplitude arguments of the array-level functions (`x[:, np.newaxis]` raises
# TypeError: a loud restriction of the domain); float32 frequency / amplitude arrays are smoothed in single precision (compared at 1e-5);
# exactness of |z| under power-of-two scaling is platform behaviour of hypot: object-level scaling is compared to 8 ulp, not bit for bit.

def _x2_ko_cols(band, fs, targets):
    """normalised Konno-Ohmachi weights with NumPy, one column per target (weight 1 where f == fc)"""
    x = band * np.log10(np.asarray(fs, dtype=float)[:, None] / np.asarray(targets, dtype=float)[None, :])
    with np.errstate(all='ignore'):
        w = np.where(x == 0, 1.0, (np.sin(x) / x) ** 4)
    return w / np.sum(w, axis=0)


def _x2_close(x, y, k=1.0, ulps=8):
    x, y = np.asarray(x, dtype=float), np.asarray(y, dtype=float)
    if x.shape != y.shape:
        return False
    with np.errstate(all='ignore'):
        ky = k * y
    return bool(np.all(np.abs(x - ky) <= ulps * 2.0 ** -53 * np.abs(ky) + 1e-250 * max(1.0, abs(k))))


def _x2_bandwidth_ok(im, o, s, smv, ratio):
    """calc_bandwidth_freqs / f_min / f_max == first and last target above ratio*max; None when an entry is within 1e-9 of the limit"""
    s = np.asarray(s, dtype=float)
    lim = float(np.max(s)) * ratio
    if np.any(np.abs(s - lim) <= 1e-9 * lim):
        return None
    above = np.nonzero(s > lim)[0]
    rb, rlo, rhi = call_impl(im.calc_bandwidth_freqs, o, ratio=ratio), call_impl(im.calc_bandwidth_f_min, o, ratio=ratio), call_impl(im.calc_bandwidth_f_max, o, ratio=ratio)
    if rb[0] != 'ok' or rlo[0] != 'ok' or rhi[0] != 'ok' or len(above) == 0:
        return False
    fpk = float(smv[int(np.argmax(s))])
    return (float(rb[1][0]), float(rb[1][1])) == (float(smv[above[0]]), float(smv[above[-1]])) == (float(rlo[1]), float(rhi[1])) and float(rb[1][0]) <= fpk <= float(rb[1][1])


def x2_large_object(ctx):
    """LARGE object-level problems (records of 9 000 - 60 000 samples: 8 192 - 32 768 Fourier bins, up to 2^22 weights; quick tier: 2^19 .. 2^20): object == direct ==
    matrix form, the weights are the normalised non-negative Konno-Ohmachi window (NumPy, on a subset of targets), bounds, bandwidth limits"""
    import eqsig
    from eqsig import im
    from eqsig.fns import frequency as fq
    rng = ctx.rng
    quick = ctx.tier == 'quick'
    for npts, n_sm, cls_name in ([(12000, None, 'Signal'), (9000, 130, 'AccSignal')] if quick else
                                 [(40000, None, 'Signal'), (9000, 300, 'AccSignal'), (20000, 120, 'AccSignal'), (5001, 700, 'Signal'), (60000, 40, 'AccSignal')]) + \
            [(m, 60, 'AccSignal') for m in gen.hint_sizes(ctx, lo=1001, hi=100000, cap=3, halves=True)]:      # source hints: record lengths around every new integer constant
        dt = rng.choice([0.01, 0.005, 0.02])
        v = gen.noise_record(rng, npts) * np.exp(-((np.arange(npts) - npts / 3) / (npts / 5)) ** 2) + 0.2 * np.sin(2 * math.pi * rng.uniform(1.0, 8.0) * dt * np.arange(npts))
        nyq = 0.5 / dt
        sm = None if n_sm is None else np.exp(np.linspace(math.log(nyq / 400), math.log(nyq * 0.9), n_sm))
        band = rng.choice([20, 40, 80])
        cls = getattr(eqsig, cls_name)
        o = cls(v, dt) if sm is None else (cls(v, dt, smooth_fa_freqs=sm) if rng.random() < 0.5 else cls(v[:9], dt))
        if o.npts != npts:        # reached through a history: short record, spectra read, targets set, record replaced
            _ = o.smooth_fa_spectrum
            o.smooth_fa_frequencies = sm
            o.reset_values(v)
        inputs = {'values': f'enveloped gaussian noise + 0.2 sin, npts={npts} (seed-derived)', 'dt': dt, 'band': band, 'cls': cls_name,
                  'smooth_fa_frequencies': 'default (50 log-spaced 0.1..30 Hz)' if sm is None else f'{n_sm} log-spaced {nyq / 400:.4g}..{nyq * 0.9:.4g} Hz'}
        ctx.hist(f'large-object/{npts}')
        o.gen_smooth_fa_spectrum(band=band)
        s_obj = np.array(o.smooth_fa_spectrum)
        smv, fa_f, fa_s = np.array(o.smooth_fa_frequencies), np.array(o.fa_frequencies), np.array(o.fa_spectrum)
        inputs['weights'] = (len(fa_f) - 1) * len(smv)
        ctx.count_case(('x2-large-object', npts, n_sm, dt, band, v[:8].tobytes()), True, sample={'fn': cls_name + '.smooth_fa_spectrum (large problem)', **inputs})
        A = np.abs(fa_s[1:])
        scale = float(A.max())
        s_arr = np.asarray(fq.calc_smooth_fa_spectrum(fa_f, fa_s, smv, band=band))
        M = np.asarray(fq.calc_smoothing_matrix_konno_1998(fa_f, smv, band=band))
        s_mat = np.asarray(fq.calc_smooth_fa_spectrum_w_custom_matrix(o, M))
        ctx.oracle('C07.b Signal.smooth_fa_spectrum == calc_smooth_fa_spectrum == matrix form [large problem]', s_obj.shape == s_arr.shape == s_mat.shape == smv.shape and
                   bool(np.array_equal(s_obj, s_arr) and np.all(np.abs(s_mat - s_arr) <= 1e-12 * scale)), inputs)
        ctx.oracle('C07.c smoothed spectrum is real and finite (object level) [large problem]', not np.iscomplexobj(s_obj) and bool(np.all(np.isfinite(s_obj))), inputs)
        ctx.oracle('C07.b min|A| <= smooth_j <= max|A| (object level) [large problem]', bool(np.all(s_obj >= A.min() - 1e-12 * scale) and np.all(s_obj <= A.max() + 1e-12 * scale)), inputs)
        ctx.oracle('C07.a the weights are non-negative and each column sums to one [large problem]', M.shape == (len(fa_f) - 1, len(smv)) and bool(np.all(M >= 0) and np.all(np.abs(np.sum(M, axis=0) - 1) <= 1e-12)), inputs)
        idx = sorted(set([0, len(smv) - 1] + [rng.randrange(len(smv)) for _ in range(6)]))
        W = _x2_ko_cols(band, fa_f[1:], smv[idx])
        ctx.oracle('C07.a the weights are the normalised Konno-Ohmachi window [sin(b log10(f/fc)) / (b log10(f/fc))]^4 (NumPy, subset of targets) [large problem]',
                   M.shape[0] == W.shape[0] and bool(np.all(np.abs(M[:, idx] - W) <= 1e-9 * np.max(W, axis=0))), {**inputs, 'targets': idx})
        ctx.oracle('C07.a each smoothed amplitude is the weighted mean of the non-zero-frequency amplitudes (NumPy, subset of targets) [large problem]',
                   bool(np.all(np.abs(s_obj[idx] - A @ W) <= 1e-9 * scale)), {**inputs, 'targets': idx})
        for ratio in (0.707, rng.choice([0.3, 0.5, 0.9])):
            okb = _x2_bandwidth_ok(im, o, s_obj, smv, ratio)
            if okb is not None:
                ctx.oracle('C07.d bandwidth limits are the first and last smoothing frequency above ratio*max, ordered, bracketing the smoothed peak; f_min / f_max are its components '
                           '[large problem]', okb, {**inputs, 'ratio': ratio})
        ctx.oracle('C07 the bandwidth functions leave the object\'s smoothed spectrum unchanged', bool(np.array_equal(np.asarray(o.smooth_fa_spectrum), s_obj)), inputs)
        ctx.oracle('input arrays unchanged', bool(np.array_equal(np.asarray(o.fa_spectrum), fa_s) and np.array_equal(np.asarray(o.smooth_fa_frequencies), smv)), inputs)


def x2_small(ctx):
    """extreme time steps and scales at object level; containers / dtypes; every setter / wrapper of the smoothing frequencies; histories"""
    import eqsig
    from eqsig import im
    from eqsig.fns import frequency as fq
    rng = ctx.rng
    for it in range(14 if ctx.tier == 'quick' else 140):
        npts = rng.randint(8, 160)
        dt = rng.choice([0.01, 0.02, 0.005, 0.1])
        whole = it % 2 == 0
        v = gen.int_record(rng, npts) if whole else gen.dyadic_record(rng, npts)
        if len(set(v.tolist())) < 2:
            v[0] += 1.0
        nyq = 0.5 / dt
        sm = np.exp(np.linspace(math.log(nyq / 100), math.log(nyq), rng.randint(4, 20)))
        band = rng.choice(BANDS)
        cls = rng.choice([eqsig.Signal, eqsig.AccSignal])
        o0 = cls(v, dt, smooth_fa_freqs=sm)
        o0.gen_smooth_fa_spectrum(band=band)
        base = np.array(o0.smooth_fa_spectrum)
        fa_f, fa_s = np.array(o0.fa_frequencies), np.array(o0.fa_spectrum)
        inputs = {'values': v, 'dt': dt, 'smooth_fa_frequencies': sm, 'band': band, 'cls': cls.__name__}
        ctx.count_case(('x2-small', v.tobytes(), dt, sm.tobytes(), band), True)
        if not np.all(np.isfinite(base)):
            continue
        # (a) time step: the Fourier grid and the targets scale by 2^-j, the window only sees their ratios
        for j in (-300, 300, -40, 40):
            k = 2.0 ** j
            ctx.hist(f'extreme-dt/2^{j}')
            r = call_impl(fq.calc_smooth_fa_spectrum, fa_f / k, np.abs(fa_s), sm / k, band=band)
            ctx.oracle('C07.a the window depends on frequency RATIOS only: rescaling the Fourier grid and the targets by 2^j leaves the smoothed spectrum unchanged (==), also for '
                       'extreme steps', r[0] == 'ok' and np.array_equal(np.asarray(r[1]), np.asarray(fq.calc_smooth_fa_spectrum(fa_f, np.abs(fa_s), sm, band=band))), {**inputs, 'scale': f'2**{j}'})
            o = ctx.aged(cls, v, dt * k, smooth_fa_freqs=sm / k)
            r = call_impl(lambda: (o.gen_smooth_fa_spectrum(band=band), np.array(o.smooth_fa_spectrum))[1])
            ctx.oracle('C07 object level: smooth(a, 2^j dt) at targets 2^-j f == 2^j smooth(a, dt) at targets f (8 ulp), also for extreme time steps', r[0] == 'ok' and _x2_close(r[1], base, k),
                       {**inputs, 'dt_scale': f'2**{j}'}, detail=None if r[0] != 'ok' else {'got': r[1][:3], 'want': base[:3] * k})
        for kk in gen.EXTREME_POW2:
            sc = 2.0 ** kk
            ctx.hist(f'extreme-scale(object)/2^{kk}')
            o = ctx.aged(cls, v * sc, dt, smooth_fa_freqs=sm)
            r = call_impl(lambda: (o.gen_smooth_fa_spectrum(band=band), np.array(o.smooth_fa_spectrum))[1])
            ctx.oracle('C07.b object level: smooth(2^k a) == 2^k smooth(a) (8 ulp), also for records around 1e-180 / 1e+180', r[0] == 'ok' and _x2_close(r[1], base, sc),
                       {**inputs, 'scale': f'2**{kk}'}, detail=None if r[0] != 'ok' else {'got': r[1][:3], 'want': base[:3] * sc})
            if r[0] == 'ok' and isinstance(o, eqsig.AccSignal) or r[0] == 'ok':
                ok0, ok1 = _x2_bandwidth_ok(im, o0, base, sm, 0.707), _x2_bandwidth_ok(im, o, r[1], sm, 0.707)
                if ok0 is not None and ok1 is not None:
                    b0, b1 = call_impl(im.calc_bandwidth_freqs, o0), call_impl(im.calc_bandwidth_freqs, o)
                    ctx.oracle('C07.d the bandwidth limits do not depend on the scale of the record, also at extreme scales', ok1 and b0[0] == b1[0] == 'ok' and
                               tuple(map(float, b0[1])) == tuple(map(float, b1[1])), {**inputs, 'scale': f'2**{kk}'}, detail=(b0, b1))
        # (b) containers / dtypes: array-level arguments (ndarrays: integer, strided, float32) and the record of the object
        A = np.round(np.abs(fa_s) * 8) + 1.0                     # whole-number amplitudes
        g = np.arange(len(fa_f), dtype=float)                    # whole-number Fourier grid 0, 1, 2, ...
        t = np.array(sorted(set(rng.randint(1, max(2, len(g) - 1)) for _ in range(5))), dtype=float)
        ref = call_impl(fq.calc_smooth_fa_spectrum, g, A, t, band=band)
        refM = call_impl(fq.calc_smoothing_matrix_konno_1998, g, t, band=band)
        for lab, conv in (('int64', lambda x: x.astype(np.int64)), ('int32', lambda x: x.astype(np.int32)), ('strided', lambda x: np.repeat(x, 2)[::2]), ('float32', lambda x: x.astype(np.float32))):
            ctx.hist('array containers=' + lab)
            r = call_impl(fq.calc_smooth_fa_spectrum, conv(g), conv(A), conv(t), band=band)
            rM = call_impl(fq.calc_smoothing_matrix_konno_1998, conv(g), conv(t), band=band)
            if lab == 'float32':
                ok = r[0] == ref[0] == 'ok' and bool(np.all(np.abs(np.asarray(r[1], dtype=float) - ref[1]) <= 1e-4 * np.max(A))) and rM[0] == 'ok' and bool(np.all(np.abs(np.asarray(rM[1], dtype=float) - refM[1]) <= 1e-4))
            else:
                ok = r[0] == ref[0] == 'ok' and np.array_equal(r[1], ref[1]) and rM[0] == refM[0] == 'ok' and np.array_equal(rM[1], refM[1])
            ctx.oracle('C07 frequencies / amplitudes / targets given as integer or strided ndarrays (==) or float32 (1e-4) give the smoothing of the same numbers in float64', ok,
                       {'fa_frequencies': g, 'fa_spectrum': A, 'smooth_fa_frequencies': t, 'band': band, 'container': lab}, detail=None if r[0] == 'ok' else r)
        variants = [(lab, c, v) for lab, c in gen.container_variants(v, floats32=False)]
        if whole:
            variants += gen.narrow_int_variants(v)
        for lab, c, fl in variants:
            ctx.hist('record container=' + lab)
            want = base if fl is v else (lambda ow: (ow.gen_smooth_fa_spectrum(band=band), np.array(ow.smooth_fa_spectrum))[1])(cls(fl, dt, smooth_fa_freqs=sm))
            r = call_impl(lambda: (lambda oc: (oc.gen_smooth_fa_spectrum(band=band), np.array(oc.smooth_fa_spectrum))[1])(cls(c, dt, smooth_fa_freqs=sm)))
            ctx.oracle('C07 an object built from a list / tuple / integer (any width) / strided record has the smoothed spectrum of the same numbers in float64 (==)',
                       r[0] == 'ok' and np.array_equal(r[1], want), {**inputs, 'values': fl, 'container': lab}, detail=None if r[0] == 'ok' else r)
        # (c) every way of setting the smoothing frequencies, interleaved with regenerations, reads and record changes on ONE object;
        #     the expected state is tracked from the ARGUMENTS
        o = cls(v.copy(), dt)
        cur_v = v.copy()
        cur_sm = np.logspace(np.log10(0.1), np.log10(30), 50)
        cur_band = 40
        held, hist = [], []
        for step in range(rng.randint(3, 7)):
            op = rng.choice(['smooth_fa_freqs=', 'smooth_fa_frequencies=', 'gen(smooth_fa_freqs=)', 'by_range', 'by_range(same)', 'smooth_freq_range=', 'smooth_freq_points=',
                             'gen(band)', 'generate(band)', 'read', 'reset_values', 'same freqs again'])
            lo, hi = nyq / rng.choice([50, 100, 200]), nyq * rng.choice([0.5, 0.9, 1.0])
            npt = rng.randint(3, 25)
            if op in ('smooth_fa_freqs=', 'smooth_fa_frequencies=', 'gen(smooth_fa_freqs=)'):
                new = np.linspace(lo, hi, npt) if rng.random() < 0.5 else np.exp(np.linspace(math.log(lo), math.log(hi), len(cur_sm)))   # often the SAME count, same ends
                if op == 'gen(smooth_fa_freqs=)':
                    cur_band = rng.choice(BANDS)
                    o.gen_smooth_fa_spectrum(smooth_fa_freqs=np.array(new), band=cur_band)
                else:
                    setattr(o, op[:-1], list(new) if rng.random() < 0.3 else np.array(new))
                    cur_band = 40
                cur_sm = np.array(new)
            elif op in ('by_range', 'by_range(same)'):
                if op == 'by_range' or not hist or not any(h.startswith('by_range') for h in hist):
                    last_range = ((lo, hi), npt)
                o.set_smooth_fa_frequecies_by_range(last_range[0], last_range[1])
                cur_sm = np.logspace(np.log10(last_range[0][0]), np.log10(last_range[0][1]), last_range[1], base=10)
                cur_band = 40
            elif op == 'smooth_freq_range=':
                o.smooth_freq_range = (lo, hi)
                cur_sm = np.logspace(np.log10(lo), np.log10(hi), len(cur_sm), base=10)
                cur_band = 40
            elif op == 'smooth_freq_points=':
                o.smooth_freq_points = npt
                cur_sm = np.logspace(np.log10(cur_sm[0]), np.log10(cur_sm[-1]), npt, base=10)
                cur_band = 40
            elif op in ('gen(band)', 'generate(band)'):
                cur_band = rng.choice(BANDS)
                (o.gen_smooth_fa_spectrum if op == 'gen(band)' else o.generate_smooth_fa_spectrum)(band=cur_band)
            elif op == 'reset_values':
                cur_v = cur_v[::-1] * 2.0 if rng.random() < 0.5 else gen.dyadic_record(rng, rng.randint(8, 160))
                o.reset_values(cur_v.copy())
                cur_band = 40
            elif op == 'same freqs again':
                o.smooth_fa_freqs = np.array(cur_sm)
                cur_band = 40
            hist.append(op)
            hin = {'start values': v, 'dt': dt, 'cls': cls.__name__, 'history': list(hist), 'band of the last generation': cur_band}
            got = call_impl(lambda: (o.smooth_fa_spectrum, o.smooth_fa_frequencies, o.smooth_fa_freqs))
            f_s, f_f = fq.calc_fa_spectrum(eqsig.Signal(cur_v, dt), p2_plus=0)
            want = call_impl(fq.calc_smooth_fa_spectrum, f_f, f_s, cur_sm, band=cur_band)
            ctx.hist('smoothing-history/' + op)
            if op in ('smooth_freq_range=', 'smooth_freq_points=') and got[0] == 'ok' and not np.array_equal(np.asarray(got[1][1], dtype=float), cur_sm):
                # the deprecated setters rebuild the grid from the CURRENT ends / count through log10 -> logspace: the ends may move by an ulp
                ok_grid = _x2_close(got[1][1], cur_sm, ulps=64)
                cur_sm = np.array(got[1][1], dtype=float)
                want = call_impl(fq.calc_smooth_fa_spectrum, f_f, f_s, cur_sm, band=cur_band)
            else:
                ok_grid = got[0] == 'ok' and np.array_equal(np.asarray(got[1][1], dtype=float), cur_sm) and np.array_equal(np.asarray(got[1][2], dtype=float), cur_sm)
            ctx.oracle('C07 after any sequence of setters (smooth_fa_freqs / smooth_fa_frequencies / gen_smooth_fa_spectrum(smooth_fa_freqs) / set_smooth_fa_frequecies_by_range / deprecated '
                       'range and point setters) the smoothing frequencies are the ones LAST requested', ok_grid, hin, detail=None if got[0] != 'ok' else {'got': got[1][1], 'want': cur_sm},
                       facts={'history': list(hist)})
            ok = got[0] == want[0] and (got[0] != 'ok' or (np.asarray(got[1][0]).shape == np.asarray(want[1]).shape and np.array_equal(np.asarray(got[1][0]), np.asarray(want[1]), equal_nan=True)))
            ctx.oracle('C07.b after any history the object\'s smoothed spectrum == calc_smooth_fa_spectrum of its CURRENT Fourier spectrum at the LAST requested frequencies and bandwidth '
                       '(bandwidth 40 after a change of record or frequencies) (==)', ok, hin, detail=(got[0], want[0]), facts={'history': list(hist)})
            ctx.oracle('C07 smoothed spectra / frequency arrays read from an object earlier are not overwritten by later regenerations', all(np.array_equal(x, cp, equal_nan=True) for x, cp in held), hin,
                       facts={'history': list(hist)})
            if got[0] == 'ok':
                held.extend((x, np.array(x, copy=True)) for x in got[1] if isinstance(x, np.ndarray))


def extras2(ctx):
    x2_large_object(ctx)
    x2_small(ctx)


_run_main2 = run


def run(ctx):
    _run_main2(ctx)
    extras2(ctx)
    import _freq2
    _freq2.corr_freq2_c07(ctx)     # get_sig_freq_range, smoothing-frequency setters, object-level smoothing: Gen/SmoothFreqs vs impl
    ctx.flush()


# evidence: how the model is tied to the source on every run (as built, supersedes the value above)
TIE = "translator (window -> Gen/KoWindow, bandwidth functions and smoothing frame -> Gen/FreqBand; Props/C07Gen, C07GenBand) + correspondence (exact rational kernel on the impl's raw weights; Float twin)"


# ---- extras3 (hx_r7b, round 7): histories on ONE object that bring it back to a state that "looks like" an earlier one ----------------------------
#
# (a) the Fourier spectrum regenerated with explicit padded lengths / p2_plus / after a record change, the smoothed spectrum regenerated after
#     each: padded lengths 2k and 2k+1 have the same NUMBER of Fourier points on different grids; p2_plus and a longer record change the number of
#     points but keep the first/last frequencies close; a new record of another length may fall back on an earlier padded length.
# (b) words over every entry point that sets the smoothing frequencies which RETURN to an earlier (range, count) -- also the constructor's --
#     after the frequencies were replaced through another entry point with the same count / the same ends.
# The expected state is tracked from the ARGUMENTS; every step is judged (==) against the array-level function on the object's current Fourier
# spectrum, against a fresh object regenerated the same way, and (subset of targets) against the Konno-Ohmachi window written out with NumPy.
# Not demanded: gen_fa_spectrum does not drop the cached smoothed spectrum in the pinned library (a read after it returns the old one); the
# family regenerates explicitly after every gen_fa_spectrum (a value reset does drop it: there a plain read is used too).

def _x3_judge(ctx, o, cls, cur_v, dt, cur_sm, cur_band, fa_kw, hin, held, loose_grid=False):
    """one step of a history: the object's smoothed spectrum / frequencies vs (1) the array-level function on its own current Fourier spectrum,
    (2) a fresh object brought to the same state directly, (3) the window formula; returns the (possibly ulp-adjusted) tracked frequencies"""
    import eqsig
    from eqsig import im
    from eqsig.fns import frequency as fq
    facts = {'history': list(hin['history'])}
    got = call_impl(lambda: (np.array(o.smooth_fa_spectrum), np.array(o.smooth_fa_frequencies, dtype=float), np.array(o.smooth_fa_freqs, dtype=float),
                             np.array(o.fa_frequencies), np.array(o.fa_spectrum)))
    if got[0] != 'ok':
        ctx.oracle('C07 smoothing returns on its domain (positive target frequencies)', False, hin, detail=got, facts=facts)
        return cur_sm
    s_obj, smv, smv2, fa_f, fa_s = got[1]
    if loose_grid and not np.array_equal(smv, cur_sm):
        ok_grid = _x2_close(smv, cur_sm, ulps=64)         # deprecated range / points setters: log10 -> logspace of the current ends (an ulp)
        if ok_grid:
            cur_sm = smv.copy()
    else:
        ok_grid = np.array_equal(smv, cur_sm) and np.array_equal(smv2, cur_sm)
    ctx.oracle('C07 after any sequence of setters (smooth_fa_freqs / smooth_fa_frequencies / gen_smooth_fa_spectrum(smooth_fa_freqs) / set_smooth_fa_frequecies_by_range / deprecated '
               'range and point setters) the smoothing frequencies are the ones LAST requested', ok_grid, hin, detail={'got': smv, 'want': cur_sm}, facts=facts)
    with no_probe():
        fresh = cls(np.array(cur_v), dt, smooth_fa_freqs=np.array(cur_sm))
        if fa_kw is not None:
            fresh.gen_fa_spectrum(**fa_kw)
        fresh.gen_smooth_fa_spectrum(band=cur_band)
        s_fresh, f_fresh, a_fresh = np.array(fresh.smooth_fa_spectrum), np.array(fresh.fa_frequencies), np.array(fresh.fa_spectrum)
        want = call_impl(fq.calc_smooth_fa_spectrum, fa_f, fa_s, cur_sm, band=cur_band)
    same_fa = f_fresh.shape == fa_f.shape and np.array_equal(f_fresh, fa_f) and np.array_equal(a_fresh, fa_s)
    ctx.oracle('C07 after any history the object\'s Fourier spectrum and frequencies are those of a fresh object generated with the last requested padding (==)', same_fa, hin,
               detail={'points': [len(fa_f), len(f_fresh)], 'df': [float(fa_f[1]) if len(fa_f) > 1 else None, float(f_fresh[1]) if len(f_fresh) > 1 else None]}, facts=facts)
    ok = want[0] == 'ok' and s_obj.shape == np.asarray(want[1]).shape and np.array_equal(s_obj, np.asarray(want[1]), equal_nan=True)
    ctx.oracle('C07.b after any history the object\'s smoothed spectrum == calc_smooth_fa_spectrum of its CURRENT Fourier spectrum at the LAST requested frequencies and bandwidth '
               '(bandwidth 40 after a change of record or frequencies) (==)', ok, hin,
               detail={'max_rel_dev': float(np.max(np.abs(s_obj - want[1]) / np.maximum(np.abs(want[1]), 1e-300))) if want[0] == 'ok' and s_obj.shape == np.asarray(want[1]).shape and s_obj.size else None},
               facts=facts)
    ctx.oracle('C07.b after any history the object\'s smoothed spectrum == that of a FRESH object given the same record, frequencies, padding and bandwidth (==)',
               same_fa is False or (s_obj.shape == s_fresh.shape and np.array_equal(s_obj, s_fresh, equal_nan=True)), hin, facts=facts)
    if len(fa_f) > 1 and len(cur_sm) and np.all(np.isfinite(s_obj)) and s_obj.shape == cur_sm.shape:
        A = np.abs(fa_s[1:])
        idx = sorted(set([0, len(cur_sm) - 1, len(cur_sm) // 2]))
        W = _x2_ko_cols(cur_band, fa_f[1:], cur_sm[idx])
        if np.all(np.isfinite(W)):
            ctx.oracle('C07.a each smoothed amplitude is the weighted mean of the non-zero-frequency amplitudes with the normalised Konno-Ohmachi weights (NumPy, subset of targets) '
                       '[after a history]', bool(np.all(np.abs(s_obj[idx] - A @ W) <= 1e-9 * max(float(A.max()), 1e-300))), {**hin, 'targets': idx},
                       detail={'got': s_obj[idx], 'want': A @ W}, facts=facts)
        if float(np.max(s_obj)) > 0 and np.all(np.diff(cur_sm) > 0):
            okb = _x2_bandwidth_ok(im, o, want[1] if want[0] == 'ok' else s_obj, cur_sm, 0.707)
            if okb is not None:
                ctx.oracle('C07.d bandwidth limits are the first and last smoothing frequency above ratio*max of the smoothing of the CURRENT state, ordered, bracketing the smoothed peak '
                           '[after a history]', okb, {**hin, 'ratio': 0.707}, facts=facts)
    ctx.oracle('C07 smoothed spectra / frequency arrays read from an object earlier are not overwritten by later regenerations', all(np.array_equal(x, cp, equal_nan=True) for x, cp in held), hin,
               facts=facts)
    raw = call_impl(lambda: (o.smooth_fa_spectrum, o.smooth_fa_frequencies))
    if raw[0] == 'ok':
        held.extend((x, np.array(x, copy=True)) for x in raw[1] if isinstance(x, np.ndarray))
    return cur_sm


def _x3_pad(npts):
    return 2 ** int(np.ceil(np.log2(npts)))


def x3_fas_regen(ctx):
    """(a) FAS regeneration words on one object"""
    import eqsig
    rng = ctx.rng
    quick = ctx.tier == 'quick'
    # fixed words: (label of n, ...) resolved against N = default padded length of the CURRENT record, L = its number of samples
    FIXED = [
        ['n=N', 'n=N+1'], ['n=N+1', 'n=N'], ['read', 'n=N+1', 'n=N'], ['n=N+1', 'reset(same pad)'], ['n=L', 'n=L+1', 'n=L-1'], ['n=L+1', 'n=L'],
        ['n=2N', 'n=2N+1', 'p2=1'], ['p2=1', 'n=2N+1'], ['p2=2', 'n=4N+1', 'p2=2'], ['n=N+1', 'band', 'n=N'], ['n=N-1', 'n=N-2'], ['n=N+3', 'n=N+2'],
        ['read', 'reset(2x)', 'reset(back)'], ['n=2N+1', 'reset(2x)'], ['p2=1', 'reset(2x)', 'p2=0'], ['n=N+1', 'same freqs again', 'n=N'],
        ['n=N', 'freqs', 'n=N+1', 'freqs back'],
    ]
    ops_rand = ['n=N', 'n=N+1', 'n=N-1', 'n=2N', 'n=2N+1', 'n=L', 'n=L+1', 'n=L-1', 'p2=0', 'p2=1', 'p2=2', 'reset(same pad)', 'reset(2x)', 'reset(other)', 'band', 'read',
                'n=prev+1', 'n=prev-1', 'n=prev^1']
    words = [(w, True) for w in FIXED] + [([rng.choice(ops_rand) for _ in range(rng.randint(2, 6))], False) for _ in range(10 if quick else 150)]
    for i, (word, fixed) in enumerate(words):
        _x3_fas_word(ctx, word, fixed, rng.getrandbits(48), sample=i == 0)


def _x3_fas_word(ctx, word, fixed, wseed, sample=False):
    """one word of (a); every random choice from a PRNG seeded with wseed, so that (word, fixed, wseed) replays the case"""
    import random
    import eqsig
    rng = random.Random(wseed)
    rp = {'x3_family': 'fas', 'x3_word': list(word), 'x3_fixed': bool(fixed), 'x3_word_seed': wseed}
    npts = rng.choice([33, 48, 64, 100, 129, 200]) if fixed else rng.randint(9, 260)
    dt = rng.choice([0.01, 0.02, 0.005, 0.1])
    v = gen.noise_record(rng, npts) + np.sin(2 * math.pi * rng.uniform(0.05, 0.4) * np.arange(npts))
    v0 = v.copy()
    nyq = 0.5 / dt
    custom = rng.random() < 0.5
    sm = np.exp(np.linspace(math.log(nyq / 60), math.log(nyq * 0.9), rng.randint(4, 24))) if custom else np.logspace(np.log10(0.1), np.log10(30), 50)
    sm_first = sm.copy()
    cls = rng.choice([eqsig.Signal, eqsig.AccSignal])
    band = 40
    with (no_probe() if fixed else contextlib.nullcontext()):
        o = cls(v.copy(), dt, smooth_fa_freqs=sm.copy()) if custom else cls(v.copy(), dt)
        fa_kw = None
        prev_n = _x3_pad(npts)
        hist, held = [], []
        ctx.count_case(('x3-fas', tuple(word), v.tobytes(), dt, sm.tobytes()), True,
                       sample={'fn': 'Signal.gen_fa_spectrum / gen_smooth_fa_spectrum history', 'word': word, 'npts': npts, 'dt': dt} if sample else None)
        for op in word:
            N, L = _x3_pad(len(v)), len(v)
            regen = True
            if op.startswith('n='):
                n = {'n=N': N, 'n=N+1': N + 1, 'n=N-1': N - 1, 'n=N-2': N - 2, 'n=N+2': N + 2, 'n=N+3': N + 3, 'n=2N': 2 * N, 'n=2N+1': 2 * N + 1, 'n=4N+1': 4 * N + 1,
                     'n=L': L, 'n=L+1': L + 1, 'n=L-1': L - 1, 'n=prev+1': prev_n + 1, 'n=prev-1': prev_n - 1, 'n=prev^1': prev_n ^ 1}[op]
                n = max(int(n), 4)
                fa_kw = {'n': n}
                o.gen_fa_spectrum(n=n)
                prev_n = n
                op = f'gen_fa_spectrum(n={n})'
            elif op.startswith('p2='):
                k = int(op[3:])
                fa_kw = {'p2_plus': k}
                o.gen_fa_spectrum(p2_plus=k)
                prev_n = N * 2 ** k
                op = f'gen_fa_spectrum(p2_plus={k})'
            elif op.startswith('reset'):
                if op == 'reset(same pad)':          # another record whose DEFAULT padded length is the last padded length rounded down to even (or its own)
                    tgt = prev_n - (prev_n % 2)
                    newlen = rng.randint(tgt // 2 + 1, tgt) if tgt >= 4 and tgt & (tgt - 1) == 0 else rng.randint(N // 2 + 1, N)
                elif op == 'reset(2x)':
                    newlen = rng.randint(N + 1, 2 * N)
                elif op == 'reset(back)':
                    newlen = len(v0)
                else:
                    newlen = rng.randint(9, 260)
                v = v0.copy() if op == 'reset(back)' else gen.noise_record(rng, newlen) + 0.5
                o.reset_values(v.copy())
                fa_kw = None
                prev_n = _x3_pad(len(v))
                band = 40
                regen = rng.random() < 0.5           # a value reset drops both caches: a plain read must do
                op = f'reset_values({len(v)} samples)'
            elif op == 'band':
                band = rng.choice([b for b in BANDS if b != band])
            elif op in ('freqs', 'freqs back', 'same freqs again'):
                sm = sm_first.copy() if op == 'freqs back' else (sm.copy() if op == 'same freqs again' else np.linspace(sm[0], sm[-1], len(sm)))
                o.smooth_fa_freqs = sm.copy()
                band = 40
                regen = False
            elif op == 'read':
                regen = False
                if fa_kw is not None and hist and hist[-1].startswith('gen_fa'):
                    regen = True
            if regen:
                o.gen_smooth_fa_spectrum(band=band)
                op += f' + gen_smooth_fa_spectrum(band={band})'
            hist.append(op)
            ctx.hist('fas-regeneration-history/' + op.split('(')[0].split(' ')[0])
            hin = {'start values': v0, 'dt': dt, 'cls': cls.__name__, 'smooth_fa_frequencies at the start': sm_first if custom else 'constructor default', 'history': list(hist),
                   'current values': v, 'band of the last generation': band, **rp}
            sm = _x3_judge(ctx, o, cls, v, dt, sm, band, fa_kw, hin, held)


def x3_range_words(ctx):
    """(b) words over the entry points of the smoothing frequencies that return to an earlier (range, count)"""
    import eqsig
    rng = ctx.rng
    quick = ctx.tier == 'quick'
    D = ((0.1, 30), 50)                                   # the constructor's default range and count
    # a step: ('by_range', key) / ('lin', setter) / ('lin-other-ends', setter) / ('log-same', setter) / ('gen', kind) / ('range=', key) / ('points=', key) / ('read',)
    # keys 'D' (default), 'A', 'B' name (range, count) pairs drawn per word; 'A~' = the range of A with the count of the current frequencies, …
    S = ['smooth_fa_freqs', 'smooth_fa_frequencies']
    FIXED = [
        [('lin', S[0]), ('by_range', 'D')], [('lin', S[1]), ('by_range', 'D')], [('gen', 'lin'), ('by_range', 'D')], [('lin-other-ends', S[0]), ('by_range', 'D')],
        [('range=', 'A'), ('by_range', 'D')], [('points=', 'A'), ('points=', 'D'), ('lin', S[0]), ('by_range', 'D')],
        [('by_range', 'A'), ('lin', S[0]), ('by_range', 'A')], [('by_range', 'A'), ('lin-other-ends', S[1]), ('by_range', 'A')], [('by_range', 'A'), ('gen', 'lin'), ('by_range', 'A')],
        [('by_range', 'A'), ('range=', 'B'), ('by_range', 'A')], [('by_range', 'A'), ('points=', 'B'), ('points=', 'A'), ('by_range', 'A')],
        [('by_range', 'A'), ('by_range', 'B'), ('by_range', 'A')], [('by_range', 'A'), ('by_range', 'A')], [('by_range', 'A'), ('by_range', 'A#B'), ('lin', S[0]), ('by_range', 'A#B')],
        [('by_range', 'A'), ('by_range', 'B#A'), ('by_range', 'A')], [('by_range', 'A'), ('lin', S[0]), ('by_range', 'B#A'), ('by_range', 'A')],
        [('ctor-freqs', 'A'), ('by_range', 'A')], [('ctor-range', 'A'), ('lin', S[1]), ('by_range', 'A#D')], [('ctor-range', 'A'), ('gen', 'log-same'), ('gen', 'lin'), ('by_range', 'A#D')],
        [('lin', S[0]), ('log-same', S[0])], [('by_range', 'A'), ('lin', S[0]), ('range=', 'A')], [('by_range', 'A'), ('lin', S[0]), ('points=', 'A')],
        [('lin', S[0]), ('reset',), ('by_range', 'D')], [('gen', 'lin'), ('gen', 'band'), ('by_range', 'D'), ('gen', 'band')],
    ]

    def rand_word():
        w = []
        for _ in range(rng.randint(2, 4)):
            k = rng.choice(['by_range', 'by_range', 'lin', 'lin-other-ends', 'log-same', 'gen', 'range=', 'points=', 'read', 'reset'])
            if k == 'by_range':
                w.append((k, rng.choice(['D', 'A', 'B', 'A#B', 'B#A', 'A#D', 'D#A'])))
            elif k in ('lin', 'lin-other-ends', 'log-same'):
                w.append((k, rng.choice(S)))
            elif k == 'gen':
                w.append((k, rng.choice(['lin', 'log-same', 'band'])))
            elif k in ('range=', 'points='):
                w.append((k, rng.choice(['D', 'A', 'B'])))
            else:
                w.append((k,))
        w.append(('by_range', rng.choice([s[1] for s in w if s[0] == 'by_range'] + ['D'])))       # return to an earlier pair
        return w

    words = [(w, True) for w in FIXED] + [(rand_word(), False) for _ in range(12 if quick else 200)]
    for i, (word, fixed) in enumerate(words):
        _x3_range_word(ctx, word, fixed, rng.getrandbits(48), sample=i == 0)


def _x3_range_word(ctx, word, fixed, wseed, sample=False):
    """one word of (b); every random choice from a PRNG seeded with wseed, so that (word, fixed, wseed) replays the case"""
    import random
    import eqsig
    rng = random.Random(wseed)
    word = [tuple(s_) for s_ in word]
    D = ((0.1, 30), 50)
    rp = {'x3_family': 'range', 'x3_word': [list(s_) for s_ in word], 'x3_fixed': bool(fixed), 'x3_word_seed': wseed}
    npts = rng.randint(24, 200)
    dt = rng.choice([0.01, 0.02, 0.005])
    nyq = 0.5 / dt
    v = gen.noise_record(rng, npts) * np.exp(-np.arange(npts) / (npts / 3)) + np.sin(2 * math.pi * rng.uniform(0.03, 0.3) * np.arange(npts))
    pairs = {'D': D,
             'A': ((nyq / rng.choice([40, 64, 100]), nyq * rng.choice([0.5, 0.8])), rng.randint(5, 40)),
             'B': ((nyq / rng.choice([30, 150]), nyq * rng.choice([0.3, 0.95])), rng.randint(5, 40))}
    for a in 'ABD':
        for b in 'ABD':
            pairs[a + '#' + b] = (pairs[a][0], pairs[b][1])       # the range of a with the count of b
    cls = rng.choice([eqsig.Signal, eqsig.AccSignal])
    with (no_probe() if fixed else contextlib.nullcontext()):
        first = word[0]
        if first[0] == 'ctor-freqs':
            cur_sm = np.linspace(pairs[first[1]][0][0], pairs[first[1]][0][1], pairs[first[1]][1])
            o = cls(v.copy(), dt, smooth_fa_freqs=cur_sm.copy())
            hist = [f'constructor(smooth_fa_freqs=linspace{pairs[first[1]]})']
        elif first[0] == 'ctor-range':
            o = cls(v.copy(), dt, smooth_freq_range=pairs[first[1]][0])
            cur_sm = np.logspace(np.log10(pairs[first[1]][0][0]), np.log10(pairs[first[1]][0][1]), 50, base=10)
            hist = [f'constructor(smooth_freq_range={pairs[first[1]][0]})']
        else:
            o = cls(v.copy(), dt)
            cur_sm = np.logspace(np.log10(0.1), np.log10(30), 50, base=10)
            hist = ['constructor(default)']
        cur_v, cur_band, held = v.copy(), 40, []
        ctx.count_case(('x3-range', repr(word), v.tobytes(), dt), True,
                       sample={'fn': 'smoothing-frequency entry points returning to an earlier (range, count)', 'word': [list(s_) for s_ in word]} if sample else None)
        hin = {'start values': v, 'dt': dt, 'cls': cls.__name__, 'history': list(hist), 'band of the last generation': cur_band, **rp}
        if rng.random() < 0.8:
            cur_sm = _x3_judge(ctx, o, cls, cur_v, dt, cur_sm, cur_band, None, hin, held)
        for step in word:
            k = step[0]
            loose = False
            if k.startswith('ctor'):
                continue
            if k == 'by_range':
                R, n = pairs[step[1]]
                lim = rng.choice([tuple, list, np.array])(R)
                o.set_smooth_fa_frequecies_by_range(lim, n)
                cur_sm = np.logspace(np.log10(R[0]), np.log10(R[1]), n, base=10)
                cur_band = 40
                op = f'set_smooth_fa_frequecies_by_range({R}, {n})'
            elif k in ('lin', 'lin-other-ends', 'log-same'):
                m = len(cur_sm)
                if k == 'lin':
                    new = np.linspace(cur_sm[0], cur_sm[-1], m)                  # the same count and ends on a linear axis
                elif k == 'lin-other-ends':
                    new = np.linspace(cur_sm[0] * rng.choice([0.5, 1.5, 2.0]), cur_sm[-1] * rng.choice([0.4, 0.9]), m)
                else:
                    new = np.exp(np.linspace(math.log(cur_sm[0]), math.log(cur_sm[-1]), m))     # log-spaced again (not bit-identical to logspace)
                setattr(o, step[1], list(new) if rng.random() < 0.3 else np.array(new))
                cur_sm, cur_band = np.array(new), 40
                op = f'{step[1]} = {k} ({m} points {new[0]:.6g}..{new[-1]:.6g})'
            elif k == 'gen':
                if step[1] == 'band':
                    cur_band = rng.choice([b for b in BANDS if b != cur_band])
                    o.gen_smooth_fa_spectrum(band=cur_band)
                    op = f'gen_smooth_fa_spectrum(band={cur_band})'
                else:
                    m = len(cur_sm)
                    new = np.linspace(cur_sm[0], cur_sm[-1], m) if step[1] == 'lin' else np.exp(np.linspace(math.log(cur_sm[0]), math.log(cur_sm[-1]), m))
                    cur_band = rng.choice(BANDS)
                    o.gen_smooth_fa_spectrum(smooth_fa_freqs=np.array(new), band=cur_band)
                    cur_sm = np.array(new)
                    op = f'gen_smooth_fa_spectrum(smooth_fa_freqs={step[1]} ({m} points), band={cur_band})'
            elif k == 'range=':
                R = pairs[step[1]][0]
                o.smooth_freq_range = R
                cur_sm = np.logspace(np.log10(R[0]), np.log10(R[1]), len(cur_sm), base=10)
                cur_band, loose = 40, True
                op = f'smooth_freq_range = {R}'
            elif k == 'points=':
                m = pairs[step[1]][1]
                o.smooth_freq_points = m
                cur_sm = np.logspace(np.log10(cur_sm[0]), np.log10(cur_sm[-1]), m, base=10)
                cur_band, loose = 40, True
                op = f'smooth_freq_points = {m}'
            elif k == 'reset':
                cur_v = gen.noise_record(rng, rng.randint(24, 200)) + 0.25
                o.reset_values(cur_v.copy())
                cur_band = 40
                op = f'reset_values({len(cur_v)} samples)'
            else:
                op = 'read'
            hist.append(op)
            ctx.hist('smoothing-range-word/' + k)
            hin = {'start values': v, 'dt': dt, 'cls': cls.__name__, 'history': list(hist), 'current values': cur_v, 'band of the last generation': cur_band, **rp}
            cur_sm = _x3_judge(ctx, o, cls, cur_v, dt, cur_sm, cur_band, None, hin, held, loose_grid=loose)


def extras3(ctx):
    x3_fas_regen(ctx)
    x3_range_words(ctx)


import contextlib
from core import no_probe

_run_main3 = run
_replay_case_main3 = replay_case


def replay_case(ctx, payload):
    inp = payload['inputs']
    if 'x3_family' not in inp and 'history' in inp and 'values' not in inp and 'fa_frequencies' not in inp:
        # a history of extras2 (x2_small): its random choices derive from (seed, tier) only -> re-run the module as recorded
        sub = type(ctx)(ctx.prop, payload.get('tier', ctx.tier), int(payload.get('seed', ctx.seed)))
        run(sub)
        left = [f for f in sub.oracle_failures if f['clause'] == payload.get('clause')]
        for f in left[:3]:
            print('still failing:', f['clause'], f['detail'])
        return not left
    if 'x3_family' not in inp:
        return _replay_case_main3(ctx, payload)
    sub = type(ctx)(ctx.prop, ctx.tier, ctx.seed)
    (_x3_fas_word if inp['x3_family'] == 'fas' else _x3_range_word)(sub, inp['x3_word'], inp['x3_fixed'], inp['x3_word_seed'])
    sub.pending = []
    for f in sub.oracle_failures:
        print('still failing:', f['clause'], f['detail'])
    return not sub.oracle_failures


def run(ctx):
    _run_main3(ctx)
    extras3(ctx)
    ctx.flush()


# ---- extras4 (hx_r9b, round 9): targets that LOOK LIKE the non-zero Fourier grid (same count, entry by entry close) without being it --------------
# A grid exported with 6 significant digits and read back, recomputed from a rounded time step, perturbed by 1e-6 relative, with one entry moved,
# shifted by one bin, reversed: the window must be centred on the GIVEN targets. Spiky spectra (the effect of a slightly displaced centre is of
# the order of the displacement times the band). Judged by array_case: window formula vs the scalar-math definition, Float twin, weighted mean,
# matrix form == direct form, deprecated argument order; plus the object level (Signal.gen_smooth_fa_spectrum(smooth_fa_freqs=...)).
def _x4_spiky(rng, n, cplx):
    a = 1.0 + 0.2 * np.sin(np.arange(n) / rng.choice([3.0, 7.0]))
    for _ in range(rng.randint(2, 5)):
        a[rng.randrange(1, n)] = rng.choice([30.0, 55.0, 80.0, 120.0])
    return a * np.exp(1j * np.arange(n)) if cplx else a


def _x4_near_grid(rng, fs, kind):
    fs = np.asarray(fs, dtype=float)
    m = len(fs)
    if kind == 'rel-noise':                 # every entry moved by up to rel (inside / at / outside the usual allclose tolerances)
        rel = rng.choice([1e-6, 3e-6, 1e-7, 9e-6, 1e-4, 1e-3])
        return fs * (1 + rel * np.array([rng.uniform(-1, 1) for _ in range(m)]))
    if kind == 'scaled':                    # the grid of a slightly rounded time step
        return fs * (1 + rng.choice([1e-6, -4e-6, 8e-6, -1e-7, 5e-5]))
    if kind in ('6-digits', '5-digits', '7-digits'):
        out = np.array([float('%.*g' % (int(kind[0]), x)) for x in fs])
        return out if np.any(out != fs) else fs * (1 + 2e-6)
    if kind == 'one-moved':                 # one entry moved (a little / a lot), the others bitwise the grid
        out = fs.copy()
        out[rng.randrange(m)] *= 1 + rng.choice([5e-6, -5e-6, 2e-6, 1e-2, 0.3])
        return out
    if kind == 'abs-noise':                 # absolute 1e-8 .. 1e-9 (the atol of allclose) on a low-frequency grid
        return fs + rng.choice([1e-8, 5e-9, 1e-7]) * np.array([rng.choice([-1.0, 1.0]) for _ in range(m)])
    if kind == 'shifted':                   # the grid shifted by one bin: same count, entries of the grid, not the same positions
        return np.concatenate([fs[1:], [2 * fs[-1] - fs[-2]]])
    return fs[::-1].copy()                  # 'reversed'


X4_KINDS = ['rel-noise', '6-digits', 'scaled', 'one-moved', 'abs-noise', 'rel-noise', '5-digits', 'shifted', 'reversed', '7-digits', 'one-moved', 'scaled']


def extras4(ctx):
    import eqsig
    from eqsig.fns import frequency as fq
    rng = ctx.rng
    reps = len(X4_KINDS) if ctx.tier == 'quick' else 6 * len(X4_KINDS)
    for it in range(reps):
        kind = X4_KINDS[it % len(X4_KINDS)]
        n = rng.choice([12, 24, 40, 65]) if ctx.tier == 'quick' or it % 5 else rng.choice([150, 301])
        zero_bin = it % 4 != 3
        df = rng.choice([1.0 / (2048 * 0.007), 0.048828125, 1.0 / (64 * 0.01), 0.3, 1.0 / 30.0]) if kind != 'abs-noise' else rng.choice([1e-3, 2.5e-4])
        fr_ = np.arange(n) * df if zero_bin else (np.arange(n) + 1) * df
        fs = fr_[1:] if zero_bin else fr_
        A = _x4_spiky(rng, n, cplx=it % 3 == 1)
        sm = _x4_near_grid(rng, fs, kind)
        band = rng.choice([40, 100, 20, 40])
        array_case(ctx, 'near-grid/' + kind, fr_, A, sm, band, small=False)
        if it % 6 == 5:
            ctx.flush()
    ctx.flush()
    # object level: the targets are the object's own non-zero Fourier frequencies after a round trip through text / a rounded time step
    for it in range(4 if ctx.tier == 'quick' else 24):
        kind = ['6-digits', 'rel-noise', 'scaled', 'one-moved'][it % 4]
        npts = rng.choice([30, 50, 64, 100])
        dt = rng.choice([0.007, 0.01, 0.02, 0.005])
        v = np.asarray(gen.spike_record(rng, npts), dtype=float) + 0.05 * np.asarray(gen.noise_record(rng, npts), dtype=float)
        cls = eqsig.AccSignal if it % 2 else eqsig.Signal
        o = cls(v, dt)
        fa_f, fa_s = np.array(o.fa_frequencies), np.array(o.fa_spectrum)
        sm = _x4_near_grid(rng, fa_f[1:], kind)
        band = rng.choice([40, 100])
        inputs = {'values': v, 'dt': dt, 'smooth_fa_frequencies': sm, 'band': band, 'cls': cls.__name__, 'kind': 'near-grid/' + kind}
        ctx.hist('object/near-grid/' + kind)
        ctx.count_case(('x4-object', v.tobytes(), dt, sm.tobytes(), band), True)
        want = np.abs(fa_s[1:]) @ _x2_ko_cols(band, fa_f[1:], sm)
        tol = 1e-10 * float(np.max(np.abs(fa_s[1:])))
        for how in ('gen(smooth_fa_freqs=)', 'constructor', 'setter'):
            o = cls(v, dt, smooth_fa_freqs=sm.copy()) if how == 'constructor' else cls(v, dt)
            if how == 'gen(smooth_fa_freqs=)':
                r = call_impl(o.gen_smooth_fa_spectrum, smooth_fa_freqs=sm.copy(), band=band)
            else:
                if how == 'setter':
                    o.smooth_fa_frequencies = sm.copy()
                r = call_impl(o.gen_smooth_fa_spectrum, band=band)
            got = np.asarray(o.smooth_fa_spectrum, dtype=float) if r[0] == 'ok' else None
            ctx.oracle('C07.b/c object level: smoothed amplitude at each GIVEN target is the Konno-Ohmachi weighted mean of |fa_spectrum| centred on '
                       'that target (targets close to the Fourier grid, %s)' % how,
                       got is not None and got.shape == want.shape and bool(np.all(np.abs(got - want) <= tol)), {**inputs, 'how': how},
                       detail={'status': r[0], 'max_dev': None if got is None or got.shape != want.shape else float(np.max(np.abs(got - want))), 'tol': tol})
            ctx.oracle('C07 object level: the targets reported are the targets given', r[0] == 'ok' and np.array_equal(np.asarray(o.smooth_fa_frequencies), sm),
                       {**inputs, 'how': how})


_run_main4 = run


def run(ctx):
    _run_main4(ctx)
    extras4(ctx)
    ctx.flush()
