"""Preceding public calls on the same content (round-7 lesson, hx_r7c).

A measure that is built on lower-level public functions (the power-law cycle measures on the switched peaks, the switched peaks on the
local peaks, the cycle counter on either) must not depend on what a caller asked those lower-level functions *before*: a user who first
looks at `get_switched_peak_array_indices(v, 2.5)` and then evaluates `calc_n_cyc_array_w_power_law(v, ...)` gets the measure of `v`.
A memo inside the library that identifies a call by the series content plus only PART of the call (the keyword arguments but not the
positional ones, the positional ones but not the keywords, the first argument only, the number of arguments ...) is invisible to every
single call and to every repeated identical call; it needs a *different* call on byte-identical content immediately before.

`before(ctx, entries, content, inputs)` makes, for a share of the call sites of a property module, one to three such calls -- a public
function of the table with NON-DEFAULT option values handed over positionally (in the documented order, preceded by the documented
defaults or by other non-default values), by keyword, mixed, or with every argument (also the series) by keyword -- and ignores the
results (exceptions are swallowed: a table value may be outside the domain).  The module's own correspondence and oracles then judge
the call the module asked for; what was called before is appended to `inputs['preceding public calls on the same content']` so that a
failing input can be replayed.  Nothing is demanded of the preceding calls themselves.

The draws come from a PRNG of their own (derived from VERIF_SEED and the property id, like the probes'), so the module's own random
choices are the same with and without the preceding calls.  The tables pin the documented parameter order of the unchanged tree; a
function a table names that does not exist is skipped.
"""
import hashlib
import random
import warnings

import numpy as np

KEY = 'preceding public calls on the same content'


def rng_of(ctx):
    r = getattr(ctx, '_precall_rng', None)
    if r is None:
        r = random.Random((ctx.seed * 15485863) ^ int(hashlib.sha256(('precalls' + ctx.prop).encode()).hexdigest()[:8], 16))
        ctx._precall_rng = r
    return r


def _peak(content):
    try:
        p = float(np.max(np.abs(np.asarray(content, dtype=float))))
        return p if np.isfinite(p) and p > 0 else 1.0
    except Exception:  # noqa
        return 1.0


def pc_entries(content, weights=None):
    """[(weight, function, first parameter name, [(required name, value)...], [(optional name, documented default, [non-default values])...])]
    for the public array-level functions of eqsig.fns.peaks_and_crossings (documented parameter order of the pinned tree)"""
    from eqsig.fns import peaks_and_crossings as pc
    peak = _peak(content)
    n = len(content)
    tols = [0.5 * peak, 2.5, 0.05 * peak, 1.0]
    w = {'get_peak_array_indices': 4, 'get_switched_peak_array_indices': 4, 'get_zero_crossings_array_indices': 3, 'get_n_cyc_array': 2,
         'clean_out_non_changing': 1, 'determine_indices_of_peaks_for_cleaned_array': 1, 'get_zero_and_peak_array_indices': 1,
         'get_major_change_indices': 1}
    w.update(weights or {})
    tab = [('get_peak_array_indices', 'values', [], [('ptype', 'all', ['max', 'min'])]),
           ('get_switched_peak_array_indices', 'values', [], [('tol', 0.0, tols)]),
           ('get_zero_crossings_array_indices', 'values', [], [('keep_adj_zeros', False, [True]), ('tol', 0.0, tols)]),
           ('get_n_cyc_array', 'values', [], [('opt', 'all', ['switched']), ('start', 'origin', ['peak'])]),
           ('clean_out_non_changing', 'values', [], []),
           ('determine_indices_of_peaks_for_cleaned_array', 'values', [], []),
           ('get_zero_and_peak_array_indices', 'pvals', [], [('zvals', None, [lambda c: np.array(c), lambda c: -np.asarray(c, dtype=float)]), ('min_step', 0, [1, 2])])]
    if n <= 300:   # a Python loop with a running mean per sample
        tab.append(('get_major_change_indices', 'y', [], [('rtol', 1.0e-8, [1.0e-3]), ('atol', 1.0e-5, [0.1 * peak]), ('already_diff', False, [True]), ('dx', 1, [2])]))
    out = []
    for name, first, req, opts in tab:
        f = getattr(pc, name, None)
        if f is not None and w.get(name, 1) > 0:
            out.append((w.get(name, 1), f, first, req, opts))
    return out


def im_power_entries(content, weights=None):
    """the power-law measures of eqsig.im themselves with OTHER parameter values (consecutive evaluations of one record for a range of
    reference amplitudes, exponents, cycle numbers and cut-offs)"""
    from eqsig import im
    peak = _peak(content)
    w = {'calc_n_cyc_array_w_power_law': 3, 'calc_cyc_amp_array_w_power_law': 2, 'calc_cyc_amp_gm_arrays_w_power_law': 1, 'calc_cyc_amp_combined_arrays_w_power_law': 1}
    w.update(weights or {})
    rr = rng_free_choice
    tab = [('calc_n_cyc_array_w_power_law', 'values', [('a_ref', [0.3 * peak, 0.65 * peak, peak, 2.0 * peak]), ('b', [0.1, 0.25, 0.34, 0.5, 1.0])],
            [('cut_off', 0.01, [0.0, 0.05, 0.1, 0.3, 0.6])]),
           ('calc_cyc_amp_array_w_power_law', 'values', [('n_cyc', [1, 5, 15, 2.5]), ('b', [0.1, 0.25, 0.34, 0.5, 1.0])], []),
           ('calc_cyc_amp_gm_arrays_w_power_law', 'values0', [('values1', [lambda c: np.array(c), lambda c: np.asarray(c)[::-1].copy()]), ('n_cyc', [1, 5, 15, 2.5]),
                                                               ('b', [0.1, 0.34, 1.0])], []),
           ('calc_cyc_amp_combined_arrays_w_power_law', 'values0', [('values1', [lambda c: np.array(c), lambda c: np.asarray(c)[::-1].copy()]), ('n_cyc', [1, 5, 15, 2.5]),
                                                                     ('b', [0.1, 0.34, 1.0])], [])]
    out = []
    for name, first, req, opts in tab:
        f = getattr(im, name, None)
        if f is not None and w.get(name, 1) > 0:
            out.append((w.get(name, 1), f, first, [(nm, rr(vals)) for nm, vals in req], opts))
    return out


class rng_free_choice:
    """marker: a required argument whose value is drawn per call from a list"""
    def __init__(self, vals):
        self.vals = vals


def _val(rng, v, content):
    if isinstance(v, rng_free_choice):
        v = rng.choice(v.vals)
    return v(content) if callable(v) else v


def _short(v):
    if isinstance(v, np.ndarray):
        return '<array of %d>' % v.size if v.ndim == 1 else '<array %s>' % (v.shape,)
    if hasattr(v, 'values') and hasattr(v, 'dt'):
        return '<the signal object>'
    if type(v).__module__.startswith('unittest.mock'):
        return '<mock axes>'
    return repr(v)


def one_call(rng, f, first, req, opts, content, same_object=False, p_default=0.0):
    """one call of f on `content` with non-default options in a random passing style; returns (description, passing style, args, kwargs).
    same_object: never hand over a copy of `content`; p_default: share of calls that leave every option at its default"""
    chosen = {}
    if opts and rng.random() >= p_default:
        k = rng.randrange(len(opts))
        for i, (name, _d, vals) in enumerate(opts):
            if i == k or rng.random() < 0.3:
                chosen[name] = _val(rng, rng.choice(vals), content)
    reqv = [(nm, _val(rng, v, content)) for nm, v in req]
    style = rng.choice(['positional', 'positional', 'positional', 'keyword', 'keyword', 'mixed', 'all-keyword']) if chosen else rng.choice(['plain', 'plain', 'all-keyword'])
    x = content if same_object or rng.random() < 0.7 else np.array(content)           # the same object, or another object with the same bytes
    args, kw = [x] + [v for _, v in reqv], {}
    if style == 'all-keyword':
        args, kw = [], {first: x, **dict(reqv), **chosen}
    elif style == 'keyword':
        kw = dict(chosen)
    elif chosen:
        last = max(i for i, (nm, _d, _v) in enumerate(opts) if nm in chosen)
        npos = last + 1 if style == 'positional' else rng.randint(0, last)     # mixed: the first npos optional parameters positionally
        args += [chosen.get(nm, d) for nm, d, _v in opts[:npos]]
        kw = {nm: chosen[nm] for nm, _d, _v in opts[npos:] if nm in chosen}
    def lab(v):
        return '<content>' if v is x and isinstance(x, (np.ndarray, list, tuple)) else _short(v)
    desc = '%s.%s(%s)' % (getattr(f, '__module__', '?').replace('eqsig.', ''), getattr(f, '__name__', '?'),
                          ', '.join([lab(v) for v in args] + ['%s=%s' % (nm, lab(v)) for nm, v in kw.items()]))
    try:
        with warnings.catch_warnings():
            warnings.simplefilter('ignore')
            with np.errstate(all='ignore'):
                f(*args, **kw)
    except Exception as e:  # noqa  (results and outcomes of the preceding calls are not judged)
        desc += ' -> ' + type(e).__name__
    return desc, style, args, kw


def before(ctx, entries, content, inputs=None, share=0.5, max_calls=3):
    """with probability `share`: one to `max_calls` calls drawn from `entries` (a list, or a function content -> list) on `content`"""
    rng = rng_of(ctx)
    if rng.random() >= share:
        return None
    if callable(entries):
        entries = entries(content)
    if not entries:
        return None
    descs = []
    for _ in range(rng.choice([1, 1, 2, 3][:max(1, min(4, max_calls + 1))])):
        wgt, f, first, req, opts = rng.choices(entries, weights=[e[0] for e in entries])[0]
        d, style, _a, _k = one_call(rng, f, first, req, opts, content)
        ctx.hist('preceding-call/%s/%s' % (getattr(f, '__name__', '?'), style))
        descs.append(d)
    if inputs is not None:
        inputs.setdefault(KEY, [])
        inputs[KEY] = list(inputs[KEY]) + [descs]
    return descs
