"""C19 — surface-energy and time-shift utilities match the shifted-wave definition."""
import itertools
import math
from fractions import Fraction

import numpy as np

import gen
from core import fr, w_rat, w_rats, w_bool, p_rats, cmp_exact, cmp_budget, call_impl

EXHAUSTIVE = True
RULE = ("corpus (test-suite style integer-sample travel times, the C19.d tail witness [1,2,-1,3]/dt=.5/tt=.5,1.5, fractional delays); "
        "exhaustive: length-3 records over {0,+-1,2} x travel times {0, dt/4, dt/2, dt} (singletons and pairs) x nodal x trim x start; "
        "random: n in 2..64 dyadic-safe (dt in {1,1/2,1/4,1/8}, travel times multiples of dt/4, dyadic reductions, stt multiples of dt/2: "
        "exact comparison) and n in 2..400 with decimal dt, travel-time sets {0, fractional, multiples of dt/2, mixed}, scalar / per-row "
        "reductions, nodal x trim x start in {T,F}^3, stt >= 0 (budget 1e-9; the integer decisions int(2tt/dt), int(tt/dt), int(stt/dt) are "
        "replicated on the impl's float operations and the correspondence is run only where they agree with the exact ones — counted); "
        "shift vectors with negative/zero/positive entries (exhaustive over {-2..2}^<=3, random up to length 6), every clip, add/sub. "
        "distinct = hash of all arguments; non-trivial = record length >= 3 and not constant")
TIE = ("correspondence (hand models Model/Surface.lean, Model/TimeShift.lean on exact rationals; np.interp from Prelude/Interp.lean)")
NOT_PROVED = ["IEEE rounding of the interpolation/trapezoid pipeline (measured, budget 1e-9) and of the quotients 2*tt/dt, tt/dt, stt/dt next ",
              "to an integer: the impl truncates the binary64 quotient; inputs where a float and an exact decision differ are counted and ",
              "checked by the float re-computation oracles only",
              "mixed scalar/array reductions and Python lists (TypeError/IndexError, or a per-sample factor when up_red is scalar and len(down_red) == padded width): outside the model's Red type, not generated; array reductions of every length are proved (broadcast = written-out rows; ValueError / IndexError kinds: Props/C19RedShapes)",
              "kinds only",
              "start=True with int(stt/dt) - int(tt/dt) > npts: the code's values[i, :npts - sis] becomes a Python negative slice (raises or ",
              "returns zeros depending on the padded width); outside the stated domain, compared with the model only",
              "DESIGN's original C19.d tail clause ('batch row = single result extended by its final value') is false of code and model; ",
              "replaced by prefix equality + trimmed equality + constant tail one sample later (proved)"]


PROP_MODULES = ['C19', 'C19Gen', 'C19RedShapes']

def _err(res):
    """SignalProcessingWarning has no ErrKind on the wire: the model reports Other"""
    if res[0] == 'err' and res[1].startswith('Other'):
        return ('err', 'Other')
    return res


def trunc(q):
    return int(q)  # Fraction -> int truncates toward zero


# ---------------------------------------------------------------------------------------------------------------------
# independent specification (exact on Fractions, float otherwise)
# ---------------------------------------------------------------------------------------------------------------------

def interp_zero(a, x):
    """linear interpolation of the record at abscissa x on the unit grid, zero outside [0, n-1] (works on Fractions and floats)"""
    n = len(a)
    if x < 0 or x > n - 1:
        return 0 * a[0]
    j = math.floor(x)
    if j >= n - 1:
        return a[n - 1]
    return a[j] + (a[j + 1] - a[j]) * (x - j)


def spec_acc_rows(a, dt, tts, nodal, ups, downs, shifts, ms):
    """acc[i][k] = up_i*a0[k] -/+ down_i*(D_{s_i} a)[k], k < n+ms"""
    n = len(a)
    rows = []
    for i in range(len(tts)):
        s = shifts[i]
        row = []
        for k in range(n + ms):
            a0 = a[k] if k < n else 0 * a[0]
            d = interp_zero(a, k - s) * downs[i]
            row.append(a0 * ups[i] - d if nodal else a0 * ups[i] + d)
        rows.append(row)
    return rows


def spec_energy_rows(acc_rows, dt):
    out = []
    for row in acc_rows:
        v = [0 * dt]
        for k in range(1, len(row)):
            v.append(v[-1] + dt * (row[k] + row[k - 1]) / 2)
        out.append([x * abs(x) / 2 for x in v])
    return out


def spec_trim(rows, n, s2d, ss, trim, start):
    """the option table: same start time = shift row i by sis_i = ss - s2d_i samples (zero fill), length npts / npts+extras"""
    if not trim and not start:
        return rows
    if start:
        sis = [ss - s for s in s2d]
        npts = n if trim else n + max(max(sis), 0) - min(min(2 * s for s in s2d), 0)
    else:
        sis = [0] * len(s2d)
        npts = n
    out = []
    for row, sh in zip(rows, sis):
        zero = 0 * row[0] if row else 0
        out.append([(row[t - sh] if 0 <= t - sh < len(row) else zero) for t in range(npts)])
    return out


def spec_put2d(values, shifts, clip):
    n = len(values)
    ee = max(max(shifts), 0)
    se = -min(min(shifts), 0)
    rows = []
    for j in shifts:
        row = [0.0] * (n + se + ee)
        for t, v in enumerate(values):
            row[se + j + t] = v
        rows.append(row)
    lo = se if clip in ('start', 'both') else 0
    hi = n + se if clip in ('end', 'both') else n + se + ee
    return [r[lo:hi] for r in rows], se, ee


def rows_of(val):
    v = np.asarray(val)
    if v.ndim == 1:
        return [list(v)]
    return [list(r) for r in v]


def close_rows(got, want, tol):
    if len(got) != len(want):
        return False
    for g, w in zip(got, want):
        if len(g) != len(w):
            return False
        for x, y in zip(g, w):
            if abs(float(x) - float(y)) > tol:
                return False
    return True


def exact_rows(got, want):
    return len(got) == len(want) and all(len(g) == len(w) and all(fr(x) == y for x, y in zip(g, w)) for g, w in zip(got, want))


def cmp_out(outs, val, exact, ctx, fn, floor=Fraction(0)):
    """compare the model's 1d/2d rendering with the impl's array (floor: smallest scale the rounding budget refers to -- a result that is
    nothing but rounding residue, e.g. a spike whose only non-zero sample was cut off by start=True, is not compared relative to itself)"""
    v = np.asarray(val)
    tag = outs[0][0] if outs and outs[0] else '?'
    if tag == '1d':
        if v.ndim != 1:
            return f"shape impl={v.shape} model=1-D"
        mrows = [p_rats(outs[1]) if len(outs) > 1 else []]
        irows = [list(v)]
    else:
        m = int(outs[0][1])
        if v.ndim != 2 or v.shape[0] != m:
            return f"shape impl={v.shape} model=2-D with {m} rows"
        mrows = [p_rats(outs[1 + i]) if len(outs) > 1 + i else [] for i in range(m)]
        irows = [list(r) for r in v]
    scale = max([abs(x) for r in mrows for x in r] + [Fraction(0), fr(floor)])
    for i, (ir, mr) in enumerate(zip(irows, mrows)):
        if exact:
            msg = cmp_exact(ir, mr)
        else:
            msg, g = cmp_budget(ir, mr, Fraction(1, 10 ** 9), scale=scale if scale else None)
            ctx.gap(fn, g)
        if msg:
            return f"row {i}: {msg}"
    return None


DY_DTS = (1.0, 0.5, 0.25, 0.125)
DY_REDS = (1.0, 0.5, 0.75, 2.0, 0.25, 1.5)


def run(ctx):
    import eqsig
    from eqsig import surface as sf
    from eqsig.fns import time_shift as tsh
    rng = ctx.rng
    quick = ctx.tier == 'quick'
    FUNCS = (('calc_surface_energy', sf.calc_surface_energy, 'surface_energy'),
             ('calc_cum_abs_surface_energy', sf.calc_cum_abs_surface_energy, 'cum_abs_surface_energy'),
             ('get_time_shift_motions', sf.get_time_shift_motions, 'time_shift_motions'))

    # ------------------------------------------------------------------------------------------------------------
    def surface(a, dt, tts, nodal, red, stt, trim, start, dyadic, kind, tt_form='array', light=False):
        """red = ('S', u, d) | ('R', [u...], [d...]);  tts list of floats (tt_form: 'scalar' passes tts[0] as a Python float)"""
        a = np.asarray(a, dtype=float)
        n = len(a)
        m = len(tts)
        tta = np.array(tts, dtype=float)
        inputs = {'values': a if n <= 70 else {'n': n, 'head': a[:8], 'kind': kind}, 'dt': dt, 'travel_times': list(tts), 'nodal': nodal,
                  'up_red': red[1], 'down_red': red[2], 'stt': stt, 'trim': trim, 'start': start, 'travel_times_form': tt_form}
        ctx.count_case((a.tobytes(), dt, tuple(tts), nodal, repr(red), stt, trim, start), gen.nontrivial_record(a),
                       sample={'fn': 'calc_surface_energy', **inputs} if ctx.evaluations % 499 == 0 else None)
        ctx.hist('kind=' + kind)
        ctx.hist(f'options nodal={w_bool(nodal)} trim={w_bool(trim)} start={w_bool(start)}')
        ctx.hist('reductions=' + ('scalar' if red[0] == 'S' else 'per-row'))
        ctx.hist('budget=' + ('E' if dyadic else 'R'))

        def args():
            asig = ctx.aged(eqsig.AccSignal, a.copy(), dt)
            t = float(tts[0]) if tt_form == 'scalar' else (list(tts) if tt_form == 'list' else tta.copy())
            if red[0] == 'S':
                u, d = red[1], red[2]
            else:
                u, d = np.array(red[1], dtype=float), np.array(red[2], dtype=float)
            return asig, t, u, d
        # ---- the integer decisions, on the impl's float operations and exactly
        with np.errstate(all='ignore'):
            sh_f = 2 * tta / dt
            ms_f = int(np.max(sh_f))
            s2d_f = [int(x) for x in np.array(tta / dt, dtype=int)]
            ss_f = int(stt / dt)
        fdt = fr(dt)
        sh_e = [2 * fr(t) / fdt for t in tts]
        ms_e = trunc(max(sh_e))
        s2d_e = [trunc(fr(t) / fdt) for t in tts]
        ss_e = trunc(fr(stt) / fdt)
        agree = (ms_f == ms_e and s2d_f == s2d_e and ss_f == ss_e and
                 all(math.floor(x) == math.floor(y) and (float(x) == math.floor(x)) == (y.denominator == 1) for x, y in zip(sh_f, sh_e)))
        ctx.hist('integer decisions: float ' + ('==' if agree else '!=') + ' exact')
        ups = [red[1]] * m if red[0] == 'S' else list(red[1])
        downs = [red[2]] * m if red[0] == 'S' else list(red[2])
        red_ok = red[0] == 'S' or (len(red[1]) == m and len(red[2]) == m)
        # natural magnitudes of the outputs given the INPUTS (hx_r7d): motions <= mag, energies <= e_mag.  A result far below 1e-4 of these is pure
        # rounding residue (the float quotient 2*tt/dt next to a whole number moves the interpolated delayed wave by ~1e-16 * slope); the 1e-9
        # budgets below are taken relative to at least 1e-4 of the natural magnitude (i.e. an absolute 1e-13 of it) instead of relative to the residue
        with np.errstate(all='ignore'):
            mag = float(np.max(np.abs(a))) * (max([abs(float(x)) for x in ups] + [0.0]) + max([abs(float(x)) for x in downs] + [0.0])) if n else 0.0
            e_mag = 0.5 * (mag * float(dt) * (n + max(ms_f, 0))) ** 2
        floors = {'calc_surface_energy': 1e-4 * e_mag, 'calc_cum_abs_surface_energy': 4e-4 * e_mag, 'get_time_shift_motions': 1e-4 * mag}
        floors = {k_: (v_ if np.isfinite(v_) else 0.0) for k_, v_ in floors.items()}
        sane = (red_ok and all(t >= 0 for t in tts) and stt >= 0 and all(ss_f - s <= n for s in s2d_f))
        if red[0] == 'S':
            rs = f"S|{w_rat(red[1])}|{w_rat(red[2])}"
        else:
            rs = f"R|{w_rats(red[1])}|{w_rats(red[2])}"
        results = {}
        for name, fn, handler in FUNCS:
            asig, t, u, d = args()
            snap = (asig.values.copy(), None if np.isscalar(t) or isinstance(t, list) else t.copy(),
                    None if red[0] == 'S' else (u.copy(), d.copy()))
            res = call_impl(fn, asig, t, nodal=nodal, up_red=u, down_red=d, stt=stt, trim=trim, start=start)
            results[name] = res
            unchanged = np.array_equal(asig.values, snap[0]) and (snap[1] is None or np.array_equal(t, snap[1])) and \
                (snap[2] is None or (np.array_equal(u, snap[2][0]) and np.array_equal(d, snap[2][1])))
            ctx.oracle(f'C19 {name} leaves the signal, the travel times and the reduction arrays unchanged', bool(unchanged), inputs)
            if agree or dyadic:
                req = f"{handler}|{w_rats(a)}|{w_rat(dt)}|{w_rats(tts)}|{w_bool(nodal)}|{rs}|{w_rat(stt)}|{w_bool(trim)}|{w_bool(start)}"
                ctx.corr(name, req, _err(res), lambda outs, val, dyadic=dyadic, name=name, fl=floors[name]: cmp_out(outs, val, dyadic, ctx, name, floor=fl), inputs=inputs)
            if sane:
                ctx.oracle(f'C19 {name} returns on its domain (tt >= 0, 0 <= stt, start shift within the record)', res[0] == 'ok', inputs,
                           detail=res if res[0] == 'err' else None, facts={'function': name, 'clause': 'returns'})
        if not sane or any(r[0] != 'ok' for r in results.values()):
            return
        E = rows_of(results['calc_surface_energy'][1])
        C = rows_of(results['calc_cum_abs_surface_energy'][1])
        A = rows_of(results['get_time_shift_motions'][1])
        # ---- shapes
        for name, R in (('calc_surface_energy', E), ('calc_cum_abs_surface_energy', C), ('get_time_shift_motions', A)):
            v = np.asarray(results[name][1])
            ctx.oracle(f'C19 {name}: 1-D result for a single travel time, one row per travel time otherwise',
                       (v.ndim == 1) if m == 1 else (v.ndim == 2 and v.shape[0] == m), inputs, detail={'shape': v.shape})
        # ---- C19.c lengths per option table
        sis = [ss_f - s for s in s2d_f]
        if trim:
            want_len = n
        elif start:
            want_len = n + max(max(sis), 0) - min(min(2 * s for s in s2d_f), 0)
        else:
            want_len = n + ms_f
        ctx.oracle('C19.c output lengths follow the trim/start options: npts when trimmed, npts + max_shift untrimmed, npts + extras for '
                   'start without trim', all(len(r) == want_len for r in E + C + A), inputs,
                   detail={'lengths': [len(r) for r in E], 'expected': want_len, 'max_shift': ms_f})
        # ---- C19.a definition (independent re-computation)
        if dyadic:
            fa = [fr(x) for x in a]
            acc = spec_acc_rows(fa, fdt, tts, nodal, [fr(x) for x in ups], [fr(x) for x in downs], sh_e, ms_e)
            en = spec_energy_rows(acc, fdt)
            want_A = spec_trim(acc, n, s2d_e, ss_e, trim, start)
            want_E = spec_trim(en, n, s2d_e, ss_e, trim, start)
            okA, okE = exact_rows(A, want_A), exact_rows(E, want_E)
        elif not light or n <= 120:
            fa = [float(x) for x in a]
            acc = spec_acc_rows(fa, float(dt), tts, nodal, [float(x) for x in ups], [float(x) for x in downs], [float(x) for x in sh_f], ms_f)
            en = spec_energy_rows(acc, float(dt))
            want_A = spec_trim(acc, n, s2d_f, ss_f, trim, start)
            want_E = spec_trim(en, n, s2d_f, ss_f, trim, start)
            sa = max([abs(x) for r in want_A for x in r] + [1e-300, floors['get_time_shift_motions']])
            se_ = max([abs(x) for r in want_E for x in r] + [1e-300, floors['calc_surface_energy']])
            okA, okE = close_rows(A, want_A, 1e-9 * sa), close_rows(E, want_E, 1e-9 * se_)
        else:
            okA = okE = None
        if okE is not None:
            ctx.oracle('C19.a surface energy rows == 0.5*v*|v|, v = cumulative trapezoid of up_red*a0 -/+ down_red*D_{2tt}a (- nodal, '
                       '+ anti-nodal; linear interpolation for fractional delays, zero fill), rows aligned per the trim/start options',
                       okE, inputs, facts={'function': 'calc_surface_energy', 'clause': 'definition'})
            ctx.oracle('C19.a get_time_shift_motions rows == up_red*a0 -/+ down_red*D_{2tt}a, aligned per the trim/start options', okA, inputs,
                       facts={'function': 'get_time_shift_motions', 'clause': 'definition'})
        # ---- C19.c cumulative absolute change
        want_C = []
        for r in E:
            c, prev, row = 0.0, 0.0, []
            for x in r:
                c += abs(float(x) - prev)
                prev = float(x)
                row.append(c)
            want_C.append(row)
        sc = max([abs(x) for r in want_C for x in r] + [1e-300])
        ctx.oracle('C19.c calc_cum_abs_surface_energy == cumulative sum of |increments| of the surface energy (first increment from 0)',
                   close_rows(C, want_C, 1e-12 * sc), inputs)
        ctx.oracle('C19.c cumulative absolute change is non-decreasing along every row', all(all(r[i] <= r[i + 1] for i in range(len(r) - 1)) for r in C),
                   inputs)
        if nodal and all(t == 0 for t in tts) and all(x == y for x, y in zip(ups, downs)):
            ctx.hist('zero travel time, nodal, equal reductions')
            ctx.oracle('C19.c zero for zero travel time at a nodal surface with equal reductions', all(x == 0 for r in C + E for x in r), inputs)
        if not light:
            al = rng.choice([2.0, -2.0, 0.5, -4.0]) if rng.random() < 0.7 else rng.choice([3.0, -1.5, 0.3])
            asig, t, u, d = args()
            asig2 = eqsig.AccSignal(al * a, dt)
            r2 = call_impl(sf.calc_cum_abs_surface_energy, asig2, t, nodal=nodal, up_red=u, down_red=d, stt=stt, trim=trim, start=start)
            pow2 = al in (2.0, -2.0, 0.5, -4.0)
            if r2[0] == 'ok':
                C2 = rows_of(r2[1])
                wantS = [[al * al * float(x) for x in r] for r in C]
                ok = exact_rows(C2, [[fr(x) for x in r] for r in wantS]) if pow2 else close_rows(C2, wantS, 1e-9 * sc * al * al)
            else:
                ok = False
            ctx.oracle('C19.c cumulative absolute change scales with alpha^2 (exactly for powers of two, also negative alpha)', ok,
                       {**inputs, 'alpha': al}, detail=r2 if r2[0] == 'err' else None)
        # ---- C19.d rows of a batch
        if m >= 2 and red_ok and not light:
            i = rng.randrange(m)
            ri = ('S', ups[i], downs[i])
            for tr, st in ((False, False), (True, False), (True, True)):
                b = call_impl(sf.calc_surface_energy, eqsig.AccSignal(a.copy(), dt), tta.copy(), nodal=nodal,
                              up_red=(red[1] if red[0] == 'S' else np.array(red[1])), down_red=(red[2] if red[0] == 'S' else np.array(red[2])),
                              stt=stt, trim=tr, start=st)
                s = call_impl(sf.calc_surface_energy, eqsig.AccSignal(a.copy(), dt), np.array([tts[i]]), nodal=nodal, up_red=ri[1],
                              down_red=ri[2], stt=stt, trim=tr, start=st)
                if b[0] != 'ok' or s[0] != 'ok':
                    ctx.oracle('C19.d batch and single-travel-time calls both return', False, {**inputs, 'row': i, 'trim': tr, 'start': st},
                               detail={'batch': b if b[0] == 'err' else 'ok', 'single': s if s[0] == 'err' else 'ok'})
                    continue
                brow = np.asarray(b[1])[i]
                srow = np.asarray(s[1])
                if not tr:
                    ok = len(srow) <= len(brow) and np.array_equal(brow[:len(srow)], srow)
                    ctx.oracle('C19.d row i of an untrimmed batch equals the single-travel-time result on their common length', bool(ok),
                               {**inputs, 'row': i}, detail={'len_single': len(srow), 'len_batch_row': len(brow)})
                else:
                    ok = len(srow) == len(brow) == n and np.array_equal(brow, srow)
                    ctx.oracle('C19.d row i of a batch trimmed to npts equals the single-travel-time result' + (' (start=True)' if st else ''),
                               bool(ok), {**inputs, 'row': i, 'start': st})
        # ---- C19.b integer delays = shifted copies
        if all(float(x) == math.floor(x) for x in sh_f) and all(t >= 0 for t in tts):
            ctx.hist('integer-sample delays')
            r = call_impl(sf.get_time_shift_motions, eqsig.AccSignal(a.copy(), dt), tta.copy(), nodal=False, up_red=0.0, down_red=1.0)
            p = call_impl(tsh.put_array_in_2d_array, a.copy(), np.array([int(x) for x in sh_f], dtype=int))
            ok = r[0] == 'ok' and p[0] == 'ok' and exact_rows(rows_of(r[1]), [[fr(x) for x in row] for row in rows_of(p[1])])
            ctx.oracle('C19.b integer-sample delays: the delayed wave is the record shifted by s samples with zeros elsewhere '
                       '(== put_array_in_2d_array row)', ok, inputs)

    # ------------------------------------------------------------------------------------------------------------
    def put_join(values, shifts, exact=True):
        values = np.asarray(values, dtype=float)
        sh = np.array(shifts, dtype=int)
        ctx.count_case(('put', values.tobytes(), tuple(shifts)), gen.nontrivial_record(values))
        ctx.hist('shifts: ' + ('empty' if not shifts else ('negative entries' if min(shifts) < 0 else 'non-negative')))
        for clip in ('none', 'start', 'end', 'both'):
            v0, s0 = values.copy(), sh.copy()
            res = call_impl(tsh.put_array_in_2d_array, v0, s0, clip=clip)
            inputs = {'values': values, 'shifts': list(shifts), 'clip': clip}
            ctx.corr('put_array_in_2d_array', f"put2d|{w_rats(values)}|{' '.join(map(str, shifts))}|{clip}", res,
                     lambda outs, val: cmp_out(outs, val, True, ctx, 'put_array_in_2d_array'), inputs=inputs)
            if not shifts:
                continue
            want, se, ee = spec_put2d(list(values), list(shifts), clip)
            ok = res[0] == 'ok' and np.asarray(res[1]).shape == (len(shifts), len(want[0])) and \
                all(list(r) == w for r, w in zip(np.asarray(res[1]), want))
            ctx.oracle('C19.e put_array_in_2d_array places the values at exactly the requested integer offsets '
                       '(out[i][start_extras + shifts[i] + t] == values[t]) with zeros elsewhere; widths per clip', bool(ok), inputs,
                       detail=res if res[0] == 'err' else {'shape': np.asarray(res[1]).shape}, facts={'function': 'put_array_in_2d_array', 'clip': clip})
            ctx.oracle('C19 put_array_in_2d_array leaves its inputs unchanged', np.array_equal(v0, values) and np.array_equal(s0, sh), inputs)
        for jt in ('add', 'sub'):
            v0, s0 = values.copy(), sh.copy()
            res = call_impl(tsh.join_values_w_shifts, v0, s0, jtype=jt)
            inputs = {'values': values, 'shifts': list(shifts), 'jtype': jt}
            ctx.corr('join_values_w_shifts', f"join_values|{w_rats(values)}|{' '.join(map(str, shifts))}|{jt}", res,
                     lambda outs, val, ex=bool(np.all(values == np.round(values))): cmp_out(outs, val, ex, ctx, 'join_values_w_shifts'),
                     inputs=inputs)
            if shifts and min(shifts) >= 0:
                mx = max(shifts)
                a0 = list(values) + [0.0] * mx
                want = []
                for j in shifts:
                    row = [0.0] * j + [float(x) for x in values] + [0.0] * (mx - j)
                    want.append([(x + float(y)) if jt == 'add' else (-x + float(y)) for x, y in zip(row, a0)])   # one IEEE addition each
                ok = res[0] == 'ok' and np.asarray(res[1]).shape == (len(shifts), len(a0)) and \
                    all(list(r) == w for r, w in zip(np.asarray(res[1]), want))
                ctx.oracle('C19.e join_values_w_shifts adds (subtracts) the shifted copies to (from) the zero-padded original', bool(ok), inputs,
                           detail=res if res[0] == 'err' else None, facts={'function': 'join_values_w_shifts'})
                ctx.oracle('C19 join_values_w_shifts leaves its inputs unchanged', np.array_equal(v0, values) and np.array_equal(s0, sh), inputs)

    def join_sig(values, dt, tshifts):
        values = np.asarray(values, dtype=float)
        for jt in ('add', 'sub'):
            asig = ctx.aged(eqsig.AccSignal, values.copy(), dt)
            ta = np.array(tshifts, dtype=float)
            res = call_impl(tsh.join_sig_w_time_shift, asig, ta, jtype=jt)
            inputs = {'values': values, 'dt': dt, 'time_shifts': list(tshifts), 'jtype': jt}
            with np.errstate(all='ignore'):
                s_f = [int(x) for x in np.array(ta / dt, dtype=int)]
            s_e = [trunc(fr(t) / fr(dt)) for t in tshifts]
            ctx.count_case(('joinsig', values.tobytes(), dt, tuple(tshifts), jt), gen.nontrivial_record(values))
            if s_f == s_e:
                ctx.corr('join_sig_w_time_shift', f"join_sig|{w_rats(values)}|{w_rat(dt)}|{w_rats(tshifts)}|{jt}", res,
                         lambda outs, val: cmp_out(outs, val, True, ctx, 'join_sig_w_time_shift'), inputs=inputs)
            ref = call_impl(tsh.join_values_w_shifts, values.copy(), np.array(s_f, dtype=int), jtype=jt)
            ok = (res[0] == ref[0]) and (res[0] == 'err' and res[1] == ref[1] or res[0] == 'ok' and np.array_equal(res[1], ref[1]))
            ctx.oracle('C19.e join_sig_w_time_shift == join_values_w_shifts with shifts = int(time_shifts / dt)', bool(ok), inputs)

    # ------------------------------------------------------------------------------------------------------------
    # corpus
    # ------------------------------------------------------------------------------------------------------------
    w = np.array([1.0, 2.0, -1.0, 3.0])
    for tts in ([0.5], [0.5, 1.5], [0.125, 0.25], [0.0], [0.0, 0.0], [1.0, 1.0]):
        for nodal, trim, start in itertools.product((True, False), repeat=3):
            ctx.hist('corpus')
            surface(w, 0.5, tts, nodal, ('S', 1.0, 1.0), 0.0 if not start else 0.5, trim, start, True, 'corpus')
    surface(w, 0.5, [0.5], True, ('S', 1.0, 1.0), 0.0, False, False, True, 'corpus', tt_form='scalar')
    surface(w, 0.5, [0.25, 0.5], True, ('S', 1.0, 1.0), 0.0, False, False, True, 'corpus', tt_form='list')
    surface(np.sin(np.linspace(0, 10, 100)), 0.1, [0.1, 0.2], True, ('S', 1.0, 1.0), 0.3, True, False, False, 'corpus')
    surface(np.sin(np.linspace(0, 10, 100)), 0.1, [0.1, 0.2], True, ('R', [1.0, 0.9], [0.8, 0.7]), 0.3, True, True, False, 'corpus')
    ctx.flush()

    # ------------------------------------------------------------------------------------------------------------
    # exhaustive: length-3 records, travel times {0, dt/4, dt/2, dt}
    # ------------------------------------------------------------------------------------------------------------
    recs3 = list(itertools.product((0, 1, -1, 2), repeat=3))
    if quick:
        recs3 = recs3[1::3]
    for t3 in recs3:
        a = np.array(t3, dtype=float)
        dt = 0.5
        tsets = [[0.0], [dt / 4], [dt / 2], [dt], [0.0, dt / 4], [dt / 2, dt], [dt, dt / 4]]
        for tts in tsets:
            for nodal, trim, start in itertools.product((True, False), repeat=3):
                if quick and (hash((t3, tuple(tts), nodal, trim, start)) % 4):
                    continue
                ctx.hist('exhaustive length-3')
                surface(a, dt, tts, nodal, ('S', 1.0, 1.0) if hash(t3) % 2 else ('S', 0.5, 2.0), rng.choice([0.0, dt / 2, dt, 2 * dt]) if start else 0.0,
                        trim, start, True, 'exhaustive', light=True)
        ctx.flush()

    # ------------------------------------------------------------------------------------------------------------
    # random surface cases
    # ------------------------------------------------------------------------------------------------------------
    n_random = 1000 if quick else 10000
    # source hints: travel times tt [s], tt/dt and the delay 2 tt/dt in samples, and the reductions at / around every new float constant of the anchored files
    hv_tt, hv_red = gen.hint_values(ctx, 0.0, 50.0, cap=24), gen.hint_values(ctx, 0.05, 1.5, cap=8)
    for i in range(n_random):
        dyadic = (i % 2 == 0)
        if dyadic:
            kind = rng.choice(['dyadic', 'int', 'plateau', 'spike', 'step'])
            n = gen.log_int(rng, 2, 64)
            a = {'dyadic': lambda r, k: gen.dyadic_record(r, k, amp=4, bits=2), 'int': gen.int_record, 'plateau': gen.plateau_record,
                 'spike': gen.spike_record, 'step': gen.step_record}[kind](rng, n)
            dt = rng.choice(DY_DTS)
            q = dt / 4
            tset = rng.choice(['zero', 'fractional', 'half-multiples', 'mixed', 'integer'])
            m = rng.choice([1, 1, 2, 3, 4])
            if tset == 'zero':
                tts = [0.0] * m
            elif tset == 'fractional':
                tts = [q * rng.choice([1, 3, 5, 7, 9]) for _ in range(m)]
            elif tset == 'half-multiples':
                tts = [2 * q * rng.randint(0, 8) for _ in range(m)]
            elif tset == 'integer':
                tts = [2 * q * rng.randint(0, 6) for _ in range(m)]
            else:
                tts = [q * rng.randint(0, 16) for _ in range(m)]
            stt = rng.choice([0.0, 0.0, dt / 2, dt, 2 * dt, 3.5 * dt, dt * min(n, 5)])
            pick = lambda: rng.choice(DY_REDS)  # noqa
        else:
            n = gen.log_int(rng, 2, 400 if quick else 1500)
            dt = rng.choice([0.01, 0.005, 0.02, 0.1, 0.05])
            kind, a = gen.any_record(rng, n, dt)
            tset = rng.choice(['zero', 'fractional', 'half-multiples', 'mixed'])
            m = rng.choice([1, 2, 3])
            if tset == 'zero':
                tts = [0.0] * m
            elif tset == 'fractional':
                tts = [rng.uniform(0, 6 * dt) for _ in range(m)]
            elif tset == 'half-multiples':
                tts = [rng.randint(0, 10) * dt / 2 for _ in range(m)]
            else:
                tts = [rng.choice([0.0, rng.uniform(0, 5 * dt), rng.randint(0, 8) * dt / 2]) for _ in range(m)]
            if hv_tt and rng.random() < 0.3:
                c = rng.choice(hv_tt)
                tts[rng.randrange(m)] = rng.choice([x for x in (c, c * dt, c * dt / 2) if x <= 50 * dt] or [0.0])
                tset = 'mixed' if tset == 'zero' else tset
            stt = rng.choice([0.0, 0.0, dt, 2.5 * dt, rng.uniform(0, 4 * dt)])
            pick = lambda: rng.choice([1.0, 0.9, 0.5, 0.73, 1.2] + hv_red)  # noqa
        ctx.hist('travel times: ' + tset)
        u = rng.random()
        if u < 0.45:
            red = ('S', pick(), pick())
        elif u < 0.55:
            x = pick()
            red = ('S', x, x)
        elif u < 0.92:
            red = ('R', [pick() for _ in range(m)], [pick() for _ in range(m)])
        elif u < 0.96:
            red = ('R', [pick()], [pick()])                      # length-1 arrays: NumPy broadcasts
        else:
            red = ('R', [pick() for _ in range(m + 1)], [pick() for _ in range(m)]) if m > 1 else ('R', [], [pick()])   # rejected
        nodal, trim, start = [(i >> b) & 1 == 1 for b in (1, 2, 3)] if i % 3 else [rng.random() < 0.5 for _ in range(3)]
        form = 'scalar' if (m == 1 and rng.random() < 0.3) else ('list' if rng.random() < 0.15 else 'array')
        if tset == 'zero' and rng.random() < 0.7:
            nodal = True
            if red[0] == 'S':
                red = ('S', red[1], red[1])
            elif len(red[1]) == m:
                red = ('R', red[1], list(red[1]))
        surface(a, dt, tts, nodal, red, stt, trim, start, dyadic, kind, tt_form=form, light=(not dyadic and n > 150))
        if i % 200 == 199:
            ctx.flush()
    ctx.flush()
    # out-of-domain error kinds (compared with the model only)
    for tts, stt, red in (([-0.5], 0.0, ('S', 1.0, 1.0)), ([], 0.0, ('S', 1.0, 1.0)), ([0.25, 0.5], 3.0, ('S', 1.0, 1.0)),
                          ([0.25, 0.5], -2.0, ('S', 1.0, 1.0)), ([0.5], 0.0, ('R', [1.0, 2.0, 3.0], [2.0])), ([0.5, 1.0], 0.0, ('R', [1.0, 2.0], [2.0, 1.0, 3.0]))):
        for trim, start in itertools.product((True, False), repeat=2):
            for name, fn, handler in FUNCS:
                asig = eqsig.AccSignal(w.copy(), 0.5)
                u, d = (red[1], red[2]) if red[0] == 'S' else (np.array(red[1]), np.array(red[2]))
                res = call_impl(fn, asig, np.array(tts), nodal=True, up_red=u, down_red=d, stt=stt, trim=trim, start=start)
                rs = f"S|{w_rat(red[1])}|{w_rat(red[2])}" if red[0] == 'S' else f"R|{w_rats(red[1])}|{w_rats(red[2])}"
                ctx.hist('out-of-domain (error kinds)')
                ctx.corr(name + ' [out of domain]', f"{handler}|{w_rats(w)}|1/2|{w_rats(tts)}|T|{rs}|{w_rat(stt)}|{w_bool(trim)}|{w_bool(start)}",
                         _err(res), lambda outs, val, name=name: cmp_out(outs, val, True, ctx, name),
                         inputs={'values': w, 'dt': 0.5, 'travel_times': tts, 'stt': stt, 'red': red, 'trim': trim, 'start': start})
    ctx.flush()

    # ------------------------------------------------------------------------------------------------------------
    # trim_to_length stand-alone (2-D arrays unrelated to a record)
    # ------------------------------------------------------------------------------------------------------------
    for i in range(150 if quick else 1500):
        m = rng.choice([1, 1, 2, 3])
        W = rng.choice([1, 2, 4, 6, 9, 12])
        npts = rng.choice([0, 1, 2, 3, 4, 6, 8])
        dt = rng.choice([1.0, 0.5, 0.25])
        tts = [rng.choice([0, 1, 2, 3, 5, 6, 8]) * dt / 4 * rng.choice([1, 1, 2]) for _ in range(m)]
        stt = rng.choice([0, 0, 1, 2, 4, 6, 3]) * dt / 2
        rows = [[float(rng.randint(-5, 5)) for _ in range(W)] for _ in range(m)]
        for trim, start in itertools.product((True, False), repeat=2):
            vals = np.array(rows, dtype=float).reshape((m, W))
            v0 = vals.copy()
            res = call_impl(sf.trim_to_length, vals, npts, np.array(tts, dtype=float), dt, trim=trim, start=start, s2s_travel_time=stt)
            line = f"trim_to_length|{npts}|{w_rats(tts)}|{w_rat(dt)}|{w_bool(trim)}|{w_bool(start)}|{w_rat(stt)}" + "".join("|" + w_rats(r) for r in rows)
            inputs = {'values': rows, 'npts': npts, 'travel_times': tts, 'dt': dt, 'trim': trim, 'start': start, 'stt': stt}
            ctx.count_case(('trim', repr(rows), npts, tuple(tts), dt, trim, start, stt), True)
            ctx.hist('trim_to_length stand-alone')
            ctx.corr('trim_to_length', line, res, lambda outs, val: cmp_out(outs, val, True, ctx, 'trim_to_length'), inputs=inputs)
            ctx.oracle('C19 trim_to_length leaves its input array unchanged', np.array_equal(vals, v0), inputs)
            if res[0] == 'ok' and (trim or start):
                s2d = [trunc(fr(t) / fr(dt)) for t in tts]
                ss = trunc(fr(stt) / fr(dt))
                sis = [ss - s for s in s2d] if start else [0] * m
                want_len = npts if trim else npts + max(max(sis), 0) - min(min(2 * s for s in s2d), 0)
                ctx.oracle('C19.c trim_to_length output length: npts when trimmed, npts + extras for start without trim',
                           np.asarray(res[1]).shape == (m, want_len), inputs, detail={'shape': np.asarray(res[1]).shape})
    ctx.flush()

    # ------------------------------------------------------------------------------------------------------------
    # put_array_in_2d_array / join_values_w_shifts / join_sig_w_time_shift
    # ------------------------------------------------------------------------------------------------------------
    base_vals = [[], [5.0], [1.0, -2.0], [3.0, 0.0, -4.0], [1.0, 2.0, 4.0, 8.0]]
    rngs = (-2, -1, 0, 1, 2)
    shift_sets = [[]] + [[x] for x in rngs] + [list(t) for t in itertools.product(rngs, repeat=2)]
    if not quick:
        shift_sets += [list(t) for t in itertools.product(rngs, repeat=3)]
    else:
        shift_sets += [list(t) for t in itertools.product(rngs, repeat=3)][::5]
    for v in base_vals:
        for sh in shift_sets:
            ctx.hist('exhaustive shifts {-2..2}^<=3')
            put_join(v, sh)
        ctx.flush()
    for i in range(120 if quick else 1500):
        n = rng.randint(0, 12) if rng.random() < 0.8 else rng.randint(13, 200)
        v = gen.int_record(rng, n) if rng.random() < 0.5 else gen.noise_record(rng, n)
        k = rng.randint(1, 6)
        mode = rng.choice(['nonneg', 'mixed', 'neg'])
        sh = [rng.randint(0, 9) if mode == 'nonneg' else (rng.randint(-9, 9) if mode == 'mixed' else rng.randint(-9, -1)) for _ in range(k)]
        put_join(v, sh)
    ctx.flush()
    for i in range(60 if quick else 600):
        n = rng.randint(1, 20)
        v = gen.int_record(rng, n)
        dt = rng.choice([1.0, 0.5, 0.25, 0.01, 0.02])
        ts_ = [rng.choice([0.0, dt, 2 * dt, 1.75 * dt, 0.99 * dt, 3 * dt, -dt / 2, -2 * dt]) for _ in range(rng.randint(1, 4))]
        join_sig(v, dt, ts_)
    ctx.flush()

    # ------------------------------------------------------------------------------------------------------------
    # time_indices (helper of the same module; correspondence only)
    # ------------------------------------------------------------------------------------------------------------
    for npts in (0, 5, 10):
        for dt in (1.0, 0.5, 0.25):
            for start, end in ((0.0, -1), (1.0, 2.0), (0.25, 2.5), (1.0, 4.75), (0.0, 100.0), (-1.25, -1.0), (0.5, -2.0), (0.0, 0.0), (2.0, 2.25)):
                res = call_impl(tsh.time_indices, npts, dt, start, end, False)
                ctx.corr('time_indices', f"time_indices|{npts}|{w_rat(dt)}|{w_rat(start)}|{w_rat(end)}|F", _err(res),
                         lambda outs, val: cmp_exact(list(val), p_rats(outs[0])), inputs={'npts': npts, 'dt': dt, 'start': start, 'end': end})
            for start, end in ((0, -1), (1, 5), (2, 10), (3, 11), (0, 0), (-2, 4)):
                res = call_impl(tsh.time_indices, npts, dt, start, end, True)
                ctx.corr('time_indices', f"time_indices|{npts}|{w_rat(dt)}|{start}|{end}|T", _err(res),
                         lambda outs, val: cmp_exact(list(val), p_rats(outs[0])), inputs={'npts': npts, 'dt': dt, 'start': start, 'end': end})
    ctx.flush()


# ---- extras (round-3 lessons): large grids ---------------------------------------------------------------------------------------------

def extras(ctx):
    """LARGE batches (record length x travel times beyond 2^20, 2^21 grid points): every row of a batch still equals the result for that
    travel time alone, bit for bit, for the energy and for the delayed waves; option jtype of the join wrapper is forwarded"""
    import eqsig
    from eqsig import surface as sf
    rng = ctx.rng
    for n, m in ([(30000, 40)] if ctx.tier == 'quick' else [(30000, 40), (9000, 130), (60000, 37), (2500, 900)]) + \
            [(k, 8) for k in gen.hint_sizes(ctx, lo=401, hi=300000, cap=4)] + [(3000, k) for k in gen.hint_sizes(ctx, lo=5, hi=2000, cap=3)] + \
            [(30000, c // 30000 + 1) for c in gen.hint_sizes(ctx, lo=2 ** 17, hi=12000000, cap=2)]:      # source hints: samples, travel times, grid points around every new integer constant
        dt = 0.01
        a = gen.noise_record(rng, n) * np.exp(-((np.arange(n) - n / 4) / (n / 6)) ** 2)
        tts = np.sort(np.array([rng.uniform(0.0, 0.4) for _ in range(m)]))
        inputs = {'a': f'noise x envelope, n={n} (seeded)', 'dt': dt, 'travel_times': f'{m} values in [0, 0.4) (seeded, sorted)', 'grid': n * m}
        ctx.hist(f'large-batch/{n}x{m}')
        ctx.count_case(('large', n, m), True, sample={'fn': 'calc_surface_energy (large batch)', **inputs})
        for tr in (True, False):
            b = call_impl(sf.calc_surface_energy, eqsig.AccSignal(a.copy(), dt), tts.copy(), nodal=True, up_red=1.0, down_red=0.9, trim=tr)
            if b[0] != 'ok':
                ctx.oracle('C19.d large batch returns', False, {**inputs, 'trim': tr}, detail=b)
                continue
            rows = sorted(set([0, m - 1, m - 2, m // 2] + [rng.randrange(m) for _ in range(4)]))
            bad = None
            for i in rows:
                srow = np.asarray(sf.calc_surface_energy(eqsig.AccSignal(a.copy(), dt), np.array([tts[i]]), nodal=True, up_red=1.0, down_red=0.9, trim=tr))
                brow = np.asarray(b[1])[i]
                srow = srow.reshape(-1)
                if not (len(srow) <= len(brow) and np.array_equal(brow[:len(srow)], srow)):
                    bad = {'row': i, 'travel_time': float(tts[i]), 'max|batch row|': float(np.max(np.abs(brow))), 'max|single|': float(np.max(np.abs(srow)))}
                    break
            ctx.oracle('C19.d row i of a LARGE batch equals the single-travel-time result on their common length (==)', bad is None, {**inputs, 'trim': tr}, detail=bad)
        g = call_impl(sf.get_time_shift_motions, eqsig.AccSignal(a.copy(), dt), tts.copy(), nodal=True, up_red=1.0, down_red=0.9)
        if g[0] == 'ok':
            bad = None
            G = np.asarray(g[1])
            for i in sorted(set([0, m - 1, m - 2, m // 2])):
                s1 = np.asarray(sf.get_time_shift_motions(eqsig.AccSignal(a.copy(), dt), np.array([tts[i]]), nodal=True, up_red=1.0, down_red=0.9)).reshape(-1)
                brow = G[i] if G.ndim == 2 else G
                L = min(len(brow), len(s1))
                if G.ndim != 2 or G.shape[0] != m or not np.array_equal(brow[:L], s1[:L]):
                    bad = {'row': i, 'batch_shape': G.shape}
                    break
            ctx.oracle('C19.d the motions of row i of a LARGE batch equal those of the single travel time on their common length (==)', bad is None, inputs, detail=bad)


def extras_r5(ctx):
    """(a) delays NEAR a whole number of samples (2 tt / dt within 1e-5 ... 1e-9 of an integer, not equal to it) are interpolated like any
    other fractional delay: row of a batch that also holds a clearly fractional delay == the single call (==), and the energy agrees with
    the shifted-wave definition evaluated with np.interp; (b) VERY LARGE batches (> 2^23 grid points) with reduction factors != 1"""
    import eqsig
    from eqsig import surface as sf
    rng = ctx.rng
    for it in range(6 if ctx.tier == 'quick' else 50):
        n = rng.randint(60, 300)
        dt = rng.choice([0.005, 0.01, 0.02])
        a = gen.noise_record(rng, n)
        k = rng.randint(1, 40)
        rel = rng.choice([1e-5, 2e-6, 1e-7, 1e-9]) * rng.choice([1, -1])
        tt_near = 0.5 * dt * k * (1 + rel)
        others = [0.5 * dt * (rng.randint(0, 40) + rng.choice([0.0, 0.37, 0.5]))]
        for nodal, ur, dr in ((True, 1.0, 1.0), (False, 0.8, 0.6)):
            single = call_impl(sf.calc_surface_energy, eqsig.AccSignal(a.copy(), dt), np.array([tt_near]), nodal=nodal, up_red=ur, down_red=dr)
            alone = call_impl(sf.calc_surface_energy, eqsig.AccSignal(a.copy(), dt), tt_near, nodal=nodal, up_red=ur, down_red=dr)
            batch = call_impl(sf.calc_surface_energy, eqsig.AccSignal(a.copy(), dt), np.array([tt_near] + others), nodal=nodal, up_red=ur, down_red=dr)
            ok = single[0] == batch[0] == alone[0] == 'ok'
            if ok:
                srow = np.asarray(single[1]).reshape(-1)
                arow = np.asarray(alone[1]).reshape(-1)
                brow = np.asarray(batch[1])[0]
                L = min(len(srow), len(brow))
                ok = bool(np.array_equal(srow[:L], brow[:L]) and np.array_equal(arow[:L], brow[:L]))
                # definition: 0.5 v|v| of the cumulative trapezoid of up_red*a -/+ down_red*delayed(a), delay by linear interpolation, zero fill
                sh = 2 * tt_near / dt
                ms = int(sh)
                up = np.pad(a, (0, ms)) * ur
                dn = np.interp(np.arange(n + ms) - sh, np.arange(n), a, left=0, right=0) * dr
                acc = up - dn if nodal else up + dn
                vel = np.concatenate([[0.0], np.cumsum((acc[1:] + acc[:-1]) * dt / 2)])
                want = 0.5 * vel * np.abs(vel)
                L2 = min(len(want), len(srow))
                sc = max(float(np.max(np.abs(want))), 1e-300)
                ok = ok and float(np.max(np.abs(srow[:L2] - want[:L2]))) <= 1e-9 * sc
            ctx.hist('delay near a whole number of samples')
            ctx.count_case(('near-int', a.tobytes(), dt, tt_near, nodal), True)
            ctx.oracle('C19 a delay NEAR a whole number of samples is a fractional delay: scalar == length-1 array == row of a batch with other delays (==), and the energy '
                       'is that of the linearly interpolated delayed wave (1e-9)', ok,
                       {'a': a, 'dt': dt, 'travel_time': tt_near, 'delay_in_samples': 2 * tt_near / dt, 'other_travel_times': others, 'nodal': nodal, 'up_red': ur, 'down_red': dr})
    for n, m in ([(42000, 210)] if ctx.tier == 'quick' else [(42000, 210), (131072, 80), (20000, 500)]):
        dt = 0.01
        a = gen.noise_record(rng, n) * np.exp(-((np.arange(n) - n / 4) / (n / 6)) ** 2)
        tts = np.sort(np.array([rng.uniform(0.0, 0.4) for _ in range(m)]))
        for red in ('scalar', 'array'):
            ur = 0.9 if red == 'scalar' else np.linspace(0.7, 1.0, m)
            dr = 0.8 if red == 'scalar' else np.linspace(0.5, 0.9, m)
            inputs = {'a': f'noise x envelope, n={n} (seeded)', 'dt': dt, 'travel_times': f'{m} values in [0, 0.4) (seeded, sorted)', 'grid': n * m, 'reductions': red}
            ctx.hist(f'very large batch/{n}x{m}/{red} reductions')
            ctx.count_case(('vlarge', n, m, red), True)
            b = call_impl(sf.calc_surface_energy, eqsig.AccSignal(a.copy(), dt), tts.copy(), nodal=True, up_red=ur, down_red=dr, trim=True)
            if b[0] != 'ok':
                ctx.oracle('C19.d very large batch returns', False, inputs, detail=b)
                continue
            bad = None
            for i in sorted(set([0, m - 1, m - 2, m // 2, (3 * m) // 4] + [rng.randrange(m) for _ in range(3)])):
                srow = np.asarray(sf.calc_surface_energy(eqsig.AccSignal(a.copy(), dt), np.array([tts[i]]), nodal=True, up_red=ur if red == 'scalar' else np.array([ur[i]]),
                                                        down_red=dr if red == 'scalar' else np.array([dr[i]]), trim=True)).reshape(-1)
                brow = np.asarray(b[1])[i]
                if not (len(srow) == len(brow) and np.array_equal(brow, srow)):
                    bad = {'row': i, 'max|batch row|': float(np.max(np.abs(brow))), 'max|single|': float(np.max(np.abs(srow)))}
                    break
            del b
            ctx.oracle('C19.d row i of a VERY LARGE batch (> 2^23 grid points, reductions != 1) equals the single-travel-time result (==)', bad is None, inputs, detail=bad)


_run_main = run


def run(ctx):
    _run_main(ctx)
    extras(ctx)
    extras_r5(ctx)
    ctx.flush()


# ---- extras2 (harness extension hx_b): exact scaling of the record and of time, documented defaults / positional forms, containers,
# ---- objects with a history ---------------------------------------------------------------------------------------------------------------

def _x2_case(rng):
    n = gen.log_int(rng, 5, 160)
    dt = rng.choice([0.01, 0.02, 0.005, 0.125])
    a = gen.any_record(rng, n, dt)[1]
    m = rng.randint(1, 4)
    tts = np.sort(np.array([rng.choice([0.0, dt / 2, dt, 3 * dt, rng.uniform(0, 20 * dt)]) for _ in range(m)]))
    kw = {'nodal': rng.random() < 0.5, 'up_red': rng.choice([1.0, 0.8]), 'down_red': rng.choice([1.0, 0.9, 0.5]), 'stt': rng.choice([0.0, 0.0, 2 * dt, 0.013]),
          'trim': rng.random() < 0.5, 'start': rng.random() < 0.5}
    return n, dt, a, tts, kw


def _x2_scale(ctx, cur):
    """(2) the delayed-wave motions and the shifting helpers are of degree 1 in the record (exact for 2^+-600), the surface energy and its
    cumulative absolute change of degree 2 (2^+-200, 2^+-400); scaling dt, the travel times and stt together by 2^k keeps the motions and scales the
    energies by 2^2k (the velocity is an integral over time)"""
    import eqsig
    from eqsig import surface as sf
    from eqsig.fns import time_shift as tsh
    from _hxb_common import same, val, light_history
    rng = ctx.rng
    for it in range(30 if ctx.tier == 'quick' else 300):
        n, dt, a, tts, kw = _x2_case(rng)
        inputs = {'a': a, 'dt': dt, 'travel_times': tts, **kw}
        cur.clear()
        cur.update(inputs)
        ctx.hist('extras2/scale')
        ctx.count_case(('x2s', a.tobytes(), dt, tts.tobytes(), repr(kw)), gen.nontrivial_record(a))
        fns = [('calc_surface_energy', sf.calc_surface_energy, 2), ('calc_cum_abs_surface_energy', sf.calc_cum_abs_surface_energy, 2), ('get_time_shift_motions', sf.get_time_shift_motions, 1)]
        base = {nm: np.asarray(f(eqsig.AccSignal(a.copy(), dt), tts.copy(), **kw)) for nm, f, _ in fns}
        # (5) objects with a history
        for nm, f, _ in fns:
            g = val(call_impl(f, light_history(ctx, eqsig.AccSignal, a, dt), tts.copy(), **kw))
            ctx.oracle('C19 %s on an object with a history == on a fresh object' % nm, same(g, base[nm]), inputs)
            ctx.last_object_history = None
        sh = np.array([rng.randint(-6, 6) for _ in range(rng.randint(1, 4))])
        shp = np.abs(sh)
        clip = rng.choice(['none', 'start', 'end', 'both'])
        jt = rng.choice(['add', 'sub'])
        P, J = tsh.put_array_in_2d_array(a, sh, clip=clip), tsh.join_values_w_shifts(a, shp, jtype=jt)
        for k in gen.EXTREME_POW2 + (200, -200, 400, -400):
            f2 = 2.0 ** k
            sc = {**inputs, 'scale': '2**%d' % k}
            with np.errstate(all='ignore'):
                for nm, f, deg in fns:
                    if deg == 2 and abs(k) > 400:
                        continue
                    g = val(call_impl(f, eqsig.AccSignal(a * f2, dt), tts.copy(), **kw))
                    ctx.oracle('C19 %s is homogeneous of degree %d in the record: exact under scaling by a power of two' % (nm, deg),
                               g is not None and gen.scaled_exactly(g, base[nm], f2 ** deg), sc)
                    kw2 = {**kw, 'stt': kw['stt'] * f2}
                    g = val(call_impl(f, eqsig.AccSignal(a.copy(), dt * f2), tts * f2, **kw2))
                    ctx.oracle('C19 %s: scaling dt, the travel times and stt by the same power of two %s' % (nm, 'keeps the motions' if deg == 1 else 'scales the energy by its square, exactly'),
                               g is not None and (same(g, base[nm]) if deg == 1 else gen.scaled_exactly(g, base[nm], f2 * f2)), sc)
                g = val(call_impl(tsh.put_array_in_2d_array, a * f2, sh, clip=clip))
                ctx.oracle('C19.e put_array_in_2d_array scales exactly with the values (power of two)', g is not None and gen.scaled_exactly(g, P, f2), {**sc, 'shifts': sh, 'clip': clip})
                g = val(call_impl(tsh.join_values_w_shifts, a * f2, shp, jtype=jt))
                ctx.oracle('C19.f join_values_w_shifts scales exactly with the values (power of two)', g is not None and gen.scaled_exactly(g, J, f2), {**sc, 'shifts': shp, 'jtype': jt})


def _x2_options(ctx, cur):
    """(3) documented defaults (nodal=True, up_red=1, down_red=1, stt=0, trim=False, start=False; clip='none'; jtype='add') and positional forms;
    (4) travel times / shifts / values in any container or dtype"""
    import eqsig
    from eqsig import surface as sf
    from eqsig.fns import time_shift as tsh
    from _hxb_common import same, val
    rng = ctx.rng
    for it in range(30 if ctx.tier == 'quick' else 300):
        n, dt, a, tts, kw = _x2_case(rng)
        inputs = {'a': a, 'dt': dt, 'travel_times': tts, **kw}
        cur.clear()
        cur.update(inputs)
        ctx.hist('extras2/options')
        ctx.count_case(('x2o', a.tobytes(), dt, tts.tobytes(), repr(kw)), gen.nontrivial_record(a))
        mk = lambda: eqsig.AccSignal(a.copy(), dt)   # noqa: E731
        for nm, f in (('calc_surface_energy', sf.calc_surface_energy), ('calc_cum_abs_surface_energy', sf.calc_cum_abs_surface_energy), ('get_time_shift_motions', sf.get_time_shift_motions)):
            want = val(call_impl(f, mk(), tts.copy(), nodal=True, up_red=1.0, down_red=1.0, stt=0.0, trim=False, start=False))
            g = val(call_impl(f, mk(), tts.copy()))
            ctx.oracle('C19 %s: documented defaults (nodal=True, up_red=1, down_red=1, stt=0, trim=False, start=False) give the result of the explicit call' % nm,
                       want is not None and same(g, want), inputs)
            want = val(call_impl(f, mk(), tts.copy(), **kw))
            g = val(call_impl(f, mk(), tts.copy(), kw['nodal'], kw['up_red'], kw['down_red'], kw['stt'], kw['trim'], kw['start']))
            ctx.oracle('C19 %s: positional form == keyword form' % nm, want is not None and same(g, want), inputs)
            for lab, c in (('list', [float(t) for t in tts]), ('tuple', tuple(float(t) for t in tts)), ('strided', np.repeat(tts, 2)[::2])):
                g = call_impl(f, mk(), c, **kw)
                if g[0] == 'err' and g[1] in ('TypeError', 'AttributeError'):
                    ctx.hist('extras2/travel-time container rejected loudly/' + lab)      # a restriction of the domain, not demanded
                    continue
                ctx.oracle('C19 %s does not depend on the container holding the travel times' % nm, g[0] == 'ok' and same(g[1], want), {**inputs, 'container': lab}, detail=g if g[0] != 'ok' else None)
            ai = gen.int_record(rng, n, -9, 9)
            wi = val(call_impl(f, eqsig.AccSignal(ai.copy(), dt), tts.copy(), **kw))
            for lab, c in gen.container_variants(ai, floats32=False, arrays_only=True):      # a signal built from a float32 array is evaluated in single precision: not demanded
                g = val(call_impl(f, eqsig.AccSignal(c, dt), tts.copy(), **kw))
                ctx.oracle('C19 %s does not depend on the dtype of the record the signal was built from' % nm, wi is not None and same(g, wi), {**inputs, 'a': ai, 'container': lab})
        sh = np.array([rng.randint(-6, 6) for _ in range(rng.randint(1, 4))])
        shp = np.abs(sh)
        ai = gen.int_record(rng, n, -9, 9)
        ctx.oracle("C19.e put_array_in_2d_array: default clip == 'none'", same(val(call_impl(tsh.put_array_in_2d_array, a, sh)), tsh.put_array_in_2d_array(a, sh, clip='none')), {**inputs, 'shifts': sh})
        ctx.oracle("C19.f join_values_w_shifts / join_sig_w_time_shift: default jtype == 'add'", same(val(call_impl(tsh.join_values_w_shifts, a, shp)), tsh.join_values_w_shifts(a, shp, jtype='add')) and
                   same(val(call_impl(tsh.join_sig_w_time_shift, mk(), shp * dt)), tsh.join_sig_w_time_shift(mk(), shp * dt, jtype='add')), {**inputs, 'shifts': shp})
        clip = rng.choice(['none', 'start', 'end', 'both'])
        jt = rng.choice(['add', 'sub'])
        wantP, wantJ = tsh.put_array_in_2d_array(ai, sh, clip=clip), tsh.join_values_w_shifts(ai, shp, jtype=jt)
        for lab, c in gen.container_variants(ai):
            ctx.hist('extras2/container/' + lab)
            snap = np.array(c)
            g = call_impl(tsh.put_array_in_2d_array, c, sh, clip=clip)
            ctx.oracle('C19.e put_array_in_2d_array does not depend on the container or dtype holding the values', g[0] == 'ok' and same(g[1], wantP) and np.asarray(g[1]).dtype == np.float64,
                       {'values': ai, 'shifts': sh, 'clip': clip, 'container': lab}, detail=g if g[0] != 'ok' else None)
            g = call_impl(tsh.join_values_w_shifts, c, shp, jtype=jt)
            ctx.oracle('C19.f join_values_w_shifts does not depend on the container or dtype holding the values', g[0] == 'ok' and same(g[1], wantJ),
                       {'values': ai, 'shifts': shp, 'jtype': jt, 'container': lab}, detail=g if g[0] != 'ok' else None)
            ctx.oracle('C19 the shifting helpers leave their input unchanged', same(np.array(c), snap) and np.array(c).dtype == snap.dtype, {'values': ai, 'container': lab})
        for lab, s2 in (('list', [int(x) for x in sh]), ('tuple', tuple(int(x) for x in sh)), ('int32', sh.astype(np.int32)), ('int16', sh.astype(np.int16))):
            g = call_impl(tsh.put_array_in_2d_array, a, s2, clip=clip)
            ctx.oracle('C19.e put_array_in_2d_array does not depend on the container or integer dtype holding the shifts', g[0] == 'ok' and
                       same(g[1], tsh.put_array_in_2d_array(a, sh, clip=clip)), {'values': a, 'shifts': sh, 'clip': clip, 'container': lab}, detail=g if g[0] != 'ok' else None)


def extras2(ctx):
    from _hxb_common import guarded_sections
    guarded_sections(ctx, 'C19', [('scale', _x2_scale), ('options', _x2_options)])


_run_main2 = run


def run(ctx):
    _run_main2(ctx)
    extras2(ctx)
    ctx.flush()


# evidence: how the model is tied to the source on every run (as built, supersedes the value above)
TIE = 'translator (fns/time_shift.py, surface.py -> Gen/TimeShift; Props/C19Gen) + correspondence (exact on dyadic-safe inputs)'


# ---- round-7 deliveries (lw_small / tw_single3): further correspondences of models with new theorems -------------------------
import _lw_small as _LW  # noqa: E402
from _single3_corr import corr_single3  # noqa: E402
_run_main_r7 = run


def run(ctx):
    _run_main_r7(ctx)
    _LW.corr_red_shapes(ctx)
    ctx.flush()


# ---- extras3 (hx_r7d, round 7): ONE record object serving a sequence of surface calls ----------------------------------------------------------
# The surface functions take a signal OBJECT.  Whatever an earlier call (of any of the three functions, with other, nearly equal, permuted, fewer or
# more travel times, other options) or an earlier history of the object (gen.aged_signal, incl. generators called with non-default options) left
# on the object, the next call must return what it returns for a brand-new AccSignal of the same record and time step -- bit for bit.

def _x3_same_object(ctx, cur):
    import eqsig
    from eqsig import surface as sf
    from _hxb_common import same
    rng = ctx.rng
    fns = [('calc_surface_energy', sf.calc_surface_energy), ('calc_cum_abs_surface_energy', sf.calc_cum_abs_surface_energy), ('get_time_shift_motions', sf.get_time_shift_motions)]
    for it in range(30 if ctx.tier == 'quick' else 300):
        n = gen.log_int(rng, 8, 200)
        dt = rng.choice([0.01, 0.02, 0.005, 0.125])
        a = gen.any_record(rng, n, dt)[1]
        m = rng.randint(1, 3)
        tts = np.array([rng.choice([rng.uniform(0, 3 * dt), rng.uniform(0, 1e-3 * dt), rng.randint(0, 6) * dt / 2 + rng.uniform(0, 1e-4 * dt)]) for _ in range(m)])
        kw = {'nodal': rng.random() < 0.6, 'up_red': rng.choice([1.0, 0.8]), 'down_red': rng.choice([1.0, 0.9]), 'stt': rng.choice([0.0, 0.0, 2 * dt]),
              'trim': rng.random() < 0.5, 'start': rng.random() < 0.3}
        asig = ctx.aged(eqsig.AccSignal, a, dt)
        hist_kind = ctx.last_object_history
        log = []
        for step in range(rng.randint(3, 6)):
            op = rng.choice(['nearly equal travel times', 'nearly equal travel times', 'same travel times', 'rows permuted', 'one travel time changed', 'one more travel time',
                             'one fewer', 'options changed', 'record replaced']) if step else 'first call'
            if op == 'nearly equal travel times':
                # a refinement / bisection step: same count, same whole-sample maximum delay (usually), delays that agree to many digits but are not equal
                tts = tts * (1 + rng.choice([1e-7, 3e-7, -2e-7, 1e-6, 1e-5, 1e-9])) + rng.choice([0.0, 1e-8 * dt, 2e-7 * dt])
            elif op == 'rows permuted' and len(tts) > 1:
                tts = tts[::-1].copy()
            elif op == 'one travel time changed':
                tts = tts.copy()
                tts[rng.randrange(len(tts))] = rng.uniform(0, 3 * dt)
            elif op == 'one more travel time':
                tts = np.append(tts, rng.uniform(0, 3 * dt))
            elif op == 'one fewer' and len(tts) > 1:
                tts = tts[:-1].copy()
            elif op == 'options changed':
                kw = {**kw, 'nodal': not kw['nodal']} if rng.random() < 0.5 else {**kw, 'trim': not kw['trim'], 'down_red': rng.choice([1.0, 0.9, 0.5])}
            elif op == 'record replaced':
                a = gen.any_record(rng, n if rng.random() < 0.7 else n + rng.randint(1, 5), dt)[1]
                asig.reset_values(a)
            nm, f = rng.choice(fns)
            log.append({'step': op, 'function': nm, 'travel_times': tts.tolist(), **kw})
            inputs = {'values': a, 'dt': dt, 'calls on the same object so far': log[-4:]}
            cur.clear()
            cur.update(inputs)
            ctx.hist('extras3/same object/' + op)
            ctx.count_case(('x3so', a.tobytes(), dt, tts.tobytes(), repr(kw), nm, step), gen.nontrivial_record(a))
            keep = tts.copy()
            got = call_impl(f, asig, tts, **kw)
            want = call_impl(f, eqsig.AccSignal(np.array(a, copy=True), dt), keep.copy(), **kw)
            ok = got[0] == want[0] and (got[1] == want[1] if got[0] != 'ok' else same(got[1], want[1])) and np.array_equal(tts, keep) and np.array_equal(asig.values, a)
            ctx.last_object_history = hist_kind
            ctx.oracle('C19 %s on a record object that served earlier surface calls (other / nearly equal / permuted travel times, other options) == on a brand-new '
                       'object of the same record (==); travel times and record unchanged' % nm, ok, inputs,
                       detail=None if ok else {'same object': got[1] if got[0] != 'ok' else np.asarray(got[1]).reshape(-1)[:6], 'fresh object': want[1] if want[0] != 'ok' else np.asarray(want[1]).reshape(-1)[:6]})
        ctx.last_object_history = None


def extras3(ctx):
    from _hxb_common import guarded_sections
    guarded_sections(ctx, 'C19', [('same object', _x3_same_object)])


_run_main3 = run


def run(ctx):
    _run_main3(ctx)
    extras3(ctx)
    ctx.flush()


# ---- round 8: option values that are EQUAL to the documented ones without being the same object (np.bool_ from a comparison, 0 / 1) ----------------
# (seed C19-r8-1: `if nodal is False` after a refactor; the pinned code tests truthiness)

def _x4_option_forms(ctx, cur):
    import eqsig
    from eqsig import surface as sf
    from _hxb_common import same
    rng = ctx.rng
    fns = [('calc_surface_energy', sf.calc_surface_energy), ('calc_cum_abs_surface_energy', sf.calc_cum_abs_surface_energy), ('get_time_shift_motions', sf.get_time_shift_motions)]
    forms = [('np.bool_', lambda b: np.bool_(b)), ('int 0/1', lambda b: int(b)), ('np.array(..)[()] of a comparison', lambda b: (np.array([1.0]) > (0.0 if b else 2.0))[0])]
    for it in range(12 if ctx.tier == 'quick' else 120):
        n = gen.log_int(rng, 8, 120)
        dt = rng.choice([0.01, 0.02, 0.125])
        a = gen.any_record(rng, n, dt)[1]
        tts = np.array([rng.uniform(0, 3 * dt) for _ in range(rng.randint(1, 3))])
        base = {'nodal': rng.random() < 0.5, 'trim': rng.random() < 0.5, 'start': rng.random() < 0.5}
        nm, f = fns[it % 3]
        asig = eqsig.AccSignal(a, dt)
        want = call_impl(f, asig, tts, **base)
        for fname, conv in forms:
            for opt in ('nodal', 'trim', 'start'):
                kw = dict(base)
                kw[opt] = conv(base[opt])
                got = call_impl(f, eqsig.AccSignal(a, dt), tts, **kw)
                ctx.hist('option forms/' + fname)
                ok = got[0] == want[0] and (got[0] != 'ok' or same(got[1], want[1]))
                ctx.oracle(f'C19 {nm}: the option {opt} given as an equal truth value that is not the Python singleton ({fname}) gives the result of True / False', ok,
                           {'values': a, 'dt': dt, 'travel_times': tts, **{k: bool(v) for k, v in base.items()}, 'option': opt, 'form': fname},
                           detail=None if ok else {'got': got[0], 'want': want[0]})
    ctx.flush()


def extras4(ctx):
    from _hxb_common import guarded_sections
    guarded_sections(ctx, 'C19', [('option forms', _x4_option_forms)])


_run_main4 = run


def run(ctx):
    _run_main4(ctx)
    extras4(ctx)
    ctx.flush()
