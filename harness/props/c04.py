"""C04 — derived quantities of a signal object never go stale.

Histories of public operations on the real eqsig.AccSignal (and a few on plain eqsig.Signal) are compared with a freshly
constructed object with the same values / dt / settings, and with the Lean state machine `Model/SignalSM.lean` run on the
effect table generated from the Python AST (driver request `cache_history|<table>|…`).
"""
import copy
import itertools
import os
import time

import numpy as np

import core
import gen
from core import call_impl
import _c04_ops as O
from _c04_ops import QUANTS, SIGNAL_QUANTS, CONTENT_INDEPENDENT

TABLE = os.environ.get('EQSIG_TABLE', 'gen')   # 'gen' = table generated from the tree the driver was built for; 'golden'

RULE = ("histories = words over {every method row / property setter of the generated effect table} + READALL (read all 22 "
        "properties), run on a new AccSignal (or Signal), optionally after READALL (all caches filled); arguments drawn from the "
        "seeded PRNG (records: random walk / noise / dyadic / sine, lengths 48-130, value-replacing calls sometimes change the "
        "length). corpus: witnesses of F04-1 (s_a after response_times=, response_series(response_times=)); exhaustive: all words "
        "of length <= 2 (quick) / <= 3 over the mutator+settings alphabet (thorough), with and without prefilled caches; random: "
        "300 histories of length <= 12 (quick) / 5000 of length <= 30 on 3 records (thorough), checked after EVERY operation. "
        "Each check reads every property on its own copy.deepcopy and compares (same shape, bit-equal) with a newly constructed "
        "object. distinct = hash of (record, operation names and arguments); non-trivial = some state-changing call happens "
        "after some read (the read -> mutate -> read pattern)")
TIE = ("translator (tools/py2lean_struct.py: effect table from the AST of single.py) + correspondence (driver cache_history: "
       "the state machine on the generated table predicts fresh/stale for every read of every history; compared both ways)")
NOT_PROVED = ["completeness of the AST effect extraction (writes through getattr/__dict__, effects of callees outside single.py): "
              "covered by the dynamic comparison only",
              "numeric content of the generators (uninterpreted in the state machine: the theorem holds for any numerics)",
              "a stale cache can coincide bit-for-bit with the fresh value (fa_freqs/fa_frequencies depend on npts and dt only; "
              "smooth_fa_spectrum under a pure DC shift; pgv/pgd when the peak lies outside the changed tail): the direction "
              "model-stale => python-stale is therefore checked per state (some quantity the model calls stale is stale in Python)",
              "operations that raise (add_series with a wrong length, generate_duration_stats under NumPy without trapz) are not "
              "operations of the model"]
EXHAUSTIVE = True

READALL = 'READALL'
CLAUSE = 'C04 %s equals the value of a freshly constructed object'
CL_TWICE = 'C04.c reading a property twice returns the same value'
CL_OTHER = 'C04.c a read does not change any other observable'


# ---- which rows / quantities does the (compiled) table have? ----------------------------------------------------------

def table_rows():
    names = list(O.ARGS)
    reqs = ['cache_history|%s|same|%s|' % (TABLE, n) for n in names] + \
           ['cache_history|%s|same||%s' % (TABLE, q) for q in QUANTS]
    resp = core.run_driver(reqs)
    rows = [n for n, r in zip(names, resp[:len(names)]) if r[0] == 'ok']
    quants = [q for q, r in zip(QUANTS, resp[len(names):]) if r[0] == 'ok']
    return rows, quants


# ---- one history ---------------------------------------------------------------------------------------------------------

class History:
    """a running history on a real object; records the concrete operations for replay and the names for the model"""

    def __init__(self, cls, values, dt, sff, rt):
        self.cls = cls
        self.quants = QUANTS if cls == 'AccSignal' else SIGNAL_QUANTS
        self.start = {'cls': cls, 'values': list(map(float, values)), 'dt': dt, 'smooth_fa_freqs': list(sff), 'response_times': list(rt)}
        self.s = O.make_sig(cls, np.array(values, dtype=float), dt, np.array(sff), np.array(rt))
        self.ops = []        # [name, args] as performed
        self.mnames = []     # names for the Lean model
        self.read_seen = False
        self.nontrivial = False
        self.failed = None
        # the settings the object MUST have, tracked from the operations' arguments only (never read back from the object)
        self.exp_sff = np.array(sff, dtype=float)
        self.exp_rt = np.array(rt, dtype=float)

    def do(self, name, args=None, rng=None):
        """returns False when the call raised (the history ends there)"""
        if name == READALL:
            for q in self.quants:
                getattr(self.s, q)
            self.ops.append([READALL, {}])
            self.mnames.extend(self.quants)
            self.read_seen = True
            return True
        if name in self.quants or name in QUANTS:
            getattr(self.s, name)
            self.ops.append([name, {}])
            self.mnames.append(name)
            self.read_seen = True
            return True
        if args is None:
            args = O.ARGS[name](rng, self.s)
        res = call_impl(O.apply_op, self.s, name, args)
        if res[0] != 'ok':
            self.failed = (name, res[1])
            return False
        nsff, nrt = O.expected_settings(name, args, self.exp_sff, self.exp_rt)
        if nsff is not None:
            self.exp_sff = nsff
        if nrt is not None:
            self.exp_rt = nrt
        self.ops.append([name, args])
        self.mnames.append(O.model_name(name, self.s))
        if self.read_seen:
            self.nontrivial = True
        return True

    def inputs(self, q=None):
        d = dict(self.start)
        d['history'] = [list(o) for o in self.ops]
        if q is not None:
            d['quantity'] = q
        return d


def check_state(ctx, h, idem=False, collect=None):
    """all properties of the current state vs a fresh object (spec oracle) and vs the model (correspondence).
    collect: list to append failures to instead of reporting (used by search)."""
    s, cls, quants = h.s, h.cls, h.quants
    res = call_impl(lambda: (O.observe(s, cls, quants), O.observe_fresh(s, cls, quants)))
    if res[0] != 'ok':
        ctx.hist('observe-raised:' + res[1])
        return None
    obs, ref = res[1]
    fresh = {q: O.same(obs[q], ref[q]) for q in quants}
    opnames = [o[0] for o in h.ops]
    if collect is None:
        # the settings themselves: what the object reports must be what the operations SET (tracked from their arguments), so that
        # a settings call that silently does nothing cannot hide behind a comparison object built from the object's own settings
        okf = O.same(np.asarray(s.smooth_fa_freqs, dtype=float), h.exp_sff) or bool(
            np.shape(s.smooth_fa_freqs) == h.exp_sff.shape and np.allclose(s.smooth_fa_freqs, h.exp_sff, rtol=1e-13, atol=0))
        ctx.oracle('C04 smooth_fa_freqs are the frequencies last set (by value, range or point count)', okf,
                   inputs=None if okf else h.inputs('smooth_fa_freqs'),
                   detail=None if okf else {'object': O.brief(s.smooth_fa_freqs), 'expected': O.brief(h.exp_sff)},
                   facts=None if okf else {'history': opnames, 'quantity': 'smooth_fa_freqs', 'class': cls})
        if cls == 'AccSignal':
            okr = np.shape(s.response_times) == h.exp_rt.shape and bool(np.array_equal(np.asarray(s.response_times, dtype=float), h.exp_rt))
            ctx.oracle('C04 response_times are the periods last set', okr, inputs=None if okr else h.inputs('response_times'),
                       detail=None if okr else {'object': O.brief(s.response_times), 'expected': O.brief(h.exp_rt)},
                       facts=None if okr else {'history': opnames, 'quantity': 'response_times', 'class': cls})
    for q in quants:
        if collect is not None:
            if not fresh[q]:
                collect.append({'clause': CLAUSE % q, 'inputs': h.inputs(q),
                                'detail': {'object': O.brief(obs[q]), 'fresh object': O.brief(ref[q])},
                                'facts': {'history': opnames, 'quantity': q}})
            continue
        ctx.oracle(CLAUSE % q, fresh[q], inputs=None if fresh[q] else h.inputs(q),
                   detail=None if fresh[q] else {'object': O.brief(obs[q]), 'fresh object': O.brief(ref[q])},
                   facts=None if fresh[q] else {'history': opnames, 'quantity': q, 'class': cls})
    if collect is not None:
        return fresh
    # ---- model correspondence
    req = 'cache_history|%s|same|%s|%s' % (TABLE, ' '.join(h.mnames), ' '.join(quants))

    def compare(outs, value, quants=quants):
        model = {}
        for tok in outs[0]:
            q, _, b = tok.rpartition(':')
            model[q] = (b == 'T')
        py_stale = [q for q in quants if not value[q]]
        m_stale = [q for q in quants if not model.get(q, True)]
        bad = [q for q in py_stale if q not in m_stale]
        if bad:
            return 'model predicts fresh but the object is stale for %s (model stale: %s)' % (bad, m_stale)
        if m_stale and not py_stale and not set(m_stale) <= CONTENT_INDEPENDENT:
            return 'model predicts stale %s but every property is bit-equal to the fresh object' % m_stale
        return None
    ctx.corr('cache_history(%s)' % cls, req, ('ok', fresh), compare, inputs=h.inputs())
    # ---- reads are idempotent and change no other observable
    if idem:
        q = ctx.rng.choice(quants)
        c = copy.deepcopy(s)
        r = call_impl(lambda: (getattr(c, q), getattr(c, q)))
        if r[0] == 'ok':
            v1, v2 = r[1]
            ctx.oracle(CL_TWICE, O.same(v1, v2) and O.same(v1, obs[q]), inputs=None if O.same(v1, v2) else h.inputs(q),
                       detail={'first': O.brief(v1), 'second': O.brief(v2)}, facts={'quantity': q})
            r2 = call_impl(O.observe, c, cls, quants)
            if r2[0] == 'ok':
                changed = [p for p in quants if not O.same(r2[1][p], obs[p])]
                ctx.oracle(CL_OTHER, not changed, inputs=None if not changed else h.inputs(q),
                           detail={'read': q, 'changed': changed}, facts={'quantity': q, 'changed': changed})
    return fresh


def start_args(rng, n, dt):
    return O.rec(rng, n), dt, [0.5, 1.0, 2.0, 4.0, 8.0], [0.2, 0.5, 1.0]


def run_word(ctx, cls, base, word, prefill, rng, idem=False, collect=None, every=False):
    values, dt, sff, rt = base
    h = History(cls, values, dt, sff, rt)
    if prefill:
        h.do(READALL)
    for name in word:
        newlen = None
        if name == 'reset_values' and rng.random() < 0.5:
            args = O._a_reset(rng, h.s, rng.choice([48, 80, 96, 130]))
            ok = h.do(name, args)
        else:
            ok = h.do(name, rng=rng)
        if not ok:
            ctx.hist('op-raised:%s:%s' % h.failed)
            break
        if every:
            check_state(ctx, h, idem=idem and rng.random() < 0.25, collect=collect)
    if not every and h.failed is None:
        check_state(ctx, h, idem=idem, collect=collect)
    if collect is None:
        ctx.count_case((tuple(h.start['values'][:8]), repr(h.ops)), h.nontrivial,
                       sample={'class': cls, 'history': [o[0] for o in h.ops]} if ctx.evaluations % 701 == 0 else None)
    return h


def corpus(ctx, rows, base):
    """witnesses of the findings of this property (F04-1) and the histories of the design's probe"""
    words = [['s_a', 'response_times=', 's_a'], ['s_a', 'response_series/given'], ['s_a', 'gen_response_spectrum/given'],
             [READALL, 'rebase_displacement'], [READALL, 'reset_values', 'remove_rolling_average/velocity'],
             ['smooth_fa_spectrum', 'gen_smooth_fa_spectrum/given'], ['pgv', 'set_zero_residual_velocity'],
             ['velocity', 'running_average', 'pgd']]
    # 'same range as before' after the frequencies were replaced by other means (the argument makers of _c04_ops repeat the
    # remembered range / the constructor default half of the time, hence the repetitions)
    rep = [['set_smooth_fa_frequecies_by_range', 'smooth_fa_freqs=', 'set_smooth_fa_frequecies_by_range', 'smooth_fa_spectrum'],
           ['set_smooth_fa_frequecies_by_range', 'smooth_fa_spectrum', 'gen_smooth_fa_spectrum/given',
            'set_smooth_fa_frequecies_by_range', 'smooth_fa_spectrum'],
           ['smooth_fa_frequencies=', 'set_smooth_fa_frequecies_by_range', 'smooth_fa_frequencies=',
            'set_smooth_fa_frequecies_by_range'],
           ['smooth_freq_points=', 'smooth_fa_freqs=', 'smooth_freq_points=', 'smooth_fa_spectrum'],
           ['smooth_freq_range=', 'smooth_fa_freqs=', 'smooth_freq_range=', 'smooth_fa_spectrum']]
    words = words + [w for w in rep for _ in range(6)]
    for w in words:
        if all(x in rows or x in QUANTS or x == READALL for x in w):
            ctx.hist('corpus')
            run_word(ctx, 'AccSignal', base, w, False, ctx.rng, idem=True, every=True)
    # the literal witness of F04-1: default periods (100), then assign two
    import eqsig
    s = eqsig.AccSignal(np.array(base[0]), base[1])
    r = call_impl(lambda: (s.s_a, setattr(s, 'response_times', [0.3, 0.7]), len(s.s_a))[2])
    ctx.oracle(CLAUSE % 's_a', r == ('ok', 2), inputs={'values': list(map(float, base[0])), 'dt': base[1],
               'history': [['s_a', {}], ['response_times=', {'periods': [0.3, 0.7]}]], 'quantity': 's_a'},
               detail={'len(s_a)': r, 'want': 2}, facts={'history': ['s_a', 'response_times='], 'quantity': 's_a', 'class': 'AccSignal'})


def run(ctx):
    rng = ctx.rng
    rows, quants = table_rows()
    missing = [n for n in O.ARGS if n not in rows]
    for n in missing:
        ctx.hist('row-not-in-table:' + n)
    ctx.notes.append({'table': TABLE, 'rows': len(rows), 'quantities': len(quants), 'rows_not_in_table': missing})
    if len(quants) != len(QUANTS) or len(rows) < 30:
        raise RuntimeError('effect table %s lacks rows/quantities: rows=%d quantities=%d' % (TABLE, len(rows), len(quants)))
    quick = ctx.tier == 'quick'
    bases = [start_args(rng, 64, 0.01), start_args(rng, 48, 0.02), start_args(rng, 100, 0.005)]
    corpus(ctx, rows, bases[0])
    ctx.flush()
    # ---- exhaustive words
    sigma = rows + [READALL]
    core_sigma = [r for r in O.CORE_ALPHABET if r in rows] + [READALL]
    plans = [(sigma, 2, (False, True), bases[0])] if quick else \
            [(sigma, 2, (False, True), bases[0]), (sigma, 2, (True,), bases[1]), (core_sigma, 3, (True,), bases[2])]
    for alphabet, maxlen, prefills, base in plans:
        for L in range(1, maxlen + 1):
            for word in itertools.product(alphabet, repeat=L):
                if L == 3 and word[0] == READALL:
                    continue                      # the prefill already is a READALL
                for pre in prefills:
                    ctx.hist('exhaustive/len=%d/%s' % (L, 'prefilled' if pre else 'new'))
                    run_word(ctx, 'AccSignal', base, word, pre, rng, idem=(L == 1))
            ctx.flush()
    # ---- random histories, checked after every operation
    n_random, maxlen = (300, 12) if quick else (5000, 30)
    for i in range(n_random):
        base = bases[i % len(bases)]
        if i % 7 == 0:
            # (+ source hints: record lengths around every new integer constant of eqsig/single.py, time steps at / around every new float constant)
            base = start_args(rng, rng.choice([33, 60, 64, 77] + gen.hint_sizes(ctx, lo=8, hi=600, cap=8)), rng.choice([0.01, 0.02, 0.005] + gen.hint_values(ctx, 1e-3, 1.0, cap=6, maps=(lambda c: c, lambda c: 1 / c))))
        L = rng.randint(1, maxlen)
        word = []
        for _ in range(L):
            u = rng.random()
            word.append(READALL if u < 0.08 else rng.choice(QUANTS) if u < 0.35 else
                        rng.choice(core_sigma[:-1]) if u < 0.75 else rng.choice(rows))
        ctx.hist('random/len<=%d' % (4 * ((L + 3) // 4)))
        run_word(ctx, 'AccSignal', base, word, rng.random() < 0.3, rng, idem=True, every=True)
        if i % 100 == 99:
            ctx.flush()
    ctx.flush()
    # ---- plain Signal objects (base class clear_cache; only the Fourier quantities exist)
    srows = [r for r in O.SIGNAL_METHODS if r in rows]
    for a in srows:
        ctx.hist('Signal/len=1')
        run_word(ctx, 'Signal', bases[0], [a], True, rng, idem=True)
    for i in range(60 if quick else 1500):
        L = rng.randint(1, 8)
        word = [rng.choice(SIGNAL_QUANTS) if rng.random() < 0.35 else rng.choice(srows) for _ in range(L)]
        ctx.hist('Signal/random')
        run_word(ctx, 'Signal', bases[i % 3], word, rng.random() < 0.5, rng, idem=True, every=True)
    ctx.flush()


# ---- failing-input search (when the table obligation breaks but the run above found nothing) ----------------------------

def search(ctx, broken):
    """shortest stale history first: words of length 1, 2, 3 over the full alphabet with prefilled caches"""
    rng = ctx.rng
    rows, _ = table_rows()
    base = start_args(rng, 64, 0.01)
    t0 = time.time()
    found = []
    for L in (1, 2, 3):
        for word in itertools.product(rows + [READALL], repeat=L):
            run_word(ctx, 'AccSignal', base, word, True, rng, collect=found, every=(L == 3))
            if found:
                f = found[0]
                return {'clause': f['clause'], 'inputs': f['inputs'], 'detail': f['detail'], 'facts': f['facts']}
            if time.time() - t0 > 600:
                return None
    return None


# ---- replay ---------------------------------------------------------------------------------------------------------------

def replay_case(ctx, payload):
    """re-executes the recorded history; True iff the quantity now equals the fresh object's value"""
    inp = payload['inputs']
    cls = inp.get('cls', 'AccSignal')
    if 'smooth_fa_freqs' in inp:
        h = History(cls, inp['values'], inp['dt'], inp['smooth_fa_freqs'], inp['response_times'])
    else:                                   # the literal F04-1 witness: default settings
        import eqsig
        h = History.__new__(History)
        h.cls, h.quants, h.s = cls, QUANTS, eqsig.AccSignal(np.array(inp['values']), inp['dt'])
        h.ops, h.mnames, h.read_seen, h.nontrivial, h.failed, h.start = [], [], False, False, None, {}
    for name, args in inp['history']:
        if name == 'response_times=' and 'smooth_fa_freqs' not in inp:
            h.s.response_times = list(args['periods'])
            continue
        if not h.do(name, args if name not in QUANTS and name != READALL else None):
            print('operation raised:', h.failed)
            return False
    q = inp.get('quantity')
    qs = [q] if q else h.quants
    obs = O.observe(h.s, cls, qs)
    ref = O.observe_fresh(h.s, cls, qs)
    ok = all(O.same(obs[x], ref[x]) for x in qs)
    for x in qs:
        print(x, 'object:', O.brief(obs[x]), 'fresh object:', O.brief(ref[x]))
    return ok


# ---- extras2 (harness extension hx_a): histories at extreme magnitudes, with near-identical replacement records, integer records, and on
#      LARGE records -------------------------------------------------------------------------------------------------------------------------
#
# The comparison object is always a freshly constructed one holding the object's own values / dt / settings, so every history is in the domain
# whatever the magnitudes; an operation that raises on the pinned tree (in-place edits of an integer record, filters on non-finite data) ends
# the history there, as in the main generators.

def _x2_word(ctx, cls, base, steps, every=True, idem=False):
    """steps: [(name, args or None)]; runs them on one object and compares with a fresh object after every step (or at the end)"""
    values, dt, sff, rt = base
    h = History(cls, values, dt, sff, rt)
    for name, args in steps:
        ok = h.do(name, args, rng=ctx.rng) if args is not None else h.do(name, rng=ctx.rng)
        if not ok:
            ctx.hist('op-raised:%s:%s' % h.failed)
            break
        if every:
            check_state(ctx, h, idem=idem and ctx.rng.random() < 0.25)
    if not every and h.failed is None:
        check_state(ctx, h, idem=idem)
    ctx.count_case(('x2', tuple(h.start['values'][:8]), repr(h.ops)[:300]), h.nontrivial,
                   sample={'class': cls, 'history': [o[0] for o in h.ops]} if ctx.evaluations % 301 == 0 else None)
    return h


def extras2(ctx):
    rng = ctx.rng
    rows, _ = table_rows()
    quick = ctx.tier == 'quick'
    core_sigma = [r for r in O.CORE_ALPHABET if r in rows]
    reads = [q for q in QUANTS]
    # (a) extreme magnitudes and near-identical replacement records: a guard such as "the new values are (almost) the old ones, keep the caches"
    #     or an absolute tolerance only misfires for records around 1e-180 / 1e+180 or for replacements that differ in the last bits
    for i in range(30 if quick else 500):
        n = rng.choice([33, 48, 64])
        dt = rng.choice([0.01, 0.02, 0.005])
        k = rng.choice([-600, 600, -350, 350, 0, -30])
        sc = 2.0 ** k
        v0 = O.rec(rng, n) * sc
        cls = 'Signal' if i % 6 == 5 else 'AccSignal'
        quants = SIGNAL_QUANTS if cls == 'Signal' else QUANTS
        meths = [r for r in O.SIGNAL_METHODS if r in rows] if cls == 'Signal' else core_sigma
        steps = [(READALL, None)] if rng.random() < 0.6 else []
        cur = v0.copy()
        for _ in range(rng.randint(2, 6)):
            u = rng.random()
            if u < 0.45:
                kind = rng.choice(['same values', 'last-bit change', 'one sample changed', 'scaled by 2', 'sign flipped', 'other record', 'other length'])
                if kind == 'same values':
                    new = cur.copy()
                elif kind == 'last-bit change':
                    new = cur * (1 + 2.0 ** -rng.choice([52, 45, 30]))
                elif kind == 'one sample changed':
                    new = cur.copy()
                    new[rng.randrange(len(new))] += sc * rng.choice([1.0, 1e-9])
                elif kind == 'scaled by 2':
                    new = cur * 2.0
                elif kind == 'sign flipped':
                    new = -cur
                elif kind == 'other record':
                    new = O.rec(rng, len(cur)) * sc
                else:
                    new = O.rec(rng, rng.choice([48, 80, 96])) * sc
                ctx.hist('extreme/reset_values: ' + kind)
                steps.append(('reset_values', {'values': new.tolist()}))
                cur = new
            elif u < 0.55 and 'add_constant' in meths:
                steps.append(('add_constant', {'constant': float(sc * rng.choice([0.5, 1e-12, 3.0]))}))
                cur = None
            elif u < 0.65 and 'add_series' in meths:
                steps.append(('add_series', {'series': (O.rec(rng, len(cur)) * sc * rng.choice([1.0, 1e-12])).tolist()} if cur is not None else None))
                cur = None
            elif u < 0.85:
                steps.append((rng.choice(quants), None))
            else:
                steps.append((rng.choice(meths), None))
                cur = None
            if cur is None:
                # the current record is whatever the object holds now; later 'same values' steps are built when the word runs
                break
        ctx.hist(f'extreme/scale 2^{k}/{cls}')
        h = _x2_word(ctx, cls, (v0, dt, [0.5, 1.0, 2.0, 4.0, 8.0], [0.2, 0.5, 1.0]), steps, every=True, idem=True)
        # continuation built from the object's OWN current record: replace it by itself / a last-bit neighbour after reading everything
        if h.failed is None and isinstance(h.s.values, np.ndarray) and np.all(np.isfinite(h.s.values)):
            now = np.array(h.s.values, dtype=float)
            for kind, new in (('same values', now.copy()), ('last-bit change', now * (1 + 2.0 ** -52)), ('half', now * 0.5)):
                if not h.do(READALL):
                    break
                if not h.do('reset_values', {'values': new.tolist()}):
                    ctx.hist('op-raised:%s:%s' % h.failed)
                    break
                ctx.hist('extreme/continuation reset_values: ' + kind)
                check_state(ctx, h)
        if i % 20 == 19:
            ctx.flush()
    ctx.flush()
    # (b) integer records arriving through reset_values (the object keeps the dtype it is given)
    for i in range(12 if quick else 150):
        n = rng.choice([33, 64])
        v0 = O.rec(rng, n, 'dyadic')
        ints = [int(rng.randint(-9, 9)) for _ in range(rng.choice([n, 48]))]
        steps = [(READALL, None), ('reset_values', {'values': ints})] + [(rng.choice(QUANTS), None) if rng.random() < 0.5 else (rng.choice(core_sigma), None) for _ in range(rng.randint(1, 4))]
        ctx.hist('integer record through reset_values')
        _x2_word(ctx, 'AccSignal', (v0, 0.01, [0.5, 1.0, 2.0, 4.0, 8.0], [0.2, 0.5, 1.0]), steps, every=True)
    ctx.flush()
    # (c) LARGE records (5 200 / 8 192 samples): read everything, mutate, compare once at the end
    cheap = [m for m in ('reset_values', 'add_constant', 'add_series', 'remove_average', 'rebase_displacement', 'set_zero_residual_velocity', 'running_average',
                         'smooth_fa_freqs=', 'response_times=', 'gen_fa_spectrum', 'generate_displacement_and_velocity_series') if m in rows]
    hs = gen.hint_sizes(ctx, lo=601, hi=40000, cap=3)          # source hints: record lengths around every new integer constant of eqsig/single.py
    for i in range((3 if quick else 12) + len(hs)):
        n = (5200, 8192, 6001)[i % 3] if i >= len(hs) else hs[i]
        v0 = O.rec(rng, n)
        m1, m2 = rng.choice([m for m in cheap if m in O.VALUE_MUTATORS] or cheap), rng.choice(cheap)      # the first mutation always changes the record
        a1 = {'values': O.rec(rng, n).tolist()} if m1 == 'reset_values' else None
        a2 = {'values': O.rec(rng, rng.choice([n, 5000, 4096])).tolist()} if m2 == 'reset_values' else None
        ctx.hist('large record n=%d' % n)
        _x2_word(ctx, 'AccSignal', (v0, 0.01, [0.5, 1.0, 2.0, 4.0, 8.0], [0.2, 0.5, 1.0]), [(READALL, None), (m1, a1), (rng.choice(['s_a', 'velocity', 'fa_spectrum', 'pgd']), None), (m2, a2)],
                 every=False)
    ctx.flush()


_run_main2 = run


def run(ctx):
    _run_main2(ctx)
    extras2(ctx)
    ctx.flush()


# ---- extras3 (hx_r7a, round 7): array-valued settings replaced by RELATIVES of the current value --------------------------------------------------
#
# The argument makers of _c04_ops now remember the value the object holds (related_array: same count and ends with another interior -- linear <->
# geometric spacing over the same range, one interior entry moved, the interior permuted --, every entry 3e-7 relative away, exact repeat; by-range
# limits: 3e-7 away, the ends and count of the current frequencies); the random and exhaustive histories above draw them.  This is the directed
# part: for every operation that sets the response periods or the smoothing frequencies and every kind of relative, one history
# set (regular grid) -> read -> set (relative) -> compare with a fresh object -> read -> set (another relative) -> compare, also across different
# operations (grid set by gen_response_spectrum(response_times=...), relative assigned through the property).  Ordinary operations of the existing
# kinds: the state-machine comparison (cache_history) runs on every state as everywhere else.

def extras3(ctx):
    rng = ctx.rng
    rows, _ = table_rows()
    quick = ctx.tier == 'quick'
    p_ops = [r for r in ('response_times=', 'gen_response_spectrum/given', 'generate_response_spectrum/given', 'response_series/given') if r in rows]
    f_ops = [r for r in ('smooth_fa_freqs=', 'smooth_fa_frequencies=', 'gen_smooth_fa_spectrum/given') if r in rows]
    p_reads, f_reads = ['s_a', 's_v', 's_d', READALL], ['smooth_fa_spectrum', READALL]

    def grid(lo, hi, n):
        g = np.linspace(lo, hi, n) if rng.random() < 0.5 else np.geomspace(lo, hi, n)
        return [float(x) for x in g]

    def step(h, name, args):
        ok = h.do(name, args, rng=rng) if args is not None else h.do(name, rng=rng)
        if not ok:
            ctx.hist('op-raised:%s:%s' % h.failed)
            return False
        if name not in QUANTS and name != READALL:
            check_state(ctx, h)
        return True

    def done(h, tag):
        ctx.hist('related setting/' + tag)
        ctx.count_case(('x3', tuple(h.start['values'][:8]), repr(h.ops)[:400]), h.nontrivial,
                       sample={'class': h.cls, 'history': [o[0] for o in h.ops], 'family': tag} if ctx.evaluations % 53 == 0 else None)

    for rnd in range(1 if quick else 8):
        for first in p_ops + f_ops:
            is_p = first in p_ops
            group, key, reads = (p_ops, 'periods', p_reads) if is_p else (f_ops, 'freqs', f_reads)
            for kind in O.REL_KINDS:
                cls = 'Signal' if (not is_p and rng.random() < 0.3) else 'AccSignal'
                grp = [g for g in group if cls == 'AccSignal' or g in O.SIGNAL_METHODS]
                base = start_args(rng, rng.choice([48, 64, 77]), rng.choice([0.01, 0.02, 0.005]))
                h = History(cls, *base)
                n = rng.randint(4, 16)
                g0 = grid(round(rng.uniform(0.15, 0.5), 3), round(rng.uniform(1.0, 4.0), 3), n) if is_p else grid(round(rng.uniform(0.2, 1.0), 3), round(rng.uniform(8, 25), 3), n)
                ok = step(h, first if first in grp else grp[0], {key: g0}) and step(h, rng.choice(reads), None)
                for kd in (kind, rng.choice(O.REL_KINDS), rng.choice(O.REL_KINDS)):
                    if not ok:
                        break
                    cur = h.s.response_times if is_p else h.s.smooth_fa_freqs
                    rel = O.related_array(rng, cur, kd)
                    if rel is None:
                        continue
                    ctx.hist('related setting/kind=' + kd)
                    ok = step(h, rng.choice(grp), {key: rel}) and step(h, rng.choice(reads), None)
                done(h, ('response periods' if is_p else 'smoothing frequencies') + ' replaced by a relative')
        # by-range / point-count setters against frequencies set by value, and against the limits used before
        for name in [r for r in ('set_smooth_fa_frequecies_by_range', 'smooth_freq_range=', 'smooth_freq_points=') if r in rows]:
            for variant in ('ends and count of the current frequencies', 'limits 3e-7 away', 'same limits again after frequencies set by value'):
                base = start_args(rng, rng.choice([48, 64]), rng.choice([0.01, 0.02]))
                h = History('AccSignal' if rng.random() < 0.7 else 'Signal', *base)
                n = rng.randint(4, 9)
                lo, hi = round(rng.uniform(0.2, 1.0), 3), round(rng.uniform(8, 25), 3)

                def by(limits, npts, name=name):
                    return {'limits': list(limits), 'n_points': npts} if name == 'set_smooth_fa_frequecies_by_range' else \
                           {'limits': list(limits)} if name == 'smooth_freq_range=' else {'points': npts}
                if variant == 'ends and count of the current frequencies':
                    ok = step(h, rng.choice(f_ops[:2]), {'freqs': [float(x) for x in np.linspace(lo, hi, n)]}) and step(h, 'smooth_fa_spectrum', None)
                    cur = np.asarray(h.s.smooth_fa_freqs, dtype=float)
                    ok = ok and step(h, name, by((float(cur[0]), float(cur[-1])), len(cur))) and step(h, 'smooth_fa_spectrum', None)
                elif variant == 'limits 3e-7 away':
                    ok = step(h, 'set_smooth_fa_frequecies_by_range', {'limits': [lo, hi], 'n_points': n}) and step(h, 'smooth_fa_spectrum', None)
                    ok = ok and step(h, name, by((lo * (1 + 3e-7), hi * (1 - 3e-7)), n)) and step(h, 'smooth_fa_spectrum', None)
                else:
                    ok = step(h, 'set_smooth_fa_frequecies_by_range', {'limits': [lo, hi], 'n_points': n}) and step(h, 'smooth_fa_spectrum', None)
                    cur = np.asarray(h.s.smooth_fa_freqs, dtype=float)
                    ok = ok and step(h, rng.choice(f_ops), {'freqs': O.related_array(rng, cur, rng.choice(O.REL_KINDS[:2]))}) and step(h, 'smooth_fa_spectrum', None)
                    ok = ok and step(h, name, by((lo, hi), n)) and step(h, 'smooth_fa_spectrum', None)
                done(h, name + ': ' + variant)
        ctx.flush()


_run_main3 = run


def run(ctx):
    _run_main3(ctx)
    extras3(ctx)
    ctx.flush()
