"""C15 — Stockwell transform: definition, Fourier marginal and exact inverse."""
import math
from fractions import Fraction

import numpy as np

import gen
from core import fr, w_float, w_floats, p_floats, cmp_budget, call_impl

RULE = ("real records of every length n in 0..64 (quick) / 0..128 (thorough), odd and even, then random lengths up to 200 / 1024 "
        "(model correspondence up to n = 128 / 256: the model's O(N^3) defining sums; oracles at every length); kinds impulse at "
        "every position class, on-grid sinusoids (every harmonic for n <= 16), noise, dyadic, integer dtype, constant; the "
        "dominant-frequency clause on every on-grid harmonic between the 2nd and 3/4 Nyquist for n in 8..64 (..256). distinct = hash "
        "of the record; non-trivial = n >= 4 and record not constant")
TIE = ("correspondence (hand model Model/Stockwell.lean on Prelude/Cplx.lean, Float twin with the defining O(N^2) DFT sums; every "
       "cell within 1e-9 of max(|S|, |x|); frequency trace bit for bit)")
NOT_PROVED = ["np.fft / scipy.fftpack compute the DFT (external assumption FftIsDft; validated on every case against the model's "
              "defining sums and an independent O(N^2) NumPy DFT)",
              "C15.f dominant-frequency trace of on-grid sinusoids over the middle half (quantitative claim about Gaussian-windowed "
              "sums: evaluated numerically only, kind S)",
              "IEEE rounding (measured, budget 1e-9)"]
ASSUMPTIONS = ["FftIsDft: np.fft.fft/ifft and scipy.fftpack.fft/ifft are the DFT and its inverse"]
EXHAUSTIVE = True
REL = Fraction(1, 10**9)


# ------------------------------------------------------------------------------------------------
# independent references (no FFT)
# ------------------------------------------------------------------------------------------------

PROP_MODULES = ['C15', 'C15Gen', 'C15GenSlow', 'C15GenSlowIth']

def ind_dft(x):
    N = len(x)
    j = np.arange(N, dtype=np.int64)
    ph = (np.outer(j, j) % N) * (-2.0 * math.pi / N)
    return np.exp(1j * ph) @ np.asarray(x, dtype=float)


def textbook_s_transform_loops(x):
    """discrete S-transform by the direct double sum (pure Python loops), voices k = 1..N/2:
    T[k][j] = (1/N) sum_m X[(m+k) mod N] exp(-2 pi^2 mt^2 / k^2) exp(2 pi i m j / N), mt the signed index"""
    N = len(x)
    X = [sum(x[j] * complex(math.cos(2 * math.pi * ((j * k) % N) / N), -math.sin(2 * math.pi * ((j * k) % N) / N)) for j in range(N)) for k in range(N)]
    T = {}
    for k in range(1, N // 2 + 1):
        row = []
        for j in range(N):
            acc = 0j
            for m in range(N):
                mt = m if m <= N // 2 else m - N
                ang = 2 * math.pi * ((m * j) % N) / N
                acc += X[(m + k) % N] * math.exp(-2 * math.pi ** 2 * mt * mt / (k * k)) * complex(math.cos(ang), math.sin(ang))
            row.append(acc / N)
        T[k] = row
    return T


def textbook_s_transform(x):
    """the same definition, vectorised (independent DFT, explicit exponential matrix)"""
    N = len(x)
    X = ind_dft(x)
    m = np.arange(N, dtype=np.int64)
    mt = np.where(m <= N // 2, m, m - N).astype(float)
    E = np.exp(1j * ((np.outer(m, m) % N) * (2.0 * math.pi / N)))      # E[m, j] = exp(2 pi i m j / N)
    K = np.arange(1, N // 2 + 1, dtype=np.int64)[:, np.newaxis]
    G = np.exp(-2.0 * math.pi ** 2 * mt[np.newaxis, :] ** 2 / (K * K).astype(float))
    T = (X[(m[np.newaxis, :] + K) % N] * G) @ E / N
    return T, X


def cx_list(z):
    z = np.asarray(z, dtype=complex).reshape(-1)
    out = np.empty(2 * len(z))
    out[0::2] = z.real
    out[1::2] = z.imag
    return out.tolist()


def cmp_floats(impl, model, scale, rel=1e-9):
    """budget T on large arrays (NumPy instead of Fractions: the budget is 6 orders above the measured gaps) -> (message, gap)"""
    a = np.asarray(impl, dtype=float)
    b = np.asarray(model, dtype=float)
    if a.shape != b.shape:
        return f"length impl={a.size} model={b.size}", None
    if a.size == 0:
        return None, 0.0
    d = np.abs(a - b)
    i = int(np.argmax(d))
    g = float(d[i]) / scale
    if not (g <= rel):
        return f"[{i}] impl={a[i]!r} model={b[i]!r} gap={float(d[i]):.3e} tol={rel * scale:.3e}", g
    return None, g


def cmp_matrix(ctx, fn, outs, val, xscale):
    val = np.asarray(val)
    nr, nc = int(outs[0][0]), int(outs[1][0])
    if val.shape != (nr, nc) and not (val.size == 0 and nr == 0):
        return f"shape impl={val.shape} model=({nr},{nc})"
    msg, g = cmp_floats(cx_list(val), p_floats(outs[2]), max(float(np.max(np.abs(val))) if val.size else 0.0, xscale, 1e-300))
    ctx.gap(fn, g)
    return msg


# ------------------------------------------------------------------------------------------------
# one record
# ------------------------------------------------------------------------------------------------

def one(ctx, kind, v, with_model=True, loops=False):
    from eqsig import stockwell as sw
    rng = ctx.rng
    v = np.asarray(v)
    vf = v.astype(float)
    n = len(v)
    N = 2 * (n // 2)
    P = N // 2
    inputs = {'values': v, 'kind': kind}
    ctx.hist('kind=' + kind)
    ctx.hist('n parity=' + ('even' if n % 2 == 0 else 'odd'))
    ctx.hist('n<=16' if n <= 16 else 'n<=64' if n <= 64 else 'n<=256' if n <= 256 else 'n>256')
    ctx.count_case((v.tobytes(), str(v.dtype)), n >= 4 and len(set(vf.tolist())) > 1,
                   sample={'fn': 'stockwell.transform', 'n': n, 'kind': kind, 'head': vf[:6].tolist()} if ctx.evaluations % 41 == 0 else None)
    snap = v.copy()
    r1 = call_impl(sw.transform, v)
    ok_unchanged1 = np.array_equal(v, snap)
    r2 = call_impl(sw.transform_w_scipy_fft, v)
    ctx.oracle('input array unchanged by transform', ok_unchanged1, inputs)
    ctx.oracle('input array unchanged by transform_w_scipy_fft (overwrite_x=True inside)', np.array_equal(v, snap) and v.dtype == snap.dtype, inputs)
    xs = float(np.max(np.abs(vf))) if n else 0.0
    if with_model:
        ctx.corr('transform', f"stockwell|{w_floats(vf)}", r1, lambda outs, val: cmp_matrix(ctx, 'transform', outs, val, xs), inputs=inputs)
        ctx.corr('transform_w_scipy_fft', f"stockwell_scipy|{w_floats(vf)}", r2,
                 lambda outs, val: cmp_matrix(ctx, 'transform_w_scipy_fft', outs, val, xs), inputs=inputs)
    if n < 2:
        ctx.hist('n<2 (error branch compared only)')
        return
    if r1[0] != 'ok' or r2[0] != 'ok':
        ctx.oracle('C15 transform returns an array for n >= 2', False, inputs, detail=[r1, r2])
        return
    S = np.asarray(r1[1])
    S2 = np.asarray(r2[1])
    finite = bool(np.all(np.isfinite(S)) and np.all(np.isfinite(S2)))
    ctx.oracle('C15 transform values are finite', finite, inputs)
    if not finite:
        return
    scale = max(float(np.max(np.abs(S))) if S.size else 0.0, xs, 1e-300)
    # ---- C15.a shape, truncation to even length
    ctx.oracle('C15.a transform is an (n/2) x n complex array after truncation to even length', S.shape == (P, N) and np.iscomplexobj(S), inputs,
               detail={'shape': list(S.shape), 'n': n}, facts={'n': n})
    if n % 2 == 1:
        St = np.asarray(sw.transform(v[:-1]))
        ctx.oracle('C15.a an odd-length record is truncated to even length (last sample ignored)', St.shape == S.shape and np.array_equal(St, S), inputs)
    if S.shape != (P, N):
        return
    # ---- C15.c both implementations
    ctx.oracle('C15.c transform and transform_w_scipy_fft agree', S2.shape == S.shape and bool(np.max(np.abs(S2 - S)) <= 1e-12 * scale), inputs,
               detail={'max_dev': float(np.max(np.abs(S2 - S))) if S2.shape == S.shape else None})
    # ---- C15.b definition: conj of the textbook S-transform, rows from Nyquist down to the first harmonic
    x = vf[:N]
    T, X = textbook_s_transform(x)
    want = np.conj(T[::-1])
    dev = float(np.max(np.abs(S - want)))
    ctx.gap('impl vs independent textbook S-transform', dev / scale)
    ctx.oracle('C15.b transform == conj of the discrete S-transform (Gaussian window of width 1/f), rows Nyquist -> first harmonic',
               dev <= 1e-9 * scale, inputs, detail={'max_dev': dev, 'scale': scale,
                                                    'dev_if_rows_not_flipped': float(np.max(np.abs(S - np.conj(T)))),
                                                    'dev_if_not_conjugated': float(np.max(np.abs(S - T[::-1])))}, facts={'n': n})
    if loops:
        TL = textbook_s_transform_loops(x.tolist())
        devl = max(abs(S[P - k][j] - TL[k][j].conjugate()) for k in range(1, P + 1) for j in range(N))
        ctx.oracle('C15.b transform == conj of the discrete S-transform (direct double sum, pure Python)', devl <= 1e-9 * scale, inputs,
                   detail={'max_dev': float(devl)})
    # ---- C15.d Fourier marginal
    rows = S.sum(axis=1)
    wantm = np.conj(X[1:P + 1])[::-1]
    xsc = max(float(np.max(np.abs(X))), 1e-300)
    ctx.oracle('C15.d summing each row over time gives the conjugate Fourier coefficient of that frequency',
               bool(np.max(np.abs(rows - wantm)) <= 1e-9 * xsc), inputs, detail={'max_dev': float(np.max(np.abs(rows - wantm)))})
    # ---- C15.e inverse
    snapS = S.copy()
    ri = call_impl(sw.itransform, S)
    ctx.oracle('input array unchanged by itransform', np.array_equal(S, snapS), inputs)
    if with_model:
        ctx.corr('itransform', f"istockwell|{N}|{w_floats(cx_list(S))}", ri,
                 lambda outs, val: _cmp_real(ctx, 'itransform', outs[0], val, max(xs, 1e-300)), inputs=inputs)
    if ri[0] != 'ok':
        ctx.oracle('C15.e itransform returns a series', False, inputs, detail=ri)
    else:
        y = np.asarray(ri[1])
        jj = np.arange(N)
        wanty = x - np.mean(x) - ((-1.0) ** jj) * float(np.sum(((-1.0) ** jj) * x)) / N
        oky = y.shape == (N,) and not np.iscomplexobj(y) and bool(np.max(np.abs(y - wanty)) <= 1e-9 * max(xs, 1e-300))
        ctx.oracle('C15.e inverse transform recovers the record minus its mean and Nyquist component', oky, inputs,
                   detail={'len': len(y), 'max_dev': float(np.max(np.abs(y - wanty))) if y.shape == (N,) else None})
    # ---- C15.c linearity
    w = np.array([rng.gauss(0, 1) for _ in range(n)])
    a, b = rng.choice([2.0, -3.0, 0.5]), rng.choice([1.0, -0.25, 4.0])
    Sw = np.asarray(sw.transform(w))
    Sc = np.asarray(sw.transform(a * vf + b * w))
    lsc = max(float(np.max(np.abs(Sc))), abs(a) * scale, 1e-300)
    ctx.oracle('C15.c transform is linear in the record', bool(np.max(np.abs(Sc - (a * S + b * Sw))) <= 1e-9 * lsc),
               {'values': vf, 'other': w, 'a': a, 'b': b})
    # ---- frequency trace against the model (bit for bit; skipped when two cells of a column tie within rounding)
    if with_model and P >= 1:
        dt = rng.choice([0.01, 0.5, 0.005])
        mod = np.abs(S)
        srt = np.sort(mod, axis=0)
        if P == 1 or bool(np.all(srt[-1] - srt[-2] > 1e-9 * np.maximum(srt[-1], 1e-300))):
            rt = call_impl(sw.get_max_tifq_vals_freq, S, dt)
            ctx.corr('get_max_tifq_vals_freq', f"max_tifq_cx|{w_float(dt)}|{N}|{w_floats(cx_list(S))}", rt,
                     lambda outs, val: None if [float(t) for t in val] == p_floats(outs[0]) else "frequency trace differs", inputs={**inputs, 'dt': dt})
            if rt[0] == 'ok':
                col = np.argmax(mod, axis=0)
                ctx.oracle('get_max_tifq_vals_freq reports (N/2 - argmax row)/(N dt) per time sample',
                           bool(np.allclose(np.asarray(rt[1]), (P - col) / (N * dt), rtol=1e-12, atol=0)), {**inputs, 'dt': dt})


def _cmp_real(ctx, fn, toks, val, scale):
    msg, g = cmp_floats(np.asarray(val, dtype=float).reshape(-1), p_floats(toks), scale)
    ctx.gap(fn, g)
    return msg


def dominant_trace(ctx, n, k0, dt, phase, use_object, drawn=None):
    """C15.f (kind S): stationary on-grid sinusoid, harmonic k0 in [2, 3/4 Nyquist]: the trace equals its frequency over the middle half"""
    import eqsig
    from eqsig import stockwell as sw
    N = 2 * (n // 2)
    x = np.sin(2 * math.pi * k0 * np.arange(n) / N + phase)
    inputs = {'n': n, 'harmonic': k0, 'dt': dt, 'phase': phase, 'values': x}
    ctx.hist('dominant-frequency trace')
    ctx.count_case(('trace', n, k0, dt, phase), True)
    if use_object == 'drawn':
        # round 7: a FRESH object whose time-frequency image (or a spectrum at a time, ...) was drawn before the trace is asked for
        asig = eqsig.AccSignal(x, dt)
        inputs[DRAWN] = plot_history(ctx, asig, calls=drawn)
        f = np.asarray(sw.get_max_stockwell_freq(asig))
    elif use_object:
        asig = ctx.aged(eqsig.AccSignal, x, dt)
        f = np.asarray(sw.get_max_stockwell_freq(asig))
    else:
        f = np.asarray(sw.get_max_tifq_vals_freq(sw.transform(x), dt))
    mid = f[N // 4: 3 * N // 4]
    want = k0 / (N * dt)
    ctx.oracle('C15.f on-grid sinusoid (2nd harmonic .. 3/4 Nyquist): dominant-frequency trace == its frequency over the middle half',
               len(f) == N and bool(np.all(np.abs(mid - want) <= 1e-9 * want)), inputs,
               detail={'want': want, 'distinct_harmonics_seen': sorted(set(np.round(mid * N * dt).astype(int).tolist()))[:10]})


# ------------------------------------------------------------------------------------------------
# generators
# ------------------------------------------------------------------------------------------------

def record(rng, n, kind):
    N = max(2, 2 * (n // 2))
    if kind == 'impulse':
        a = np.zeros(n)
        if n:
            a[rng.choice([0, n - 1, n // 2, rng.randrange(n)])] = rng.choice([1.0, -2.0])
        return a
    if kind == 'harmonic':
        k = rng.randint(0, N // 2)
        return np.cos(2 * math.pi * k * np.arange(n) / N + rng.uniform(0, 2 * math.pi))
    if kind == 'noise':
        return gen.noise_record(rng, n)
    if kind == 'dyadic':
        return gen.dyadic_record(rng, n)
    if kind == 'int-dtype':
        return np.array([rng.randint(-9, 9) for _ in range(n)], dtype=int)
    if kind == 'constant':
        return np.full(n, rng.choice([1.0, -2.5]))
    return gen.noise_record(rng, n) + rng.choice([5.0, -3.0])   # offset


KINDS = ['impulse', 'harmonic', 'noise', 'dyadic', 'int-dtype', 'constant', 'offset']

CORPUS = [
    ('tests-like', np.array([0.0, 1.0, 0.5, -1.0, -0.25, 2.0, 0.0, -1.5])),
    ('shortest', np.array([1.0, -1.0])),
    ('odd', np.array([3.0, -1.0, 4.0, 1.0, -5.0])),
]


def run(ctx):
    rng = ctx.rng
    quick = ctx.tier == 'quick'
    for kind, v in CORPUS:
        one(ctx, 'corpus/' + kind, v, loops=True)
    ctx.flush()
    # ---- every length; impulse and single-harmonic records (search space of the design) + one random kind
    top = 64 if quick else 128
    for n in range(0, top + 1):
        kinds = ['impulse', 'harmonic', rng.choice(KINDS[2:])] if n >= 2 else ['noise']
        for kind in kinds:
            one(ctx, kind, record(rng, n, kind), loops=(n <= (16 if quick else 32) and kind == 'harmonic'))
        if n % 16 == 15:
            ctx.flush()
    ctx.flush()
    # every harmonic at small n (single-harmonic records: each row of the definition is exercised on its own)
    for n in range(4, 17):
        N = 2 * (n // 2)
        for k in range(0, N // 2 + 1):
            one(ctx, 'harmonic', np.cos(2 * math.pi * k * np.arange(n) / N + rng.uniform(0, 6.28)), loops=(n <= 8))
    ctx.flush()
    # ---- random lengths
    n_random = 12 if quick else 120
    hi = 200 if quick else 1024
    model_max = 128 if quick else 256
    for i in range(n_random):
        n = gen.log_int(rng, top + 1, hi)
        if not quick and i % 40 == 0:
            n = rng.choice([1023, 1024])
        kind = rng.choice(KINDS)
        one(ctx, kind, record(rng, n, kind), with_model=(n <= model_max))
        if i % 6 == 5:
            ctx.flush()
    ctx.flush()
    # ---- C15.f dominant-frequency trace: every admissible harmonic
    ns = list(range(8, 41)) + [48, 63, 64] if quick else list(range(8, 129)) + [200, 255, 256]
    hs = gen.hint_sizes(ctx, lo=41, hi=700, cap=6, halves=True)       # source hints: lengths n with n and n // 2 around every new integer constant of eqsig/stockwell.py
    for n in ns + hs:
        P = n // 2
        ks = list(range(2, int(0.75 * P) + 1))
        if (quick or n in hs) and len(ks) > 6:
            ks = sorted(set([2, ks[-1]] + rng.sample(ks, 4)))
        for k0 in ks:
            dominant_trace(ctx, n, k0, rng.choice([0.01, 0.02, 0.5, 1.0]), rng.uniform(0, 2 * math.pi), use_object=(True if k0 % 3 == 0 else 'drawn' if k0 % 3 == 1 else False))
    ctx.flush()


def replay_case(ctx, payload):
    inp = payload['inputs']
    sub = type(ctx)(ctx.prop, ctx.tier, ctx.seed)
    if DRAWN in inp and 'harmonic' in inp:
        dominant_trace(sub, inp['n'], inp['harmonic'], inp['dt'], inp['phase'], 'drawn', drawn=inp[DRAWN])
    elif DRAWN in inp:
        drawn_case(sub, np.array(inp['values'], dtype=float), inp['dt'], inp.get('class', 'AccSignal'), inp.get('kind', 'replay'), drawn=inp[DRAWN])
    elif 'harmonic' in inp:
        dominant_trace(sub, inp['n'], inp['harmonic'], inp['dt'], inp['phase'], False)
    else:
        one(sub, 'replay', np.array(inp['values']), with_model=False)
    sub.pending = []
    for f in sub.oracle_failures:
        print('still failing:', f['clause'], f['detail'])
    return not sub.oracle_failures


# ---- extras2 (harness extension hx_b): further entry points, exact scaling, large instances, containers -----------------------------------

def _flat(z):
    z = np.asarray(z)
    return np.concatenate((z.real.ravel(), z.imag.ravel())) if np.iscomplexobj(z) else z.astype(float).ravel()


def _x2_entry_points(ctx, cur):
    """(3) transform_slow (rows above the cut are the transform's, the ith highest-frequency rows are left zero), dep_itransform (its own
    definition: real part of the inverse DFT of the row sums), generate_gaussian (the window of the definition); (4) containers"""
    from eqsig import stockwell as sw
    from _hxb_common import same, val
    rng = ctx.rng
    for it in range(30 if ctx.tier == 'quick' else 300):
        n = rng.randint(4, 70)
        kind = rng.choice(['noise', 'dyadic', 'int-dtype', 'harmonic', 'offset'])
        v = record(rng, n, kind)
        vf = np.asarray(v, dtype=float)
        N = 2 * (n // 2)
        P = N // 2
        inputs = {'values': v, 'kind': kind}
        cur.clear()
        cur.update(inputs)
        ctx.hist('extras2/entry-points/' + kind)
        ctx.count_case(('x2e', vf.tobytes()), len(set(vf.tolist())) > 1)
        S = np.asarray(sw.transform(v))
        scale = max(float(np.max(np.abs(S))), float(np.max(np.abs(vf))), 1e-300)
        # transform_slow(ith = k >= 1).  (The default ith=0 returns an all-zero array on the pinned tree -- `aa[:-0]` is empty -- see NOTES; not demanded.)
        ith = rng.randint(1, P) if rng.random() < 0.8 else P
        snap = np.array(v)
        r = call_impl(sw.transform_slow, v, ith=ith)
        T = val(r)
        ok = T is not None and np.shape(T) == S.shape and bool(np.all(np.asarray(T)[:ith] == 0)) and bool(np.max(np.abs(np.asarray(T)[ith:] - S[ith:]), initial=0.0) <= 1e-12 * scale)
        ctx.oracle('C15.c transform_slow(ith=k): same shape as transform, the k highest-frequency rows are zero, every other row agrees with transform', ok,
                   {**inputs, 'ith': ith}, detail={'shape': np.shape(T), 'max_dev': None if T is None or np.shape(T) != S.shape else float(np.max(np.abs(np.asarray(T)[ith:] - S[ith:]), initial=0.0))})
        ctx.oracle('input array unchanged by transform_slow', same(v, snap), inputs)
        # dep_itransform
        snapS = S.copy()
        r = call_impl(sw.dep_itransform, S)
        rows = S.sum(axis=1)
        jj = np.arange(P, dtype=np.int64)
        want = np.real(np.exp(1j * ((np.outer(jj, jj) % P) * (2.0 * math.pi / P))) @ rows / P)
        y = val(r)
        ctx.oracle('C15 dep_itransform == real part of the inverse DFT of the row sums (n/2 real samples)', y is not None and np.shape(y) == (P,) and
                   not np.iscomplexobj(y) and bool(np.max(np.abs(np.asarray(y) - want)) <= 1e-9 * scale), inputs,
                   detail={'shape': np.shape(y), 'max_dev': None if y is None or np.shape(y) != (P,) else float(np.max(np.abs(np.asarray(y) - want)))})
        ctx.oracle('input array unchanged by dep_itransform', same(S, snapS), inputs)
        # generate_gaussian
        if it % 3 == 0:
            Pg = rng.choice([1, 2, 3, P, rng.randint(1, 80)])
            cur.update({'n_d2': Pg})
            r = call_impl(sw.generate_gaussian, Pg)
            m = np.arange(2 * Pg)
            mt = np.where(m <= Pg, m, m - 2 * Pg).astype(float)
            K = np.arange(1, Pg + 1, dtype=float)[:, np.newaxis]
            wantg = np.exp(-2.0 * math.pi ** 2 * mt[np.newaxis, :] ** 2 / (K * K))
            G = val(r)
            ctx.oracle('C15.b generate_gaussian(P)[k-1, m] == exp(-2 pi^2 m~^2 / k^2) (m~ the signed index), shape P x 2P', G is not None and np.shape(G) == (Pg, 2 * Pg)
                       and bool(np.allclose(G, wantg, rtol=1e-10, atol=1e-300)), {'n_d2': Pg},
                       detail={'shape': np.shape(G), 'max_abs_dev': None if G is None or np.shape(G) != (Pg, 2 * Pg) else float(np.max(np.abs(G - wantg)))})
        # containers / dtypes (float32 records are transformed in single precision by np.fft on the pinned tree: not demanded)
        if it % 3 == 1:
            vi = np.array([rng.randint(-9, 9) for _ in range(n)], dtype=float)
            cur.update({'values': vi})
            Si, Si2 = np.asarray(sw.transform(vi)), np.asarray(sw.transform_w_scipy_fft(vi.copy()))
            sc = max(float(np.max(np.abs(Si))), 1e-300)
            for lab, c in gen.container_variants(vi, floats32=False):
                ctx.hist('extras2/container/' + lab)
                snapc = np.array(c)
                g1, g2, g3 = val(call_impl(sw.transform, c)), val(call_impl(sw.transform_w_scipy_fft, c)), val(call_impl(sw.get_max_tifq_vals_freq, sw.transform(c), 0.01))
                ctx.oracle('C15 the transform does not depend on the container or dtype holding the record (transform)', g1 is not None and np.shape(g1) == Si.shape
                           and bool(np.max(np.abs(g1 - Si), initial=0.0) <= 1e-12 * sc), {'values': vi, 'container': lab})
                ctx.oracle('C15 the transform does not depend on the container or dtype holding the record (transform_w_scipy_fft)', g2 is not None and
                           np.shape(g2) == Si2.shape and bool(np.max(np.abs(g2 - Si2), initial=0.0) <= 1e-12 * sc), {'values': vi, 'container': lab})
                ctx.oracle('input unchanged by transform / transform_w_scipy_fft (any container)', same(np.array(c), snapc) and np.array(c).dtype == snapc.dtype,
                           {'values': vi, 'container': lab})


def _x2_scale(ctx, cur):
    """(2) transform, transform_w_scipy_fft, itransform, dep_itransform are linear: scaling the input by 2^k scales the output by 2^k EXACTLY
    (incl. 2^+-600); the frequency trace is of degree 0 in the transform and of degree -1 in dt (exact for power-of-two factors of any size)"""
    from eqsig import stockwell as sw
    from _hxb_common import same, val
    rng = ctx.rng
    for it in range(16 if ctx.tier == 'quick' else 160):
        n = rng.randint(4, 70)
        kind = rng.choice(['noise', 'dyadic', 'int-dtype', 'offset'])
        v = np.asarray(record(rng, n, kind), dtype=float)
        inputs = {'values': v, 'kind': kind}
        cur.clear()
        cur.update(inputs)
        ctx.hist('extras2/scale/' + kind)
        S, S2 = np.asarray(sw.transform(v)), np.asarray(sw.transform_w_scipy_fft(v.copy()))
        y, yd = np.asarray(sw.itransform(S)), np.asarray(sw.dep_itransform(S))
        dt = rng.choice([0.01, 0.5, 0.005, 0.3])
        mod = np.sort(np.abs(S), axis=0)
        clear_max = S.shape[0] == 1 or bool(np.all(mod[-1] - mod[-2] > 1e-9 * np.maximum(mod[-1], 1e-300)))
        tr = np.asarray(sw.get_max_tifq_vals_freq(S, dt))
        for k in gen.EXTREME_POW2:
            ctx.count_case(('x2s', k, v.tobytes()), True)
            f = 2.0 ** k
            with np.errstate(all='ignore'):
                g1, g2 = val(call_impl(sw.transform, v * f)), val(call_impl(sw.transform_w_scipy_fft, v * f))
                g3, g4 = val(call_impl(sw.itransform, S * f)), val(call_impl(sw.dep_itransform, S * f))
                g5 = val(call_impl(sw.get_max_tifq_vals_freq, S * f, dt))
                g6 = val(call_impl(sw.get_max_tifq_vals_freq, S, dt * f))
            sc = {**inputs, 'scale': '2**%d' % k}
            ctx.oracle('C15.c transform is linear: scaling the record by a power of two scales every cell exactly', g1 is not None and
                       gen.scaled_exactly(_flat(g1), _flat(S), f), sc)
            ctx.oracle('C15.c transform_w_scipy_fft is linear: scaling the record by a power of two scales every cell exactly', g2 is not None and
                       gen.scaled_exactly(_flat(g2), _flat(S2), f), sc)
            ctx.oracle('C15.e itransform is linear: scaling the transform by a power of two scales the series exactly', g3 is not None and
                       gen.scaled_exactly(g3, y, f), sc)
            ctx.oracle('C15 dep_itransform is linear: scaling the transform by a power of two scales the series exactly', g4 is not None and
                       gen.scaled_exactly(g4, yd, f), sc)
            if clear_max:
                ctx.oracle('C15.f the dominant-frequency trace does not depend on the scale of the transform', same(g5, tr), {**sc, 'dt': dt})
            ctx.oracle('C15.f the dominant-frequency trace scales exactly with 1/dt (power-of-two factor)', g6 is not None and gen.scaled_exactly(g6, tr, 1.0 / f),
                       {**sc, 'dt': dt})


def _x2_large(ctx, cur):
    """(1) records at and above the top of the quantified range (n = 1024; thorough: 2048): all clauses of `one` (definition against the
    independent O(N^2)/O(N^3) sums, marginal, inverse, both implementations, linearity) -- no model correspondence at these sizes"""
    rng = ctx.rng
    sizes = [1024, rng.choice([777, 1000, 1023])] if ctx.tier == 'quick' else [1024, 1023, 1000, 1536, 2048]
    sizes = sizes + gen.hint_sizes(ctx, lo=65, hi=3300, cap=12, halves=True)       # source hints: n and n // 2 around every new integer constant of eqsig/stockwell.py
    for n in sizes:
        kind = rng.choice(['noise', 'offset', 'int-dtype'])
        seed = rng.randrange(2 ** 31)
        g = np.random.default_rng(seed)
        v = g.standard_normal(n) if kind == 'noise' else g.standard_normal(n) + 5.0 if kind == 'offset' else g.integers(-9, 10, size=n)
        cur.clear()
        cur.update({'generator': 'c15._x2_large', 'kind': kind, 'n': n, 'numpy_seed': seed})
        ctx.hist('extras2/large/n=%d' % n)
        one(ctx, 'large/' + kind, v, with_model=False)


def _x2_objects(ctx, cur):
    """(5) object-level trace on objects with a history; reading it twice gives the same series.  (A record replaced by reset_values AFTER
    the trace was read keeps the old `swtf` attribute on the pinned tree -- see NOTES; not demanded.)"""
    import eqsig
    from eqsig import stockwell as sw
    from _hxb_common import same, val, light_history
    rng = ctx.rng
    for it in range(12 if ctx.tier == 'quick' else 120):
        n = rng.randint(4, 90)
        v = np.asarray(record(rng, n, rng.choice(['noise', 'dyadic', 'offset'])), dtype=float)
        dt = rng.choice([0.01, 0.02, 0.5, 1.0, 2.0 ** -20, 2.0 ** 20])
        cur.clear()
        cur.update({'values': v, 'dt': dt})
        asig = light_history(ctx, eqsig.AccSignal if it % 2 else eqsig.Signal, v, dt)
        S = np.asarray(sw.transform(v))
        mod = np.sort(np.abs(S), axis=0)
        want = sw.get_max_tifq_vals_freq(S, dt)
        f1 = val(call_impl(sw.get_max_stockwell_freq, asig))
        f2 = val(call_impl(sw.get_max_stockwell_freq, asig))
        ctx.oracle('C15.f get_max_stockwell_freq(signal) == get_max_tifq_vals_freq(transform(values), dt) for objects with a history; same on a second read',
                   same(f1, want) and same(f2, want), {'values': v, 'dt': dt}, detail={'object': f1, 'array-level': want})
        ctx.oracle('C15 get_max_stockwell_freq leaves the record of the object unchanged', same(asig.values, v) and asig.dt == dt, {'values': v, 'dt': dt})
        ctx.last_object_history = None


def _x2_int_extremes(ctx, cur):
    """round 9 (hx_r9a): integer records (int8 / int16 / int32 / int64 ndarrays: raw digitiser counts) whose samples sit on the ENDS of the dtype's range,
    where |x|, -x, x*x, x+y formed in the dtype wrap: samples from {0, min}, {min, min+1}, {min}, {0, max}, {min, max}, {0, -1, min}; the
    transform must be that of the same numbers held in float64 (the pinned library converts before any arithmetic), for both implementations,
    and leave the record alone"""
    from eqsig import stockwell as sw
    from _hxb_common import same, val
    rng = ctx.rng
    pats = ['0|min', 'min|min+1', 'min', '0|max', 'min|max', '0|-1|min', '0|min (one glitch)']
    for it, dtp in enumerate((np.int8, np.int16, np.int32, np.int64) * (2 if ctx.tier == 'quick' else 10)):
        ii = np.iinfo(dtp)
        for pat in ([pats[it % len(pats)], pats[(it + 3) % len(pats)], '0|min'] if ctx.tier == 'quick' else pats):
            n = rng.randint(4, 48)
            pool = {'0|min': [0, ii.min], 'min|min+1': [ii.min, ii.min + 1], 'min': [ii.min], '0|max': [0, ii.max], 'min|max': [ii.min, ii.max],
                    '0|-1|min': [0, -1, ii.min], '0|min (one glitch)': [0]}[pat]
            ints = [rng.choice(pool) for _ in range(n)]
            if pat.endswith('(one glitch)') or (pat == '0|min' and ii.min not in ints):
                ints[rng.randrange(n)] = ii.min
            if pat == '0|min' and 0 not in ints:
                ints[rng.randrange(n)] = 0
            c = np.array(ints, dtype=dtp)
            vf = np.array([float(x) for x in ints])
            lab = f'{np.dtype(dtp).name} {pat}'
            cur.clear()
            cur.update({'values': ints, 'dtype': np.dtype(dtp).name})
            ctx.hist('extras2/int-extremes/' + lab)
            ctx.count_case(('x2-int-extremes', lab, tuple(ints)), True)
            snapc = c.copy()
            Si, Si2 = np.asarray(sw.transform(vf)), np.asarray(sw.transform_w_scipy_fft(vf.copy()))
            sc = max(float(np.max(np.abs(Si))), 1e-300)
            g1, g2 = val(call_impl(sw.transform, c)), val(call_impl(sw.transform_w_scipy_fft, c))
            inputs = {'values': ints, 'container': np.dtype(dtp).name + ' ndarray'}
            ctx.oracle('C15 the transform does not depend on the container or dtype holding the record (transform)', g1 is not None and np.shape(g1) == Si.shape
                       and bool(np.max(np.abs(g1 - Si), initial=0.0) <= 1e-12 * sc), inputs)
            ctx.oracle('C15 the transform does not depend on the container or dtype holding the record (transform_w_scipy_fft)', g2 is not None and
                       np.shape(g2) == Si2.shape and bool(np.max(np.abs(g2 - Si2), initial=0.0) <= 1e-12 * sc), inputs)
            ctx.oracle('input unchanged by transform / transform_w_scipy_fft (any container)', same(c, snapc) and c.dtype == snapc.dtype, inputs)


def extras2(ctx):
    from _hxb_common import guarded_sections
    guarded_sections(ctx, 'C15', [('entry-points', _x2_entry_points), ('scale', _x2_scale), ('large', _x2_large), ('objects', _x2_objects),
                                  ('int-extremes', _x2_int_extremes)])


_run_main2 = run


def run(ctx):
    _run_main2(ctx)
    extras2(ctx)
    ctx.flush()


# evidence: how the model is tied to the source on every run (as built, supersedes the value above)
TIE = 'translator (eqsig/stockwell.py -> Gen/StockwellFns; Props/C15Gen) + correspondence (Float twin of the whole transform, both implementations)'


# ---- tw_rest2: generated zero-and-peak / cluster / slow-Stockwell definitions vs the implementation ---------------------------
from _rest2_corr import corr_rest2  # noqa: E402
_run_main_rest2 = run


def run(ctx):
    _run_main_rest2(ctx)
    corr_rest2(ctx, parts=('stockwell',))
    ctx.flush()


# ---- round-7 lesson (hx_r7c): objects that were DRAWN before they are analysed ---------------------------------------------------------------

import _precalls as _PRE  # noqa: E402

DRAWN = 'drawn before the trace was read (calls in order; <axes> = unittest.mock.MagicMock())'


def _plot_objects(asig):
    """placeholder -> object, for the arguments of the drawing calls that are not plain option values"""
    import eqsig
    from unittest import mock
    from eqsig import stockwell as sw
    v = np.asarray(asig.values, dtype=float)
    n = len(v)
    return {'<axes>': mock.MagicMock(), '<signal>': asig,
            '<other signal>': type(asig)(0.5 * v[::-1] + 0.25 * np.cos(1.7 * np.arange(n)), asig.dt),
            '<|transform(values)|>': np.abs(sw.transform(v)),
            '<|transform(values interpolated to dt/2)|>': np.abs(sw.transform(np.interp(np.arange(2 * n) / 2, np.arange(n), v)))}


def _plot_entries(asig, obj):
    """the plotting helpers of eqsig.stockwell with every option value (documented parameter order of the pinned tree).
    [(weight, function, first parameter, [(required, value)...], [(optional, default, [non-default values])...])]"""
    from eqsig import stockwell as sw
    n, dt = len(asig.values), asig.dt
    times = [0.0, 0.1 * n * dt, 0.3 * n * dt, 0.45 * n * dt]
    other = obj['<other signal>']
    tab = [(5, 'plot_stock', [('asig', asig)], [('norm_x', False, [True]), ('norm_all', False, [True]), ('interp', False, [True]), ('cmap', None, ['plasma', 'gnuplot2']),
                                                ('vmin', None, [0.0]), ('vmax', None, [1.0, 0.5])]),
           (2, 'plot_fas_at_time', [('asig', asig), ('time', _PRE.rng_free_choice(times))], []),
           (2, 'plot_windowed_fas_at_time', [('asig', asig), ('time', _PRE.rng_free_choice(times))], [('time_window', 3, [1, 0.5 * n * dt, 10 * dt])]),
           (1, 'plot_tifq_vals', [('tifq_vals', obj['<|transform(values)|>']), ('dt', dt)], [('norm_all', False, [True]), ('norm_x', False, [True]), ('cmap', None, ['plasma'])]),
           (1, 'plot_tifq_vals', [('tifq_vals', obj['<|transform(values interpolated to dt/2)|>']), ('dt', dt / 2)], [('norm_all', False, [True])])]
    if n <= 64:     # 2 .. 5 rotated combinations, each with a transform of its own
        tab.append((1, 'plot_max_freq_azimuth', [('asig1', asig), ('asig2', other)], [('max_f', None, [0.25 / dt, 1.0]), ('norm', False, [True]), ('r_steps', 90, [2, 3, 5])]))
        tab.append((1, 'plot_max_freq_azimuth', [('asig1', other), ('asig2', asig)], [('max_f', None, [0.25 / dt]), ('norm', False, [True]), ('r_steps', 90, [2, 3])]))
    return [(w, getattr(sw, nm), 'splot' if nm != 'plot_tifq_vals' else 'subplot', req, opts) for w, nm, req, opts in tab if getattr(sw, nm, None) is not None]


def plot_history(ctx, asig, max_calls=3, calls=None):
    """draw the object one to three times (plot_stock, plot_fas_at_time, plot_windowed_fas_at_time, plot_tifq_vals, plot_max_freq_azimuth; option
    values and the way they are handed over drawn at random, about a fifth of the calls with every option at its default; now and then the
    readers of the stored transform afterwards); results and exceptions of these calls are ignored (plot_max_freq_azimuth without max_f raises
    on the unchanged library with this NumPy, np.clip(a, None, None)).  Returns the calls made as [{'f', 'args', 'kwargs'}] with placeholders
    for the objects; `calls` replays such a list.  Drawing is a pure read of the record: whatever is read from the object afterwards is what a
    fresh object gives."""
    import warnings
    from eqsig import stockwell as sw
    obj = _plot_objects(asig)
    back = {id(o): k for k, o in obj.items()}

    def ph(x):
        return back.get(id(x), x)

    def unph(x):
        return obj.get(x, x) if isinstance(x, str) else x
    if calls is not None:
        for c in calls:
            try:
                with warnings.catch_warnings():
                    warnings.simplefilter('ignore')
                    with np.errstate(all='ignore'):
                        getattr(sw, c['f'])(*[unph(a) for a in c['args']], **{k: unph(a) for k, a in c['kwargs'].items()})
            except Exception:  # noqa
                pass
        return calls
    rng = _PRE.rng_of(ctx)
    entries = _plot_entries(asig, obj)
    out = []
    for _ in range(rng.choice([1, 1, 2, 3][:max_calls + 1])):
        wgt, f, first, req, opts = rng.choices(entries, weights=[e[0] for e in entries])[0]
        d, style, a, k = _PRE.one_call(rng, f, first, req, opts, obj['<axes>'], same_object=True, p_default=0.2)
        ctx.hist('drawn-before/%s/%s%s' % (f.__name__, style, ' (raises)' if ' -> ' in d else ''))
        out.append({'f': f.__name__, 'args': [ph(x) for x in a], 'kwargs': {n_: ph(x) for n_, x in k.items()}})
        if rng.random() < 0.2:       # the readers of the stored transform (they need one: AttributeError otherwise, ignored)
            for g in ('get_stockwell_freqs', 'get_stockwell_times'):
                try:
                    getattr(sw, g)(asig)
                    out.append({'f': g, 'args': ['<signal>'], 'kwargs': {}})
                except Exception:  # noqa
                    pass
    return out


def drawn_case(ctx, v, dt, cls_name, kind, drawn=None):
    import eqsig
    from eqsig import stockwell as sw
    from _hxb_common import same, val
    cls = getattr(eqsig, cls_name)
    n = len(v)
    fresh = val(call_impl(sw.get_max_stockwell_freq, cls(v, dt)))
    want = val(call_impl(sw.get_max_tifq_vals_freq, sw.transform(v), dt))
    asig = cls(v, dt)
    inputs = {'values': v, 'dt': dt, 'class': cls_name, 'kind': kind}
    inputs[DRAWN] = plot_history(ctx, asig, calls=drawn)
    f1 = val(call_impl(sw.get_max_stockwell_freq, asig))
    f2 = val(call_impl(sw.get_max_stockwell_freq, asig))
    N = 2 * (n // 2)
    ctx.oracle('C15.f get_max_stockwell_freq of an object that was drawn before == the trace of a fresh object == get_max_tifq_vals_freq(transform(values), dt): '
               'one value per sample of the (even-truncated) record', fresh is not None and same(f1, fresh) and same(f1, want) and np.shape(f1) == (N,), inputs,
               detail={'drawn object': None if f1 is None else {'len': len(f1), 'head': np.asarray(f1)[:6]}, 'fresh object': None if fresh is None else {'len': len(fresh), 'head': np.asarray(fresh)[:6]}})
    ctx.oracle('C15.f get_max_stockwell_freq of an object that was drawn before: a second read gives the same series', same(f1, f2), inputs)
    ctx.oracle('C15 drawing an object and reading its trace leave record and time step unchanged', same(asig.values, v) and asig.dt == dt and asig.npts == n, inputs)


def extras_drawn(ctx):
    """C15.f object level: get_max_stockwell_freq(signal) == get_max_tifq_vals_freq(transform(values), dt) == the trace of a fresh object, also
    when the object was drawn before (any plotting helper, any option value); drawing leaves record and time step unchanged; a second read
    gives the same series.  (Nothing is demanded after the record of an object is replaced: the stored transform is not invalidated by
    reset_values on the pinned tree -- outside C15.)"""
    rng = ctx.rng
    for it in range(40 if ctx.tier == 'quick' else 400):
        n = rng.randint(4, 90) if it % 8 else rng.choice([128, 200, 255])
        kind = rng.choice(['noise', 'dyadic', 'offset', 'harmonic'])
        v = np.asarray(record(rng, n, kind), dtype=float)
        dt = rng.choice([0.01, 0.02, 0.5, 1.0, 0.005])
        ctx.hist('drawn-before/record/' + kind)
        ctx.count_case(('drawn', v.tobytes(), dt), len(set(v.tolist())) > 1)
        drawn_case(ctx, v, dt, 'AccSignal' if it % 3 else 'Signal', kind)


_run_main_dr = run


def run(ctx):
    _run_main_dr(ctx)
    extras_drawn(ctx)
    ctx.flush()
