"""corr_single3(ctx): correspondence of Model/Single3.lean (driver handlers `s3.*`) with the real code of /repo:
  * AccSignal.pgv / pgd / generate_cumulative_stats / generate_duration_stats (eqsig/single.py),
  * fns/time_step.py::time_series_from_motion, interp_to_approx_dt (object-level wrapper = array-level function),
  * fns/peaks_and_crossings.py::get_zero_and_peak_array_indices, get_major_change_indices,
  * multiple.py::Cluster.values_by_index, Cluster.combine_motions (filter handed over), Cluster.calculate_ratios.
Paste-ready: `from _single3_corr import corr_single3` and call it at the end of `run(ctx)` of harness/props/c10.py (or c08/c09/c12/c14/c18 — it is
self-contained and flushes itself; histogram keys `single3/…`).

Comparison: exact (`==` of the rationals of the doubles) on dyadic-safe records (values k·2^-5, dt a power of two); quantities that involve a
division by a non-power-of-two / the Arias constant / a square root are compared with the rounding budget R = 1e-9.
`generate_duration_stats` is compared twice: in the REAL environment (handler flag = `hasattr(np, 'trapz')`: on the pinned NumPy 2.5.3 the method raises
AttributeError as soon as one |a| > 0.098) and with `np.trapz = np.trapezoid` installed for the duration of the call (flag T), so that the arithmetic
of the a_rms attributes is tied as well.  Cases whose float decision is within 1e-9 of a threshold (|a|/9.8 vs 0.01/0.05/0.1, running sum vs
5 %/95 %, isclose tolerance) are skipped (the model decides on exact decimals).
"""
import math
from fractions import Fraction

import numpy as np

import gen
from core import fr, w_rat, w_rats, p_rat, p_rats, p_ints, cmp_exact, cmp_budget, call_impl

R9 = Fraction(1, 10**9)
K_ARIAS = math.pi / (2 * 9.81)


def _rec(rng, n):
    kind = rng.choice(['dy5', 'dy5', 'small', 'spike', 'int', 'plateau', 'zero', 'thr', 'thr'])
    if kind == 'thr':
        # amplitudes just below / between / above the thresholds 0.01, 0.05, 0.1 times 9.8 (and times 9.81), on the grid 2^-20 (exact)
        near = [0.0979, 0.09805, 0.0982, 0.4899, 0.49025, 0.4906, 0.9799, 0.9805, 0.9811, 0.0, 0.03125, 1.25]
        return [rng.choice([-1, 1]) * round(rng.choice(near) * 2**20) / 2**20 for _ in range(n)]
    if kind == 'dy5':
        return [rng.randint(-48, 48) / 32 for _ in range(n)]
    if kind == 'small':
        return [rng.randint(-3, 3) / 64 for _ in range(n)]
    if kind == 'spike':
        a = [0.0] * n
        if n:
            a[rng.randrange(n)] = rng.choice([1.0, -2.0, 0.5, 0.0625])
        return a
    if kind == 'int':
        return [float(rng.randint(-3, 3)) for _ in range(n)]
    if kind == 'zero':
        return [0.0] * n
    return gen.plateau_record(rng, n).tolist() if n else []


def _close(a, b, rel=R9):
    a, b = fr(a), fr(b)
    return abs(a - b) <= rel * max(abs(a), abs(b), Fraction(1, 10**300))


def corr_single3(ctx, n_cases=None, parts=('stats', 'timestep', 'peaks', 'cluster')):
    import eqsig
    rng = ctx.rng
    if n_cases is None:
        n_cases = 60 if ctx.tier == 'quick' else 600

    def fresh(v, dt):
        return eqsig.AccSignal(np.array(v, dtype=float), dt)

    def outcome(name, r):
        ctx.hist(f"single3/{name}/outcome=" + ('ok' if r[0] == 'ok' else r[1]))
        return r

    def scalar_cmp(fn, exact=True, scale=None):
        def compare(outs, val, fn=fn, exact=exact, scale=scale):
            m = [p_rat(outs[0][0])]
            if exact:
                msg = cmp_exact([val], m)
                if msg is None:
                    return None
            msg, g = cmp_budget([val], m, R9, scale=scale)
            ctx.gap(fn, g)
            return msg
        return compare

    corpus = [([], 0.5), ([0.0], 0.5), ([1.0], 0.5), ([0.0, 1.0, -2.0, 0.5, 0.0], 0.5), ([0.03125, 0.03125, 0.0625], 0.5), ([0.0, 1.0, 0.0, 0.0], 0.5),
              ([0.5, 0.5, 0.5, 2.0, 2.0, 0.5], 0.25), ([0.0, 0.0, 0.0], 0.5), ([1.0, -5.0, 3.0], 0.5), ([0.0, 1.0, 2.0, 0.0, 3.0, 0.25], 0.0),
              ([3.0, -1.0, 4.0, -1.0, 5.0, -9.0, 2.0, 6.0], 0.25), ([0.125, 1.0, 0.125, 0.125, -0.75, 0.0, 0.0625], 2.0)]
    cases = list(corpus)
    for _ in range(n_cases):
        cases.append((_rec(rng, gen.log_int(rng, 1, 40) if rng.random() > 0.03 else 0), gen.dyadic_dt(rng)))

    # ------------------------------------------------------------------------------------------ object-level statistics
    if 'stats' in parts:
        has_trapz = hasattr(np, 'trapz')
        for v, dt in cases:
            inputs = {'values': list(v), 'dt': dt}
            head = f"{w_rat(dt)}|{w_rats(v)}"
            peak = max([abs(x) for x in v] + [1.0])
            # ---- pgv / pgd (cache miss on a fresh object)
            ctx.corr('AccSignal.pgv', f"s3.pgv|{head}", outcome('pgv', call_impl(lambda: float(fresh(v, dt).pgv))), scalar_cmp('AccSignal.pgv'), inputs=inputs)
            ctx.corr('AccSignal.pgd', f"s3.pgd|{head}", outcome('pgd', call_impl(lambda: float(fresh(v, dt).pgd))), scalar_cmp('AccSignal.pgd'), inputs=inputs)

            # ---- generate_cumulative_stats
            def cum():
                s = fresh(v, dt)
                s.generate_cumulative_stats()
                return (list(s.arias_intensity_series), float(s.arias_intensity), list(s.cav_series), float(s.cav))

            def cmp_cum(outs, val):
                ms, ml, cs, cl = p_rats(outs[0]), p_rat(outs[1][0]), p_rats(outs[2]), p_rat(outs[3][0])
                msg = cmp_exact(val[2] + [val[3]], cs + [cl])
                if msg is not None:
                    return 'cav: ' + msg
                k = fr(K_ARIAS)
                msg, g = cmp_budget(val[0] + [val[1]], [k * x for x in ms] + [k * ml], R9)
                ctx.gap('AccSignal.generate_cumulative_stats', g)
                return None if msg is None else 'arias: ' + msg
            ctx.corr('AccSignal.generate_cumulative_stats', f"s3.cum_stats|1|{head}", outcome('generate_cumulative_stats', call_impl(cum)), cmp_cum, inputs=inputs)

            # ---- generate_duration_stats: the float decisions must be clear of the thresholds
            fv = [fr(x) for x in v]
            safe = all(not _close(abs(x) / Fraction(49, 5), t, Fraction(1, 10**9)) for x in fv for t in (Fraction(1, 100), Fraction(1, 20), Fraction(1, 10)))
            cum2, acc = [], Fraction(0)
            for x in fv:
                acc += x * x
                cum2.append(acc)
            if cum2 and acc != 0:
                safe = safe and all(not _close(c, f * acc) for c in cum2 for f in (Fraction(1, 20), Fraction(19, 20)))
            if not safe:
                ctx.hist('single3/generate_duration_stats/skipped-threshold-tie')
                continue

            def dur():
                s = fresh(v, dt)
                s.generate_duration_stats()
                return [float(x) for x in (s.t_b01, s.a_rms01, s.t_b05, s.a_rms05, s.t_b10, s.a_rms10, s.sd_start, s.sd_end, s.t_595)]

            def dur_shim():
                had = hasattr(np, 'trapz')
                if not had:
                    np.trapz = np.trapezoid
                try:
                    return dur()
                finally:
                    if not had:
                        del np.trapz

            def cmp_dur(outs, val):
                for i in (0, 2, 4, 6, 7, 8):
                    msg = cmp_exact([val[i]], [p_rat(outs[i][0])])
                    if msg is not None:
                        return f"attribute #{i}: {msg}"
                for i in (1, 3, 5):
                    tag, tok = outs[i][0], outs[i][1]
                    x = val[i]
                    if tag == 'v':
                        if fr(x) != p_rat(tok):
                            return f"a_rms #{i}: impl={x!r} model literal {tok}"
                    elif tok == 'nan':
                        if not math.isnan(x):
                            return f"a_rms #{i}: impl={x!r} model nan"
                    else:
                        r = p_rat(tok)
                        if math.isnan(x) or r < 0 or abs(x * x - float(r)) > 1e-9 * max(1.0, float(r)):
                            return f"a_rms #{i}: impl={x!r} model sqrt({float(r)!r})"
                return None
            ctx.corr('AccSignal.generate_duration_stats', f"s3.dur_stats|{'T' if has_trapz else 'F'}|{head}",
                     outcome('generate_duration_stats', call_impl(dur)), cmp_dur, inputs=inputs)
            ctx.corr('AccSignal.generate_duration_stats[np.trapz=np.trapezoid]', f"s3.dur_stats|T|{head}",
                     outcome('generate_duration_stats+trapz', call_impl(dur_shim)), cmp_dur, inputs=dict(inputs, shim='np.trapz=np.trapezoid'))
        ctx.flush()

    # ------------------------------------------------------------------------------------------ fns/time_step.py wrappers
    if 'timestep' in parts:
        from eqsig.fns import time_step as ts
        for n, dt in [(0, 0.5), (1, 0.5), (2, 0.5), (3, 1.0), (5, 0.25)] + [(gen.log_int(rng, 1, 60), gen.dyadic_dt(rng)) for _ in range(max(10, n_cases // 3))]:
            def cmp_ts(outs, val):
                msg, g = cmp_budget(list(val), p_rats(outs[0]), R9, abs_floor=Fraction(1, 10**300))
                ctx.gap('time_series_from_motion', g)
                return msg
            ctx.corr('time_series_from_motion', f"s3.time_series|{n}|{w_rat(dt)}", outcome('time_series_from_motion', call_impl(ts.time_series_from_motion, np.zeros(n), dt)),
                     cmp_ts, inputs={'npts': n, 'dt': dt})
        for v, dt in cases:
            for _ in range(2):
                target = rng.choice([dt, dt / 2, dt / 4, dt * 2, dt * 3, dt / 3, dt * 0.75, 0.01, 0.0, dt * 1.5])
                even = rng.random() < 0.5
                inputs = {'values': list(v), 'dt': dt, 'target_dt': target, 'even': even}
                res = outcome('interp_to_approx_dt', call_impl(lambda: (lambda r: (list(r.values), float(r.dt), type(r).__name__, int(r.npts)))(
                    ts.interp_to_approx_dt(fresh(v, dt), target_dt=target, even=even))))

                def cmp_obj(outs, val, v=v):
                    mv, mdt = p_rats(outs[0]), p_rat(outs[1][0])
                    if val[2] != 'AccSignal' or val[3] != len(mv):
                        return f"class {val[2]}, npts {val[3]} (model {len(mv)})"
                    msg, g = cmp_budget(val[0] + [val[1]], mv + [mdt], R9, scale=max([abs(fr(x)) for x in v] + [fr(val[1]), Fraction(1)]))
                    ctx.gap('interp_to_approx_dt', g)
                    return msg
                # the factor decision is taken on the binary64 quotient: the model gets the implementation's decision (`s3.interp_obj_f`); the
                # exact-quotient handler `s3.interp_obj` is used when both decisions agree (or the call raises: dt == 0 or target == 0)
                if target == 0 or dt == 0:
                    ctx.corr('interp_to_approx_dt', f"s3.interp_obj|{w_rats(v)}|{w_rat(dt)}|{w_rat(target)}|{'T' if even else 'F'}", res, cmp_obj, inputs=inputs)
                    continue
                fl = dt / target
                if fl == 1:
                    fdec, fobj = Fraction(1), fl
                elif fl > 1:
                    fdec, fobj = Fraction(int(np.ceil(fl))), int(np.ceil(fl))
                else:
                    fdec, fobj = Fraction(1, int(np.floor(1 / fl))), 1 / np.floor(1 / fl)
                q = fr(dt) / fr(target)
                edec = Fraction(1) if q == 1 else (Fraction(math.ceil(q)) if q > 1 else Fraction(1, math.floor(1 / q)))
                n = len(v)
                new_npts = fobj * n
                xl = fdec * n
                if even:
                    new_npts = 2 * int(new_npts / 2)
                    xl = Fraction(2 * int(xl / 2))
                if len(np.arange(new_npts)) != max(0, math.ceil(xl)):
                    ctx.hist('single3/interp_to_approx_dt/skipped-length-decided-by-rounding')
                    continue
                ctx.corr('interp_to_approx_dt', f"s3.interp_obj_f|{w_rats(v)}|{w_rat(dt)}|{w_rat(fdec)}|{'T' if even else 'F'}", res, cmp_obj, inputs=inputs)
                if fdec == edec:
                    ctx.corr('interp_to_approx_dt', f"s3.interp_obj|{w_rats(v)}|{w_rat(dt)}|{w_rat(target)}|{'T' if even else 'F'}", res, cmp_obj, inputs=inputs)
        ctx.flush()

    # ------------------------------------------------------------------------------------------ fns/peaks_and_crossings.py
    if 'peaks' in parts:
        from eqsig.fns import peaks_and_crossings as pc

        def wave(n):
            kind = rng.choice(['int', 'int', 'osc', 'dy', 'plateau'])
            if kind == 'int':
                return [float(rng.randint(-3, 3)) for _ in range(n)]
            if kind == 'osc':
                out, sgn = [], rng.choice([-1, 1])
                while len(out) < n:
                    k = rng.randint(1, 4)
                    out += [sgn * rng.randint(0, 4) * rng.choice([1.0, 0.5]) for _ in range(k)]
                    sgn = -sgn
                return out[:n]
            if kind == 'dy':
                return [rng.randint(-16, 16) / 8 for _ in range(n)]
            return gen.plateau_record(rng, n).tolist() if n else []
        pcorpus = [[0.0, 1.0, 0.0, -1.0, 0.0, 2.0, 0.0, -2.0, 0.0, 1.0, 0.0], [], [1.0], [0.0, 0.0], [1.0, -1.0], [1.0, -1.0, 1.0, -1.0, 1.0, -1.0, 1.0],
                   [0.0, 1.0, 2.0, 1.0, -1.0, -3.0, -1.0, 2.0, 4.0, 1.0, -2.0, -1.0, 3.0, 1.0, -1.0], [3.0, 2.0, 1.0, 0.0, -1.0, 0.0, 1.0, 0.0, -1.0, -2.0, 1.0]]
        pcases = pcorpus + [wave(gen.log_int(rng, 1, 50)) for _ in range(n_cases)]

        def as_lists(r):
            return [int(x) for x in r[0]], [int(x) for x in r[1]]

        def cmp_pair(outs, val):
            return cmp_exact(val[0], p_ints(outs[0])) or cmp_exact(val[1], p_ints(outs[1]))
        for v in pcases:
            for _ in range(2):
                ms = rng.choice([0, 0, 1, 2, -1, 5])
                zv = None if rng.random() < 0.6 else wave(len(v) if rng.random() < 0.7 else gen.log_int(rng, 1, 50))
                ctx.hist('single3/zero_peak/zvals=' + ('None' if zv is None else 'given'))
                res = outcome('get_zero_and_peak_array_indices', call_impl(
                    lambda: as_lists(pc.get_zero_and_peak_array_indices(np.array(v, dtype=float), None if zv is None else np.array(zv, dtype=float), min_step=ms))))
                ctx.corr('get_zero_and_peak_array_indices', f"s3.zero_peak|{w_rats(v)}|{'-' if zv is None else w_rats(zv)}|{ms}", res, cmp_pair,
                         inputs={'pvals': v, 'zvals': zv, 'min_step': ms})
            # get_major_change_indices
            for _ in range(2):
                ad = rng.random() < 0.3
                dx = rng.choice([1, 1, 2, 0.5, 0.25, 0])
                rtol, atol = rng.choice([(1.0e-8, 1.0e-5), (0.0, 0.0), (0.0, 0.5), (0.25, 0.0), (0.125, 1.0)])
                y = v if rng.random() < 0.5 else [float(x) for x in np.cumsum([rng.choice([0, 0, 1, 1, 2, -1]) for _ in range(len(v))])]
                inputs = {'y': y, 'rtol': rtol, 'atol': atol, 'already_diff': ad, 'dx': dx}
                res = call_impl(lambda: [int(x) for x in pc.get_major_change_indices(np.array(y, dtype=float), rtol=rtol, atol=atol, already_diff=ad, dx=dx)])
                if not ad and dx == 0 and len(y) > 0 and res[0] == 'ok':
                    res = ('err', 'ZeroDivisionError')            # the model's tag for the nan/inf array of `np.diff(...) / 0`
                outcome('get_major_change_indices', res)
                # the decision |av − d| <= atol + rtol·|d| must be clear of rounding
                fy = [fr(t) for t in y]
                dy = fy if ad else ([(fy[i] - fy[max(i - 1, 0)]) / fr(dx) for i in range(len(fy))] if dx != 0 else [])
                tie = False
                for z in range(len(dy)):
                    acc = Fraction(0)
                    for e in range(z + 1, len(dy) - 1):
                        acc += dy[e - 1]
                        lhs, rhs = abs(acc / (e - z) - dy[e + 1]), fr(atol) + fr(rtol) * abs(dy[e + 1])
                        if lhs != rhs and _close(lhs, rhs, Fraction(1, 10**7)):
                            tie = True
                        if lhs == rhs and (e - z) & (e - z - 1) != 0:
                            tie = True                         # equality that the float mean may miss
                if tie:
                    ctx.hist('single3/get_major_change_indices/skipped-isclose-tie')
                    continue
                ctx.corr('get_major_change_indices', f"s3.major|{w_rats(y)}|{w_rat(rtol)}|{w_rat(atol)}|{'T' if ad else 'F'}|{w_rat(dx)}", res,
                         lambda outs, val: cmp_exact(val, p_ints(outs[0])), inputs=inputs)
        ctx.flush()

    # ------------------------------------------------------------------------------------------ multiple.py::Cluster
    if 'cluster' in parts:
        import eqsig.multiple as mul
        for _ in range(max(12, n_cases // 2)):
            k = rng.randint(1, 4)
            n0 = gen.log_int(rng, 24, 80)
            ragged = rng.random() < 0.25
            recs = [[rng.randint(-32, 32) / 16 for _ in range(n0 if not ragged else rng.choice([n0, n0 + 3, 1]))] for _ in range(k)]
            dt = rng.choice([0.5, 0.25, 0.125, 0.0625])
            stypes = rng.choice(['custom', 'acc'])

            def cluster():
                return mul.Cluster([np.array(r, dtype=float) for r in recs], dt, stypes=stypes)
            tail = "|".join(w_rats(r) for r in recs)
            # values_by_index
            for idx in (0, k - 1, -1, -k, k, -k - 1, rng.randint(-6, 6)):
                res = outcome('values_by_index', call_impl(lambda: list(cluster().values_by_index(idx))))
                ctx.corr('Cluster.values_by_index', f"s3.values_by_index|{idx}|{tail}", res, lambda outs, val: cmp_exact(val, p_rats(outs[0])),
                         inputs={'records': recs, 'index': idx})
            # calculate_ratios: never returns
            res = outcome('calculate_ratios', call_impl(lambda: cluster().calculate_ratios()))
            sp = call_impl(lambda: cluster().generate_response_spectrums())
            ctx.corr('Cluster.calculate_ratios', "s3.calc_ratios|" + ('ok' if sp[0] == 'ok' else 'E ' + sp[1]), res, lambda outs, val: 'the method returned', inputs={'records': recs, 'stypes': stypes})
            # combine_motions: the outcomes of the two butter_pass calls are handed to the model
            lo, hi = rng.choice([(0, 1), (0, 1), (1, 0), (0, 0), (-1, 0), (k, 0), (0, k), (rng.randint(-5, 5), rng.randint(-5, 5))])
            f_ch = rng.choice([0.25, 0.5, 1.0]) / dt / 8
            kw = rng.choice([{}, {}, {'order': 2}, {'remove_gibbs': 'start'}, {'remove_gibbs': None}])

            def filt(rec, cut):
                s = eqsig.Signal(np.array(rec, dtype=float), dt)
                s.butter_pass(cut_off=cut, order=kw.get('order', 4), remove_gibbs=kw.get('remove_gibbs', 0))
                return list(s.values)

            def pos(i, n):
                j = i + n if i < 0 else i
                return j if 0 <= j < n else None
            cur = [list(r) for r in recs]
            hp = lp = ('err', 'IndexError')
            if pos(hi, k) is not None:
                hp = call_impl(filt, cur[pos(hi, k)], (f_ch, None))
                if hp[0] == 'ok':
                    cur[pos(hi, k)] = hp[1]
                    if pos(lo, k) is not None:
                        lp = call_impl(filt, cur[pos(lo, k)], (None, f_ch))

            def tok(r):
                return w_rats(r[1]) if r[0] == 'ok' else 'E ' + r[1]

            def comb():
                c = cluster()
                m = c.combine_motions(f_ch, low_index=lo, high_index=hi, **kw)
                return [list(m)] + [list(c.values_by_index(i)) for i in range(k)]

            def cmp_comb(outs, val):
                if len(outs) != len(val):
                    return f"{len(val)} arrays, model {len(outs)}"
                msg, g = cmp_budget(val[0], p_rats(outs[0]), Fraction(1, 10**12), abs_floor=Fraction(1, 10**300))
                if msg is not None:
                    return 'motion: ' + msg
                for i in range(1, len(val)):
                    msg = cmp_exact(val[i], p_rats(outs[i]))
                    if msg is not None:
                        return f"record {i - 1} after the call: {msg}"
                return None
            res = outcome('combine_motions', call_impl(comb))
            ctx.corr('Cluster.combine_motions', f"s3.combine|{lo}|{hi}|{tok(hp)}|{tok(lp)}|{tail}", res, cmp_comb,
                     inputs={'records': recs, 'dt': dt, 'f_ch': f_ch, 'low_index': lo, 'high_index': hi, 'kwargs': kw})
        ctx.flush()
    return cases
