"""C16 — saved signals load back unchanged (to the format's precision)."""
import math
import os
import re
import shutil
import tempfile
from fractions import Fraction

import numpy as np

import gen
from core import fr, w_rat, w_rats, w_bool, p_rats, cmp_exact, cmp_budget, call_impl, WORK

RULE = ("real files in a per-run temporary directory under /verif/.work: n in {1,2,3,50} (+ random 1..120), dt in {1e-4, 0.005, 0.01, 0.02, "
        "0.99994, 0.99996, 1, 2.5, 12, 100} + random in [1e-4, 100], values from {0, +-tiny (|v| < 1e-6, incl. +-5e-7 neighbours), +-exact "
        "ties at the 7th decimal (odd k / 128), +-(1e6 + fraction), gaussian at amplitudes 1e-3..1e9, dyadic}, labels with spaces, commas, "
        "'#', empty; written by save_values_and_dt or save_signal (Signal / AccSignal objects); read by load_values_and_dt, "
        "load_signal('signal'|'acc_sig'), load_sig(m), load_asig(load_label, m), m in {1, -2.5}. "
        "distinct = hash of (values, dt, label); non-trivial = at least 3 values, not all equal")
TIE = ("translator (digit counts of the format strings regenerated into Gen/Consts, rfl bridge Props/C16Gen) + correspondence (hand models Prelude/Fmt.lean + Model/Loader.lean): the file bytes written by the implementation == the model's "
       "save_text, every loaded double == the double nearest to the model's exact decimal")
NOT_PROVED = ["np.genfromtxt's tokenizer and strtod (external; the model takes the exact decimal, the harness checks the loaded double is "
              "the nearest one)", "file-system behaviour, text encoding of the label (ASCII labels generated)",
              "float multiplication by m (one rounding, budget 2^-51 relative)"]
ASSUMPTIONS = ["labels contain none of the characters str.splitlines() / universal-newline file iteration split on"]

DTS = [1e-4, 0.005, 0.01, 0.02, 0.99994, 0.99996, 1.0, 2.5, 12.0, 100.0]
LABELS = ['m1', 'a label with spaces', 'a,b,c', 'rec #7', '# leading hash', 'x, y # z', '', 'ends with #', '  padded  ', '1 0.5']
HALF4 = Fraction(1, 2 * 10**4)
HALF6 = Fraction(1, 2 * 10**6)
ULP = Fraction(1, 2**50)       # slack for: nearest double of the written decimal (2^-53 rel) and one float product with m


PROP_MODULES = ['C16', 'C16Gen', 'C16GenFns']

def cps(s):
    return " ".join(str(ord(c)) for c in s)


def gen_values(rng, n, kind):
    out = []
    for _ in range(n):
        k = kind if kind != 'mixed' else rng.choice(['zero', 'tiny', 'tie', 'big', 'gauss', 'dyadic'])
        if k == 'zero':
            v = 0.0
        elif k == 'tiny':
            v = rng.choice([1e-9, 4e-7, 4.9999e-7, 5e-7, 5.0001e-7, 6e-7, 1e-7, 9.99e-7, 1e-300]) * rng.choice([-1, 1])
        elif k == 'tie':
            v = rng.choice([-1, 1]) * (2 * rng.randint(0, 2000) + 1) / 128.0      # ...5 at the 7th decimal, exactly representable
            if rng.random() < 0.3:
                v = float(np.nextafter(v, rng.choice([-np.inf, np.inf])))
        elif k == 'big':
            v = rng.choice([-1, 1]) * (1e6 * rng.choice([1, 3, 10, 1000]) + rng.random())
        elif k == 'gauss':
            v = rng.gauss(0, 1) * rng.choice([1e-3, 1.0, 1.0, 9.81, 1e3, 1e9])
        else:
            v = rng.randint(-512, 512) / 64.0
        out.append(float(v))
    return out


def obj_view(o):
    """public observables of a returned signal object"""
    return {'type': type(o).__name__, 'values': np.asarray(o.values), 'dt': o.dt, 'label': o.label}


def run(ctx):
    os.makedirs(WORK, exist_ok=True)
    tmp = tempfile.mkdtemp(dir=WORK, prefix='c16-')
    try:
        _run(ctx, tmp)
    finally:
        shutil.rmtree(tmp, ignore_errors=True)


def _run(ctx, tmp):
    rng = ctx.rng
    quick = ctx.tier == 'quick'
    cases = []
    # corpus: witnesses of F16-1 (dt >= 1 loses its integer part: 1.0 -> 0.0, 2.5 -> 0.5, 12.0 -> 0.2) and of F16-2 (one-sample file)
    cases.append(('corpus', [1.5, -0.0234375, 1.0 / 3], 2.5, 'my label, x # y'))
    cases.append(('corpus', [0.25, -1.0], 1.0, 'm1'))
    cases.append(('corpus', [0.25, -1.0, 3.0], 12.0, 'm1'))
    cases.append(('corpus', [0.25], 0.01, 'single sample'))
    cases.append(('corpus', [-1e-9, 0.0, 5e-7, -5e-7, 1.0 / 128, -3.0 / 128], 0.005, 'ties and tiny'))
    cases.append(('corpus', [1234567.1234565, -1e6, 1e6 + 0.5], 0.02, 'large'))
    cases.append(('corpus', [0.1, 0.2, 0.3], 100.0, ''))
    # long records (the format has no length limit): every value on its own line also beyond any block size
    # … including lengths that are exact multiples of plausible block sizes (powers of ten and of two) and their neighbours
    for n_long in ((5001, 10001, 1000, 2000, 1024, 4096, 999, 100, 200, 256, 512, 10000, 131073) if quick else
                   (5001, 10001, 20000, 65537, 1000, 2000, 3000, 1024, 2048, 4096, 8192, 999, 1001, 100, 200, 256, 512, 10000, 16384, 65536, 131073, 262145, 300000)):
        cases.append(('long', [((j * 37) % 2001 - 1000) / 64.0 for j in range(n_long)], 0.01, 'long record'))
    # the grid of the design: n x dt, labels and value kinds rotating
    idx = 0
    for n in (1, 2, 3, 50):
        for dt in DTS:
            for rep in range(2 if quick else 6):
                kind = ['mixed', 'gauss', 'tie', 'tiny', 'big', 'dyadic', 'zero'][idx % 7]
                cases.append((kind, gen_values(rng, n, kind), dt, LABELS[idx % len(LABELS)]))
                idx += 1
    for i in range(600 if quick else 8000):
        n = rng.choice([1, 1, 2, 3, 50]) if rng.random() < 0.6 else gen.log_int(rng, 1, 120)
        c = rng.random()
        if c < 0.35:
            dt = rng.choice(DTS)
        elif c < 0.55:
            dt = rng.choice([0.5, 0.25, 0.125, 2.0, 1.0 / 64, 1.0 / 1024, 4.0, 64.0])
        elif c < 0.65:
            dt = round(rng.uniform(1e-4, 100), 4) + rng.choice([-5e-5, 5e-5, 4.9999e-5])      # next to a rounding boundary of '%.4f'
            dt = min(max(dt, 1e-4), 100.0)
        else:
            dt = 10 ** rng.uniform(-4, 2)
        if ctx.hints and rng.random() < 0.1:          # source hints: time steps at / around every new float constant of eqsig/loader.py (and its reciprocal)
            dt = rng.choice(gen.hint_values(ctx, 1e-4, 100.0, cap=20, maps=(lambda c: c, lambda c: 1 / c)) or [dt])
        kind = rng.choice(['mixed', 'mixed', 'gauss', 'tie', 'tiny', 'big', 'dyadic'])
        label = rng.choice(LABELS) if rng.random() < 0.7 else ''.join(rng.choice('abcXYZ 0123,#.-_()/') for _ in range(rng.randint(0, 25)))
        cases.append((kind, gen_values(rng, n, kind), float(dt), label))

    for ci, (kind, values, dt, label) in enumerate(cases):
        one_case(ctx, tmp, ci, kind, values, dt, label)
        if ci % 200 == 199:
            ctx.flush()
    ctx.flush()


def one_case(ctx, tmp, ci, kind, values, dt, label):
    import eqsig
    from eqsig import loader
    rng = ctx.rng
    n = len(values)
    ctx.hist('values=' + kind)
    ctx.hist(f'n={n}' if n in (1, 2, 3, 50) else 'n=other')
    ctx.hist('dt>=1' if dt >= 1 else 'dt<1')
    ctx.count_case((tuple(values), dt, label), n >= 3 and len(set(values)) > 1,
                   sample={'fn': 'save -> load', 'n': n, 'dt': dt, 'label': label, 'head': values[:4], 'kind': kind} if ci % 37 == 0 else None)
    inputs = {'values': values, 'dt': dt, 'label': label}
    fv = [fr(x) for x in values]
    fdt = fr(dt)
    path = os.path.join(tmp, f'case{ci}.txt')
    writer = ['save_values_and_dt', 'save_values_and_dt(list)', 'save_signal(AccSignal)', 'save_signal(Signal)'][ci % 4]
    ctx.hist('writer=' + writer)
    inputs['writer'] = writer
    arr = np.array(values, dtype=float)
    snap = arr.copy()
    if writer == 'save_values_and_dt':
        res = call_impl(loader.save_values_and_dt, path, arr, dt, label)
    elif writer == 'save_values_and_dt(list)':
        res = call_impl(loader.save_values_and_dt, path, list(values), dt, label)
    elif writer == 'save_signal(AccSignal)':
        res = call_impl(lambda: loader.save_signal(path, eqsig.AccSignal(arr, dt, label=label)))
    else:
        res = call_impl(lambda: loader.save_signal(path, eqsig.Signal(arr, dt, label=label)))
    if res[0] != 'ok' or not os.path.exists(path):
        ctx.oracle('C16 saving a signal writes a file', False, inputs, detail=res)
        return
    ctx.oracle('C16 saving leaves the values unchanged', np.array_equal(arr, snap), inputs)
    with open(path, 'rb') as fh:
        raw = fh.read()
    try:
        text = raw.decode('utf-8')
    except UnicodeDecodeError:
        ctx.oracle('C16 the written file is text', False, inputs)
        return
    # ---- correspondence: the bytes on disk are the model's text
    ctx.corr(writer.split('(')[0], f"save_text|{w_rats(values)}|{w_rat(dt)}|{cps(label)}", ('ok', text),
             lambda outs, val: cmp_exact([ord(c) for c in val], [int(t) for t in outs[0]]), inputs=inputs)

    # ---- the format's precision, read directly from the written text (independent of the model and of the loaders)
    lines = text.split('\n')
    ok_shape = len(lines) == n + 2 and lines[0] == label
    ctx.oracle('C16.a file == label line, header line, one line per value, no trailing newline', ok_shape, inputs, detail={'lines': lines[:5], 'n_lines': len(lines)})
    if ok_shape:
        m = re.fullmatch(r'(\d+) (-?\d+\.\d{4})', lines[1])
        ctx.oracle("C16.a header == '<npts> <dt to 4 decimals>' with |written dt - dt| <= 0.5e-4",
                   bool(m) and int(m.group(1)) == n and abs(Fraction(m.group(2)) - fdt) <= HALF4, inputs, detail={'header': lines[1]})
        bad = None
        for i in range(n):
            mm = re.fullmatch(r'-?\d+\.\d{6}', lines[2 + i])
            if not mm or abs(Fraction(lines[2 + i]) - fv[i]) > HALF6 or (lines[2 + i].startswith('-') and fv[i] >= 0):
                bad = {'index': i, 'line': lines[2 + i], 'value': values[i]}
                break
        ctx.oracle('C16.a every value is written in fixed notation with 6 decimals, within 0.5e-6 of the value, for every sign and magnitude',
                   bad is None, inputs, detail=bad)

    def slack(x):
        return abs(x) * ULP

    def check_values(clause_prefix, got, m, extra):
        """the property's clauses on loaded values (1-d array expected)"""
        got = np.asarray(got)
        fm = fr(m)
        ok_n = got.ndim == 1 and got.shape[0] == n
        ctx.oracle(f'C16.b {clause_prefix}: same number of points', ok_n, {**inputs, **extra}, detail={'shape': got.shape, 'n': n})
        if not ok_n:
            return
        bad = None
        for i, g in enumerate(got.tolist()):
            want = fm * fv[i]
            if math.isnan(g) or abs(fr(g) - want) > abs(fm) * HALF6 + slack(want) + slack(fm * HALF6):
                bad = {'index': i, 'got': g, 'want': float(want)}
                break
        ctx.oracle(f'C16.b {clause_prefix}: same values to 6 decimals (scaled by m)', bad is None, {**inputs, **extra}, detail=bad)

    def check_dt(clause_prefix, got_dt, extra):
        ok = isinstance(got_dt, float) and not math.isnan(got_dt) and abs(fr(got_dt) - fdt) <= HALF4 + slack(fdt)
        ctx.oracle(f'C16.b {clause_prefix}: same time step to 4 decimals', ok, {**inputs, **extra}, detail={'got': got_dt, 'want': dt})

    def cmp_loaded(outs_values, outs_dt, val_values, val_dt, m):
        mv = p_rats(outs_values)
        got = np.asarray(val_values)
        if got.ndim != 1 or len(got) != len(mv):
            return f"shape impl={got.shape} model n={len(mv)}"
        if m == 1:
            for i, (g, q) in enumerate(zip(got.tolist(), mv)):
                if float(q) != g:       # float(Fraction) is correctly rounded: the loaded double must be the nearest to the decimal
                    return f"value[{i}] impl={g!r} model decimal={float(q)!r}"
        else:
            msg, g = cmp_budget(got.tolist(), mv, Fraction(1, 2**51))
            ctx.gap('load*(m) values', g)
            if msg:
                return msg
        md = p_rats(outs_dt)[0]
        if float(md) != float(val_dt):
            return f"dt impl={val_dt!r} model decimal={float(md)!r}"
        return None

    # ---- load_values_and_dt
    res = call_impl(loader.load_values_and_dt, path)
    ctx.corr('load_values_and_dt', f"load_text|{cps(text)}", res,
             lambda outs, val: cmp_loaded(outs[0], outs[1], val[0], val[1], 1), inputs=inputs)
    if res[0] != 'ok':
        ctx.oracle('C16.b load_values_and_dt loads a saved file', False, inputs, detail=res, facts={'loader': 'load_values_and_dt', 'n': n, 'dt': dt})
    else:
        check_values('load_values_and_dt', res[1][0], 1, {'loader': 'load_values_and_dt'})
        check_dt('load_values_and_dt', res[1][1], {'loader': 'load_values_and_dt'})

    def cmp_obj(outs, val, m):
        if outs == [['None']] or val is None:
            return None if (outs == [['None']] and val is None) else f"impl={val!r} model={outs}"
        o = obj_view(val)
        if outs[0] != [o['type']]:
            return f"type impl={o['type']} model={outs[0]}"
        msg = cmp_loaded(outs[1], outs[2], o['values'], o['dt'], m)
        if msg:
            return msg
        mlabel = ''.join(chr(int(t)) for t in outs[3])
        if mlabel != o['label']:
            return f"label impl={o['label']!r} model={mlabel!r}"
        return None

    def check_obj(name, res, want_type, m, want_label, extra):
        extra = {'loader': name, **extra}
        if res[0] != 'ok':
            ctx.oracle(f'C16.b {name} loads a saved file', False, {**inputs, **extra}, detail=res, facts={'loader': name, 'n': n, 'dt': dt})
            return
        o = res[1]
        ctx.oracle(f'C16.c {name} returns the requested object type', type(o).__name__ == want_type, {**inputs, **extra},
                   detail={'got': type(o).__name__, 'want': want_type})
        if type(o).__name__ not in ('Signal', 'AccSignal'):
            return
        check_values(name, o.values, m, extra)
        ctx.oracle(f'C16.b {name}: npts == number of saved points', o.npts == n, {**inputs, **extra}, detail={'npts': o.npts})
        check_dt(name, o.dt, extra)
        if want_label is not None:
            ctx.oracle(f'C16.b {name}: the saved label is returned when requested', o.label == want_label, {**inputs, **extra},
                       detail={'got': o.label, 'want': want_label})

    # ---- load_signal (both requested types; the default astype occasionally, for the correspondence only)
    for astype, want in (('signal', 'Signal'), ('acc_sig', 'AccSignal')):
        res = call_impl(loader.load_signal, path, astype=astype)
        ctx.corr('load_signal', f"load_signal|{cps(text)}|{cps(astype)}", res, lambda outs, val: cmp_obj(outs, val, 1), inputs={**inputs, 'astype': astype})
        check_obj('load_signal', res, want, 1, None, {'astype': astype})
    if ci % 10 == 0:
        res = call_impl(loader.load_signal, path)
        ctx.corr('load_signal', f"load_signal|{cps(text)}|{cps('sig')}", res, lambda outs, val: cmp_obj(outs, val, 1), inputs={**inputs, 'astype': '(default)'})
    # ---- load_sig / load_asig, m in {1, -2.5}
    for m in (1.0, -2.5):
        res = call_impl(loader.load_sig, path, m=m) if m != 1.0 or ci % 2 else call_impl(loader.load_sig, path)
        ctx.corr('load_sig', f"load_sig|{cps(text)}|{w_rat(m)}", res, lambda outs, val, m=m: cmp_obj(outs, val, m), inputs={**inputs, 'm': m})
        check_obj('load_sig', res, 'Signal', m, None, {'m': m})
        for ll in (True, False):
            if ll is False and m == 1.0 and ci % 2:
                res = call_impl(loader.load_asig, path)
            else:
                res = call_impl(loader.load_asig, path, load_label=ll, m=m)
            ctx.corr('load_asig', f"load_asig|{cps(text)}|{w_bool(ll)}|{w_rat(m)}", res, lambda outs, val, m=m: cmp_obj(outs, val, m),
                     inputs={**inputs, 'm': m, 'load_label': ll})
            check_obj('load_asig', res, 'AccSignal', m, label if ll else None, {'m': m, 'load_label': ll})
    # ---- saving what was loaded writes the same file again (values within double precision of their 6 decimals: |v| <= 1e7)
    if max([abs(x) for x in values] + [0.0]) <= 1e7 and ci % 3 == 0:
        r1 = call_impl(loader.load_asig, path, load_label=True)
        if r1[0] == 'ok':
            path2 = path + '.again'
            r2 = call_impl(loader.save_signal, path2, r1[1])
            same = r2[0] == 'ok' and os.path.exists(path2) and open(path2, 'rb').read() == raw
            ctx.oracle('C16 saving a loaded signal writes the same file again', same, inputs)
            if os.path.exists(path2):
                os.remove(path2)
    os.remove(path)


# ---- extras2 (harness extension hx_b): containers / dtypes, file and object histories, huge magnitudes and load factors, large records ----------

def _np_check_loaded(got, v, m, n):
    """C16.b on a loaded array with NumPy (large records): None or a description of the first violation"""
    got = np.asarray(got)
    if got.ndim != 1 or got.shape[0] != n:
        return {'shape': got.shape, 'n': n}
    want = m * np.asarray(v, dtype=float)
    tol = abs(m) * 0.5e-6 * (1 + 1e-9) + np.abs(want) * 2.0 ** -50
    bad = np.nonzero(~(np.abs(got - want) <= tol))[0]
    return None if len(bad) == 0 else {'index': int(bad[0]), 'got': float(got[bad[0]]), 'want': float(want[bad[0]])}


def _read(path):
    with open(path, 'rb') as fh:
        return fh.read()


def _x2_containers(ctx, cur, tmp):
    """(4) the record may be handed to the writers in any container / dtype, the time step as Python int or NumPy scalar: the file is byte for
    byte the one written for the float64 array"""
    import eqsig
    from eqsig import loader
    from _hxb_common import light_history
    rng = ctx.rng
    for it in range(25 if ctx.tier == 'quick' else 250):
        n = rng.choice([1, 2, 3, 17, 50])
        whole = it % 2 == 0
        v = np.array([rng.randint(-2000, 2000) for _ in range(n)], dtype=float) if whole else np.array([rng.randint(-4096, 4096) / 64.0 for _ in range(n)])
        dt = rng.choice([1.0, 2.0, 12.0, 100.0]) if it % 3 == 0 else rng.choice([0.01, 0.005, 0.25, 2.5])
        label = rng.choice(LABELS)
        inputs = {'values': v.tolist(), 'dt': dt, 'label': label}
        cur.clear()
        cur.update(inputs)
        ctx.count_case(('x2c', v.tobytes(), dt, label), n >= 3)
        ref = os.path.join(tmp, 'ref.txt')
        loader.save_values_and_dt(ref, v, dt, label)
        want = _read(ref)
        for lab, c in gen.container_variants(v):
            ctx.hist('extras2/container/' + lab)
            p = os.path.join(tmp, 'c.txt')
            snap = np.array(c)
            r = call_impl(loader.save_values_and_dt, p, c, dt, label)
            ctx.oracle('C16 save_values_and_dt writes the same file whatever container / dtype holds the values', r[0] == 'ok' and os.path.exists(p) and _read(p) == want,
                       {**inputs, 'container': lab}, detail=r if r[0] != 'ok' else {'head': _read(p)[:80].decode('latin1'), 'want head': want[:80].decode('latin1')})
            ctx.oracle('C16 saving leaves the values unchanged', np.array_equal(np.array(c), snap) and np.array(c).dtype == snap.dtype, {**inputs, 'container': lab})
            if os.path.exists(p):
                os.remove(p)
            if isinstance(c, np.ndarray):
                for cls in (eqsig.Signal, eqsig.AccSignal):
                    r = call_impl(lambda: loader.save_signal(p, cls(c, dt, label=label)))
                    ctx.oracle('C16 save_signal(%s(values in any dtype)) writes the same file as for float64 values' % cls.__name__,
                               r[0] == 'ok' and os.path.exists(p) and _read(p) == want, {**inputs, 'container': lab}, detail=r if r[0] != 'ok' else None)
                    if os.path.exists(p):
                        os.remove(p)
        if float(dt).is_integer():
            for lab, d in (('int', int(dt)), ('np.int64', np.int64(dt)), ('np.float64', np.float64(dt)), ('np.float32', np.float32(dt))):
                p = os.path.join(tmp, 'd.txt')
                r = call_impl(loader.save_values_and_dt, p, v, d, label)
                ctx.oracle('C16 save_values_and_dt writes the same file whatever numeric type holds the time step', r[0] == 'ok' and os.path.exists(p) and _read(p) == want,
                           {**inputs, 'dt type': lab}, detail=r if r[0] != 'ok' else {'head': _read(p)[:60].decode('latin1')})
                if os.path.exists(p):
                    os.remove(p)
        # objects that reached (values, dt) through a history
        p = os.path.join(tmp, 'h.txt')
        sig = light_history(ctx, eqsig.AccSignal if it % 2 else eqsig.Signal, v, dt, label=label)
        r = call_impl(loader.save_signal, p, sig)
        ctx.oracle('C16 save_signal(object with a history) writes the file of its current values, time step and label', r[0] == 'ok' and os.path.exists(p) and
                   _read(p) == want, inputs, detail=r if r[0] != 'ok' else {'head': _read(p)[:80].decode('latin1')})
        ctx.last_object_history = None
        for f in (p, ref):
            if os.path.exists(f):
                os.remove(f)


def _x2_histories(ctx, cur, tmp):
    """(5) the file is the only state: a path that is written again holds exactly the new signal (longer or shorter than the old one), loading
    twice gives the same, editing a loaded object does not change what the next load returns; every loader through its top-level name"""
    import eqsig
    from eqsig import loader
    rng = ctx.rng
    for it in range(20 if ctx.tier == 'quick' else 200):
        p = os.path.join(tmp, 'same-path.txt')
        steps = []
        for step in range(3):
            n = rng.choice([1, 2, 5, 40, 120, 1000 if it % 5 == 0 else 7])
            v = np.array(gen_values(rng, n, rng.choice(['mixed', 'gauss', 'dyadic', 'big'])))
            dt = rng.choice(DTS)
            label = rng.choice(LABELS)
            steps.append({'n': n, 'dt': dt, 'label': label, 'head': v[:3].tolist()})
            inputs = {'history (files written to the same path)': list(steps), 'values': v.tolist() if n <= 120 else 'gen_values, n=1000', 'dt': dt, 'label': label}
            cur.clear()
            cur.update(inputs)
            ctx.count_case(('x2h', it, step, v.tobytes(), dt, label), n >= 3)
            ctx.hist('extras2/same-path/step=%d' % step)
            if step % 2:
                eqsig.save_signal(p, eqsig.AccSignal(v, dt, label=label))
            else:
                loader.save_values_and_dt(p, v, dt, label)
            loads = [('load_values_and_dt', lambda: loader.load_values_and_dt(p), 1.0), ('eqsig.load_asig(load_label=True)', lambda: eqsig.load_asig(p, load_label=True), 1.0),
                     ('eqsig.load_sig', lambda: eqsig.load_sig(p), 1.0), ("eqsig.load_signal(astype='acc_sig')", lambda: eqsig.load_signal(p, astype='acc_sig'), 1.0),
                     ("eqsig.load_signal(astype='signal')", lambda: eqsig.load_signal(p, astype='signal'), 1.0)]
            for nm, f, m in loads:
                r1 = call_impl(f)
                if r1[0] != 'ok':
                    ctx.oracle('C16.b %s loads a file written over an older one' % nm, False, inputs, detail=r1)
                    continue
                vals, gdt = (r1[1][0], r1[1][1]) if nm == 'load_values_and_dt' else (r1[1].values, r1[1].dt)
                bad = _np_check_loaded(vals, v, m, n)
                ctx.oracle('C16.b %s after the path was written again: points, values (6 decimals) and time step (4 decimals) of the LAST signal saved' % nm,
                           bad is None and abs(gdt - dt) <= 0.5e-4 * (1 + 1e-9), inputs, detail={'values': bad, 'dt': gdt})
                if nm.startswith('eqsig.load_asig'):
                    ctx.oracle('C16.b load_asig(load_label=True) after the path was written again: label of the LAST signal saved', r1[1].label == label, inputs,
                               detail={'got': r1[1].label})
                if nm != 'load_values_and_dt':
                    want_t = 'Signal' if 'load_sig' in nm and 'signal(' not in nm or "astype='signal'" in nm else 'AccSignal'
                    ctx.oracle('C16.c %s returns the requested object type' % nm, type(r1[1]).__name__ == want_t, inputs, detail=type(r1[1]).__name__)
                    # edit the loaded object, load again: the second load is what the first one was
                    before = np.array(vals, dtype=float)
                    r1[1].reset_values(before[::-1] * 3.0 + 1.0)
                    r2 = call_impl(f)
                    ctx.oracle('C16 loading again after editing the loaded object returns the saved signal again', r2[0] == 'ok' and
                               np.array_equal(np.asarray(r2[1].values), before) and r2[1].dt == gdt, inputs)
                else:
                    np.asarray(vals)[...] = 7.0
                    r2 = call_impl(f)
                    ctx.oracle('C16 loading again after overwriting the loaded array returns the saved values again', r2[0] == 'ok' and
                               _np_check_loaded(r2[1][0], v, 1.0, n) is None and r2[1][1] == gdt, inputs)
        if os.path.exists(p):
            os.remove(p)


def _x2_magnitudes(ctx, cur, tmp):
    """(2)/(3) every magnitude: values up to 1e300 are written in fixed notation (hundreds of digits) and load back within the format's
    precision; load factors m of any type and size (Python int, tiny, huge, negative)"""
    import eqsig
    from eqsig import loader
    rng = ctx.rng
    for it in range(25 if ctx.tier == 'quick' else 250):
        n = rng.choice([1, 2, 3, 10, 50])
        v = np.array([rng.choice([-1, 1]) * rng.choice([10.0 ** rng.randint(10, 300) * rng.uniform(1, 9.99), 2.0 ** rng.randint(40, 1000), 1e15 + rng.random(),
                                                       rng.gauss(0, 1), 0.0, 2.0 ** -rng.randint(1, 1000), 9007199254740993.0, 1.7e308]) for _ in range(n)])
        dt = rng.choice(DTS)
        label = rng.choice(LABELS)
        inputs = {'values': v.tolist(), 'dt': dt, 'label': label}
        cur.clear()
        cur.update(inputs)
        ctx.hist('extras2/magnitudes')
        ctx.count_case(('x2m', v.tobytes(), dt, label), n >= 3)
        p = os.path.join(tmp, 'huge.txt')
        r = call_impl(eqsig.save_signal, p, eqsig.AccSignal(v, dt, label=label)) if it % 2 else call_impl(loader.save_values_and_dt, p, v, dt, label)
        if r[0] != 'ok' or not os.path.exists(p):
            ctx.oracle('C16 saving a signal writes a file (values of any magnitude)', False, inputs, detail=r)
            continue
        lines = _read(p).decode('utf-8').split('\n')
        ok = len(lines) == n + 2 and lines[0] == label and all(re.fullmatch(r'-?\d+\.\d{6}', l) for l in lines[2:])
        ok = ok and all(abs(Fraction(l) - fr(x)) <= HALF6 for l, x in zip(lines[2:], v.tolist()))
        ctx.oracle('C16.a every value is written in fixed notation with 6 decimals, within 0.5e-6 of the value, for every sign and magnitude (up to 1e300)', ok, inputs,
                   detail={'n_lines': len(lines), 'line lengths': [len(l) for l in lines[:6]]})
        for m in (1.0, rng.choice([2, -1, 3]), rng.choice([1e-6, 0.001, -1e-300 if np.max(np.abs(v)) < 1e100 else -0.5]), rng.choice([1e6, -4096.0])):
            with np.errstate(all='ignore'):
                finite = bool(np.all(np.isfinite(np.asarray(v) * float(m))))
            if not finite:
                continue
            for nm, f in (('load_sig', lambda: eqsig.load_sig(p, m=m)), ('load_asig', lambda: eqsig.load_asig(p, load_label=True, m=m))):
                rr = call_impl(f)
                ok = rr[0] == 'ok' and type(rr[1]).__name__ == ('Signal' if nm == 'load_sig' else 'AccSignal')
                bad = None
                if ok:
                    got = np.asarray(rr[1].values)
                    ok = got.shape == (n,)
                    for i in range(n if ok else 0):
                        want = fr(float(m)) * fr(float(v[i]))
                        if not (abs(fr(float(got[i])) - want) <= abs(fr(float(m))) * HALF6 + abs(want) * ULP + Fraction(1, 10**320)):
                            bad = {'index': i, 'got': float(got[i]), 'want': float(want)}
                            break
                    ok = ok and bad is None and abs(rr[1].dt - dt) <= 0.5e-4 * (1 + 1e-9) and rr[1].npts == n
                ctx.oracle('C16.b %s: points, time step and values to 6 decimals scaled by the load factor m (any magnitude, m of any numeric type)' % nm, ok,
                           {**inputs, 'm': m, 'type(m)': type(m).__name__}, detail=bad if rr[0] == 'ok' else rr)
        os.remove(p)


def _x2_large(ctx, cur, tmp):
    """(1) records of tens of thousands of samples (above 2^15 / 2^16 and every plausible block size), other value kinds, steps >= 1 s and labels
    than the fixed long records of the main run; the clauses with NumPy in O(n)"""
    import eqsig
    from eqsig import loader
    rng = ctx.rng
    sizes = [rng.choice([32768, 32769, 30000]), rng.choice([50000, 60000, 65536, 65537])] if ctx.tier == 'quick' else [30000, 32768, 32769, 50000, 65536, 65537, 100000, 131073]
    # source hints: numbers of samples around every new integer constant of eqsig/loader.py; a few samples and the time step at / around every new float constant
    sizes = sizes + gen.hint_sizes(ctx, lo=121, hi=1000000, cap=6)
    hvv, hv_dt = gen.hint_values(ctx, -1e6, 1e6, cap=40), gen.hint_values(ctx, 1e-4, 100.0, cap=10, maps=(lambda c: c, lambda c: 1 / c))
    for n in sizes:
        seed = rng.randrange(2 ** 31)
        g = np.random.default_rng(seed)
        kind = rng.choice(['gauss', 'big', 'tie'])
        v = g.standard_normal(n) * 9.81 if kind == 'gauss' else g.choice([-1.0, 1.0], size=n) * (1e6 + g.random(n)) if kind == 'big' else (2 * g.integers(-2000, 2000, size=n) + 1) / 128.0
        v[1:1 + len(hvv)] = hvv[:max(0, n - 1)]
        dt = rng.choice([0.005, 0.02, 1.0, 2.5] + hv_dt)
        label = rng.choice(LABELS)
        m = rng.choice([1.0, -2.5])
        desc = {'generator': 'c16._x2_large', 'kind': kind, 'n': n, 'numpy_seed': seed, 'dt': dt, 'label': label, 'm': m}
        cur.clear()
        cur.update(desc)
        ctx.hist('extras2/large/' + kind)
        ctx.count_case(('x2l', n, seed, kind, dt), True, sample=desc)
        p = os.path.join(tmp, 'large.txt')
        r = call_impl(eqsig.save_signal, p, eqsig.AccSignal(v, dt, label=label)) if n % 2 else call_impl(loader.save_values_and_dt, p, v, dt, label)
        if r[0] != 'ok' or not os.path.exists(p):
            ctx.oracle('C16 saving a signal writes a file', False, desc, detail=r)
            continue
        lines = _read(p).decode('utf-8').split('\n')
        ok = len(lines) == n + 2 and lines[0] == label and bool(re.fullmatch(r'%d -?\d+\.\d{4}' % n, lines[1]))
        if ok:
            ok = all(re.fullmatch(r'-?\d+\.\d{6}', l) for l in lines[2:]) and _np_check_loaded(np.array([float(l) for l in lines[2:]]), v, 1.0, n) is None
        ctx.oracle('C16.a (large) file == label line, header line, one line per value (6 decimals, within 0.5e-6), no trailing newline', ok, desc,
                   detail={'n_lines': len(lines), 'header': lines[1] if len(lines) > 1 else None})
        for nm, f, mm in (('load_values_and_dt', lambda: loader.load_values_and_dt(p), 1.0), ('load_asig', lambda: eqsig.load_asig(p, load_label=True, m=m), m),
                          ('load_sig', lambda: eqsig.load_sig(p, m=m), m)):
            rr = call_impl(f)
            if rr[0] != 'ok':
                ctx.oracle('C16.b (large) %s loads a saved file' % nm, False, desc, detail=rr)
                continue
            vals, gdt = (rr[1][0], rr[1][1]) if nm == 'load_values_and_dt' else (rr[1].values, rr[1].dt)
            bad = _np_check_loaded(vals, v, mm, n)
            ctx.oracle('C16.b (large) %s: same number of points, values to 6 decimals (scaled by m), time step to 4 decimals' % nm,
                       bad is None and abs(gdt - dt) <= 0.5e-4 * (1 + 1e-9), desc, detail={'values': bad, 'dt': gdt})
            if nm == 'load_asig':
                ctx.oracle('C16.b (large) load_asig: the saved label is returned when requested', rr[1].label == label and rr[1].npts == n, desc)
        os.remove(p)


def extras2(ctx):
    from _hxb_common import guarded_sections
    os.makedirs(WORK, exist_ok=True)
    tmp = tempfile.mkdtemp(dir=WORK, prefix='c16x-')
    try:
        guarded_sections(ctx, 'C16', [(nm, lambda c, cur, f=f: f(c, cur, tmp)) for nm, f in
                                      (('containers', _x2_containers), ('histories', _x2_histories), ('magnitudes', _x2_magnitudes), ('large', _x2_large))])
    finally:
        shutil.rmtree(tmp, ignore_errors=True)


_run_main2 = run


def run(ctx):
    _run_main2(ctx)
    extras2(ctx)
    ctx.flush()


# ---- malformed files: the loader's error precedence (model repaired after a translator bridge exposed a wrong order, DESIGN §10) ---------------

MALFORMED = ["", "lab", "lab\n", "2 0.01", "lab\n2 0.01", "lab\n2 0.01\n\n", "lab\n\t\n", "lab\n\n\t\n", "lab\n1 x #\t\n", "lab\n1 2 #\t\n",
             "lab\n\t\n1.0\n", "l\nonly\nabc", "l\nonly\n1.5", "l\n1 0.5\nabc", "l\n1 x\n2.5"]


def malformed(ctx):
    """a separate malformed stream: load_values_and_dt and the model must agree on the OUTCOME (which error kind, or which values and dt)
    for file contents no writer produces; correspondence only (the property speaks about saved files)"""
    import tempfile
    import shutil
    from eqsig import loader
    os.makedirs(WORK, exist_ok=True)
    tmp = tempfile.mkdtemp(dir=WORK, prefix='c16m-')
    try:
        for k, text in enumerate(MALFORMED):
            path = os.path.join(tmp, f'm{k}.txt')
            with open(path, 'w', newline='') as f:
                f.write(text)
            res = call_impl(loader.load_values_and_dt, path)
            ctx.hist('malformed/outcome=' + (res[1] if res[0] == 'err' else 'ok'))

            def compare(outs, val):
                mv, md = p_rats(outs[0]), p_rats(outs[1])[0]
                got = [float(x) for x in np.atleast_1d(np.asarray(val[0], dtype=float))]
                if [float(x) for x in mv] != got:
                    return f"values impl={got} model={[float(x) for x in mv]}"
                return None if float(md) == float(val[1]) else f"dt impl={val[1]!r} model={float(md)!r}"
            ctx.corr('load_values_and_dt (malformed file)', f"load_text|{cps(text)}", res, compare, inputs={'file_content': text})
    finally:
        shutil.rmtree(tmp, True)


_run_main_mf = run


def run(ctx):
    _run_main_mf(ctx)
    malformed(ctx)
    ctx.flush()


# evidence: how the model is tied to the source on every run (as built, supersedes the value above)
TIE = 'translator (format digits -> Gen/Consts, writer and loaders -> Gen/LoaderFns; Props/C16Gen, C16GenFns) + correspondence at the byte level (incl. a malformed-file stream)'


# ---- round-7 lesson (hx_r7c): one file, many spellings of its path -------------------------------------------------------------------------

def _spellings(tmp, d, name):
    """{label: path object} -- every entry names the SAME file tmp/d/name (created here, with a symlinked directory, a symlink and a hard link to
    the file; whichever the platform refuses is left out)"""
    import pathlib
    real = os.path.join(tmp, d, name)
    os.makedirs(os.path.dirname(real), exist_ok=True)
    with open(real, 'w') as fh:
        fh.write('placeholder\n2 0.0100\n0.000000\n0.000000')
    rel = os.path.relpath(real, os.getcwd())
    sp = {'absolute str': real, 'relative to the working directory': rel, './relative': os.path.join('.', rel),
          'dir/../dir/file': os.path.join(tmp, d, '..', d, name), 'doubled separator': os.path.join(tmp, d) + os.sep + os.sep + name,
          'dir/./file': os.path.join(tmp, d, '.', name), 'pathlib.Path (absolute)': pathlib.Path(real), 'pathlib.Path (relative)': pathlib.Path(rel),
          'pathlib.PurePath joined': pathlib.Path(tmp) / d / name}
    try:
        os.symlink(real, os.path.join(tmp, d, 'link-to-' + name))
        sp['symlink to the file'] = os.path.join(tmp, d, 'link-to-' + name)
    except OSError:
        pass
    try:
        os.symlink(os.path.join(tmp, d), os.path.join(tmp, d + '-linked'), target_is_directory=True)
        sp['through a symlinked directory'] = os.path.join(tmp, d + '-linked', name)
    except OSError:
        pass
    try:
        os.link(real, os.path.join(tmp, d, 'hard-' + name))
        sp['hard link to the file'] = os.path.join(tmp, d, 'hard-' + name)
    except OSError:
        pass
    return {k: v for k, v in sp.items() if os.path.exists(v) and os.path.samefile(v, real)}


def _x3_spellings(ctx, cur, tmp):
    """the FILE is the only state: a file that is saved, loaded, saved again (other length / same length and byte size / only another time step /
    only another label) and loaded again -- each time through another spelling of its path (absolute, relative, ./x, dir/../dir/x, pathlib.Path,
    symlinks, a hard link), or replaced by a file saved elsewhere and moved / copied onto it -- always loads as the signal saved LAST, through
    every loader entry point."""
    import eqsig
    from eqsig import loader
    rng = ctx.rng
    quick = ctx.tier == 'quick'
    for it in range(30 if quick else 300):
        d = 'sp%d' % it
        sp = _spellings(tmp, d, 'station_ew.txt')
        names = sorted(sp)
        real = sp['absolute str']
        used = rng.sample(names, min(len(names), rng.choice([2, 3, 4])))
        n_prev, v, dt, label = None, None, None, None
        steps = []
        loaded_via = []
        for step in range(rng.choice([2, 3, 3, 4])):
            how = 'other length' if step == 0 else rng.choice(['other length', 'other length', 'same length, same file size', 'only the time step differs', 'only the label differs'])
            if how == 'other length':
                n = rng.choice([m for m in (2, 3, 5, 7, 40, 120) if m != n_prev])
                v = np.array(gen_values(rng, n, rng.choice(['mixed', 'gauss', 'dyadic', 'big'])))
                dt, label = rng.choice(DTS), rng.choice(LABELS)
            elif how == 'same length, same file size':
                v = np.roll(v, 1) if len(set(v.tolist())) > 1 else v + 1.0      # a permutation: the same lines in another order
            elif how == 'only the time step differs':
                dt = rng.choice([x for x in DTS if x != dt])
            else:
                label = rng.choice([x for x in LABELS if x != label])
            n = n_prev = len(v)
            via = rng.choice(used)
            route = rng.choice(['save_signal', 'save_values_and_dt', 'save_signal', 'saved elsewhere and moved onto the file', 'saved elsewhere and copied onto the file'])
            steps.append({'step': step, 'saved': how, 'through': via if not route.startswith('saved elsewhere') else route, 'by': route, 'n': n, 'dt': dt, 'label': label, 'head': v[:3].tolist()})
            if route == 'save_signal':
                eqsig.save_signal(sp[via], (eqsig.AccSignal if step % 2 else eqsig.Signal)(v, dt, label=label))
            elif route == 'save_values_and_dt':
                loader.save_values_and_dt(sp[via], v, dt, label)
            else:
                other = os.path.join(tmp, d, 'elsewhere.txt')
                loader.save_values_and_dt(other, v, dt, label)
                if route.endswith('moved onto the file'):
                    os.replace(other, real)             # (the links of the earlier file keep the earlier inode: not used afterwards)
                    sp = {k: q for k, q in sp.items() if os.path.exists(q) and os.path.samefile(q, real)}
                    used = [u for u in used if u in sp] or ['absolute str']
                    loaded_via = [u for u in loaded_via if u in sp]
                else:
                    shutil.copyfile(other, real)
                    os.remove(other)
            # load through spellings used for loading before (what a memo would key on) and through one more
            vias = list(dict.fromkeys(loaded_via[-2:] + [rng.choice(used), rng.choice(sorted(sp))]))
            for lv in vias:
                q = sp[lv]
                m = rng.choice([1.0, 1.0, 2.0, 0.5, -9.81])
                loads = [('load_values_and_dt', lambda: loader.load_values_and_dt(q), 1.0), ('eqsig.load_asig(load_label=True, m)', lambda: eqsig.load_asig(q, load_label=True, m=m), m),
                         ('eqsig.load_sig(m)', lambda: eqsig.load_sig(q, m), m), ("eqsig.load_signal(astype='acc_sig')", lambda: eqsig.load_signal(q, astype='acc_sig'), 1.0),
                         ("eqsig.load_signal(astype='signal')", lambda: eqsig.load_signal(q, 'signal'), 1.0)]
                for nm, f, mm in (loads if lv == vias[0] else rng.sample(loads, 2)):
                    inputs = {'history of the file (saves in order)': [dict(x) for x in steps], 'loaded through': lv, 'loaded earlier through': list(loaded_via), 'loader': nm, 'm': mm,
                              'values': v.tolist(), 'dt': dt, 'label': label}
                    cur.clear()
                    cur.update(inputs)
                    ctx.hist('spellings/load via ' + lv)
                    ctx.count_case(('x3s', it, step, lv, nm, v.tobytes(), dt, label), n >= 3)
                    r = call_impl(f)
                    if r[0] != 'ok':
                        ctx.oracle('C16.b %s loads the file through any spelling of its path' % nm, False, inputs, detail=r)
                        continue
                    vals, gdt = (r[1][0], r[1][1]) if nm == 'load_values_and_dt' else (r[1].values, r[1].dt)
                    bad = _np_check_loaded(vals, v, mm, n)
                    ctx.oracle('C16.b %s returns points, values (6 decimals, times m) and time step (4 decimals) of the signal saved LAST to the file, whatever spelling of '
                               'the path was used to save and to load' % nm, bad is None and abs(gdt - dt) <= 0.5e-4 * (1 + 1e-9), inputs, detail={'values': bad, 'dt': gdt, 'npts': len(np.atleast_1d(vals))})
                    if nm.startswith('eqsig.load_asig'):
                        ctx.oracle('C16.b load_asig(load_label=True) returns the label saved LAST to the file, whatever spelling of the path was used', r[1].label == label, inputs,
                                   detail={'got': r[1].label})
                    if nm != 'load_values_and_dt':
                        want_t = 'Signal' if nm.startswith('eqsig.load_sig(') or "astype='signal'" in nm else 'AccSignal'
                        ctx.oracle('C16.c %s returns the requested object type' % nm, type(r[1]).__name__ == want_t, inputs, detail=type(r[1]).__name__)
                if lv not in loaded_via:
                    loaded_via.append(lv)
        shutil.rmtree(os.path.join(tmp, d), ignore_errors=True)
        if os.path.islink(os.path.join(tmp, d + '-linked')):
            os.remove(os.path.join(tmp, d + '-linked'))


def extras_spellings(ctx):
    from _hxb_common import guarded_sections
    os.makedirs(WORK, exist_ok=True)
    tmp = tempfile.mkdtemp(dir=WORK, prefix='c16s-')
    try:
        guarded_sections(ctx, 'C16', [('spellings', lambda c, cur: _x3_spellings(c, cur, tmp))])
    finally:
        shutil.rmtree(tmp, ignore_errors=True)


_run_main_sp = run


def run(ctx):
    _run_main_sp(ctx)
    extras_spellings(ctx)
    ctx.flush()


# ---- round 8: load -> change the object -> save BACK onto the file it came from -> load (seed C16-r8-2: a 'nothing changed' shortcut in the
# writer keyed on the source file's stamp, missed by mutators that do not go through reset_values) ------------------------------------------------

def _x4_load_change_save(ctx, cur, tmp):
    import eqsig
    from eqsig import loader
    rng = ctx.rng
    changes = [('running_average', lambda s: s.running_average(3)), ('add_constant', lambda s: s.add_constant(0.5)),
               ('remove_poly', lambda s: s.remove_poly(1)), ('reset_values', lambda s: s.reset_values(np.array(s.values) * 2.0 + 1.0)),
               ('add_series', lambda s: s.add_series(np.arange(s.npts) * 0.25)), ('remove_average', lambda s: s.remove_average()),
               ('rebase_displacement', lambda s: s.rebase_displacement()), ('remove_rolling_average', lambda s: s.remove_rolling_average(mtype='acceleration', freq_window=9)),
               ('in-place edit of .values', lambda s: s.values.__setitem__(slice(None), np.array(s.values) + 0.125))]
    loaders = [('load_asig', lambda p: loader.load_asig(p)), ('load_sig', lambda p: loader.load_sig(p)), ('load_signal', lambda p: loader.load_signal(p, astype='acc_sig')),
               ('load_asig(load_label=True)', lambda p: loader.load_asig(p, load_label=True))]
    for it in range(len(changes) * (2 if ctx.tier == 'quick' else 8)):
        cname, change = changes[it % len(changes)]
        lname, load = loaders[(it // len(changes) + it) % len(loaders)]
        n = rng.choice([9, 16, 40])
        v = np.array(gen_values(rng, n, 'dyadic'))
        dt = rng.choice(DTS)
        p = os.path.join(tmp, 'lcs%d.txt' % it)
        # the default label of a loaded object is 'm1': half of the files carry exactly that label, so that object and file agree in every respect but the values
        s0 = eqsig.AccSignal(v, dt, label=('m1' if it % 2 == 0 else 'rec %d' % it))
        r = call_impl(loader.save_signal, p, s0)
        if r[0] != 'ok':
            continue
        ld = call_impl(load, p)
        if ld[0] != 'ok':
            continue
        s = ld[1]
        inputs = {'values': v, 'dt': dt, 'loader': lname, 'change': cname, 'path': 'the file the object was loaded from'}
        ch = call_impl(change, s)
        if ch[0] != 'ok':
            ctx.hist('load-change-save/change not applicable: ' + cname)
            continue
        want = np.array(s.values, dtype=float)
        if np.array_equal(np.round(want, 6), np.round(v, 6)):
            continue
        ctx.hist('load-change-save/' + cname)
        ctx.count_case(('lcs', v.tobytes(), dt, cname, lname), True)
        sv = call_impl(loader.save_signal, p, s)
        back = call_impl(loader.load_values_and_dt, p)
        ok = sv[0] == 'ok' and back[0] == 'ok' and len(back[1][0]) == len(want) and bool(np.all(np.abs(np.asarray(back[1][0]) - want) <= 0.5000001e-6 + 1e-12 * np.abs(want)))
        ctx.oracle('C16.b a loaded signal that was changed and saved back onto its file loads as the CHANGED signal (values to 6 decimals)', ok, inputs,
                   detail={'saved': sv[0], 'loaded': back[0] if back[0] != 'ok' else np.asarray(back[1][0])[:6], 'want': want[:6]})


def extras_load_change_save(ctx):
    from _hxb_common import guarded_sections
    os.makedirs(WORK, exist_ok=True)
    tmp = tempfile.mkdtemp(dir=WORK, prefix='c16l-')
    try:
        guarded_sections(ctx, 'C16', [('load-change-save', lambda c, cur: _x4_load_change_save(c, cur, tmp))])
    finally:
        shutil.rmtree(tmp, ignore_errors=True)


_run_main_lcs = run


def run(ctx):
    _run_main_lcs(ctx)
    extras_load_change_save(ctx)
    ctx.flush()
