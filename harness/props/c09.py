"""C09 — cumulative intensity measures: definition, monotonicity and scaling laws."""
import math
from fractions import Fraction

import numpy as np

import gen
from core import fr, w_rat, w_rats, p_rats, cmp_exact, cmp_budget, call_impl

RULE = ("records n in 2..3000 of kinds dyadic/int/plateau/spike/step (dyadic dt: exact comparison) and noise/sine/big/tiny "
        "(budget 1e-9); scale factors {-3,-1,1/2,2,1e6}; zero padding 0..200; standardised CAV: dt in "
        "{1,1/2,1/4,1/8,0.2,0.1,0.05,0.02,0.01,0.005}, durations 2..40 s, amplitudes around the 0.025 g gate. "
        "distinct = hash of (record, dt); non-trivial = length >= 3 and not constant")
TIE = "translator (literals 9.81 / 0.025 / 2*9.81 of im.py regenerated into Gen/Consts, bridge Props/C09Gen) + correspondence (hand model Model/Im.lean on exact rationals; Arias constant pi/(2*9.81) applied on the Python side)"
NOT_PROVED = ["CAVdp panel count for NON-standard time steps: for dt = fl(1/pps), pps in the 22 standard rates, the floating np.arange has exactly pps elements (first 600 windows) and pps-1 panels are integrated (first 2..10 windows fully evaluated) - proved on an exact binary64 model validated bit for bit against NumPy (Props/C09CavDpPanels); other dt (e.g. 1/49: pps panels; 1/93: int(1/dt) = 92) and windows beyond 600 s: the oracle accepts either count",
              "the oracle accepts either (the property allows one trapezoid panel per window)",
              "IEEE rounding of the sums (measured)"]

SERIES = [  # (name, impl function, model handler)
    ('calc_cav', 'cav'), ('calc_isv', 'isv'), ('calc_integral_of_abs_velocity', 'int_abs_vel'),
    ('calc_integral_of_abs_acceleration', 'int_abs_acc'), ('calc_unit_kinetic_energy', 'unit_ke'),
]
K_ARIAS = math.pi / (2 * 9.81)


PROP_MODULES = ['C09', 'C09Gen', 'C09Sem', 'C09GenCav', 'C09GenObject', 'C09CavDpPanels']

def ftrapz(y, dx):
    return sum((y[i] + y[i + 1]) for i in range(len(y) - 1)) * dx / 2


def run(ctx):
    import eqsig
    from eqsig import im
    rng = ctx.rng
    n_cases = 100 if ctx.tier == 'quick' else 1200
    corpus = [(np.array([1.0, -2.0, 0.5, 0.0]), 0.5), (np.array([0.0, 0.0, 0.0]), 1.0), (np.array([3.0, 3.0]), 0.25)]
    cases = [('corpus', a, dt) for a, dt in corpus]
    for i in range(n_cases):
        if i % 3 == 0:
            kind = rng.choice(['dyadic', 'int', 'plateau', 'spike', 'step'])
            n = gen.log_int(rng, 2, 64)
            a = {'dyadic': gen.dyadic_record, 'int': gen.int_record, 'plateau': gen.plateau_record, 'spike': gen.spike_record,
                 'step': gen.step_record}[kind](rng, n)
            dt = gen.dyadic_dt(rng)
        else:
            n = gen.log_int(rng, 2, 300 if ctx.tier == 'quick' else 3000)
            kind, a = gen.any_record(rng, n)
            dt = gen.any_dt(rng)
        cases.append((kind, a, dt))

    for kind, a, dt in cases:
        exact = (kind in gen.DYADIC_KINDS or kind == 'corpus') and float(dt) in (2.0, 1.0, 0.5, 0.25, 0.125, 0.0625) and len(a) <= 64
        ctx.hist('kind=' + kind)
        ctx.hist('budget=' + ('E' if exact else 'R'))
        ctx.count_case((a.tobytes(), dt), gen.nontrivial_record(a),
                       sample={'fn': 'cumulative intensity series', 'n': len(a), 'dt': dt, 'kind': kind, 'head': a[:6].tolist()})
        asig = ctx.aged(eqsig.AccSignal, a, dt)
        if kind in ('int', 'plateau', 'spike', 'step') and rng.random() < 0.5:
            asig = eqsig.AccSignal(a.astype(np.int64), dt)      # integer-dtype record: the measures are those of the same float record
            ctx.hist('record dtype=int64')
        snap = a.copy()
        fa = [fr(x) for x in a]
        fdt = fr(dt)
        out = {}
        # documented alias: calc_cumulative_abs_displacement IS calc_integral_of_abs_velocity
        r_al, r_mn = call_impl(im.calc_cumulative_abs_displacement, asig), call_impl(im.calc_integral_of_abs_velocity, asig)
        ctx.oracle('C09 alias calc_cumulative_abs_displacement == calc_integral_of_abs_velocity (==)',
                   r_al[0] == r_mn[0] and (r_al[0] != 'ok' or np.array_equal(r_al[1], r_mn[1])), {'a': a, 'dt': dt},
                   detail=None if r_al[0] != 'ok' or r_mn[0] != 'ok' else {'alias_last': float(np.asarray(r_al[1])[-1]), 'main_last': float(np.asarray(r_mn[1])[-1])})
        for fname, h in SERIES:
            res = call_impl(getattr(im, fname), asig)
            out[fname] = res
            req = f"{h}|{w_rat(dt)}|{w_rats(a)}"

            def compare(outs, val, exact=exact, fname=fname):
                m = p_rats(outs[0])
                if exact:
                    return cmp_exact(list(val), m)
                msg, g = cmp_budget(list(val), m, Fraction(1, 10**9))
                ctx.gap(fname, g)
                return msg
            ctx.corr(fname, req, res, compare, inputs={'a': a, 'dt': dt})
        res = call_impl(im.calc_arias_intensity, asig)
        out['calc_arias_intensity'] = res

        def cmp_arias(outs, val, exact=exact):
            m = [x * fr(K_ARIAS) for x in p_rats(outs[0])]
            msg, g = cmp_budget(list(val), m, Fraction(1, 10**9) if not exact else Fraction(4, 10**16))
            ctx.gap('calc_arias_intensity', g)
            return msg
        ctx.corr('calc_arias_intensity', f"arias_core|{w_rat(dt)}|{w_rats(a)}", res, cmp_arias, inputs={'a': a, 'dt': dt})
        ctx.oracle('input array unchanged', np.array_equal(a, snap), inputs={'a': snap, 'dt': dt})

        # ---- the property's clauses on the impl outputs
        inputs = {'a': a, 'dt': dt}
        n = len(a)
        tolrel = Fraction(0) if exact else Fraction(1, 10**9)
        v = [fr(x) for x in asig.velocity]
        defs = {
            'calc_cav': ftrapz([abs(x) for x in fa], fdt),
            'calc_isv': ftrapz([x * x for x in v], fdt),
            'calc_integral_of_abs_acceleration': sum(abs(x) for x in fa) * fdt,
            'calc_integral_of_abs_velocity': sum(abs(x) for x in v) * fdt,
            'calc_unit_kinetic_energy': sum(abs(y - x) for x, y in zip([Fraction(0)] + [Fraction(1, 2) * t * abs(t) for t in v],
                                                                      [Fraction(1, 2) * t * abs(t) for t in v])),
            'calc_arias_intensity': fr(K_ARIAS) * ftrapz([x * x for x in fa], fdt),
        }
        for fname, res in out.items():
            if res[0] != 'ok':
                ctx.oracle(f'{fname} returns a series', False, inputs, detail=res)
                continue
            s = np.asarray(res[1])
            ctx.oracle(f'{fname}: length == len(record)', len(s) == n, inputs)
            ctx.oracle(f'{fname}: non-decreasing', bool(np.all(np.diff(s) >= 0)), inputs)
            want = defs[fname]
            tol = (Fraction(1, 10**15) if fname == 'calc_arias_intensity' and exact else tolrel) * max(abs(want), Fraction(1, 10**300))
            ctx.oracle(f'{fname}: final value == defining integral', abs(fr(s[-1]) - want) <= tol, inputs,
                       detail={'got': float(s[-1]), 'want': float(want)})
        # sign invariance (exact: the measures only see a^2, |a|, |v|)
        neg = eqsig.AccSignal(-a, dt)
        for fname in out:
            if out[fname][0] == 'ok':
                s2 = getattr(im, fname)(neg)
                ctx.oracle(f'{fname}: invariant under sign reversal', np.array_equal(np.asarray(out[fname][1]), s2), inputs)
        # scaling
        alpha = rng.choice([-3.0, -1.0, 0.5, 2.0, 1e6])
        sc = eqsig.AccSignal(alpha * a, dt)
        for fname in out:
            if out[fname][0] != 'ok':
                continue
            p = 2 if fname in ('calc_arias_intensity', 'calc_isv', 'calc_unit_kinetic_energy') else 1
            s2 = np.asarray(getattr(im, fname)(sc))
            s1 = np.asarray(out[fname][1]) * abs(alpha) ** p
            ok = bool(np.allclose(s2, s1, rtol=1e-9, atol=1e-300))
            if alpha in (-1.0, 0.5, 2.0) and exact:
                ok = ok and np.array_equal(s2, s1)
            ctx.oracle(f'{fname}: scales as |alpha|^{p}', ok, {'a': a, 'dt': dt, 'alpha': alpha})
        # zero padding of a record that ends at zero (acceleration-based measures)
        m = rng.choice([0, 1, 2, 7, 50, 200])
        a0 = a.copy()
        a0[-1] = 0.0
        base = eqsig.AccSignal(a0, dt)
        pad = eqsig.AccSignal(np.concatenate([a0, np.zeros(m)]), dt)
        for fname in ('calc_arias_intensity', 'calc_cav', 'calc_integral_of_abs_acceleration'):
            s1 = np.asarray(getattr(im, fname)(base))
            s2 = np.asarray(getattr(im, fname)(pad))
            ok = len(s2) == n + m and np.array_equal(s2[:n], s1) and bool(np.all(s2[n:] == s1[-1]))
            ctx.oracle(f'{fname}: appending zeros to a record ending at zero changes nothing', ok, {'a': a0, 'dt': dt, 'm': m})
    ctx.flush()
    cav_dp(ctx)
    ctx.flush()


def cav_dp(ctx):
    import eqsig
    from eqsig import im
    rng = ctx.rng
    n_cases = 40 if ctx.tier == 'quick' else 400
    dts = [(1.0, 1), (0.5, 2), (0.25, 4), (0.125, 8), (0.2, 5), (0.1, 10), (0.05, 20), (0.02, 50), (0.01, 100), (0.005, 200)]
    n_tie = 20 if ctx.tier == 'quick' else 100           # round 9 (hx_r9a): exact ties with the gate, see _cavdp_tie_record
    for i in range(n_cases + n_tie):
        dt, pps = dts[i % len(dts)]
        dur = rng.choice([2, 3, 4.5, 7, 12, 25, 40]) if dt < 0.1 or i % 2 else rng.choice([2, 3, 5])
        n = int(round(dur / dt)) + 1
        # the gate is 0.025 g = 0.24525 m/s2 (+ source hints: amplitudes at / around every new float constant, read in m/s2 and in g)
        amp = rng.choice([0.1, 0.2, 0.245, 0.25, 0.3, 1.0] + gen.hint_values(ctx, 1e-3, 20.0, cap=14, maps=(lambda c: c, lambda c: 9.81 * c)))
        shape = rng.choice(['noise', 'burst', 'quiet', 'boundary'])
        if i >= n_cases:
            shape, a = _cavdp_tie_record(ctx, rng, n, pps, i - n_cases)
        elif shape == 'noise':
            a = np.array([rng.gauss(0, 1) for _ in range(n)]) * amp
        elif shape == 'burst':
            a = np.array([rng.gauss(0, 1) for _ in range(n)]) * 0.02
            k = rng.randrange(n)
            a[k:k + pps] += amp * 3
        elif shape == 'quiet':
            a = np.array([rng.uniform(-1, 1) for _ in range(n)]) * 0.2
        else:   # the only large sample sits on a window boundary
            a = np.array([rng.uniform(-1, 1) for _ in range(n)]) * 0.05
            a[pps * rng.randrange(1, max(2, int(dur)))] = 0.5
        quantised = dt in (1.0, 0.5, 0.25, 0.125) and i < n_cases    # tie records keep their floats (the rational model has no float ties)
        if quantised:
            a = np.round(a * 64) / 64
        ctx.hist(f'cavdp/dt={dt}')
        ctx.hist('cavdp/' + shape)
        ctx.count_case(('cavdp', a.tobytes(), dt), True, sample={'fn': 'calc_cav_dp', 'n': n, 'dt': dt, 'shape': shape} if i < 2 else None)
        asig = ctx.aged(eqsig.AccSignal, a, dt)
        if i % 5 == 4:      # round 9 (hx_r9a): every fifth object is one of two shallow-copy siblings (the other one much quieter / louder, read last)
            asig = gen.aged_signal(rng, eqsig.AccSignal, a, dt, _pick=lambda kinds: 'copy-fork')[1]
            ctx.hist('object-history/copy-fork (directed)')
            ctx.last_object_history = 'copy-fork'
        res = call_impl(im.calc_cav_dp, asig)
        inputs = {'a': a, 'dt': dt}
        if quantised:
            def compare(outs, val):
                msg, g = cmp_budget(list(val), p_rats(outs[0]), Fraction(1, 10**11), abs_floor=Fraction(1, 10**18))
                ctx.gap('calc_cav_dp', g)
                return msg
            ctx.corr('calc_cav_dp', f"cav_dp|{pps}|{w_rats(a)}", res, compare, inputs=inputs)
        if res[0] != 'ok':
            ctx.oracle('calc_cav_dp returns a series on its domain', False, inputs, detail=res)
            continue
        s = np.asarray(res[1])
        total_seconds = int(asig.time[-1])
        g = 9.81
        cav_final = float(im.calc_cav(asig)[-1])
        ctx.oracle('CAVdp: length == len(record)', len(s) == n, inputs)
        ctx.oracle('CAVdp: non-decreasing', bool(np.all(np.diff(s) >= 0)), inputs)
        ctx.oracle('CAVdp: 0 <= CAVdp <= CAV/9.81', bool(s.min() >= 0 and s[-1] <= cav_final / g * (1 + 1e-9) + 1e-300), inputs,
                   detail={'final': float(s[-1]), 'cav_over_g': cav_final / g})
        # windows: second k covers samples k*pps .. (k+1)*pps
        absg = np.abs(a) / g
        per_sec = [float(s[k * pps]) for k in range(total_seconds)]   # np.interp is exact at its nodes
        ok_inc = True
        bad = None
        run_lo = run_hi = 0.0
        any_qual = False
        for k in range(total_seconds):
            w = absg[k * pps:(k + 1) * pps + 1]
            full = float(np.sum((w[1:] + w[:-1]) / 2) * dt)
            lastp = float((w[-1] + w[-2]) / 2 * dt) if len(w) >= 2 else 0.0
            qual = (w.max() - 0.025) >= 0
            any_qual = any_qual or qual
            inc = per_sec[k] - (per_sec[k - 1] if k else 0.0)
            lo = (full - lastp) if qual else 0.0
            hi = full if qual else 0.0
            tol = 1e-9 * max(full, 1e-30)
            if not (lo - tol <= inc <= hi + tol):
                ok_inc = False
                bad = bad or {'second': k, 'increment': inc, 'window_integral': full, 'last_panel': lastp, 'qualifies': bool(qual)}
        ctx.oracle('CAVdp: per-second increments == windowed |a| integrals over qualifying windows (to within one panel per window)',
                   ok_inc, inputs, detail=bad)
        if not any_qual:
            ctx.oracle('CAVdp: zero when no one-second window reaches 0.025 g', bool(np.all(s == 0)), inputs)
        t1s = np.arange(total_seconds)
        ctx.oracle('CAVdp: series is the interpolation of the per-second totals',
                   bool(np.allclose(s, np.interp(asig.time, t1s, per_sec), rtol=1e-12, atol=0)), inputs)


def _cavdp_tie_record(ctx, rng, n, pps, j):
    """round 9 (hx_r9a): records whose only samples REACHING the gate are exact floating-point ties with it.  The gate is `|a|/9.81 >= 0.025`
    (+ every new float constant c of the changed source read as a gate in g): sample values v with fl(v/9.81) == c exactly, and the float
    neighbours on both sides (one qualifies, the other does not), placed
      mark       on ONE whole-second mark (the closing sample of a window and the opening sample of the next one; the last mark of the record
                 closes a window without opening one), nothing else in either window reaching the gate;
      mark-1/+1  one sample before / after a mark (belongs to one window only);
      inside     somewhere inside a window;
      marks      on two marks / a mark and an inside sample of another window (exact ties elsewhere in the record).
    The background is well below the gate but carries a window integral far above the one-panel tolerance of the oracle."""
    g = 9.81
    gates = [0.025] + [c for c in gen.hint_values(ctx, 1e-3, 1.0, cap=6) if c > 0][:3]
    c = gates[j % len(gates)] if j % 3 == 2 else gates[0]
    v0 = c * g
    cands = [v0, float(np.nextafter(v0, np.inf)), float(np.nextafter(v0, 0.0)), float(np.nextafter(np.nextafter(v0, 0.0), 0.0)),
             float(np.nextafter(np.nextafter(v0, np.inf), np.inf))]
    ties = [v for v in cands if v / g == c] or [v0]
    below = [v for v in cands if v / g < c]
    marks = list(range(1, (n - 1) // pps + 1))
    place = ['mark', 'mark', 'mark-last', 'mark-1', 'mark+1', 'inside', 'marks', 'mark+inside', 'below-on-mark'][j % 9]
    bg = c * g * rng.choice([0.2, 0.4, 0.8])
    a = np.array([rng.uniform(-1, 1) for _ in range(n)]) * bg
    if pps >= 2:
        a[::2] = np.abs(a[::2]) * 0.5 + 0.5 * bg        # a solid |a| integral in every window
    v = rng.choice(ties) * rng.choice([1.0, -1.0])
    m = marks[-1] if place == 'mark-last' else rng.choice(marks)
    if place in ('mark', 'mark-last', 'marks', 'mark+inside'):
        a[m * pps] = v
    if place == 'marks':
        a[rng.choice(marks) * pps] = -v
    if place == 'mark-1':
        a[m * pps - 1] = v
    if place == 'mark+1':
        a[min(m * pps + 1, n - 1)] = v
    if place in ('inside', 'mark+inside'):
        a[rng.randrange(n)] = rng.choice(ties)
    if place == 'below-on-mark' and below:
        a[m * pps] = rng.choice(below) * rng.choice([1.0, -1.0])
    return 'tie/' + place, a


# ---- extras2 (harness extension hx_a): large instances, extreme magnitudes and time steps, wrappers, containers / dtypes, histories ------
#
# Not demanded (see NOTES.md):
#   * records of a NARROW integer dtype whose squares / neighbour sums overflow the dtype: on the pinned tree calc_arias_intensity wraps for
#     every integer dtype once a**2 leaves the dtype's range (int8 .. int64, uint8, uint16), and calc_cav / calc_isv / calc_unit_kinetic_energy
#     wrap for 8-bit records (a[i] + a[i+1] is formed in the dtype) -- wrong VALUES, reported as suspected defects, no oracle; the
#     combinations that are right on the pinned tree are demanded below;
#   * float32 records are computed in single precision (Arias, CAVdp differ from the float64 result by ~1e-7): compared at 1e-5;
#   * calc_sir raises TypeError on every input (unpacks the scalar returned by the deprecated calc_significant_duration);
#   * standardised CAV is not homogeneous (absolute gate 0.025 g): no scaling oracle.

X2_FNS = ['calc_arias_intensity', 'calc_cav', 'calc_isv', 'calc_integral_of_abs_velocity', 'calc_integral_of_abs_acceleration', 'calc_unit_kinetic_energy']
X2_DEG_A = {'calc_arias_intensity': 2, 'calc_cav': 1, 'calc_isv': 2, 'calc_integral_of_abs_velocity': 1, 'calc_integral_of_abs_acceleration': 1,
            'calc_unit_kinetic_energy': 2}      # degree of homogeneity in the record
X2_DEG_DT = {'calc_arias_intensity': 1, 'calc_cav': 1, 'calc_isv': 3, 'calc_integral_of_abs_velocity': 2, 'calc_integral_of_abs_acceleration': 1,
             'calc_unit_kinetic_energy': 2}     # ... in the time step (v ~ a dt)
X2_ACC_BASED = ('calc_arias_intensity', 'calc_cav', 'calc_integral_of_abs_acceleration')
# narrow-integer records: (dtype label prefix) -> measures whose value is right on the pinned tree (see the note above)
X2_NARROW_OK = {'int32x1e5': X2_FNS[1:], 'int16x200': X2_FNS[1:], 'int64x3e9': X2_FNS[1:], 'uint16x200': X2_FNS[1:],
                'int8x40': ['calc_integral_of_abs_acceleration'], 'uint8x40': ['calc_integral_of_abs_acceleration']}


def _x2_all(im, asig, names=X2_FNS):
    return {f: call_impl(getattr(im, f), asig) for f in names}


def _x2_envelope(rng, n, amp=1.0):
    return amp * gen.noise_record(rng, n) * np.exp(-((np.arange(n) - n / 3) / (n / 5)) ** 2)


def _x2_aged_cheap(ctx, cls, values, dt):
    rng = ctx.rng
    kind = rng.choice(['fresh', 'reset-other-length/read-before', 'reset-other-length'])
    ctx.hist('object-history(long)/' + kind)
    if kind == 'fresh':
        return cls(np.array(values, dtype=float), dt)
    s = cls(np.array([rng.uniform(-1, 1) for _ in range(rng.randint(3, 9))]), dt)
    if kind.endswith('read-before'):
        for name in ('npts', 'time', 'velocity', 'displacement', 'pga', 'pgv'):
            getattr(s, name)
    s.reset_values(np.array(values, dtype=float))
    return s


def _x2_cavdp_clauses(ctx, a, dt, pps, s, tag, inputs):
    """the standardised-CAV clauses evaluated with NumPy, one window per second (same reading as cav_dp() above)"""
    n = len(a)
    g = 9.81
    s = np.asarray(s)
    total_seconds = int((n - 1) * dt + 1e-9)
    absg = np.abs(a) / g
    cav_final = float(np.sum((np.abs(a)[1:] + np.abs(a)[:-1]) / 2) * dt)
    ctx.oracle(f'CAVdp{tag}: length == len(record)', len(s) == n, inputs)
    if len(s) != n:
        return
    ctx.oracle(f'CAVdp{tag}: non-decreasing', bool(np.all(np.diff(s) >= 0)), inputs)
    ctx.oracle(f'CAVdp{tag}: 0 <= CAVdp <= CAV/9.81', bool(s.min() >= 0 and s[-1] <= cav_final / g * (1 + 1e-9) + 1e-300), inputs,
               detail={'final': float(s[-1]), 'cav_over_g': cav_final / g})
    per_sec = [float(s[k * pps]) for k in range(total_seconds)]
    ok_inc, bad, any_qual = True, None, False
    for k in range(total_seconds):
        w = absg[k * pps:(k + 1) * pps + 1]
        full = float(np.sum((w[1:] + w[:-1]) / 2) * dt)
        lastp = float((w[-1] + w[-2]) / 2 * dt) if len(w) >= 2 else 0.0
        qual = (w.max() - 0.025) >= 0
        any_qual = any_qual or qual
        inc = per_sec[k] - (per_sec[k - 1] if k else 0.0)
        lo, hi = ((full - lastp), full) if qual else (0.0, 0.0)
        tol = 1e-9 * max(full, 1e-30)
        if not (lo - tol <= inc <= hi + tol):
            ok_inc = False
            bad = bad or {'second': k, 'increment': inc, 'window_integral': full, 'last_panel': lastp, 'qualifies': bool(qual)}
    ctx.oracle(f'CAVdp{tag}: per-second increments == windowed |a| integrals over qualifying windows (to within one panel per window)', ok_inc, inputs, detail=bad)
    if not any_qual:
        ctx.oracle(f'CAVdp{tag}: zero when no one-second window reaches 0.025 g', bool(np.all(s == 0)), inputs)
    ctx.oracle(f'CAVdp{tag}: series is the interpolation of the per-second totals',
               bool(np.allclose(s, np.interp(dt * np.arange(n), np.arange(total_seconds), per_sec), rtol=1e-12, atol=0)), inputs)


def x2_large(ctx):
    """LARGE instances (6 000 - 60 000 samples): the defining integrals with NumPy in O(n) (whole series, not only the final value), the
    prefix decomposition (a cumulative measure of the first m samples == the first m entries of the measure of the whole record, bit for
    bit), zero padding by thousands of samples; standardised CAV over hundreds of one-second windows"""
    import eqsig
    from eqsig import im
    rng = ctx.rng
    quick = ctx.tier == 'quick'
    # source hints: record lengths around every new integer constant, time steps at / around every new float constant (and its reciprocal) of eqsig/im.py
    hv_dt = gen.hint_values(ctx, 1e-4, 10.0, cap=10, maps=(lambda c: c, lambda c: 1 / c))
    for n in ([6000, 25000, 60000] if quick else [6000, 25000, 60000, 5000, 5001, 8192, 16384, 40000, 100000]) + gen.hint_sizes(ctx, lo=65, hi=1000000, cap=8):
        dt = rng.choice([0.01, 0.005, 0.02, 0.0078125] + hv_dt)
        a = _x2_envelope(rng, n, rng.choice([1.0, 1e-3, 50.0]))
        a[-1] = 0.0
        inputs = {'a': f'gaussian noise x gaussian envelope, n={n}, last sample 0 (seed-derived)', 'dt': dt, 'head': a[:4]}
        ctx.hist(f'large/n={n}')
        ctx.count_case(('x2-large', n, dt, a[:16].tobytes()), True, sample={'fn': 'cumulative measures (large instance)', 'n': n, 'dt': dt})
        asig = _x2_aged_cheap(ctx, eqsig.AccSignal, a, dt)
        snap = a.copy()
        out = _x2_all(im, asig)
        v = np.asarray(asig.velocity, dtype=float)
        ke = 0.5 * v * np.abs(v)
        spec = {
            'calc_arias_intensity': K_ARIAS * np.concatenate([[0.0], np.cumsum((a[1:] ** 2 + a[:-1] ** 2) / 2.0)]) * dt,
            'calc_cav': np.concatenate([[0.0], np.cumsum((np.abs(a[1:]) + np.abs(a[:-1])) / 2.0)]) * dt,
            'calc_isv': np.concatenate([[0.0], np.cumsum((v[1:] ** 2 + v[:-1] ** 2) / 2.0)]) * dt,
            'calc_integral_of_abs_velocity': np.cumsum(np.abs(v)) * dt,
            'calc_integral_of_abs_acceleration': np.cumsum(np.abs(a)) * dt,
            'calc_unit_kinetic_energy': np.cumsum(np.abs(np.diff(np.concatenate([[0.0], ke])))),
        }
        m = rng.choice([n // 2, n - 1, 4097, 5000] if n >= 5000 else [n // 2, n - 1, n - 2, n // 3])
        pre = _x2_all(im, eqsig.AccSignal(a[:m], dt))
        npad = rng.choice([1000, 5000, 4096])
        pad = _x2_all(im, eqsig.AccSignal(np.concatenate([a, np.zeros(npad)]), dt), X2_ACC_BASED)
        for f in X2_FNS:
            if out[f][0] != 'ok':
                ctx.oracle(f'{f} returns a series', False, inputs, detail=out[f])
                continue
            s = np.asarray(out[f][1])
            ctx.oracle(f'{f}: length == len(record) [large instance]', s.shape == (n,), inputs)
            if s.shape != (n,):
                continue
            ctx.oracle(f'{f}: non-decreasing [large instance]', bool(np.all(np.diff(s) >= 0)), inputs, detail={'first_decrease': int(np.argmax(np.diff(s) < 0))})
            want = spec[f]
            fin = math.fsum((want[1:] - want[:-1]).tolist()) + float(want[0])
            ctx.oracle(f'{f}: final value == defining integral [large instance]', abs(float(s[-1]) - fin) <= 1e-10 * max(abs(fin), 1e-300), inputs,
                       detail={'got': float(s[-1]), 'want': fin})
            dev = float(np.max(np.abs(s - want)))
            ctx.oracle(f'{f}: every entry of the series == the defining integral up to that sample [large instance]', dev <= 1e-10 * max(abs(fin), 1e-300), inputs,
                       detail={'max_dev': dev, 'final': fin, 'at': int(np.argmax(np.abs(s - want)))})
            ok = pre[f][0] == 'ok' and np.asarray(pre[f][1]).shape == (m,) and bool(np.array_equal(np.asarray(pre[f][1]), s[:m]))
            ctx.oracle(f'{f}: the measure of the first m samples == the first m entries of the measure of the whole record (==) [large instance]', ok, {**inputs, 'm': m},
                       detail=None if ok or pre[f][0] != 'ok' else {'first_diff': int(np.argmax(np.asarray(pre[f][1]) != s[:m])) if np.asarray(pre[f][1]).shape == (m,) else 'shape'})
            if f in X2_ACC_BASED:
                s2 = np.asarray(pad[f][1]) if pad[f][0] == 'ok' else np.zeros(0)
                ctx.oracle(f'{f}: appending zeros to a record ending at zero changes nothing', s2.shape == (n + npad,) and bool(np.array_equal(s2[:n], s) and np.all(s2[n:] == s[-1])),
                           {**inputs, 'm': npad})
        ctx.oracle('input array unchanged', bool(np.array_equal(a, snap) and np.array_equal(np.asarray(asig.values), snap)), inputs)
    # standardised CAV over many one-second windows
    for dt, pps, secs in ([(0.01, 100, 130), (0.005, 200, 300)] if quick else [(0.01, 100, 130), (0.005, 200, 300), (0.02, 50, 1200), (0.0125, 80, 77), (0.25, 4, 6000)]) + \
            [(0.01, 100, c) for c in gen.hint_sizes(ctx, lo=3, hi=4000, cap=4)] + [(0.25, 4, c // 4 + 1) for c in gen.hint_sizes(ctx, lo=4001, hi=400000, cap=3)]:    # source hints: windows / samples
        n = secs * pps + 1 + rng.randrange(pps)
        a = _x2_envelope(rng, n, rng.choice([0.3, 1.0]))
        k0 = rng.randrange(1, secs - 1) * pps
        a[k0] = 0.6                               # a large sample exactly on a window boundary
        a[int(0.8 * n):] *= 0.01                  # quiet tail: windows below the gate
        inputs = {'a': f'gaussian noise x gaussian envelope, n={n}, a[{k0}] = 0.6, last fifth x 0.01 (seed-derived)', 'dt': dt}
        ctx.hist('large/cavdp')
        ctx.count_case(('x2-large-cavdp', n, dt, a[:16].tobytes()), True)
        asig = _x2_aged_cheap(ctx, eqsig.AccSignal, a, dt)
        res = call_impl(im.calc_cav_dp, asig)
        if res[0] != 'ok':
            ctx.oracle('calc_cav_dp returns a series on its domain', False, inputs, detail=res)
            continue
        _x2_cavdp_clauses(ctx, a, dt, pps, res[1], ' [large instance]', inputs)


def x2_extreme(ctx):
    """exact covariance under powers of two: |alpha|-type measures with 2^+-600 / 2^+-350, energy-type measures with 2^+-400 / 2^+-200; and
    under a rescaling of the TIME STEP (the property quantifies over all dt): measure(a, 2^j dt) == 2^(j * degree) measure(a, dt)"""
    import eqsig
    from eqsig import im
    rng = ctx.rng
    for it in range(5 if ctx.tier == 'quick' else 50):
        n = gen.log_int(rng, 3, 150)
        dt = gen.any_dt(rng)
        a = gen.noise_record(rng, n) if it % 2 else gen.dyadic_record(rng, n)
        if not np.any(a):
            a[n // 2] = 1.0
        base = _x2_all(im, eqsig.AccSignal(a, dt))
        ctx.count_case(('x2-extreme', a.tobytes(), dt), gen.nontrivial_record(a))
        for deg, ks in ((1, gen.EXTREME_POW2), (2, (-400, 400, -200, 200))):
            for k in ks:
                sc = 2.0 ** k
                arr = a * sc * rng.choice([1.0, -1.0])
                o = ctx.aged(eqsig.AccSignal, arr, dt)
                ctx.hist(f'extreme-scale(degree {deg})/2^{k}')
                for f in X2_FNS:
                    if X2_DEG_A[f] != deg or base[f][0] != 'ok':
                        continue
                    r = call_impl(getattr(im, f), o)
                    ok = r[0] == 'ok' and gen.scaled_exactly(np.asarray(r[1], dtype=float), np.asarray(base[f][1], dtype=float), sc ** deg)
                    ctx.oracle(f'{f}: scales as |alpha|^{deg} EXACTLY for alpha = +-2^k, also for records around ' + ('1e-180 / 1e+180' if deg == 1 else '1e-120 / 1e+120'), ok,
                               {'a': a, 'dt': dt, 'alpha': ('-' if arr[np.nonzero(a)[0][0]] * a[np.nonzero(a)[0][0]] < 0 else '') + f'2**{k}'},
                               detail=None if ok else {'got_last': float(np.asarray(r[1])[-1]) if r[0] == 'ok' else r, 'want_last': float(np.asarray(base[f][1])[-1]) * sc ** deg})
        for j in (-250, 250, -60, 60):
            o = ctx.aged(eqsig.AccSignal, a, dt * 2.0 ** j)
            ctx.hist(f'extreme-dt/2^{j}')
            for f in X2_FNS:
                if base[f][0] != 'ok':
                    continue
                r = call_impl(getattr(im, f), o)
                ok = r[0] == 'ok' and gen.scaled_exactly(np.asarray(r[1], dtype=float), np.asarray(base[f][1], dtype=float), 2.0 ** (j * X2_DEG_DT[f]))
                ctx.oracle(f'{f}: measure(a, 2^j dt) == 2^({X2_DEG_DT[f]} j) measure(a, dt) exactly, also for extreme time steps', ok, {'a': a, 'dt': dt, 'dt_scale': f'2**{j}'},
                           detail=None if ok else {'got_last': float(np.asarray(r[1])[-1]) if r[0] == 'ok' else r})


def x2_wrappers(ctx):
    """(a) im.cumulative_response_spectra(asig, 'arias_intensity') is the Arias series of each oscillator's total acceleration: row j ==
    calc_arias_intensity of a signal holding that response (==), the row of a leading T = 0 == calc_arias_intensity(asig) (the response is
    the sign-flipped record), every row has the record's length and is non-decreasing; defaults periods = response_times, xi = 0.05.
    (b) the deprecated AccSignal.generate_cumulative_stats stores calc_arias_intensity / calc_cav and their last entries."""
    import eqsig
    from eqsig import im, sdof
    rng = ctx.rng
    for it in range(12 if ctx.tier == 'quick' else 120):
        n = gen.log_int(rng, 2, 200)
        dt = gen.any_dt(rng)
        kind, a = gen.any_record(rng, n, dt)
        periods = [dt * rng.choice([3.0, 8.0, 20.0, 75.0, 300.0]) for _ in range(rng.randint(1, 3))]
        lead0 = rng.random() < 0.5
        if lead0:
            periods = [0.0] + periods
        xi = rng.choice([0.05, 0.0, 0.2])
        inputs = {'a': a, 'dt': dt, 'periods': periods, 'xi': xi}
        ctx.hist('wrappers/cumulative_response_spectra')
        ctx.count_case(('x2-crs', a.tobytes(), dt, tuple(periods), xi), gen.nontrivial_record(a))
        asig = ctx.aged(eqsig.AccSignal, a, dt, response_times=np.array(periods))
        pc = rng.choice(['list', 'tuple', 'array'])
        res = call_impl(im.cumulative_response_spectra, asig, 'arias_intensity', periods={'list': list, 'tuple': tuple, 'array': np.array}[pc](periods), xi=xi)
        ra = call_impl(sdof.response_series, a, dt, np.array(periods), xi)
        if res[0] != 'ok' or ra[0] != 'ok':
            ctx.oracle('cumulative_response_spectra returns on the domain of the response series', res[0] == ra[0], inputs, detail=(res[0], ra[0]))
            continue
        rs = np.asarray(res[1])
        acc_rows = ra[1][2]
        ok_shape = rs.shape == (len(periods), n)
        ctx.oracle('cumulative_response_spectra: one series per period, each of the record\'s length', ok_shape, inputs, detail={'shape': rs.shape})
        if not ok_shape:
            continue
        if np.all(np.isfinite(acc_rows)):
            ctx.oracle('cumulative_response_spectra: every row is non-decreasing', bool(np.all(np.diff(rs, axis=1) >= 0)), inputs)
            rows_ok = all(np.array_equal(rs[j], im.calc_arias_intensity(eqsig.AccSignal(acc_rows[j], dt))) for j in range(len(periods)))
            ctx.oracle('cumulative_response_spectra row j == calc_arias_intensity of the total acceleration response of period j (==)', rows_ok, inputs)
            if lead0:
                ctx.oracle('cumulative_response_spectra, leading T = 0: the row is the Arias intensity series of the record itself (==)',
                           bool(np.array_equal(rs[0], im.calc_arias_intensity(eqsig.AccSignal(a, dt)))), inputs)
        d0 = call_impl(im.cumulative_response_spectra, asig, 'arias_intensity')
        d1 = call_impl(im.cumulative_response_spectra, asig, 'arias_intensity', periods=np.array(periods), xi=0.05)
        ctx.oracle('cumulative_response_spectra: the defaults are periods = response_times of the object and xi = 0.05 (==)',
                   d0[0] == d1[0] and (d0[0] != 'ok' or np.array_equal(np.asarray(d0[1]), np.asarray(d1[1]))), inputs, detail=(d0[0], d1[0]))
        # (b) deprecated statistics method
        o = ctx.aged(eqsig.AccSignal, a, dt)
        g = call_impl(lambda: (o.generate_cumulative_stats(), (o.arias_intensity_series, o.arias_intensity, o.cav_series, o.cav))[1])
        w_ar, w_cav = call_impl(im.calc_arias_intensity, o), call_impl(im.calc_cav, o)
        ok = g[0] == w_ar[0] == w_cav[0] and (g[0] != 'ok' or (np.array_equal(g[1][0], w_ar[1]) and float(g[1][1]) == float(w_ar[1][-1]) and
                                                                np.array_equal(g[1][2], w_cav[1]) and float(g[1][3]) == float(w_cav[1][-1])))
        ctx.hist('wrappers/generate_cumulative_stats')
        ctx.oracle('deprecated AccSignal.generate_cumulative_stats stores calc_arias_intensity / calc_cav and their final values (==)', ok, {'a': a, 'dt': dt}, detail=g[0])


def x2_containers(ctx):
    """the measures of a record given as list / tuple / int64 / int32 / strided ndarray (exactly) or float32 (1e-5: single precision) or a
    narrow integer dtype (where the pinned tree is right, see the note above) are those of the same numbers in float64"""
    import eqsig
    from eqsig import im
    rng = ctx.rng
    names = X2_FNS + ['calc_cav_dp']
    for it in range(10 if ctx.tier == 'quick' else 100):
        whole = it % 2 == 0
        if it % 5 == 4:
            dt, pps = rng.choice([(0.25, 4), (0.125, 8), (0.5, 2)])
            n = pps * rng.randint(2, 6) + 1
        else:
            dt = gen.dyadic_dt(rng)
            n = gen.log_int(rng, 2, 80)
        a = gen.int_record(rng, n) if whole else gen.dyadic_record(rng, n)
        base = _x2_all(im, eqsig.AccSignal(a, dt), names)
        ctx.count_case(('x2-cont', a.tobytes(), dt), gen.nontrivial_record(a))
        variants = [(lab, c, a, names) for lab, c in gen.container_variants(a)]
        if whole:
            variants += [(lab, c, fl, X2_NARROW_OK[lab]) for lab, c, fl in gen.narrow_int_variants(a)]
        for lab, c, fl, fns in variants:
            ctx.hist('record container=' + lab)
            oc = call_impl(eqsig.AccSignal, c, dt)
            if oc[0] != 'ok':
                ctx.oracle('an AccSignal can be built from a list / tuple / integer / float32 / strided record', False, {'a': fl, 'dt': dt, 'container': lab}, detail=oc)
                continue
            ref = base if fl is a else _x2_all(im, eqsig.AccSignal(fl, dt), fns)
            for f in fns:
                r = call_impl(getattr(im, f), oc[1])
                if ref[f][0] != 'ok':
                    ok = r[0] == ref[f][0] and r[1] == ref[f][1]
                elif r[0] != 'ok':
                    ok = False
                elif lab == 'float32':
                    w = np.asarray(ref[f][1], dtype=float)
                    ok = np.asarray(r[1]).shape == w.shape and bool(np.all(np.abs(np.asarray(r[1], dtype=float) - w) <= 1e-5 * max(float(np.max(np.abs(w))), 1e-300)))
                else:
                    ok = bool(np.array_equal(np.asarray(r[1], dtype=float), np.asarray(ref[f][1], dtype=float)))
                ctx.oracle(f'{f}: a record given as list / tuple / integer / strided ndarray (==) or float32 (1e-5) gives the measure of the same numbers in float64', ok,
                           {'a': fl, 'dt': dt, 'container': lab}, detail=None if ok else {'got_last': float(np.asarray(r[1])[-1]) if r[0] == 'ok' else r,
                                                                                         'want_last': float(np.asarray(ref[f][1])[-1]) if ref[f][0] == 'ok' else ref[f]})


def x2_histories(ctx):
    """read - mutate - read on ONE object: the measures are those of the CURRENT record whatever was read or cached before; series read
    earlier (measures, velocity) are not overwritten by later calls; a measure call leaves values / velocity / displacement unchanged"""
    import eqsig
    from eqsig import im
    rng = ctx.rng
    for it in range(25 if ctx.tier == 'quick' else 250):
        n = rng.randint(4, 90)
        if it % 4 == 3:
            dt, pps = rng.choice([(0.25, 4), (0.125, 8), (0.5, 2)])
            n = pps * rng.randint(2, 6) + 1
        else:
            dt = gen.dyadic_dt(rng) if it % 2 else gen.any_dt(rng)
        cur = gen.dyadic_record(rng, n)
        asig = eqsig.AccSignal(cur.copy(), dt)
        names = X2_FNS + (['calc_cav_dp'] if it % 4 == 3 else [])
        held, hist = [], []
        for step in range(rng.randint(2, 5)):
            op = rng.choice(['measures', 'one-measure', 'velocity', 'stats', 'scale(reset same length)', 'reset other length', 'add_constant', 'inplace-edit+reset_values', 'add_series'])
            if op == 'measures':
                pass
            elif op == 'one-measure':
                f = rng.choice(names)
                r = call_impl(getattr(im, f), asig)
                if r[0] == 'ok':
                    held.append((r[1], np.array(r[1], copy=True)))
            elif op == 'velocity':
                for x in (asig.velocity, asig.displacement):
                    held.append((x, np.array(x, copy=True)))
            elif op == 'stats':
                asig.generate_cumulative_stats()
            elif op == 'scale(reset same length)':
                cur = cur * rng.choice([2.0, -0.5, -1.0])
                asig.reset_values(cur.copy())
            elif op == 'reset other length':
                if 'calc_cav_dp' in names:
                    continue
                cur = gen.dyadic_record(rng, rng.randint(4, 90))
                asig.reset_values(cur.copy())
            elif op == 'add_constant':
                c = rng.choice([0.5, -1.0, 2.0])
                asig.add_constant(c)
                cur = cur + c
            elif op == 'add_series':
                d = gen.dyadic_record(rng, len(cur))
                asig.add_series(d)
                cur = cur + d
            else:
                v_ = asig.values
                v_ *= 0.5
                asig.reset_values(v_)
                cur = cur * 0.5
            hist.append(op)
            inputs = {'dt': dt, 'history': list(hist), 'current record': cur}
            vsnap = (np.array(asig.values, copy=True), np.array(asig.velocity, copy=True), np.array(asig.displacement, copy=True))
            got = _x2_all(im, asig, names)
            fresh = _x2_all(im, eqsig.AccSignal(cur.copy(), dt), names)
            ok = all(got[f][0] == fresh[f][0] and (got[f][0] != 'ok' or np.array_equal(np.asarray(got[f][1]), np.asarray(fresh[f][1]))) for f in names)
            ctx.hist('measure-history/' + op)
            ctx.oracle('C09 object-level access: after any history the measures of an object are those of a fresh object holding its CURRENT record (==)', ok, inputs,
                       detail=[f for f in names if not (got[f][0] == fresh[f][0] and (got[f][0] != 'ok' or np.array_equal(np.asarray(got[f][1]), np.asarray(fresh[f][1]))))],
                       facts={'history': list(hist)})
            ctx.oracle('C09 a measure call leaves the values, velocity and displacement of the object unchanged',
                       bool(np.array_equal(asig.values, vsnap[0]) and np.array_equal(asig.velocity, vsnap[1]) and np.array_equal(asig.displacement, vsnap[2])), inputs)
            ctx.oracle('C09 series read from an object earlier (measures, velocity, displacement) are not overwritten by later calls or record changes',
                       all(np.array_equal(x, cp) for x, cp in held), inputs, facts={'history': list(hist)})
            for f in names:
                if got[f][0] == 'ok':
                    held.append((got[f][1], np.array(got[f][1], copy=True)))
        ctx.count_case(('x2-hist', cur.tobytes(), tuple(hist)), True, sample={'fn': 'measure history', 'history': hist} if it < 1 else None)


def extras2(ctx):
    x2_large(ctx)
    x2_extreme(ctx)
    x2_wrappers(ctx)
    x2_containers(ctx)
    x2_histories(ctx)


_run_main2 = run


def run(ctx):
    _run_main2(ctx)
    extras2(ctx)
    ctx.flush()


# ---- open finding F09-1: arithmetic in the record's own integer dtype (see _narrow_findings.py) -------------------------------------------

import _narrow_findings as _NF  # noqa: E402


def _narrow_table():
    import eqsig
    from eqsig import im
    return {nm: (lambda x, dt, nm=nm: getattr(im, nm)(eqsig.AccSignal(x, dt)))
            for nm in ('calc_arias_intensity', 'calc_cav', 'calc_isv', 'calc_integral_of_abs_velocity', 'calc_integral_of_abs_acceleration',
                       'calc_unit_kinetic_energy')}


try:
    KNOWN_MATCHERS
except NameError:
    KNOWN_MATCHERS = {}
KNOWN_MATCHERS['F09-1'] = _NF.matcher('F09-1')
_known_witness_prev = globals().get('known_witness')


def known_witness(fid):
    if fid == 'F09-1':
        import eqsig
        from eqsig import im
        a = np.array([100, -200, 300, 250, -50], dtype=np.int16)
        return not np.allclose(im.calc_arias_intensity(eqsig.AccSignal(a, 0.5)), im.calc_arias_intensity(eqsig.AccSignal(a.astype(float), 0.5)))
    return _known_witness_prev(fid) if _known_witness_prev else True


_run_main_nf = run


def run(ctx):
    _run_main_nf(ctx)
    _NF.narrow_oracles(ctx, 'C09', _narrow_table())
    ctx.flush()


# evidence: how the model is tied to the source on every run (as built, supersedes the value above)
TIE = 'translator (array one-liners -> Gen/ImSimple, calc_cav_dp -> Gen/ImCavDp, constants -> Gen/Consts; Props/C09Sem, C09Gen, C09GenCav) + correspondence'


# ---- round-5 lesson: measures follow the object's CURRENT record after every mutator, also the in-place ones --------------------------------

def extras_hist(ctx):
    import eqsig
    from eqsig import im
    rng = ctx.rng
    MUT = ['remove_rolling_average(acceleration)', 'remove_rolling_average(velocity)', 'rebase_displacement', 'running_average', 'add_constant', 'reset_values',
           'set_zero_residual_velocity', 'set_zero_residual_displacement_and_velocity(timezone)']
    for it in range(16 if ctx.tier == 'quick' else 160):
        n = rng.randint(60, 200)
        dt = rng.choice([0.01, 0.02])
        a = gen.noise_record(rng, n)
        o = eqsig.AccSignal(a.copy(), dt)
        # fill the caches the measures read (velocity, displacement, peaks), by a different route each time
        for nm in rng.sample(['velocity', 'pgv', 'displacement', 'pgd', 'pga'], 3):
            getattr(o, nm)
        call_impl(getattr(im, rng.choice(['calc_isv', 'calc_unit_kinetic_energy', 'calc_integral_of_abs_velocity', 'calc_cav'])), o)
        op = MUT[it % len(MUT)]
        r = None
        if op == 'remove_rolling_average(acceleration)':
            r = call_impl(o.remove_rolling_average, mtype='acceleration', freq_window=rng.choice([5, 10]))
        elif op == 'remove_rolling_average(velocity)':
            r = call_impl(o.remove_rolling_average, mtype='velocity', freq_window=5)
        elif op == 'rebase_displacement':
            r = call_impl(o.rebase_displacement)
        elif op == 'running_average':
            r = call_impl(o.running_average, 3)
        elif op == 'add_constant':
            r = call_impl(o.add_constant, 0.5)
        elif op == 'reset_values':
            r = call_impl(o.reset_values, gen.noise_record(rng, n))
        elif op == 'set_zero_residual_velocity':
            r = call_impl(o.set_zero_residual_velocity)
        else:
            r = call_impl(o.set_zero_residual_displacement_and_velocity, timezone=(dt * rng.randint(1, n // 3), None))
        if r[0] != 'ok':
            ctx.hist('measure-history/' + op + ' raised ' + r[1])
            continue
        f = eqsig.AccSignal(np.array(o.values, copy=True), dt)
        bad = []
        for fname, _h in SERIES:
            g, w = call_impl(getattr(im, fname), o), call_impl(getattr(im, fname), f)
            if not (g[0] == w[0] and (g[0] != 'ok' or np.array_equal(np.asarray(g[1]), np.asarray(w[1])))):
                bad.append(fname)
        ctx.hist('measure-history/' + op)
        ctx.count_case(('mhist', a.tobytes(), op), True)
        ctx.oracle('C09 every measure of an object is that of its CURRENT record after a mutator (in-place ones included), whatever was cached before', not bad,
                   {'a': a, 'dt': dt, 'mutator': op}, detail={'measures that differ from a fresh object with the same values': bad})


_run_main_h = run


def run(ctx):
    _run_main_h(ctx)
    extras_hist(ctx)
    ctx.flush()


# ---- round-7 deliveries (lw_small / tw_single3): further correspondences of models with new theorems -------------------------
import _lw_small as _LW  # noqa: E402
from _single3_corr import corr_single3  # noqa: E402
_run_main_r7 = run


def run(ctx):
    _run_main_r7(ctx)
    _LW.corr_cavdp_float(ctx)
    ctx.flush()
