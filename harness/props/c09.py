"""C09 — cumulative intensity measures: definition, monotonicity and scaling laws."""
import math
from fractions import Fraction

import numpy as np

import gen
from core import fr, w_rat, w_rats, p_rats, cmp_exact, cmp_budget, call_impl

RULE = ("records n in 2..3000 of kinds dyadic/int/plateau/spike/step (dyadic dt: exact comparison) and noise/sine/big/tiny "
        "(budget 1e-9); scale factors {-3,-1,1/2,2,1e6}; zero padding 0..200; standardised CAV: dt in "
        "{1,1/2,1/4,1/8,0.2,0.1,0.05,0.02,0.01,0.005}, durations 2..40 s, amplitudes around the 0.025 g gate. "
        "distinct = hash of (record, dt); non-trivial = length >= 3 and not constant")
TIE = "translator (literals 9.81 / 0.025 / 2*9.81 of im.py regenerated into Gen/Consts, bridge Props/C09Gen) + correspondence (hand model Model/Im.lean on exact rationals; Arias constant pi/(2*9.81) applied on the Python side)"
NOT_PROVED = ["length of the floating np.arange of CAVdp window abscissae (pps or pps+1 samples): the model integrates pps-1 panels, "
              "the oracle accepts either (the property allows one trapezoid panel per window)",
              "IEEE rounding of the sums (measured)"]

SERIES = [  # (name, impl function, model handler)
    ('calc_cav', 'cav'), ('calc_isv', 'isv'), ('calc_integral_of_abs_velocity', 'int_abs_vel'),
    ('calc_integral_of_abs_acceleration', 'int_abs_acc'), ('calc_unit_kinetic_energy', 'unit_ke'),
]
K_ARIAS = math.pi / (2 * 9.81)


PROP_MODULES = ['C09', 'C09Gen', 'C09Sem', 'C09GenCav']

def ftrapz(y, dx):
    return sum((y[i] + y[i + 1]) for i in range(len(y) - 1)) * dx / 2


def run(ctx):
    import eqsig
    from eqsig import im
    rng = ctx.rng
    n_cases = 100 if ctx.tier == 'quick' else 1200
    corpus = [(np.array([1.0, -2.0, 0.5, 0.0]), 0.5), (np.array([0.0, 0.0, 0.0]), 1.0), (np.array([3.0, 3.0]), 0.25)]
    cases = [('corpus', a, dt) for a, dt in corpus]
    for i in range(n_cases):
        if i % 3 == 0:
            kind = rng.choice(['dyadic', 'int', 'plateau', 'spike', 'step'])
            n = gen.log_int(rng, 2, 64)
            a = {'dyadic': gen.dyadic_record, 'int': gen.int_record, 'plateau': gen.plateau_record, 'spike': gen.spike_record,
                 'step': gen.step_record}[kind](rng, n)
            dt = gen.dyadic_dt(rng)
        else:
            n = gen.log_int(rng, 2, 300 if ctx.tier == 'quick' else 3000)
            kind, a = gen.any_record(rng, n)
            dt = gen.any_dt(rng)
        cases.append((kind, a, dt))

    for kind, a, dt in cases:
        exact = (kind in gen.DYADIC_KINDS or kind == 'corpus') and float(dt) in (2.0, 1.0, 0.5, 0.25, 0.125, 0.0625) and len(a) <= 64
        ctx.hist('kind=' + kind)
        ctx.hist('budget=' + ('E' if exact else 'R'))
        ctx.count_case((a.tobytes(), dt), gen.nontrivial_record(a),
                       sample={'fn': 'cumulative intensity series', 'n': len(a), 'dt': dt, 'kind': kind, 'head': a[:6].tolist()})
        asig = ctx.aged(eqsig.AccSignal, a, dt)
        if kind in ('int', 'plateau', 'spike', 'step') and rng.random() < 0.5:
            asig = eqsig.AccSignal(a.astype(np.int64), dt)      # integer-dtype record: the measures are those of the same float record
            ctx.hist('record dtype=int64')
        snap = a.copy()
        fa = [fr(x) for x in a]
        fdt = fr(dt)
        out = {}
        # documented alias: calc_cumulative_abs_displacement IS calc_integral_of_abs_velocity
        r_al, r_mn = call_impl(im.calc_cumulative_abs_displacement, asig), call_impl(im.calc_integral_of_abs_velocity, asig)
        ctx.oracle('C09 alias calc_cumulative_abs_displacement == calc_integral_of_abs_velocity (==)',
                   r_al[0] == r_mn[0] and (r_al[0] != 'ok' or np.array_equal(r_al[1], r_mn[1])), {'a': a, 'dt': dt},
                   detail=None if r_al[0] != 'ok' or r_mn[0] != 'ok' else {'alias_last': float(np.asarray(r_al[1])[-1]), 'main_last': float(np.asarray(r_mn[1])[-1])})
        for fname, h in SERIES:
            res = call_impl(getattr(im, fname), asig)
            out[fname] = res
            req = f"{h}|{w_rat(dt)}|{w_rats(a)}"

            def compare(outs, val, exact=exact, fname=fname):
                m = p_rats(outs[0])
                if exact:
                    return cmp_exact(list(val), m)
                msg, g = cmp_budget(list(val), m, Fraction(1, 10**9))
                ctx.gap(fname, g)
                return msg
            ctx.corr(fname, req, res, compare, inputs={'a': a, 'dt': dt})
        res = call_impl(im.calc_arias_intensity, asig)
        out['calc_arias_intensity'] = res

        def cmp_arias(outs, val, exact=exact):
            m = [x * fr(K_ARIAS) for x in p_rats(outs[0])]
            msg, g = cmp_budget(list(val), m, Fraction(1, 10**9) if not exact else Fraction(4, 10**16))
            ctx.gap('calc_arias_intensity', g)
            return msg
        ctx.corr('calc_arias_intensity', f"arias_core|{w_rat(dt)}|{w_rats(a)}", res, cmp_arias, inputs={'a': a, 'dt': dt})
        ctx.oracle('input array unchanged', np.array_equal(a, snap), inputs={'a': snap, 'dt': dt})

        # ---- the property's clauses on the impl outputs
        inputs = {'a': a, 'dt': dt}
        n = len(a)
        tolrel = Fraction(0) if exact else Fraction(1, 10**9)
        v = [fr(x) for x in asig.velocity]
        defs = {
            'calc_cav': ftrapz([abs(x) for x in fa], fdt),
            'calc_isv': ftrapz([x * x for x in v], fdt),
            'calc_integral_of_abs_acceleration': sum(abs(x) for x in fa) * fdt,
            'calc_integral_of_abs_velocity': sum(abs(x) for x in v) * fdt,
            'calc_unit_kinetic_energy': sum(abs(y - x) for x, y in zip([Fraction(0)] + [Fraction(1, 2) * t * abs(t) for t in v],
                                                                      [Fraction(1, 2) * t * abs(t) for t in v])),
            'calc_arias_intensity': fr(K_ARIAS) * ftrapz([x * x for x in fa], fdt),
        }
        for fname, res in out.items():
            if res[0] != 'ok':
                ctx.oracle(f'{fname} returns a series', False, inputs, detail=res)
                continue
            s = np.asarray(res[1])
            ctx.oracle(f'{fname}: length == len(record)', len(s) == n, inputs)
            ctx.oracle(f'{fname}: non-decreasing', bool(np.all(np.diff(s) >= 0)), inputs)
            want = defs[fname]
            tol = (Fraction(1, 10**15) if fname == 'calc_arias_intensity' and exact else tolrel) * max(abs(want), Fraction(1, 10**300))
            ctx.oracle(f'{fname}: final value == defining integral', abs(fr(s[-1]) - want) <= tol, inputs,
                       detail={'got': float(s[-1]), 'want': float(want)})
        # sign invariance (exact: the measures only see a^2, |a|, |v|)
        neg = eqsig.AccSignal(-a, dt)
        for fname in out:
            if out[fname][0] == 'ok':
                s2 = getattr(im, fname)(neg)
                ctx.oracle(f'{fname}: invariant under sign reversal', np.array_equal(np.asarray(out[fname][1]), s2), inputs)
        # scaling
        alpha = rng.choice([-3.0, -1.0, 0.5, 2.0, 1e6])
        sc = eqsig.AccSignal(alpha * a, dt)
        for fname in out:
            if out[fname][0] != 'ok':
                continue
            p = 2 if fname in ('calc_arias_intensity', 'calc_isv', 'calc_unit_kinetic_energy') else 1
            s2 = np.asarray(getattr(im, fname)(sc))
            s1 = np.asarray(out[fname][1]) * abs(alpha) ** p
            ok = bool(np.allclose(s2, s1, rtol=1e-9, atol=1e-300))
            if alpha in (-1.0, 0.5, 2.0) and exact:
                ok = ok and np.array_equal(s2, s1)
            ctx.oracle(f'{fname}: scales as |alpha|^{p}', ok, {'a': a, 'dt': dt, 'alpha': alpha})
        # zero padding of a record that ends at zero (acceleration-based measures)
        m = rng.choice([0, 1, 2, 7, 50, 200])
        a0 = a.copy()
        a0[-1] = 0.0
        base = eqsig.AccSignal(a0, dt)
        pad = eqsig.AccSignal(np.concatenate([a0, np.zeros(m)]), dt)
        for fname in ('calc_arias_intensity', 'calc_cav', 'calc_integral_of_abs_acceleration'):
            s1 = np.asarray(getattr(im, fname)(base))
            s2 = np.asarray(getattr(im, fname)(pad))
            ok = len(s2) == n + m and np.array_equal(s2[:n], s1) and bool(np.all(s2[n:] == s1[-1]))
            ctx.oracle(f'{fname}: appending zeros to a record ending at zero changes nothing', ok, {'a': a0, 'dt': dt, 'm': m})
    ctx.flush()
    cav_dp(ctx)
    ctx.flush()


def cav_dp(ctx):
    import eqsig
    from eqsig import im
    rng = ctx.rng
    n_cases = 40 if ctx.tier == 'quick' else 400
    dts = [(1.0, 1), (0.5, 2), (0.25, 4), (0.125, 8), (0.2, 5), (0.1, 10), (0.05, 20), (0.02, 50), (0.01, 100), (0.005, 200)]
    for i in range(n_cases):
        dt, pps = dts[i % len(dts)]
        dur = rng.choice([2, 3, 4.5, 7, 12, 25, 40]) if dt < 0.1 or i % 2 else rng.choice([2, 3, 5])
        n = int(round(dur / dt)) + 1
        amp = rng.choice([0.1, 0.2, 0.245, 0.25, 0.3, 1.0])   # the gate is 0.025 g = 0.24525 m/s2
        shape = rng.choice(['noise', 'burst', 'quiet', 'boundary'])
        if shape == 'noise':
            a = np.array([rng.gauss(0, 1) for _ in range(n)]) * amp
        elif shape == 'burst':
            a = np.array([rng.gauss(0, 1) for _ in range(n)]) * 0.02
            k = rng.randrange(n)
            a[k:k + pps] += amp * 3
        elif shape == 'quiet':
            a = np.array([rng.uniform(-1, 1) for _ in range(n)]) * 0.2
        else:   # the only large sample sits on a window boundary
            a = np.array([rng.uniform(-1, 1) for _ in range(n)]) * 0.05
            a[pps * rng.randrange(1, max(2, int(dur)))] = 0.5
        if dt in (1.0, 0.5, 0.25, 0.125):
            a = np.round(a * 64) / 64
        ctx.hist(f'cavdp/dt={dt}')
        ctx.hist('cavdp/' + shape)
        ctx.count_case(('cavdp', a.tobytes(), dt), True, sample={'fn': 'calc_cav_dp', 'n': n, 'dt': dt, 'shape': shape} if i < 2 else None)
        asig = ctx.aged(eqsig.AccSignal, a, dt)
        res = call_impl(im.calc_cav_dp, asig)
        inputs = {'a': a, 'dt': dt}
        if dt in (1.0, 0.5, 0.25, 0.125):
            def compare(outs, val):
                msg, g = cmp_budget(list(val), p_rats(outs[0]), Fraction(1, 10**11), abs_floor=Fraction(1, 10**18))
                ctx.gap('calc_cav_dp', g)
                return msg
            ctx.corr('calc_cav_dp', f"cav_dp|{pps}|{w_rats(a)}", res, compare, inputs=inputs)
        if res[0] != 'ok':
            ctx.oracle('calc_cav_dp returns a series on its domain', False, inputs, detail=res)
            continue
        s = np.asarray(res[1])
        total_seconds = int(asig.time[-1])
        g = 9.81
        cav_final = float(im.calc_cav(asig)[-1])
        ctx.oracle('CAVdp: length == len(record)', len(s) == n, inputs)
        ctx.oracle('CAVdp: non-decreasing', bool(np.all(np.diff(s) >= 0)), inputs)
        ctx.oracle('CAVdp: 0 <= CAVdp <= CAV/9.81', bool(s.min() >= 0 and s[-1] <= cav_final / g * (1 + 1e-9) + 1e-300), inputs,
                   detail={'final': float(s[-1]), 'cav_over_g': cav_final / g})
        # windows: second k covers samples k*pps .. (k+1)*pps
        absg = np.abs(a) / g
        per_sec = [float(s[k * pps]) for k in range(total_seconds)]   # np.interp is exact at its nodes
        ok_inc = True
        bad = None
        run_lo = run_hi = 0.0
        any_qual = False
        for k in range(total_seconds):
            w = absg[k * pps:(k + 1) * pps + 1]
            full = float(np.sum((w[1:] + w[:-1]) / 2) * dt)
            lastp = float((w[-1] + w[-2]) / 2 * dt) if len(w) >= 2 else 0.0
            qual = (w.max() - 0.025) >= 0
            any_qual = any_qual or qual
            inc = per_sec[k] - (per_sec[k - 1] if k else 0.0)
            lo = (full - lastp) if qual else 0.0
            hi = full if qual else 0.0
            tol = 1e-9 * max(full, 1e-30)
            if not (lo - tol <= inc <= hi + tol):
                ok_inc = False
                bad = bad or {'second': k, 'increment': inc, 'window_integral': full, 'last_panel': lastp, 'qualifies': bool(qual)}
        ctx.oracle('CAVdp: per-second increments == windowed |a| integrals over qualifying windows (to within one panel per window)',
                   ok_inc, inputs, detail=bad)
        if not any_qual:
            ctx.oracle('CAVdp: zero when no one-second window reaches 0.025 g', bool(np.all(s == 0)), inputs)
        t1s = np.arange(total_seconds)
        ctx.oracle('CAVdp: series is the interpolation of the per-second totals',
                   bool(np.allclose(s, np.interp(asig.time, t1s, per_sec), rtol=1e-12, atol=0)), inputs)
