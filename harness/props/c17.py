"""C17 — Butterworth filtering is zero-phase with the analytic gain; detrending is exact; add_*; running average."""
import math
from fractions import Fraction

import numpy as np

import gen
from core import fr, w_rat, w_rats, p_rats, cmp_exact, cmp_budget, call_impl
from _c17_common import norm_res, cmp_seq, R9, LCM25

RULE = ("running average: corpus witness of F17-2, exhaustive n in 1..8 (quick) / 1..12 (thorough) x w in 1..25 x {int64, float64} records "
        "(integers x lcm(1..25): every mean exact), random n <= 300/3000, w in 1..25, int and float dtype; butter_pass bookkeeping with "
        "scipy.signal.filtfilt replaced by the identity (padded array captured): n in 2..3000 around powers of two, remove_gibbs in "
        "{None,'start','end','mid',0,'x'}, gibbs_extra 0..2, gibbs_range in {1,2,50,n+7}; argument checks and SciPy error kinds with the "
        "real filter: containers list/tuple/ndarray/other x 15 cut-off shapes x short and long records; linearity and zero-phase gain: "
        "sinusoids at 0.2..3 x cut-off, orders 1..4, low/high/band, four padding modes, cut-offs as list/tuple/ndarray, records >= 40 "
        "periods of the lowest cut-off and of the sinusoid; detrending: degree 0..4, n in 5..500 (thorough 3000), noise/sine/dyadic/1e6/1e-6 "
        "records plus a polynomial trend; add_*: dyadic (exact) and noise records, lengths n, n+-1, 0, 1, dt equal/different, Signal/"
        "AccSignal/array/list/None operands. distinct = hash of (function, record, options); non-trivial = length >= 3 and not constant")
TIE = ("correspondence (hand model Model/Single.lean on exact rationals; filtfilt∘butter abstract: bookkeeping compared with the filter "
       "replaced by the identity, np.polyfit abstract: the model is run with the impl's own coefficients)")
NOT_PROVED = ["C17.c: the analytic gain IS proved about the executable model of scipy.signal.butter (Props/C17Butter: |B_n(iW)|^2 = 1+W^2n for every n, bilinear map on the unit circle, low/high/band-pass digital gain = 1/(1+Omega^2n), zero phase of forward-backward filtering on bi-infinite sequences, range and monotonicity); NOT proved: that SciPy's floating-point butter equals that model (compared on every run, measured 1.1e-14), the (b, a) form of the band pass (zpk form proved), and filtfilt on a FINITE record (edge padding, initial conditions, Gibbs padding): 'away from the ends' is evaluated numerically",
              "record behaves like the bi-infinite two-pass filter away from the ends — evaluated numerically against scipy.signal.freqz ",
              "(2 % of the amplitude on the middle half); the theorem zero_phase covers H(e^{iw})H(e^{-iw}) = |H|^2 only",
              "np.polyfit returns least-squares coefficients (kind X; normal-equation residual checked on every detrending case)",
              "linearity of filtfilt itself (kind X; checked numerically on every linearity case)",
              "IEEE rounding (measured)"]
ASSUMPTIONS = ["scipy.signal.filtfilt(b, a, .) is a linear, length-preserving map for fixed (b, a, n)",
               "np.polyfit(x, y, k) returns the least-squares polynomial coefficients"]
EXHAUSTIVE = True

MODES = [('none', None), ('start', 'start'), ('end', 'end'), ('mid', 'mid')]


# ---------------------------------------------------------------------------------------------------- running average

PROP_MODULES = ['C17', 'C17Gen', 'C17Gen2', 'C17Butter', 'C17Rolling', 'C17GenRolling', 'C17ButterBand']

def ra_spec(orig, w):
    n = len(orig)
    h = w // 2
    out = []
    for i in range(n):
        lo, hi = max(0, i - h), min(n, i + h + 1)
        out.append(sum(orig[lo:hi]) / (hi - lo))
    return out


def running_average(ctx):
    import eqsig
    rng = ctx.rng
    cases = [('corpus-F17-2', np.arange(8) ** 2, 3, False), ('corpus', np.array([1.0, 2.0, 3.0, 4.0, 5.0]), 4, False),
             ('corpus', np.array([1.0, 2.0, 6.0]), 7, False)]
    nmax = 8 if ctx.tier == 'quick' else 12
    for n in range(1, nmax + 1):
        for w in range(1, 26):
            cases.append(('exh-int', np.array([rng.randint(-5, 5) * LCM25 for _ in range(n)], dtype=np.int64), w, True))
            cases.append(('exh-float', np.array([rng.randint(-40, 40) / 8 * LCM25 for _ in range(n)], dtype=float), w, True))
    for i in range(60 if ctx.tier == 'quick' else 800):
        n = gen.log_int(rng, 1, 300 if ctx.tier == 'quick' else 3000)
        w = rng.randint(1, 25)
        k = rng.choice(['int', 'int-exact', 'noise', 'dyadic-exact', 'sine'])
        if k == 'int':
            cases.append(('rand-int', np.array([rng.randint(-1000, 1000) for _ in range(n)], dtype=np.int64), w, False))
        elif k == 'int-exact':
            cases.append(('rand-int-exact', np.array([rng.randint(-9, 9) * LCM25 for _ in range(min(n, 64))], dtype=np.int64), w, True))
        elif k == 'noise':
            cases.append(('rand-noise', gen.noise_record(rng, n), w, False))
        elif k == 'sine':
            cases.append(('rand-sine', gen.sine_record(rng, n, 0.01), w, False))
        else:
            cases.append(('rand-dyadic-exact', gen.dyadic_record(rng, min(n, 64)) * LCM25, w, True))
    # LONG records (beyond any plausible switch to a vectorised / convolution path), even and odd widths, small and large widths
    for n_long, w in ([(4097, 4), (5000, 7), (9000, 24)] if ctx.tier == 'quick' else
                      [(4097, 4), (5000, 7), (9000, 24), (4096, 2), (12000, 10), (20000, 25), (6000, 1), (8193, 16)]):
        cases.append(('long-dyadic', gen.dyadic_record(rng, n_long), w, False))
    # LONG records with a huge dynamic range inside (one sample of 1e17 among samples of order one): a running sum may not be used
    # source hints: record lengths and window widths around every new integer constant of the anchored files
    for n_long, w in [(m, 4) for m in gen.hint_sizes(ctx, lo=301, hi=60000, cap=4)] + [(1200, m) for m in gen.hint_sizes(ctx, lo=2, hi=400, cap=4)]:
        cases.append(('long-dyadic', gen.dyadic_record(rng, n_long), w, False))
    for n_long, w in ([(30000, 1), (21000, 4)] if ctx.tier == 'quick' else [(30000, 1), (21000, 4), (50000, 3), (25000, 10)]):
        v = gen.dyadic_record(rng, n_long)
        v[rng.choice([0, 1, n_long // 2])] = 1e17
        cases.append(('long-wide-range', v, w, False))
    for kind, arr, w, exact in cases:
        ctx.hist('running_average/' + kind)
        ctx.hist('running_average/dtype=' + str(arr.dtype))
        ctx.count_case(('ra', arr.tobytes(), str(arr.dtype), w), gen.nontrivial_record(arr),
                       sample={'fn': 'Signal.running_average', 'values': arr[:8].tolist(), 'dtype': str(arr.dtype), 'width': w}
                       if kind.startswith('corpus') else None)
        snap = arr.copy()
        sig = eqsig.Signal(arr, 0.5)

        def f(sig=sig, w=w):
            sig.running_average(w)
            return np.array(sig.values)
        res = call_impl(f)
        inputs = {'values': snap, 'dtype': str(arr.dtype), 'width': w, 'dt': 0.5}
        ctx.corr('running_average', f"c17.running_average|{w}|{w_rats([float(x) for x in snap])}", res,
                 lambda outs, val, exact=exact: cmp_seq(ctx, 'running_average', [float(x) for x in val], p_rats(outs[0]), exact,
                                                        Fraction(1, 10**12)),
                 inputs=inputs)
        if res[0] != 'ok':
            ctx.oracle('C17.f running_average returns on every record and width >= 1', False, inputs, detail=res)
            continue
        out = res[1]
        want = ra_spec([Fraction(int(x)) if arr.dtype.kind == 'i' else fr(x) for x in snap], w)
        ctx.oracle('C17.f running average preserves length and time step', len(out) == len(snap) and sig.dt == 0.5, inputs)
        if not np.all(np.isfinite(np.asarray(out, dtype=float))):
            ctx.oracle('C17.f running average: out[i] == mean of the ORIGINAL samples within floor(w/2) positions of i', False, inputs,
                       detail={'non-finite output': np.asarray(out, dtype=float)[:8]})
        elif len(out) == len(snap):
            # rounding budget per sample: 1e-12 of the largest |sample| inside THAT sample's window (not of the whole record: a record
            # with one huge sample must still be averaged correctly everywhere else)
            absx = np.abs(np.asarray(snap, dtype=float))
            h = w // 2
            if exact:
                tols = [Fraction(0)] * len(want)
            elif len(absx) * (2 * h + 1) <= 2000000:
                tols = [Fraction(1, 10**12) * fr(float(absx[max(0, i - h):i + h + 1].max())) for i in range(len(want))]
            else:
                tols = [Fraction(1, 10**12) * fr(float(absx.max()))] * len(want)
            bad = [i for i in range(len(want)) if abs(fr(float(out[i])) - want[i]) > tols[i]]
            ctx.oracle('C17.f running average: out[i] == mean of the ORIGINAL samples within floor(w/2) positions of i', not bad, inputs,
                       detail=None if not bad else {'index': bad[0], 'got': float(out[bad[0]]), 'want': float(want[bad[0]])})
        ctx.oracle('C17.f running average leaves the caller\'s array untouched', np.array_equal(arr, snap), inputs)
    ctx.flush()


# ------------------------------------------------------------------------------------ butter_pass: bookkeeping (identity filter)

def butter_bookkeeping(ctx):
    import eqsig
    import scipy.signal
    rng = ctx.rng
    if ctx.tier == 'quick':
        ns = list(range(2, 36)) + [63, 64, 65, 127, 128, 129, 255, 256, 257, 1000, 1023, 1024, 1025, 3000]
        per_n = 3
    else:
        ns = list(range(2, 140)) + [255, 256, 257, 511, 512, 513, 1000, 1023, 1024, 1025, 2047, 2048, 2049, 2999, 3000]
        per_n = 8
    captured = {}
    real_filtfilt = scipy.signal.filtfilt

    def fake_filtfilt(b, a, x, *args, **kw):
        captured['x'] = np.array(x)
        return np.array(x)
    scipy.signal.filtfilt = fake_filtfilt
    try:
        for n in ns:
            combos = [(m, ge, gr) for m in MODES + [('mid', 0), ('mid', 'x')] for ge in (0, 1, 2) for gr in (1, 2, 50, n + 7)]
            for (mname, mval), ge, gr in rng.sample(combos, per_n) + ([(('mid', 'mid'), 1, 50)] if n in (5, 64, 65) else []):
                if n > 600 and ge == 2:
                    ge = 1
                v = gen.int_record(rng, n, -64, 64) / 8
                cnt = min(gr, n)
                exact = (cnt & (cnt - 1)) == 0          # the two padding means divide by a power of two
                dt = rng.choice([0.25, 0.01])
                sig = eqsig.Signal(v, dt)
                captured.clear()
                res = call_impl(lambda sig=sig, mval=mval, ge=ge, gr=gr: sig.butter_pass((None, 0.2 / dt), remove_gibbs=mval, gibbs_extra=ge,
                                                                                        gibbs_range=gr))
                inputs = {'values': v, 'dt': dt, 'remove_gibbs': mval, 'gibbs_extra': ge, 'gibbs_range': gr, 'filter': 'identity'}
                ctx.hist('bookkeeping/mode=' + mname)
                ctx.count_case(('bk', v.tobytes(), mname, ge, gr), gen.nontrivial_record(v))
                if res[0] != 'ok' or 'x' not in captured:
                    ctx.oracle('C17.a butter_pass returns for every padding mode', False, inputs, detail=res)
                    continue
                pad, out = captured['x'], np.array(sig.values)
                ctx.corr('butter_pass/padding', f"c17.butter_pad|{mname}|{ge}|{gr}|{w_rats(v)}", ('ok', (pad, out)),
                         lambda outs, val, exact=exact: (cmp_seq(ctx, 'butter_pass/padding', list(val[0]), p_rats(outs[0]), exact,
                                                                 Fraction(1, 10**12))
                                                         or cmp_exact(list(val[1]), p_rats(outs[1]))), inputs=inputs)
                want_len = n if mval is None else 2 ** (int(math.ceil(math.log2(n))) + ge)
                ctx.oracle('C17.a array handed to the filter has length n (no padding) or 2^(ceil(log2 n)+gibbs_extra)', len(pad) == want_len,
                           inputs, detail={'padded': len(pad), 'want': want_len})
                ctx.oracle('C17.a butter_pass preserves length and time step', len(out) == n and sig.dt == dt, inputs)
                ctx.oracle('C17.a with the filter replaced by the identity the record comes back unchanged (padding placed and cut '
                           'consistently)', np.array_equal(out, v), inputs)
    finally:
        scipy.signal.filtfilt = real_filtfilt
    ctx.flush()


# ------------------------------------------------------------------------------- butter_pass: argument checks / error kinds

ITEM_SETS = [[None, 2.0], [0.5, None], [0.5, 2.0], [None, None], [2.0, 0.5], [0.5, 0.5], [0.5], [0.5, 1.0, 2.0], [],
             [None, 4.0], [None, 0.0], [0.0, None], [None, 5.0], [-1.0, 1.0], [0.5, 4.0], [0.1, 3.5]]


def mk_container(cont, items, rng):
    if cont == 'list':
        return list(items)
    if cont == 'tuple':
        return tuple(items)
    if cont == 'ndarray':
        return np.array(items, dtype=object) if any(i is None for i in items) else np.array(items, dtype=float)
    return dict(enumerate(items)) if rng.random() < 0.5 else 'ab'


def butter_errors(ctx):
    import eqsig
    rng = ctx.rng
    setups = [(40, 4, ('none', None), 1), (5, 4, ('none', None), 1), (5, 4, ('mid', 'mid'), 2), (12, 1, ('none', None), 0),
              (13, 2, ('end', 'end'), 0), (15, 4, ('none', None), 0), (16, 4, ('none', None), 0), (27, 4, ('none', None), 0),
              (28, 4, ('none', None), 0), (9, 2, ('none', None), 0), (10, 2, ('none', None), 0), (200, 3, ('start', 'start'), 1)]
    if ctx.tier == 'quick':
        setups = setups[:1] + rng.sample(setups[1:], 4)
    dt = 0.125   # nyq = 4 Hz
    for items in ITEM_SETS:
        for n, order, (mname, mval), ge in setups:
            v = gen.dyadic_record(rng, n)
            outs = {}
            for cont in ('list', 'tuple', 'ndarray', 'other'):
                sig = eqsig.Signal(v, dt)
                co = mk_container(cont, items, rng)
                res = norm_res(call_impl(lambda sig=sig, co=co: (sig.butter_pass(co, filter_order=order, remove_gibbs=mval, gibbs_extra=ge,
                                                                                  gibbs_range=3), np.array(sig.values))[1]))
                outs[cont] = res
                inputs = {'values': v, 'dt': dt, 'cut_off': items, 'container': cont, 'filter_order': order, 'remove_gibbs': mval,
                          'gibbs_extra': ge, 'gibbs_range': 3}
                ctx.hist('errors/container=' + cont)
                ctx.hist('errors/outcome=' + (res[1] if res[0] == 'err' else 'ok'))
                ctx.count_case(('err', v.tobytes(), cont, tuple(items), order, mname, ge), True)
                req = (f"c17.butter_full|{cont}|{' '.join('N' if i is None else w_rat(i) for i in items)}|{w_rat(dt)}|{order}|{mname}|{ge}|3|"
                       f"{w_rats(v)}")
                ctx.corr('butter_pass/argument checks and error kinds', req, res,
                         lambda o, val, n=n: None if len(val) == len(o[0]) == n else f"length impl={len(val)} model={len(o[0])}", inputs=inputs)
                if cont == 'other':
                    ctx.oracle('C17.a a cut_off that is not a list, tuple or array raises ValueError', res == ('err', 'ValueError'), inputs,
                               detail=res)
                elif len(items) != 2:
                    ctx.oracle('C17.a a cut_off of length != 2 raises ValueError', res == ('err', 'ValueError'), inputs, detail=res)
            ref = outs['list']
            same = all(outs[c][0] == ref[0] and (outs[c][1] == ref[1] if ref[0] == 'err' else np.array_equal(outs[c][1], ref[1]))
                       for c in ('tuple', 'ndarray'))
            ctx.oracle('C17.a cut-offs may be given as list, tuple or array: same outcome', same,
                       {'values': v, 'dt': dt, 'cut_off': items, 'filter_order': order, 'remove_gibbs': mval, 'gibbs_extra': ge},
                       detail={c: (outs[c][1] if outs[c][0] == 'err' else 'ok') for c in outs})
    ctx.flush()


# ------------------------------------------------------------------------------ butter_pass: linearity, zero phase and gain

_HV = []      # source hints (filled by butter_real): values at / around the new float constants of the anchored files; empty on the unchanged tree


def _hv_corners(dt, lo, hi):
    """corner frequencies that put f [Hz], f/nyquist or f*dt at a hinted value, inside [lo, hi] x nyquist"""
    nyq = 0.5 / dt
    return [x for c in _HV for x in (c, c * nyq, c / dt) if lo * nyq <= x <= hi * nyq]


def filt_setup(rng, dt):
    nyq = 0.5 / dt
    ftype = rng.choice(['low', 'high', 'band'])
    if ftype == 'band':
        f1 = rng.uniform(0.02, 0.1) * nyq
        f2 = min(f1 * rng.uniform(2.5, 6), 0.7 * nyq)
        cut = [f1, f2]
        probes = [f1 * rng.uniform(0.3, 0.9), f1, math.sqrt(f1 * f2), f2, min(f2 * rng.uniform(1.1, 1.5), 0.9 * nyq), rng.uniform(f1, f2)]
        flow = f1
    else:
        fc = rng.uniform(0.04, 0.6) * nyq
        if _HV and _hv_corners(dt, 0.01, 0.9) and rng.random() < 0.4:
            fc = rng.choice(_hv_corners(dt, 0.01, 0.9))
        cut = [None, fc] if ftype == 'low' else [fc, None]
        probes = [min(fc * r, 0.9 * nyq) for r in (0.2, 0.5, 0.8, 1.0, 1.25, 2.0, 3.0)]
        flow = fc
    return ftype, cut, probes, flow


def butter_real(ctx):
    import eqsig
    from scipy.signal import butter, freqz
    rng = ctx.rng
    _HV[:] = gen.hint_values(ctx, 1e-6, 1e4, cap=24, maps=(lambda c: c, lambda c: 1 / c))
    # ---- F17-1 witness: ndarray cut-offs
    t = np.arange(4000) * 0.01
    x = np.sin(2 * math.pi * 2.0 * t)
    sig = eqsig.Signal(x, 0.01)
    res = call_impl(lambda: sig.butter_pass(np.array([0.5, 10.0])))
    ctx.count_case(('F17-1',), True, sample={'fn': 'Signal.butter_pass', 'cut_off': 'np.array([0.5, 10.0])', 'witness_of': 'F17-1'})
    ctx.oracle('C17.a cut-offs may be given as list, tuple or array: an ndarray is accepted', res[0] == 'ok',
               {'values': 'sin(2*pi*2*t), n=4000', 'dt': 0.01, 'cut_off': [0.5, 10.0], 'container': 'ndarray'}, detail=res)
    # integer-typed cut-offs (Python ints, int arrays) are the same frequencies: same result as with floats, for every container and type
    for cut_i in ([1, 10], [None, 5], [2, None], [3, 20]):
        for cont in ('list', 'tuple', 'ndarray'):
            if cont == 'ndarray' and None in cut_i:
                continue
            co_i = {'list': list(cut_i), 'tuple': tuple(cut_i), 'ndarray': np.array(cut_i)}[cont]
            co_f = [None if c is None else float(c) for c in cut_i]
            s_i, s_f = eqsig.Signal(x.copy(), 0.01), eqsig.Signal(x.copy(), 0.01)
            r_i = call_impl(lambda: (s_i.butter_pass(co_i), np.array(s_i.values))[1])
            r_f = call_impl(lambda: (s_f.butter_pass(co_f), np.array(s_f.values))[1])
            ctx.hist('butter_pass/integer-typed cut-offs/' + cont)
            ctx.oracle('C17.a cut-offs may be given as list, tuple or array: integer-typed cut-offs give the result of the same frequencies as floats',
                       r_f[0] == 'ok' and r_i[0] == 'ok' and np.array_equal(r_i[1], r_f[1]),
                       {'values': 'sin(2*pi*2*t), n=4000', 'dt': 0.01, 'cut_off': [c for c in cut_i], 'container': cont + ' of ints'},
                       detail=r_i if r_i[0] != 'ok' else None, facts={'container': cont})
    # consecutive calls whose corners are NEAR each other (relative 1e-7 ... 4e-2), also at very long-period corners (normalised cut-off
    # ~1e-5): every call uses the filter it asked for -- compared with scipy's butter + filtfilt on the same record (1e-9 of the peak)
    from scipy.signal import filtfilt
    for it in range(8 if ctx.tier == 'quick' else 60):
        dtn = rng.choice([0.001, 0.01])
        nn = rng.choice([3000, 6000])
        tt = np.arange(nn) * dtn
        xr = 0.3 * tt / tt[-1] + np.sin(2 * math.pi * tt / (tt[-1] * rng.choice([0.7, 1.5, 3.0]))) + 0.2 * gen.noise_record(rng, nn)
        ftype = rng.choice(['high', 'low'])
        order = rng.choice([1, 2, 4])
        f0 = rng.choice([0.0098, 0.05, 1.0]) if ftype == 'high' else rng.choice([5.0, 20.0]) * (0.01 / dtn) * 0.5
        if _HV and _hv_corners(dtn, 2e-5, 0.95) and rng.random() < 0.6:
            f0 = rng.choice(_hv_corners(dtn, 2e-5, 0.95))
        rel = rng.choice([1e-7, 1e-5, 1e-3, 4e-2])
        for fc in (f0, f0 * (1 + rel), f0):
            co = [fc, None] if ftype == 'high' else [None, fc]
            sg = eqsig.Signal(xr.copy(), dtn)
            r = call_impl(lambda: (sg.butter_pass(co, filter_order=order), np.array(sg.values))[1])
            wr = call_impl(lambda: filtfilt(*butter(order, fc / (0.5 / dtn), btype=ftype), xr))
            if wr[0] != 'ok':
                ctx.hist('butter_pass/near-equal corners: scipy itself rejects this design (%s)' % wr[1])
                continue
            want = wr[1]
            okn = r[0] == 'ok' and float(np.max(np.abs(r[1] - want))) <= 1e-9 * float(np.max(np.abs(xr)))
            ctx.hist('butter_pass/near-equal corners in consecutive calls')
            ctx.count_case(('near', it, fc, ftype, order, dtn), True)
            ctx.oracle('C17.c every call filters with the corner it was given (consecutive calls with corners that differ by a relative 1e-7 ... 4e-2): '
                       'result == scipy butter + filtfilt for that corner (1e-9 of the peak)', okn,
                       {'record': 'trend + slow sine + noise (seeded)', 'n': nn, 'dt': dtn, 'cut_off': co, 'filter_order': order, 'previous_corner_relative_offset': rel},
                       detail=None if okn else (r if r[0] != 'ok' else {'max_deviation': float(np.max(np.abs(r[1] - want))), 'peak': float(np.max(np.abs(xr)))}))
    n_cases = 200 if ctx.tier == 'quick' else 1500
    prev = None
    prev_sig = None
    for i in range(n_cases):
        # also steps whose reciprocal is not an integer (+ source hints: dt and 1/dt at / around every new float constant)
        dt = rng.choice([0.01, 0.005, 0.02, 0.03, 0.015, 0.04, 0.0125] + [c for c in _HV if 0.002 <= c <= 0.05][:8])
        ftype, cut, probes, flow = filt_setup(rng, dt)
        order = 1 + i % 4
        if prev is not None and rng.random() < 0.4:
            # consecutive calls that share the time step, the order and a cut-off frequency with the previous call but ask for ANOTHER
            # filter type (low <-> high at the same corner; a one-sided filter at a corner of the previous band): every call is
            # judged against the filter it requested, whatever was designed before in this process
            dt, order, pcut = prev
            nyq = 0.5 / dt
            pl, ph_ = pcut
            if pl is None or ph_ is None:
                fc = ph_ if pl is None else pl
                ftype, cut = ('high', [fc, None]) if pl is None else ('low', [None, fc])
            else:
                ftype, cut = rng.choice([('low', [None, ph_]), ('high', [pl, None]), ('low', [None, pl]), ('high', [ph_, None])])
                fc = cut[1] if ftype == 'low' else cut[0]
            probes = [min(fc * r, 0.9 * nyq) for r in (0.2, 0.5, 0.8, 1.0, 1.25, 2.0, 3.0)]
            flow = fc
            ctx.hist('gain/derived-from-previous-call')
            derived = True
        else:
            derived = False
        prev = (dt, order, tuple(cut))
        mname, mval = MODES[(i // 4) % 4]
        cont = ['list', 'tuple', 'ndarray'][i % 3]
        co = mk_container(cont, cut, rng)
        f = rng.choice(probes)
        n = max(int(math.ceil(rng.choice([40, 60, 100]) / flow / dt)), int(math.ceil(40 / f / dt))) + 1
        if n > (12000 if ctx.tier == 'quick' else 40000):
            f = max(f, flow)
            n = int(math.ceil(40 / flow / dt)) + 1
        ph = rng.uniform(0, 2 * math.pi)
        amp = rng.choice([1.0, 0.01, 250.0])
        x = amp * np.sin(2 * math.pi * f * dt * np.arange(n) + ph)
        inputs = {'record': f'{amp}*sin(2*pi*{f!r}*dt*arange({n})+{ph!r})', 'dt': dt, 'cut_off': cut, 'container': cont, 'filter_order': order,
                  'remove_gibbs': mval, 'frequency': f}
        ctx.hist(f'gain/type={ftype}')
        ctx.hist(f'gain/order={order}')
        ctx.hist(f'gain/remove_gibbs={mname}')
        ctx.hist(f'gain/container={cont}')
        ctx.count_case(('gain', f, dt, tuple(cut), order, mname, n, ph, amp), True,
                       sample={'fn': 'Signal.butter_pass', **inputs} if i < 2 else None)
        if derived and prev_sig is not None and prev_sig.dt == dt and rng.random() < 0.6:
            # ... on the SAME object (given the new record through reset_values): a design remembered per object must not be reused for another type
            sig = prev_sig
            sig.reset_values(x)
            ctx.hist('gain/derived-from-previous-call/same object')
            inputs['object'] = 'the object filtered in the previous case (other filter type, same corner), record replaced by reset_values'
        else:
            sig = eqsig.Signal(x, dt)
        prev_sig = sig
        res = call_impl(lambda sig=sig, co=co: sig.butter_pass(co, filter_order=order, remove_gibbs=mval))
        if res[0] != 'ok':
            ctx.oracle('C17.a cut-offs may be given as list, tuple or array: butter_pass returns', False, inputs, detail=res,
                       facts={'container': cont})
            continue
        y = np.array(sig.values)
        ctx.oracle('C17.a butter_pass preserves length and time step', len(y) == n and sig.dt == dt, inputs)
        wp = np.array([c for c in cut if c is not None]) / (0.5 / dt)
        b, a = butter(order, wp if len(wp) == 2 else wp[0], btype=ftype)
        _, h = freqz(b, a, worN=[2 * math.pi * f * dt])
        g = abs(h[0]) ** 2
        lo, hi = n // 4, 3 * n // 4
        err = float(np.max(np.abs(y[lo:hi] - g * x[lo:hi]))) / amp
        ctx.gap('butter_pass/zero-phase gain error (fraction of the amplitude)', err)
        ctx.oracle('C17.c away from the ends a sinusoid comes out unshifted, scaled by the squared digital Butterworth magnitude |H(f)|^2 '
                   '(middle half, 2 % of the amplitude)', err <= 0.02, inputs, detail={'gain': float(g), 'max_error_over_amplitude': err})
        # ---- linearity on the impl (two records, scalars)
        if i % 2 == 0:
            m = min(n, 1500)
            x1 = gen.noise_record(rng, m)
            x2 = gen.sine_record(rng, m, dt) + 0.3
            al, be = rng.choice([2.0, -3.0, 0.5, 1e3]), rng.choice([1.0, -1.0, 7.25])
            outs = []
            for rec in (x1, x2, al * x1 + be * x2):
                s2 = eqsig.Signal(rec, dt)
                s2.butter_pass(co, filter_order=order, remove_gibbs=mval)
                outs.append(np.array(s2.values))
            scale = max(float(np.max(np.abs(al * outs[0]))), float(np.max(np.abs(be * outs[1]))), 1e-300)
            dev = float(np.max(np.abs(outs[2] - (al * outs[0] + be * outs[1])))) / scale
            ctx.gap('butter_pass/linearity', dev)
            ctx.oracle('C17.b butter_pass is linear in the record (1e-9)', dev <= 1e-9,
                       {'x1': x1, 'x2': x2, 'alpha': al, 'beta': be, 'dt': dt, 'cut_off': cut, 'filter_order': order, 'remove_gibbs': mval},
                       detail={'deviation': dev})


# ------------------------------------------------------------------------------------------------------ detrending

def detrend(ctx):
    import eqsig
    from eqsig.fns import generic
    rng = ctx.rng
    n_cases = 300 if ctx.tier == 'quick' else 3000
    for i in range(n_cases):
        k = i % 5
        n = gen.log_int(rng, 5, 500 if ctx.tier == 'quick' else 3000)
        kind = rng.choice(['noise', 'sine', 'dyadic', 'big', 'tiny', 'int'])
        base = {'noise': lambda: gen.noise_record(rng, n), 'sine': lambda: gen.sine_record(rng, n, 0.01), 'dyadic': lambda: gen.dyadic_record(rng, n),
                'big': lambda: gen.noise_record(rng, n, 1e6), 'tiny': lambda: gen.noise_record(rng, n, 1e-6),
                'int': lambda: gen.int_record(rng, n)}[kind]()
        x = np.linspace(0, 1.0, n)
        amp = max(float(np.max(np.abs(base))), 1e-300)
        trend = np.polyval([rng.uniform(-3, 3) * amp for _ in range(rng.randint(1, 5))], x) if rng.random() < 0.7 else 0 * x
        v = base + trend
        inputs = {'values': v, 'poly_fit': k}
        ctx.hist(f'detrend/degree={k}')
        ctx.hist('detrend/record=' + kind)
        ctx.count_case(('poly', v.tobytes(), k), gen.nontrivial_record(v),
                       sample={'fn': 'remove_poly', 'n': n, 'poly_fit': k, 'record': kind, 'head': v[:5].tolist()} if i < 2 else None)
        snap = v.copy()
        sig = eqsig.Signal(v, 0.01)
        r_obj = call_impl(lambda: (sig.remove_poly(k), np.array(sig.values))[1])
        r_fn = call_impl(generic.remove_poly, v, k)
        if r_obj[0] != 'ok' or r_fn[0] != 'ok':
            ctx.oracle('C17.d remove_poly returns for degree 0..4 on records of >= 5 samples', False, inputs, detail=[r_obj, r_fn])
            continue
        r = np.asarray(r_fn[1])
        scale = max(float(np.max(np.abs(v))), 1e-300)
        ctx.oracle('C17.d object-level Signal.remove_poly and array-level fns.generic.remove_poly agree', np.array_equal(r_obj[1], r), inputs)
        ctx.oracle('C17.d detrending preserves length, time step and the input array', len(r) == n and sig.dt == 0.01 and np.array_equal(v, snap),
                   inputs)
        cofs = np.polyfit(x, v, k)
        ctx.corr('remove_poly (given the impl\'s polyfit coefficients)', f"c17.remove_poly_with|{w_rats(cofs)}|{w_rats(v)}", r_fn,
                 lambda outs, val, scale=scale: cmp_budget(list(val), p_rats(outs[0]), Fraction(1, 10**9), scale=scale)[0], inputs=inputs)
        corr = v - r
        fitc = np.polyfit(x, corr, k)
        res_c = float(np.max(np.abs(corr - np.polyval(fitc, x)))) / scale
        ctx.gap('remove_poly/correction is a degree-k polynomial', res_c)
        ctx.oracle('C17.d detrending subtracts exactly one polynomial of degree <= k', res_c <= 1e-8, inputs, detail={'residual/scale': res_c})
        fit_r = np.polyfit(x, r, k)
        sz = float(np.max(np.abs(fit_r))) / scale
        ctx.gap('remove_poly/best-fit polynomial of the result', sz)
        ctx.oracle('C17.d the best-fit degree-k polynomial of the detrended series is zero', sz <= 1e-8, inputs,
                   detail={'max|coefficient|/scale': sz})
        ne = max(abs(float(np.sum(x ** j * r))) for j in range(k + 1)) / (n * scale)
        ctx.oracle('C17.d [X] np.polyfit is least squares: detrended series orthogonal to 1, x, ..., x^k', ne <= 1e-8, inputs,
                   detail={'max normal-equation residual': ne})
        r2 = generic.remove_poly(r, k)
        d2 = float(np.max(np.abs(r2 - r))) / scale
        ctx.oracle('C17.d detrending is idempotent', d2 <= 1e-8, inputs, detail={'change/scale': d2})
        q = np.polyval([rng.uniform(-5, 5) * scale for _ in range(k + 1)], x)
        r3 = generic.remove_poly(v + q, k)
        d3 = float(np.max(np.abs(r3 - r))) / max(scale, float(np.max(np.abs(q))))
        ctx.oracle('C17.d detrending is unaffected by adding a polynomial of degree <= k beforehand', d3 <= 1e-8,
                   {'values': v, 'poly_fit': k, 'added': q}, detail={'change/scale': d3})
    ctx.flush()


# -------------------------------------------------------------------------------------------------------- add_* / remove_average

def add_ops(ctx):
    import eqsig
    rng = ctx.rng
    n_cases = 100 if ctx.tier == 'quick' else 800
    for i in range(n_cases):
        exact = i % 3 != 2
        n = gen.log_int(rng, 1, 64 if exact else 400)
        mkrec = (lambda m: gen.dyadic_record(rng, m)) if exact else (lambda m: gen.noise_record(rng, m, rng.choice([1.0, 1e6, 1e-6])))
        v = mkrec(n)
        dt = rng.choice([0.5, 0.25]) if exact else rng.choice([0.01, 0.005])
        ctx.hist('add/' + ('dyadic' if exact else 'noise'))
        ctx.count_case(('add', v.tobytes(), dt), gen.nontrivial_record(v),
                       sample={'fn': 'add_constant/add_series/add_signal', 'n': n, 'dt': dt} if i < 1 else None)
        # add_constant
        c = float(gen.dyadic_record(rng, 1)[0]) if exact else rng.gauss(0, 3)
        sig = eqsig.Signal(v, dt)
        res = call_impl(lambda: (sig.add_constant(c), np.array(sig.values))[1])
        inputs = {'values': v, 'dt': dt, 'constant': c}
        ctx.corr('add_constant', f"c17.add_constant|{w_rat(c)}|{w_rats(v)}", res,
                 lambda outs, val, exact=exact: cmp_seq(ctx, 'add_constant', list(val), p_rats(outs[0]), exact), inputs=inputs)
        ctx.oracle('C17.e add_constant adds element-wise, keeps length and time step',
                   res[0] == 'ok' and np.array_equal(res[1], v + c) and sig.dt == dt
                   and (not exact or [fr(a) for a in res[1]] == [fr(a) + fr(c) for a in v]), inputs, detail=res if res[0] != 'ok' else None)
        # remove_average (default section = -1: all samples but the last)
        sec = rng.choice([-1, -1, -2, 0, 1, 3, n, n + 5, -n])
        sig = eqsig.Signal(v * (LCM25 if exact and n <= 25 else 1), dt)
        res = norm_res(call_impl(lambda sig=sig, sec=sec: (sig.remove_average(section=sec), np.array(sig.values))[1]))
        ex2 = exact and n <= 25
        ctx.corr('remove_average', f"c17.remove_average|{sec}|{w_rats(v * (LCM25 if ex2 else 1))}", res,
                 lambda outs, val, ex2=ex2: cmp_seq(ctx, 'remove_average', list(val), p_rats(outs[0]), ex2, Fraction(1, 10**12)),
                 inputs={'values': v * (LCM25 if ex2 else 1), 'dt': dt, 'section': sec})
        # add_series
        for m in {n, n + 1, max(n - 1, 0), 1, 0}:
            ser = mkrec(m)
            for form in ('array', 'list'):
                sig = eqsig.Signal(v, dt)
                arg = ser if form == 'array' else ser.tolist()
                res = norm_res(call_impl(lambda sig=sig, arg=arg: (sig.add_series(arg), np.array(sig.values))[1]))
                inputs = {'values': v, 'dt': dt, 'series': ser, 'series_type': form}
                ctx.hist('add_series/' + ('same-length' if m == n else 'other-length'))
                ctx.corr('add_series', f"c17.add_series|{w_rats(v)}|{w_rats(ser)}", res,
                         lambda outs, val, exact=exact: cmp_seq(ctx, 'add_series', list(val), p_rats(outs[0]), exact), inputs=inputs)
                if m == n:
                    ctx.oracle('C17.e add_series adds element-wise, keeps length and time step',
                               res[0] == 'ok' and np.array_equal(res[1], v + ser) and sig.dt == dt, inputs, detail=res if res[0] != 'ok' else None)
                else:
                    ctx.oracle('C17.e add_series rejects a series of different length (SignalProcessingError), record unchanged',
                               res == ('err', 'SignalProcessingError') and np.array_equal(sig.values, v), inputs, detail=res)
            # add_signal
            for dt2 in (dt, dt / 2, dt * 2):
                for kind in ('signal', 'acc', 'array', 'list', 'none'):
                    if m == 0 and kind in ('signal', 'acc'):
                        continue
                    other = {'signal': lambda: eqsig.Signal(ser, dt2), 'acc': lambda: eqsig.AccSignal(ser, dt2), 'array': lambda: ser,
                             'list': lambda: ser.tolist(), 'none': lambda: None}[kind]()
                    sig = eqsig.Signal(v, dt)
                    res = norm_res(call_impl(lambda sig=sig, other=other: (sig.add_signal(other), np.array(sig.values))[1]))
                    inputs = {'values': v, 'dt': dt, 'operand': kind, 'operand_dt': dt2, 'operand_values': ser}
                    ctx.hist('add_signal/operand=' + kind)
                    is_sig = kind in ('signal', 'acc')
                    ctx.corr('add_signal', f"c17.add_signal|{w_rat(dt)}|{w_rats(v)}|{'signal' if is_sig else 'other'}|{w_rat(dt2)}|{w_rats(ser)}", res,
                             lambda outs, val, exact=exact: cmp_seq(ctx, 'add_signal', list(val), p_rats(outs[0]), exact), inputs=inputs)
                    if is_sig and dt2 == dt and m == n:
                        ctx.oracle('C17.e add_signal adds element-wise, keeps length and time step',
                                   res[0] == 'ok' and np.array_equal(res[1], v + ser) and sig.dt == dt, inputs,
                                   detail=res if res[0] != 'ok' else None)
                    else:
                        ctx.oracle('C17.e add_signal rejects a non-Signal, a different time step or a different length '
                                   '(SignalProcessingError), record unchanged',
                                   res == ('err', 'SignalProcessingError') and np.array_equal(sig.values, v), inputs, detail=res)
    ctx.flush()


def run(ctx):
    running_average(ctx)
    butter_bookkeeping(ctx)
    butter_errors(ctx)
    butter_real(ctx)
    detrend(ctx)
    add_ops(ctx)
    ctx.flush()


# ---- extras2 (harness extension hx_b): exact scaling of values and of time, documented defaults, containers, objects with a history,
# ---- large detrending / filtering / add_* instances ------------------------------------------------------------------------------------------

def _x2_ops(rng, dt):
    """one random setting of every operation of the property"""
    order = rng.randint(1, 4)
    ftype, cut, _, _ = filt_setup(rng, dt)
    return {'cut_off': cut, 'filter_order': order, 'remove_gibbs': rng.choice([None, 'start', 'end', 'mid']), 'poly': rng.randint(0, 4), 'width': rng.randint(1, 25)}


def _x2_apply(sig, op, s, other=None):
    if op == 'butter_pass':
        sig.butter_pass(s['cut_off'], filter_order=s['filter_order'], remove_gibbs=s['remove_gibbs'])
    elif op == 'remove_poly':
        sig.remove_poly(s['poly'])
    elif op == 'running_average':
        sig.running_average(s['width'])
    elif op == 'add_constant':
        sig.add_constant(other)
    elif op == 'add_series':
        sig.add_series(other)
    elif op == 'add_signal':
        sig.add_signal(other)
    return np.array(sig.values)


def _x2_scale(ctx, cur):
    """(2) every operation of the property is linear in the record: scaling the record (and the added constant / series / signal) by 2^k
    scales the result by 2^k EXACTLY, incl. 2^+-600; the filter depends on cut_off*dt only: dt x 2^k with cut-offs x 2^-k gives the same
    values; (5) objects with a history behave like fresh ones"""
    import eqsig
    from eqsig.fns import generic
    from _hxb_common import same, light_history
    rng = ctx.rng
    for it in range(24 if ctx.tier == 'quick' else 240):
        n = gen.log_int(rng, 30, 400)
        dt = rng.choice([0.01, 0.005, 0.02, 0.013, 0.04])
        kind, v = gen.any_record(rng, n, dt)
        if it % 3 == 0:
            v = v + rng.choice([5.0, -0.25]) * np.linspace(0, 1, n) ** rng.randint(0, 3)
        s = _x2_ops(rng, dt)
        c = rng.choice([0.5, -3.0, 1e-3])
        w = gen.noise_record(rng, n)
        inputs = {'values': v, 'dt': dt, **s, 'constant': c, 'series': w}
        cur.clear()
        cur.update(inputs)
        ctx.hist('extras2/scale/' + kind)
        ops = [('butter_pass', None), ('remove_poly', None), ('running_average', None), ('add_constant', c), ('add_series', w), ('add_signal', w)]
        base = {}
        for op, other in ops:
            o = eqsig.Signal(w, dt) if op == 'add_signal' else other
            fresh = _x2_apply(eqsig.Signal(v, dt), op, s, o)
            base[op] = fresh
            aged = _x2_apply(light_history(ctx, eqsig.AccSignal if it % 2 else eqsig.Signal, v, dt), op, s, o)
            ctx.oracle('C17 %s on an object with a history == on a fresh object' % op, same(aged, fresh), {**inputs, 'op': op})
            ctx.last_object_history = None
        pa = generic.remove_poly(v, s['poly'])
        ctx.oracle('C17.d object-level remove_poly == array-level fns.generic.remove_poly', same(pa, base['remove_poly']), inputs)
        for k in gen.EXTREME_POW2:
            f = 2.0 ** k
            ctx.count_case(('x2s', k, v.tobytes(), dt, repr(s)), True)
            sc = {**inputs, 'scale': '2**%d' % k}
            with np.errstate(all='ignore'):
                for op, other in ops:
                    o = None if other is None else other * f
                    if op == 'add_signal':
                        o = eqsig.Signal(w * f, dt)
                    r = call_impl(_x2_apply, eqsig.Signal(v * f, dt), op, s, o)
                    ctx.oracle('C17 %s is linear: scaling the record%s by a power of two scales the result exactly' % (op, '' if other is None else ' and the operand'),
                               r[0] == 'ok' and gen.scaled_exactly(r[1], base[op], f), {**sc, 'op': op}, detail=r if r[0] != 'ok' else None)
                r = call_impl(generic.remove_poly, v * f, s['poly'])
                ctx.oracle('C17.d array-level remove_poly is linear: scaling the record by a power of two scales the result exactly',
                           r[0] == 'ok' and gen.scaled_exactly(r[1], pa, f), sc)
                s2 = {**s, 'cut_off': [None if x is None else x / f for x in s['cut_off']]}
                r = call_impl(_x2_apply, eqsig.Signal(v, dt * f), 'butter_pass', s2)
                ctx.oracle('C17.c the filter depends on cut_off*dt only: time step x 2^k with cut-offs x 2^-k gives the same values', r[0] == 'ok' and same(r[1], base['butter_pass']),
                           sc, detail=r if r[0] != 'ok' else None)


def _x2_options(ctx, cur):
    """(3) documented defaults of butter_pass (cut_off=(0.1, 15), filter_order=4, remove_gibbs=None, gibbs_extra=1, gibbs_range=50), of remove_poly
    (poly_fit=0) and running_average (width=1); (4) array-level remove_poly for every container / dtype"""
    import eqsig
    from eqsig.fns import generic
    from _hxb_common import same, close
    rng = ctx.rng
    for it in range(20 if ctx.tier == 'quick' else 200):
        n = gen.log_int(rng, 60, 600)
        dt = rng.choice([0.01, 0.005, 0.02])
        v = gen.noise_record(rng, n) + rng.choice([0.0, 3.0])
        inputs = {'values': v, 'dt': dt}
        cur.clear()
        cur.update(inputs)
        ctx.hist('extras2/options')
        ctx.count_case(('x2o', v.tobytes(), dt), True)

        def out(f):
            sg = eqsig.Signal(v, dt)
            f(sg)
            return np.array(sg.values)
        gib = rng.choice(['start', 'end', 'mid'])
        cut = [rng.uniform(0.2, 1.0), rng.uniform(5.0, 20.0)]
        pairs = [('butter_pass()', lambda sg: sg.butter_pass(), lambda sg: sg.butter_pass((0.1, 15), filter_order=4, remove_gibbs=None, gibbs_extra=1, gibbs_range=50)),
                 ('butter_pass(cut_off)', lambda sg: sg.butter_pass(cut), lambda sg: sg.butter_pass(cut_off=tuple(cut), filter_order=4, remove_gibbs=None)),
                 ('butter_pass(cut_off, remove_gibbs=%r)' % gib, lambda sg: sg.butter_pass(cut, remove_gibbs=gib),
                  lambda sg: sg.butter_pass(cut, filter_order=4, remove_gibbs=gib, gibbs_extra=1, gibbs_range=50)),
                 ('remove_poly()', lambda sg: sg.remove_poly(), lambda sg: sg.remove_poly(poly_fit=0)),
                 ('running_average()', lambda sg: sg.running_average(), lambda sg: sg.running_average(width=1))]
        for nm, f, w in pairs:
            g, want = call_impl(out, f), call_impl(out, w)
            ctx.oracle('C17 documented defaults give the result of the explicit call: %s' % nm, g[0] == 'ok' and want[0] == 'ok' and same(g[1], want[1]), inputs,
                       detail=None if g[0] == 'ok' else g)
        ctx.oracle('C17.d remove_poly() (degree 0) subtracts the mean; C17.f running_average() (width 1) keeps every sample',
                   close(out(lambda sg: sg.remove_poly()), v - np.mean(v), rtol=0, atol=1e-12 * float(np.max(np.abs(v)))) and same(out(lambda sg: sg.running_average()), v), inputs)
        vi = gen.int_record(rng, n, -9, 9) + np.round(4 * np.linspace(0, 1, n))
        deg = rng.randint(0, 4)
        want = generic.remove_poly(vi, deg)
        for lab, c in gen.container_variants(vi):
            ctx.hist('extras2/container/' + lab)
            snap = np.array(c)
            g = call_impl(generic.remove_poly, c, deg)
            ctx.oracle('C17.d array-level remove_poly does not depend on the container or dtype holding the series (1e-9 of the peak)', g[0] == 'ok' and
                       close(g[1], want, rtol=0, atol=1e-9 * float(np.max(np.abs(vi)))), {'values': vi, 'poly_fit': deg, 'container': lab}, detail=None if g[0] == 'ok' else g)
            ctx.oracle('C17.d array-level remove_poly leaves its input unchanged', same(np.array(c), snap) and np.array(c).dtype == snap.dtype, {'values': vi, 'poly_fit': deg, 'container': lab})
            if isinstance(c, np.ndarray):
                sg = eqsig.Signal(c, dt)
                r = call_impl(lambda: sg.remove_poly(deg))
                ctx.oracle('C17.d remove_poly does not depend on the dtype of the record the signal was built from (1e-9 of the peak)', r[0] == 'ok' and
                           close(sg.values, want, rtol=0, atol=1e-9 * float(np.max(np.abs(vi)))), {'values': vi, 'poly_fit': deg, 'container': lab})


def _x2_large(ctx, cur):
    """(1) records of 20 000 - 70 000 samples: detrending (orthogonality of the residual to every monomial of degree <= k, idempotent, unaffected by an
    added polynomial, object == array level), filtering (length, step, linearity, |H(f)|^2 on a long sinusoid), add_* (element-wise), all O(n)"""
    import eqsig
    from eqsig.fns import generic
    from scipy.signal import butter, freqz
    from _hxb_common import same, close, light_history
    rng = ctx.rng
    for n in ([rng.choice([20000, 32768, 32769]), rng.choice([50000, 65536, 70001])] if ctx.tier == 'quick' else [20000, 32768, 32769, 50000, 65536, 65537, 100000, 131072]) + \
            gen.hint_sizes(ctx, lo=501, hi=400000, cap=5):          # source hints: record lengths around every new integer constant
        seed = rng.randrange(2 ** 31)
        g = np.random.default_rng(seed)
        dt = rng.choice([0.01, 0.005, 0.02])
        deg = rng.randint(0, 4)
        x01 = np.linspace(0, 1.0, n)
        trend = sum(rng.choice([-2.0, 0.5, 3.0]) * x01 ** p for p in range(deg + 1))
        v = g.standard_normal(n) + trend
        s = _x2_ops(rng, dt)
        desc = {'generator': 'c17._x2_large: standard_normal(n) + polynomial trend of degree deg', 'n': n, 'numpy_seed': seed, 'dt': dt, 'deg': deg, **s}
        cur.clear()
        cur.update(desc)
        ctx.hist('extras2/large')
        ctx.count_case(('x2l', n, seed, dt, deg), True, sample=desc)
        peak = float(np.max(np.abs(v)))
        sig = light_history(ctx, eqsig.Signal, v, dt)
        r = call_impl(lambda: sig.remove_poly(deg))
        y = np.array(sig.values)
        ok = r[0] == 'ok' and y.shape == (n,) and sig.dt == dt
        ctx.oracle('C17.d (large) remove_poly keeps length and time step', ok, desc, detail=r if r[0] != 'ok' else None)
        ctx.last_object_history = None
        if ok:
            mom = [abs(float(np.dot(y, x01 ** p))) / (n * peak) for p in range(deg + 1)]
            ctx.oracle('C17.d (large) the detrended series is orthogonal to every monomial of degree <= k (its best-fit degree-k polynomial is zero; 1e-9 n peak)',
                       max(mom) <= 1e-9, desc, detail={'moments/(n*peak)': mom})
            ctx.oracle('C17.d (large) object-level remove_poly == array-level fns.generic.remove_poly', same(generic.remove_poly(v, deg), y), desc)
            ctx.oracle('C17.d (large) detrending is idempotent (1e-9 of the peak)', close(generic.remove_poly(y, deg), y, rtol=0, atol=1e-9 * peak), desc)
            extra = sum(rng.choice([-7.0, 1.5]) * x01 ** p for p in range(deg + 1))
            ctx.oracle('C17.d (large) detrending is unaffected by adding a polynomial of degree <= k beforehand (1e-9 of the peak)',
                       close(generic.remove_poly(v + extra, deg), y, rtol=0, atol=1e-9 * max(peak, float(np.max(np.abs(extra))))), desc)
            with np.errstate(all='ignore'):
                kk = rng.choice([600, -600])
                ctx.oracle('C17.d (large) detrending scales exactly with the record (power of two)', gen.scaled_exactly(generic.remove_poly(v * 2.0 ** kk, deg), y, 2.0 ** kk), {**desc, 'k': kk})
        # filtering
        w = g.standard_normal(n)
        outs = []
        for rec in (v, w, 2.0 * v - 3.0 * w):
            sg = eqsig.Signal(rec, dt)
            r = call_impl(lambda: sg.butter_pass(s['cut_off'], filter_order=s['filter_order'], remove_gibbs=s['remove_gibbs']))
            outs.append(np.array(sg.values) if r[0] == 'ok' else None)
            ctx.oracle('C17.a (large) butter_pass preserves length and time step', r[0] == 'ok' and np.shape(sg.values) == (n,) and sg.dt == dt, desc, detail=r if r[0] != 'ok' else None)
        if all(o is not None and o.shape == (n,) for o in outs):
            scale = max(float(np.max(np.abs(outs[0]))), float(np.max(np.abs(outs[1]))), 1e-300)
            # budget 1e-7: the transfer-function (b, a) form of an 8-pole band-pass with low corners is ill-conditioned — measured on the unchanged
            # library 4e-9 ... 6e-9 for order 4 on 32768 samples (DESIGN §10); a non-linearity worth the name is orders of magnitude larger
            ctx.oracle('C17.b (large) butter_pass is linear in the record (1e-7)', float(np.max(np.abs(outs[2] - (2.0 * outs[0] - 3.0 * outs[1])))) <= 1e-7 * 5 * scale, desc)
            with np.errstate(all='ignore'):
                kk = rng.choice([600, -600])
                sg = eqsig.Signal(v * 2.0 ** kk, dt)
                sg.butter_pass(s['cut_off'], filter_order=s['filter_order'], remove_gibbs=s['remove_gibbs'])
                ctx.oracle('C17.b (large) butter_pass scales exactly with the record (power of two)', gen.scaled_exactly(sg.values, outs[0], 2.0 ** kk), {**desc, 'k': kk})
        cuts = [c for c in s['cut_off'] if c is not None]
        f0 = rng.choice([cuts[0] * rng.choice([0.5, 1.0, 2.0]), math.sqrt(cuts[0] * cuts[-1])])
        f0 = min(max(f0, 80.0 / (n * dt)), 0.9 * 0.5 / dt)
        if min(cuts) >= 80.0 / (n * dt):      # record much longer than the longest cut-off period
            ph = rng.uniform(0, 6.28)
            x = np.sin(2 * math.pi * f0 * dt * np.arange(n) + ph)
            sg = eqsig.Signal(x, dt)
            sg.butter_pass(s['cut_off'], filter_order=s['filter_order'], remove_gibbs=s['remove_gibbs'])
            ftype = 'band' if len(cuts) == 2 else ('low' if s['cut_off'][0] is None else 'high')
            wp = np.array(cuts) / (0.5 / dt)
            b, a = butter(s['filter_order'], wp if len(wp) == 2 else wp[0], btype=ftype)
            _, h = freqz(b, a, worN=[2 * math.pi * f0 * dt])
            gain = abs(h[0]) ** 2
            lo, hi = n // 4, 3 * n // 4
            err = float(np.max(np.abs(np.asarray(sg.values)[lo:hi] - gain * x[lo:hi])))
            ctx.oracle('C17.c (large) away from the ends a sinusoid comes out unshifted, scaled by |H(f)|^2 (middle half, 2 % of the amplitude)', err <= 0.02,
                       {**desc, 'frequency': f0, 'phase': ph}, detail={'gain': float(gain), 'max_error': err})
        # add_*: element-wise
        for op, other, want in (('add_constant', 2.5, v + 2.5), ('add_series', w, v + w), ('add_signal', eqsig.Signal(w, dt), v + w), ('add_series', list(w), v + w)):
            r = call_impl(_x2_apply, eqsig.Signal(v, dt), op, s, other)
            ctx.oracle('C17.e (large) %s adds element-wise' % op, r[0] == 'ok' and same(r[1], want), desc, detail=r if r[0] != 'ok' else None)
        for bad_other in (w[:-1], np.concatenate((w, [0.0]))):
            r = call_impl(_x2_apply, eqsig.Signal(v, dt), 'add_series', s, bad_other)
            ctx.oracle('C17.e (large) add_series rejects a series of another length (SignalProcessingError)', r == ('err', 'SignalProcessingError'), {**desc, 'len(series)': len(bad_other)}, detail=r[:1])
        r = call_impl(_x2_apply, eqsig.Signal(v, dt), 'add_signal', s, eqsig.Signal(w, dt * (1 + 2.0 ** -40)))
        ctx.oracle('C17.e (large) add_signal rejects a signal with another time step (SignalProcessingError), also when it differs by 2^-40 relative', r == ('err', 'SignalProcessingError'), desc, detail=r[:1])


def extras2(ctx):
    from _hxb_common import guarded_sections
    guarded_sections(ctx, 'C17', [('scale', _x2_scale), ('options', _x2_options), ('large', _x2_large)])


_run_main2 = run


def run(ctx):
    _run_main2(ctx)
    extras2(ctx)
    from _c17_butter import corr_butter, gain_model
    corr_butter(ctx)      # model (b, a) vs the (b, a) scipy.signal.butter returns inside Signal.butter_pass (call intercepted), incl. ValueError cut-offs
    gain_model(ctx)       # closed-form gain (proved: Props/C17Butter) vs |freqz|^2 of SciPy's own (b, a) (1e-9, well-conditioned) and |freqz_zpk|^2 (1e-9, all)
    ctx.flush()


# evidence: how the model is tied to the source on every run (as built, supersedes the value above)
TIE = 'translator (mutators, running_average, remove_poly, butter_pass selection and Gibbs padding -> Gen/Mutators, Gen/Mutators2; Props/C17Gen, C17Gen2) + correspondence'
