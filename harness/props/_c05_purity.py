"""C05.d — pinned argument builders for every public array-level function of eqsig (dynamic purity / repeatability scan).

CALLS: 'module.function' -> list of call shapes (label, call, [argument makers]); a maker is `lambda rng: object` and is tagged
by the kind of object it makes ('arr' = a float64 record-like array for which int64 / list variants are also tried).
EXCLUDED: 'module.function' -> reason.  Every public function found by introspection must be in exactly one of the two.
"""
import importlib
import inspect
import os
import pkgutil
import tempfile

import numpy as np

MODULES = ['eqsig.sdof', 'eqsig.im', 'eqsig.displacements', 'eqsig.stockwell', 'eqsig.surface', 'eqsig.multiple',
           'eqsig.loader', 'eqsig.design_spectra', 'eqsig.fns.*']


def public_functions():
    """{'eqsig.im.calc_peak': function} for every public function defined in the scanned modules"""
    import eqsig.fns
    names = []
    for m in MODULES:
        if m.endswith('.*'):
            pkg = importlib.import_module(m[:-2])
            names += sorted(m[:-2] + '.' + x.name for x in pkgutil.iter_modules(pkg.__path__))
        else:
            names.append(m)
    out = {}
    for mn in names:
        mod = importlib.import_module(mn)
        for n, f in inspect.getmembers(mod, inspect.isfunction):
            if f.__module__ == mn and not n.startswith('_'):
                out[mn[len('eqsig.'):] + '.' + n] = f
    return out


# ---- argument makers ---------------------------------------------------------------------------------------------------

class Mk:
    def __init__(self, kind, f):
        self.kind, self.f = kind, f

    def __call__(self, rng):
        return self.f(rng)


def _rec(rng, n=128):
    x, out = 0.0, []
    for _ in range(n):
        x += rng.gauss(0, 1) * 0.1
        out.append(x)
    a = np.array(out)
    return a - a.mean()


def A(n=128):
    return Mk('arr', lambda rng: _rec(rng, n))


def S(n=128, dt=0.01):
    def mk(rng):
        import eqsig
        return eqsig.AccSignal(_rec(rng, n), dt)
    return Mk('sig', mk)


def K(*vals):
    return Mk('const', lambda rng: np.array(vals, dtype=float))


def Cx(n=32):
    return Mk('const', lambda rng: np.array([complex(rng.gauss(0, 1), rng.gauss(0, 1)) for _ in range(n)]))


def F(f):
    return Mk('const', f)


CALLS = {}
EXCLUDED = {}


def C(name, call, *makers, label=''):
    CALLS.setdefault(name, []).append((label, call, list(makers)))


def X(name, reason):
    EXCLUDED[name] = reason


def build():
    """(re)build the tables; imports eqsig lazily so that the module under test is the one on sys.path"""
    if CALLS:
        return
    import eqsig
    from eqsig import im, sdof, surface, stockwell, displacements, design_spectra, multiple, loader
    from eqsig.fns import peaks_and_crossings as pc, frequency as fq, generic, average, time_shift, time_step
    P = K(0.1, 0.5)
    P0 = K(0.0, 0.1, 0.5)
    # ---- sdof
    C('sdof.absmax', lambda a: sdof.absmax(a), A())
    C('sdof.absmax', lambda a: sdof.absmax(a.reshape(4, -1), axis=1), A(), label='axis=1')
    C('sdof.compute_a_and_b', lambda w: sdof.compute_a_and_b(0.05, w, 0.01), K(6.0, 12.0, 60.0))
    C('sdof.nigam_and_jennings_response', lambda a, p: sdof.nigam_and_jennings_response(a, 0.01, p, 0.05), A(), P)
    C('sdof.response_series', lambda a, p: sdof.response_series(a, 0.01, p, 0.05), A(), P)
    C('sdof.pseudo_response_spectra', lambda a, p: sdof.pseudo_response_spectra(a, 0.01, p, 0.05), A(), P0)
    C('sdof.true_response_spectra', lambda a, p: sdof.true_response_spectra(a, 0.01, p, 0.05), A(), P)
    C('sdof.single_elastic_response', lambda a: sdof.single_elastic_response(a, 0.01, 0.5, 0.05), A())
    C('sdof.slow_response_spectra', lambda a, p, x: sdof.slow_response_spectra(a, 0.01, p, x), A(64), P, K(0.05))
    C('sdof.calc_resp_uke_spectrum', lambda s, p: sdof.calc_resp_uke_spectrum(s, p), S(), K(0.2, 1.0))
    C('sdof.calc_input_energy_spectrum', lambda s, p: sdof.calc_input_energy_spectrum(s, p), S(), K(0.2, 1.0))
    C('sdof.calc_input_energy_spectrum', lambda s, p: sdof.calc_input_energy_spectrum(s, p, series=True), S(), K(0.2, 1.0), label='series')
    X('sdof.time_the_generation_of_response_spectra', 'timing utility without parameters (prints run times)')
    # ---- displacements
    for nm in ('calc_velo_and_disp_from_accel_arr', 'velocity_and_displacement_from_acceleration'):
        f = getattr(displacements, nm)
        C('displacements.' + nm, lambda a, f=f: f(a, 0.01), A())
        C('displacements.' + nm, lambda a, f=f: f(a, 0.01, trap=False), A(), label='trap=False')
    # ---- im
    for nm in ['calc_arias_intensity', 'calc_cav', 'calc_cav_dp', 'calc_isv', 'calc_integral_of_abs_velocity',
               'calc_cumulative_abs_displacement', 'calc_integral_of_abs_acceleration', 'calc_unit_kinetic_energy', 'calc_sig_dur',
               'calc_max_velocity_period', 'max_acceleration_period', 'max_fa_period', 'calc_bandwidth_freqs',
               'calc_bandwidth_f_min', 'calc_bandwidth_f_max', 'calc_asi', 'calc_vsi']:
        C('im.' + nm, getattr(im, nm), S())
    C('im.calc_sig_dur', lambda s: im.calc_sig_dur(s, start=0.1, end=0.8, se=True), S(), label='se')
    C('im.calc_sig_dur_vals', lambda a: im.calc_sig_dur_vals(a, 0.01), A())
    C('im.calc_sig_dur_vals', lambda a: im.calc_sig_dur_vals(a, 0.01, se=True), A(), label='se')
    C('im.calc_significant_duration', lambda a: im.calc_significant_duration(a, 0.01), A())
    C('im.calc_brac_dur', lambda s: im.calc_brac_dur(s, 0.1), S())
    C('im.calc_brac_dur', lambda s: im.calc_brac_dur(s, 0.1, se=True), S(), label='se')
    C('im.calc_bracketed_duration', lambda s: im.calc_bracketed_duration(s, 0.1), S())
    C('im.calc_peak', im.calc_peak, A())
    C('im.calculate_peak', im.calculate_peak, A())
    C('im.calc_n_cyc_array_w_power_law', lambda a: im.calc_n_cyc_array_w_power_law(a, 0.5, 0.3), A())
    C('im.calc_cyc_amp_array_w_power_law', lambda a: im.calc_cyc_amp_array_w_power_law(a, 15, 0.3), A())
    C('im.calc_cyc_amp_gm_arrays_w_power_law', lambda a, b: im.calc_cyc_amp_gm_arrays_w_power_law(a, b, 15, 0.3), A(), A())
    C('im.calc_cyc_amp_combined_arrays_w_power_law', lambda a, b: im.calc_cyc_amp_combined_arrays_w_power_law(a, b, 15, 0.3), A(), A())
    C('im.cumulative_response_spectra', lambda s, p: im.cumulative_response_spectra(s, 'arias_intensity', periods=p), S(), K(0.2, 1.0))
    X('im.calc_a_rms', 'removed function: raises ValueError unconditionally')
    X('im.calc_acc_rms', 'needs np.trapz (removed from NumPy >= 2.4)')
    X('im.calc_vsi_temporal', 'needs np.trapz (removed from NumPy >= 2.4)')
    X('im.calc_sir', 'reads acc_sig.arias_intensity, which is 0.0 until the deprecated generate_cumulative_stats() has run; '
                     'not an array-level function of the property')
    # ---- fns.peaks_and_crossings
    for nm in ['get_peak_array_indices', 'get_zero_crossings_array_indices', 'get_switched_peak_array_indices',
               'determine_peaks_only_delta_series', 'determine_pseudo_cyclic_peak_only_series', 'get_n_cyc_array',
               'get_major_change_indices', 'clean_out_non_changing', 'determine_indices_of_peaks_for_cleaned_array',
               'determine_indices_of_peaks_for_cleaned', 'determine_peak_only_delta_series_4_cleaned_data']:
        C('fns.peaks_and_crossings.' + nm, getattr(pc, nm), A())
        C('fns.peaks_and_crossings.' + nm, getattr(pc, nm), K(3, 5, 4, 4, 6, 1, -2, -2, 0, 3, 3, 1), label='plateaus')
    C('fns.peaks_and_crossings.get_zero_and_peak_array_indices', lambda a: pc.get_zero_and_peak_array_indices(a), A())
    for nm in ['get_peak_indices', 'get_switched_peak_indices', 'get_zero_crossings_indices']:
        C('fns.peaks_and_crossings.' + nm, getattr(pc, nm), S())
    # ---- fns.frequency
    FRQ = F(lambda rng: np.linspace(0, 20, 50))
    C('fns.frequency.calc_smooth_fa_spectrum', lambda f, a, t: fq.calc_smooth_fa_spectrum(f, a, t), FRQ, Cx(50), K(0.5, 1, 2.0))
    C('fns.frequency.generate_smooth_fa_spectrum', lambda t, f, a: fq.generate_smooth_fa_spectrum(t, f, a), K(0.5, 1, 2.0), FRQ, Cx(50))
    C('fns.frequency.calc_smoothing_matrix_konno_1998', lambda f, t: fq.calc_smoothing_matrix_konno_1998(f, t), FRQ, K(0.5, 1, 2.0))
    C('fns.frequency.calc_smooth_fa_spectrum_w_custom_matrix',
      lambda s, m: fq.calc_smooth_fa_spectrum_w_custom_matrix(s, m), S(),
      F(lambda rng: np.abs(np.array([[rng.gauss(0, 1) for _ in range(3)] for _ in range(63)]))))
    C('fns.frequency.calc_fa_spectrum', fq.calc_fa_spectrum, S())
    C('fns.frequency.calc_fa_spectrum', lambda s: fq.calc_fa_spectrum(s, n=200), S(), label='n=200')
    C('fns.frequency.generate_fa_spectrum', fq.generate_fa_spectrum, S())
    C('fns.frequency.fas2values', lambda a: fq.fas2values(a, 0.01), Cx(32))
    C('fns.frequency.fas2signal', lambda a: fq.fas2signal(a, 0.01), Cx(32))
    C('fns.frequency.get_sig_freq_range', fq.get_sig_freq_range, S())
    C('fns.frequency.get_sig_array_indexes_range', lambda a: fq.get_sig_array_indexes_range(np.abs(a) + 0.01), A())
    X('fns.frequency.calc_fourier_moment', 'needs np.trapz (removed from NumPy >= 2.4)')
    X('fns.frequency.get_bandwidth_boore_2003', 'needs np.trapz (removed from NumPy >= 2.4) through calc_fourier_moment')
    # ---- fns.generic
    C('fns.generic.interp2d', generic.interp2d, K(0.5, 1, 2.2), K(0., 1, 2, 3),
      F(lambda rng: np.array([[rng.gauss(0, 1) for _ in range(3)] for _ in range(4)])))
    C('fns.generic.interp_left', generic.interp_left, K(0.5, 1, 2.2), K(0., 1, 2, 3), K(1., 2, 3, 4))
    C('fns.generic.interp_left', lambda x0, x: generic.interp_left(x0, x), K(0.5, 1, 2.2), K(0., 1, 2, 3), label='y=None')
    C('fns.generic.remove_poly', lambda a: generic.remove_poly(a, 2), A())
    X('fns.generic.gen_ricker_wavelet_asig', 'scalar parameters only (constructs a signal)')
    # ---- fns.average
    C('fns.average.get_section_average', lambda s: average.get_section_average(s, 0, 1), S())
    C('fns.average.calc_step_fn_vals_error', lambda a: average.calc_step_fn_vals_error(a), A(40))
    C('fns.average.calc_step_fn_steps_vals', lambda a: average.calc_step_fn_steps_vals(a), A(40))
    for m in ('forward', 'backward', 'centre'):
        C('fns.average.calc_roll_av_vals', lambda a, m=m: average.calc_roll_av_vals(a, 5, m), A(), label=m)
    # ---- fns.time_shift
    C('fns.time_shift.put_array_in_2d_array', lambda a, s: time_shift.put_array_in_2d_array(a, s), A(), F(lambda rng: np.array([-2, 0, 3])))
    C('fns.time_shift.join_values_w_shifts', lambda a, s: time_shift.join_values_w_shifts(a, s), A(), F(lambda rng: np.array([0, 3])))
    C('fns.time_shift.join_sig_w_time_shift', lambda s, t: time_shift.join_sig_w_time_shift(s, t), S(), K(0.0, 0.03))
    X('fns.time_shift.time_indices', 'scalar parameters only')
    # ---- fns.time_step
    C('fns.time_step.interp_array_to_approx_dt', lambda a: time_step.interp_array_to_approx_dt(a, 0.01, 0.004), A())
    C('fns.time_step.interp_array_to_approx_dt', lambda a: time_step.interp_array_to_approx_dt(a, 0.01, 0.03), A(), label='decimate')
    # the time step held by a 0-d array (np.load(...)['dt']): an argument like any other, never modified
    D0 = Mk('const', lambda rng: np.array(0.02))
    T0 = Mk('const', lambda rng: np.array(0.005))
    C('fns.time_step.interp_array_to_approx_dt', lambda a, d, t: time_step.interp_array_to_approx_dt(a, d, t), A(), D0, T0, label='dt and target held by 0-d arrays')
    C('fns.time_step.interp_to_approx_dt', lambda a, d, t: (lambda o: (time_step.interp_to_approx_dt(o, t), o.dt, o.npts))(eqsig.AccSignal(a, d)), A(), D0, T0,
      label='signal built on a 0-d array time step')
    C('displacements.calc_velo_and_disp_from_accel_arr', lambda a, d: displacements.calc_velo_and_disp_from_accel_arr(a, d), A(), D0, label='dt held by a 0-d array')
    C('sdof.response_series', lambda a, p, d: sdof.response_series(a, d, p, 0.05), A(), P, D0, label='dt held by a 0-d array')
    C('single.AccSignal', lambda a, d: (lambda o: (o.s_a, o.velocity, o.dt, o.time[-1], o.s_a))(eqsig.AccSignal(a, d, response_times=np.array([0.02, 0.5]))), A(), D0,
      label='time step held by a 0-d array, spectra read twice')
    C('fns.time_step.interp_to_approx_dt', lambda s: time_step.interp_to_approx_dt(s, 0.004), S())
    C('fns.time_step.resample_to_approx_dt', lambda s: time_step.resample_to_approx_dt(s, 0.004), S())
    C('fns.time_step.time_series_from_motion', lambda a: time_step.time_series_from_motion(a, 0.01), A())
    # ---- stockwell
    C('stockwell.transform', stockwell.transform, A(64))
    C('stockwell.transform', lambda a: stockwell.transform(a, interp=True), A(64), label='interp')
    C('stockwell.transform_w_scipy_fft', stockwell.transform_w_scipy_fft, A(64))
    C('stockwell.transform_w_scipy_fft', lambda a: stockwell.transform_w_scipy_fft(a.astype(complex)), A(64), label='complex input')
    C('stockwell.transform_slow', stockwell.transform_slow, A(32))
    ST = F(lambda rng: stockwell.transform(_rec(rng, 64)))
    C('stockwell.itransform', stockwell.itransform, ST)
    C('stockwell.dep_itransform', stockwell.dep_itransform, ST)
    C('stockwell.get_max_stockwell_freq', stockwell.get_max_stockwell_freq, S(64))
    C('stockwell.get_max_tifq_vals_freq', lambda v: stockwell.get_max_tifq_vals_freq(v, 0.01), ST)
    def _sw_sig(rng):
        s = eqsig.AccSignal(_rec(rng, 64), 0.01)
        s.swtf = stockwell.transform(s.values)      # the attribute the two getters below expect
        return s
    C('stockwell.get_stockwell_freqs', stockwell.get_stockwell_freqs, Mk('sig', _sw_sig))
    C('stockwell.get_stockwell_times', stockwell.get_stockwell_times, Mk('sig', _sw_sig))
    X('stockwell.generate_gaussian', 'scalar parameter only')
    for nm in ('plot_fas_at_time', 'plot_max_freq_azimuth', 'plot_stock', 'plot_tifq_vals', 'plot_windowed_fas_at_time'):
        X('stockwell.' + nm, 'plotting function (needs a matplotlib axes object)')
    # ---- surface
    TT = K(0.0, 0.013, 0.05)
    for nodal in (True, False):
        C('surface.calc_surface_energy', lambda s, t, n=nodal: surface.calc_surface_energy(s, t, nodal=n), S(), TT, label='nodal=%s' % nodal)
        C('surface.calc_surface_energy', lambda s, t, r, n=nodal: surface.calc_surface_energy(s, t, nodal=n, up_red=r, down_red=r, trim=True),
          S(), TT, K(1., 0.9, 0.8), label='red nodal=%s' % nodal)
    # zero / sub-half-step travel times with SCALAR reductions != 1 (no padding needed: a place where an in-place scaling of the
    # record could hide)
    for fn_name in ('calc_surface_energy', 'calc_cum_abs_surface_energy', 'get_time_shift_motions'):
        C('surface.' + fn_name, lambda s, t, f=fn_name: getattr(surface, f)(s, t, up_red=0.5, down_red=0.75), S(), K(0.0, 0.002, 0.004),
          label='tt < dt/2, scalar reductions')
        C('surface.' + fn_name, lambda s, f=fn_name: getattr(surface, f)(s, 0.0, up_red=2.0, down_red=1.0, nodal=False), S(),
          label='tt = 0 scalar')
    C('surface.calc_cum_abs_surface_energy', lambda s, t: surface.calc_cum_abs_surface_energy(s, t, stt=0.1, start=True), S(), TT)
    C('surface.get_time_shift_motions', lambda s, t: surface.get_time_shift_motions(s, t), S(), TT)
    C('surface.trim_to_length', lambda v, t: surface.trim_to_length(v, 100, t, 0.01, trim=True),
      F(lambda rng: np.array([[rng.gauss(0, 1) for _ in range(128)] for _ in range(3)])), TT)
    # ---- multiple
    C('multiple.combine_at_angle', lambda a, b: multiple.combine_at_angle(a, b, 30), S(), S())
    C('multiple.compute_rotated', lambda a, b: multiple.compute_rotated(a, b, parameter='pga', points=5), S(), S())
    # ---- design spectra
    C('design_spectra.c_h_factor', lambda p: design_spectra.c_h_factor(p, 'C'), K(0, 0.2, 1.0, 4.0))
    X('design_spectra.sd_nzs', 'scalar parameters only (an array period raises ValueError)')
    X('design_spectra.t_eff', 'scalar parameters only')
    # ---- loader: the saving functions take arrays / signals
    tmp = tempfile.mkdtemp(prefix='c05_')
    import atexit
    import shutil
    atexit.register(shutil.rmtree, tmp, True)

    def _save_vals(a):
        p = os.path.join(tmp, 'v.txt')
        loader.save_values_and_dt(p, a, 0.01, 'label')
        return open(p, 'rb').read()

    def _save_sig(s):
        p = os.path.join(tmp, 's.txt')
        loader.save_signal(p, s)
        return open(p, 'rb').read()
    C('loader.save_values_and_dt', _save_vals, A())
    C('loader.save_signal', _save_sig, S())
    for nm in ('load_3_comp_values_and_dt_from_v2a', 'load_asig', 'load_sig', 'load_signal', 'load_values_and_dt'):
        X('loader.' + nm, 'takes a file path only (round trip is property C16)')
    # ---- constructors (classes are not functions; listed for the scan all the same)
    C('single.Signal', lambda a: eqsig.Signal(a, 0.01), A())
    C('single.AccSignal', lambda a: eqsig.AccSignal(a, 0.01), A())
    C('multiple.Cluster', lambda a, b: eqsig.Cluster([a, b], 0.01), A(), A())


def snap(o):
    import eqsig
    if isinstance(o, np.ndarray):
        return ('arr', o.dtype.str, o.shape, o.tobytes())
    if isinstance(o, eqsig.Signal):
        return ('sig', snap(np.asarray(o.values)), o.dt, o.npts)
    if isinstance(o, (list, tuple)):
        return ('seq', type(o).__name__, tuple(snap(x) for x in o))
    return ('o', repr(o))


def flat(r):
    import eqsig
    if isinstance(r, (tuple, list)):
        return [z for x in r for z in flat(x)]
    if isinstance(r, eqsig.Signal):
        return [np.asarray(r.values), np.asarray(r.dt)]
    if isinstance(r, eqsig.Cluster):
        return [np.asarray(r.values_by_index(i)) for i in range(r.n_signals)]
    if isinstance(r, bytes):
        return [np.frombuffer(r, dtype=np.uint8)]
    if isinstance(r, dict):
        return [z for k in sorted(r) for z in flat(r[k])]
    return [np.asarray(r)]


def same_result(r1, r2):
    a, b = flat(r1), flat(r2)
    if len(a) != len(b):
        return False
    for x, y in zip(a, b):
        if x.shape != y.shape:
            return False
        if x.dtype == object or y.dtype == object:
            if repr(x.tolist()) != repr(y.tolist()):
                return False
        elif not np.array_equal(x, y, equal_nan=x.dtype.kind in 'fc'):
            return False
    return True
