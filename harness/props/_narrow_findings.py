"""Open findings of the family 'arithmetic in the record's own integer dtype' (F03-4, F08-1, F09-1, F10-2, F13-1).

eqsig keeps the dtype of an integer record (`np.array(values)`), and several anchored functions square, add or difference the
samples in that dtype: for int16 / int32 digitiser counts the squares (Arias intensity, significant duration), for 8-bit records
already the neighbour sums of the trapezoid rule, wrap around SILENTLY.  The properties quantify over "all records"; the result
must be that of the same numbers held as float64 (which is what the Lean models, written over exact numbers, say).

`narrow_oracles(ctx, table)` evaluates every (function, narrow dtype) combination on a few whole-number records and compares it
with the float64 result.  Combinations that are WRONG ON THE PINNED TREE are listed per finding in `FAILING` (determined by
running this very function on the pinned tree) and matched by `matcher(fid)`: only those are explained by the known finding, any
other combination that starts to fail is reported as a violation.
"""
import numpy as np

import gen
from core import call_impl

# finding id -> set of (function label, dtype label) that are wrong on the pinned tree
FAILING = {
    'F09-1': {('calc_arias_intensity', d) for d in ('int8x40', 'int16x200', 'int32x1e5', 'int64x3e9', 'uint8x40', 'uint16x200')} |
             {(f, d) for f in ('calc_cav', 'calc_isv', 'calc_integral_of_abs_velocity', 'calc_unit_kinetic_energy') for d in ('int8x40', 'uint8x40')},
    'F10-2': {(f, d) for f in ('calc_sig_dur_vals', 'calc_sig_dur') for d in ('int8x40', 'int16x200', 'int32x1e5', 'int64x3e9', 'uint8x40', 'uint16x200')},
    'F08-1': {(f, d) for f in ('calc_velo_and_disp_from_accel_arr', 'AccSignal.velocity/displacement', 'pga/pgv/pgd') for d in ('int8x40', 'uint8x40')},
    'F13-1': {(f, d) for f in ('determine_peaks_only_delta_series', 'determine_pseudo_cyclic_peak_only_series')
              for d in ('int8x40', 'int16x200', 'int32x1e5', 'int64x3e9')},
    'F03-4': {(f, d) for f in ('absmax', 'pseudo_response_spectra') for d in ('uint8', 'uint16', 'int8-with-minimum')},
}
CLAUSE = "%s integer records of any width give the result of the same numbers held as float64 (%s)"


def same(a, b, rtol=1e-9):
    if isinstance(a, tuple) or isinstance(b, tuple):
        return isinstance(a, tuple) and isinstance(b, tuple) and len(a) == len(b) and all(same(x, y, rtol) for x, y in zip(a, b))
    try:
        a = np.asarray(a, dtype=float)
        b = np.asarray(b, dtype=float)
    except (TypeError, ValueError):
        return False
    return a.shape == b.shape and bool(np.allclose(a, b, rtol=rtol, atol=1e-300))


def narrow_oracles(ctx, prop, table, n_records=3, variants_fn=None):
    """table: {function label: f(record_container, dt) -> result}.  Facts carry family/fn/dtype for the matchers."""
    rng = ctx.rng
    for it in range(n_records if ctx.tier == 'quick' else 5 * n_records):
        v = gen.int_record(rng, rng.choice([24, 40, 64]))
        if len(set(v.tolist())) < 3:
            continue
        dt = 0.5
        variants = (variants_fn or gen.narrow_int_variants)(v)
        for label, arr, f64 in variants:
            for nm, f in table.items():
                want, got = call_impl(f, f64, dt), call_impl(f, arr, dt)
                if want[0] != 'ok':
                    continue
                if got[0] != 'ok' and got[1] in ('TypeError', 'UFuncTypeError') and label.startswith('uint'):
                    ctx.hist(f'narrow-int/{nm}/{label}: rejected loudly ({got[1]}) - not demanded')
                    continue
                ok = got[0] == 'ok' and same(want[1], got[1])
                ctx.hist(f'narrow-int/{nm}/{label}')
                ctx.oracle(CLAUSE % (prop, nm), ok, {'values': arr.tolist(), 'dtype': str(arr.dtype), 'dt': dt},
                           detail=None if ok else {'float64': _brief(want[1]), 'integer': got[1] if got[0] != 'ok' else _brief(got[1])},
                           facts={'family': 'narrow-int', 'fn': nm, 'dtype_label': label})


def _brief(r):
    if isinstance(r, tuple):
        return [_brief(x) for x in r]
    a = np.asarray(r, dtype=float).reshape(-1)
    return a[-3:].tolist() if a.size > 3 else a.tolist()


def matcher(fid):
    def m(f):
        fa = f.get('facts', {})
        return fa.get('family') == 'narrow-int' and (fa.get('fn'), fa.get('dtype_label')) in FAILING[fid]
    return m


def absmax_variants(v):
    """records for F03-4: unsigned containers and an int8 record containing the dtype's minimum"""
    a = np.asarray(v, dtype=float)
    u = (a + 3) * 40                   # 0..240
    w = a * 40.0
    w[int(np.argmin(w))] = -128.0
    return [('uint8', u.astype(np.uint8), u.copy()), ('uint16', (u * 200).astype(np.uint16), u * 200), ('int8-with-minimum', w.astype(np.int8), w.copy())]
