"""helpers shared by c17.py, c18.py, c03.py (handlers of lean/EqsigVerif/Handlers/Misc.lean)."""
from fractions import Fraction

import numpy as np

from core import fr, w_rats, p_rats, cmp_exact, cmp_budget

R9 = Fraction(1, 10**9)
LCM25 = 26771144400          # lcm(1..25): integer records scaled by it have exact means over <= 25 samples


def norm_res(res, nan_tag='ZeroDivisionError'):
    """impl outcome -> the model's vocabulary: exception classes outside ErrKind are `.Other`; a NaN result (NumPy's non-raising
    0/0, e.g. np.mean of an empty slice) is what the model reports with the tag ZeroDivisionError"""
    if res[0] == 'err':
        return ('err', 'Other') if res[1].startswith('Other:') else res
    v = res[1]
    try:
        arrs = v if isinstance(v, (list, tuple)) else [v]
        for a in arrs:
            a = np.asarray(a, dtype=float)
            if a.size and np.any(np.isnan(a)):
                return ('err', nan_tag)
    except (TypeError, ValueError):
        pass
    return res


def w_rows(rows):
    """several records in one wire field, each introduced by the marker token r"""
    return " ".join("r " + w_rats(r) for r in rows)


def p_rows(tokens):
    """parse `a b ; c d` (model output: records separated by ;) -> list of lists of Fractions"""
    out = [[]]
    for t in tokens:
        if t == ';':
            out.append([])
        else:
            out[-1].append(t)
    return [p_rats(r) for r in out]


def cmp_seq(ctx, fn, impl, model, exact, rel=R9):
    """exact or budgeted comparison of one flat sequence; records the gap"""
    if exact:
        return cmp_exact(list(impl), list(model))
    msg, g = cmp_budget(list(impl), list(model), rel, abs_floor=Fraction(1, 10**300))
    ctx.gap(fn, g)
    return msg


def cmp_rows(ctx, fn, impl_rows, model_rows, exact, rel=R9):
    if len(impl_rows) != len(model_rows):
        return f"rows impl={len(impl_rows)} model={len(model_rows)}"
    for j, (a, b) in enumerate(zip(impl_rows, model_rows)):
        msg = cmp_seq(ctx, fn, list(a), list(b), exact, rel)
        if msg:
            return f"row {j}: {msg}"
    return None


def is_dyadic_safe(arr, bits=8, amp=2**20):
    """all entries k*2^-bits with |value| <= amp"""
    a = np.asarray(arr, dtype=float)
    return bool(np.all(np.abs(a) <= amp) and np.all(a * (1 << bits) == np.round(a * (1 << bits))))


DYADIC_DTS = (2.0, 1.0, 0.5, 0.25, 0.125, 0.0625)
