"""C10 — significant and bracketed durations locate threshold crossings exactly."""
import itertools
from fractions import Fraction

import numpy as np

import gen
from core import fr, w_rat, w_rats, w_bool, p_rats, cmp_exact, cmp_budget, call_impl

RULE = ("exhaustive: records over {0,+-1,+-2} up to length 5 (quick) / 6 (thorough) x 9-point fraction grid pairs; random records "
        "(dyadic-safe: exact) incl. single spikes (IndexError branch), plateaus of equal cumulative value, values exactly on a "
        "threshold; fractions from {0.05,0.1,0.25,0.5,0.75,0.95} and random dyadic; thresholds at/just below/just above sample "
        "magnitudes; custom cumulative-measure callables (CAV, running sum); se in {T,F}. distinct = hash of (record, dt, params); "
        "non-trivial = length >= 3 and not constant")
TIE = "correspondence (hand model Model/Im.lean: sigDurVals / sigDur / sigDurSeries / bracDur on exact rationals)"
NOT_PROVED = ["C10.d for the default Arias (trapezoid) measure when a[0] != 0: false of code and model (open finding F10-1); proved under a[0] = 0",
              "decimal fractions such as 0.05 are compared as the doubles the impl receives; products start*total are rounded by the impl "
              "(dyadic-safe generators decide strict vs non-strict exactly)"]

FRACS = [Fraction(1, 16), Fraction(1, 8), Fraction(1, 4), Fraction(3, 8), Fraction(1, 2), Fraction(5, 8), Fraction(3, 4), Fraction(7, 8), Fraction(15, 16)]


PROP_MODULES = ['C10', 'C10Gen']

def spec_sigdur(cum, dt, s, e):
    """(t_start, t_end) from a cumulative series, exact; None when no sample lies strictly between"""
    tot = cum[-1]
    idx = [i for i, c in enumerate(cum) if s * tot < c < e * tot]
    if not idx:
        return None
    return (idx[0] * dt, idx[-1] * dt)


def cum_sq(a):
    out = []
    t = Fraction(0)
    for x in a:
        t += x * x
        out.append(t)
    return out


def cum_trapz_sq(a, dt):
    out = [Fraction(0)]
    for i in range(1, len(a)):
        out.append(out[-1] + dt * (a[i] * a[i] + a[i - 1] * a[i - 1]) / 2)
    return out


def run(ctx):
    import eqsig
    from eqsig import im
    rng = ctx.rng
    maxlen = 5 if ctx.tier == 'quick' else 6
    n_random = 200 if ctx.tier == 'quick' else 2500

    def one(a, dt, s, e, exhaustive=False):
        """a: float array (dyadic-safe), dt dyadic, s<e dyadic fractions"""
        fa = [fr(x) for x in a]
        fdt, fs, fe = fr(dt), fr(s), fr(e)
        inputs = {'a': a, 'dt': dt, 'start': float(s), 'end': float(e)}
        ctx.count_case((a.tobytes(), dt, fs, fe), gen.nontrivial_record(a),
                       sample={'fn': 'calc_sig_dur_vals / calc_sig_dur / calc_brac_dur', **inputs} if ctx.evaluations % 997 == 0 else None)
        asig = ctx.aged(eqsig.AccSignal, a, dt)
        # the Arias series is k*cumtrapz(a^2) with the irrational-ish double k = pi/(2*9.81): when a cumulative value lies EXACTLY on a
        # threshold in exact arithmetic, the impl's strict comparison is decided by the rounding of k*c — outside any exact model.
        cA = cum_trapz_sq(fa, fdt)
        arias_tie = any(c == fs * cA[-1] or c == fe * cA[-1] for c in cA) and cA[-1] != 0
        if arias_tie:
            ctx.hist('arias-exact-tie-skipped')
        for se in ((True, False) if not exhaustive else (True,)):
            rv = call_impl(im.calc_sig_dur_vals, a, dt, start=float(s), end=float(e), se=se)
            ctx.corr('calc_sig_dur_vals', f"sig_dur_vals|{w_bool(se)}|{w_rat(dt)}|{w_rat(s)}|{w_rat(e)}|{w_rats(a)}", rv,
                     lambda outs, val: cmp_exact(list(val) if isinstance(val, tuple) else [val], p_rats(outs[0])), inputs={**inputs, 'se': se})
            ra = call_impl(im.calc_sig_dur, asig, start=float(s), end=float(e), se=se)
            if not arias_tie:
                ctx.corr('calc_sig_dur', f"sig_dur|{w_bool(se)}|{w_rat(dt)}|{w_rat(s)}|{w_rat(e)}|{w_rats(a)}", ra,
                         lambda outs, val: cmp_exact(list(val) if isinstance(val, tuple) else [val], p_rats(outs[0])), inputs={**inputs, 'se': se})
        rv = call_impl(im.calc_sig_dur_vals, a, dt, start=float(s), end=float(e), se=True)
        ra = call_impl(im.calc_sig_dur, asig, start=float(s), end=float(e), se=True)
        dur = (len(a) - 1) * fdt
        for name, res, cum in (('sum-of-squares', rv, cum_sq(fa)), ('Arias', ra, cA)):
            if name == 'Arias' and arias_tie:
                continue
            want = spec_sigdur(cum, fdt, fs, fe)
            if want is None:
                ctx.oracle(f'C10.a [{name}] IndexError iff no sample lies strictly between the fractions', res == ('err', 'IndexError'), inputs, detail=res)
                continue
            ok = res[0] == 'ok' and (fr(res[1][0]), fr(res[1][1])) == want
            ctx.oracle(f'C10.a [{name}] (start, end) == times of first/last sample strictly between the fractions of the total', ok, inputs,
                       detail={'got': res, 'want': [float(want[0]), float(want[1])]})
            if res[0] != 'ok':
                continue
            t0, t1 = fr(res[1][0]), fr(res[1][1])
            ctx.oracle(f'C10.b [{name}] 0 <= start <= end <= duration', 0 <= t0 <= t1 <= dur, inputs)
            # se=False returns the difference
            f = im.calc_sig_dur_vals if name == 'sum-of-squares' else im.calc_sig_dur
            d = f(a, dt, start=float(s), end=float(e)) if name == 'sum-of-squares' else f(asig, start=float(s), end=float(e))
            ctx.oracle(f'C10.a [{name}] se=False returns end - start', fr(d) == t1 - t0, inputs)
            if exhaustive and ctx.evaluations % 7:
                continue
            # C10.c amplitude scaling (power-of-two factors are exact)
            al = rng.choice([-2.0, 0.5, 4.0, -0.25])
            r2 = call_impl(im.calc_sig_dur_vals, al * a, dt, start=float(s), end=float(e), se=True) if name == 'sum-of-squares' else \
                call_impl(im.calc_sig_dur, eqsig.AccSignal(al * a, dt), start=float(s), end=float(e), se=True)
            ctx.oracle(f'C10.c [{name}] unchanged by amplitude scaling', r2 == res, {**inputs, 'alpha': al}, detail={'scaled': r2, 'orig': res})
            # C10.d zero prefix
            k = rng.choice([1, 2, 5])
            ap = np.concatenate([np.zeros(k), a])
            r3 = call_impl(im.calc_sig_dur_vals, ap, dt, start=float(s), end=float(e), se=True) if name == 'sum-of-squares' else \
                call_impl(im.calc_sig_dur, eqsig.AccSignal(ap, dt), start=float(s), end=float(e), se=True)
            ok = r3[0] == 'ok' and (fr(r3[1][0]), fr(r3[1][1])) == (t0 + k * fdt, t1 + k * fdt)
            ctx.oracle(f'C10.d [{name}] start and end shift by k*dt when k zeros are prepended', ok, {**inputs, 'k': k},
                       detail={'orig': res, 'prepended': r3},
                       facts={'measure': name, 'clause': 'zero-prefix', 'a0_nonzero': bool(a[0] != 0)})
            # C10.e widening
            s2 = fs / 2
            e2 = (fe + 1) / 2
            r4 = call_impl(im.calc_sig_dur_vals, a, dt, start=float(s2), end=float(e2), se=True) if name == 'sum-of-squares' else \
                call_impl(im.calc_sig_dur, asig, start=float(s2), end=float(e2), se=True)
            ok = r4[0] == 'ok' and fr(r4[1][0]) <= t0 and t1 <= fr(r4[1][1])
            ctx.oracle(f'C10.e [{name}] widening the fraction interval never shortens the duration', ok, inputs, detail={'orig': res, 'wide': r4})

    def brac(a, dt, thr):
        fa = [fr(x) for x in a]
        fdt, fthr = fr(dt), fr(thr)
        inputs = {'a': a, 'dt': dt, 'threshold': float(thr)}
        asig = ctx.aged(eqsig.AccSignal, a, dt)
        ctx.count_case(('brac', a.tobytes(), dt, fthr), gen.nontrivial_record(a))
        idx = [i for i, x in enumerate(fa) if abs(x) > fthr]
        for se in (True, False):
            r = call_impl(im.calc_brac_dur, asig, float(thr), se=se)

            def compare(outs, val, se=se):
                if se:
                    if outs[0] == ['None', 'None']:
                        return None if val == (None, None) else f"impl={val} model=(None, None)"
                    if val == (None, None):
                        return f"impl=(None, None) model={outs[0]}"
                    return cmp_exact(list(val), p_rats(outs[0]))
                return cmp_exact([val], p_rats(outs[0]))
            ctx.corr('calc_brac_dur', f"brac_dur|{w_bool(se)}|{w_rat(dt)}|{w_rat(thr)}|{w_rats(a)}", r, compare, inputs={**inputs, 'se': se})
            if r[0] != 'ok':
                ctx.oracle('C10.f calc_brac_dur returns', False, inputs, detail=r)
                continue
            if se:
                want = (idx[0] * fdt, idx[-1] * fdt) if idx else (None, None)
                got = tuple(None if x is None else fr(x) for x in r[1])
                ctx.oracle('C10.f bracketed (start, end) == times of first/last sample with |a| > threshold ((None, None) when none)',
                           got == want, inputs, detail={'got': r[1]})
            else:
                want = (idx[-1] - idx[0]) * fdt if idx else 0
                ctx.oracle('C10.f bracketed duration == time between first and last exceedance (0 when none)', fr(r[1]) == want, inputs,
                           detail={'got': r[1]})
        d0 = fr(im.calc_brac_dur(asig, float(thr)))
        thr2 = float(thr) * 2 + 0.25
        ctx.oracle('C10.f non-increasing in the threshold', fr(im.calc_brac_dur(asig, thr2)) <= d0, {**inputs, 'threshold2': thr2})
        al = rng.choice([0.5, 2.0, 8.0])
        ctx.oracle('C10.f unchanged when record and threshold are scaled together',
                   fr(im.calc_brac_dur(eqsig.AccSignal(al * a, dt), al * float(thr))) == d0, {**inputs, 'alpha': al})

    corpus = [(np.array([3., 2., -1., 1., 0., 1., -1.]), 0.5, Fraction(1, 16), Fraction(7, 8)),
              (np.array([0., 0., 5., 0., 0.]), 0.5, Fraction(1, 16), Fraction(15, 16)),
              (np.array([1., 1., 1., 1., 1., 1., 1., 1.]), 0.25, Fraction(1, 4), Fraction(3, 4))]
    for a, dt, s, e in corpus:
        ctx.hist('corpus')
        one(a, dt, s, e)
    pairs = [(s, e) for s in FRACS for e in FRACS if s < e]
    for n in range(1, maxlen + 1):
        for t in itertools.product((0, 1, -1, 2, -2), repeat=n):
            a = np.array(t, dtype=float)
            ctx.hist(f'exhaustive/len={n}')
            s, e = pairs[(hash(t) ^ n) % len(pairs)] if n >= 4 else (None, None)
            for (s, e) in (pairs[::5] if n < 4 else [(s, e)]):
                one(a, 0.5, s, e, exhaustive=True)
        ctx.flush()
    for i in range(n_random):
        n = gen.log_int(rng, 2, 64)
        kind = rng.choice(['dyadic', 'int', 'plateau', 'spike', 'zeros-then', 'on-threshold'])
        if kind == 'dyadic':
            a = gen.dyadic_record(rng, n)
        elif kind == 'int':
            a = gen.int_record(rng, n)
        elif kind == 'plateau':
            a = gen.plateau_record(rng, n, levels=(0, 0, 1, -1, 2))
        elif kind == 'spike':
            a = gen.spike_record(rng, n)
        elif kind == 'zeros-then':
            a = np.concatenate([np.zeros(rng.randint(0, 3)), gen.int_record(rng, n)])
        else:
            # cumulative sum of squares hits a fraction of the total exactly: [1]*k then enough to make total 16*k
            a = np.array([1.0] * 4 + [2.0] * 3 + [0.0] * rng.randint(0, 3) + [4.0] * 3)   # total = 4+12+48 = 64
        dt = gen.dyadic_dt(rng)
        if rng.random() < 0.5:
            s, e = rng.choice(pairs)
        else:
            s = Fraction(rng.randint(1, 30), 64)
            e = Fraction(rng.randint(int(s * 64) + 1, 63), 64)
        ctx.hist('random/' + kind)
        one(a, dt, s, e)
        mags = sorted(set(abs(float(x)) for x in a))
        thr = rng.choice(mags + [m + 0.125 for m in mags] + [max(0.0, m - 0.125) for m in mags] + [0.0, 100.0])
        brac(a, dt, Fraction(thr))
        # custom cumulative measures
        if i % 4 == 0:
            asig = ctx.aged(eqsig.AccSignal, a, dt)
            for cname, fn in (('calc_cav', im.calc_cav), ('running-sum', lambda s_: np.cumsum(np.abs(s_.values)))):
                series = [fr(x) for x in fn(asig)]
                r = call_impl(im.calc_sig_dur, asig, start=float(s), end=float(e), im=fn, se=True)
                ctx.corr('calc_sig_dur[im=' + cname + ']', f"sig_dur_im|T|{w_rat(dt)}|{w_rat(s)}|{w_rat(e)}|{w_rats(series)}", r,
                         lambda outs, val: cmp_exact(list(val), p_rats(outs[0])), inputs={'a': a, 'dt': dt, 'im': cname})
                want = spec_sigdur(series, fr(dt), fr(s), fr(e))
                ok = (r == ('err', 'IndexError')) if want is None else (r[0] == 'ok' and (fr(r[1][0]), fr(r[1][1])) == want)
                ctx.oracle('C10.a [custom measure] first/last sample strictly between the fractions', ok,
                           {'a': a, 'dt': dt, 'start': float(s), 'end': float(e), 'im': cname}, detail=r)
    # object histories: the durations are those of the object's CURRENT record, whatever was computed or cached on it before
    # (deprecated statistics methods, earlier duration calls) and however the record was changed since
    for i in range(40 if ctx.tier == 'quick' else 400):
        n = rng.randint(8, 64)
        a = gen.dyadic_record(rng, n)
        dt = gen.dyadic_dt(rng)
        asig = eqsig.AccSignal(a.copy(), dt)
        cur = a.copy()
        hist = []
        for _ in range(rng.randint(2, 5)):
            op = rng.choice(['generate_cumulative_stats', 'calc_sig_dur', 'calc_brac_dur', 'add_constant', 'add_series', 'reset_values', 'reverse'])
            hist.append(op)
            try:
                if op == 'generate_cumulative_stats':
                    asig.generate_cumulative_stats()
                elif op == 'calc_sig_dur':
                    im.calc_sig_dur(asig, start=0.25, end=0.75, se=True)
                elif op == 'calc_brac_dur':
                    im.calc_brac_dur(asig, 0.5, se=True)
                elif op == 'add_constant':
                    asig.add_constant(1.0)
                    cur = cur + 1.0
                elif op == 'add_series':
                    d = gen.dyadic_record(rng, len(cur))
                    asig.add_series(d)
                    cur = cur + d
                elif op == 'reset_values':
                    cur = gen.dyadic_record(rng, len(cur))
                    asig.reset_values(cur.copy())
                else:
                    cur = cur[::-1].copy()
                    asig.reset_values(cur.copy())
            except IndexError:
                pass
        s_, e_ = rng.choice(pairs)
        got = call_impl(im.calc_sig_dur, asig, start=float(s_), end=float(e_), se=True)
        want = call_impl(im.calc_sig_dur, eqsig.AccSignal(cur.copy(), dt), start=float(s_), end=float(e_), se=True)
        gotb = call_impl(im.calc_brac_dur, asig, 0.5, se=True)
        wantb = call_impl(im.calc_brac_dur, eqsig.AccSignal(cur.copy(), dt), 0.5, se=True)
        ctx.hist('object-history')
        ctx.count_case(('hist', a.tobytes(), tuple(hist)), True, sample={'fn': 'AccSignal history then calc_sig_dur', 'history': hist} if i < 2 else None)
        ctx.oracle('C10 durations of an object are those of its CURRENT record after any history (stats generated, record edited)',
                   got == want and gotb == wantb, {'a': a, 'dt': dt, 'history': hist, 'start': float(s_), 'end': float(e_)},
                   detail={'object': [got, gotb], 'fresh object': [want, wantb]})
    # decimal fractions of the documentation (0.05 / 0.95 ...) on random noise: relations only, budget-free (indices)
    for i in range(30 if ctx.tier == 'quick' else 300):
        n = gen.log_int(rng, 20, 2000)
        a = gen.noise_record(rng, n)
        dt = gen.any_dt(rng)
        asig = ctx.aged(eqsig.AccSignal, a, dt)
        ctx.hist('random/noise-decimal-fractions')
        ctx.count_case(('dec', a.tobytes(), dt), True)
        s, e = rng.choice([(0.05, 0.95), (0.05, 0.75), (0.1, 0.9), (0.25, 0.5)])
        t0, t1 = im.calc_sig_dur(asig, start=s, end=e, se=True)
        cum = im.calc_arias_intensity(asig)
        idx = np.where((cum > s * cum[-1]) & (cum < e * cum[-1]))[0]
        ctx.oracle('C10.a [Arias, decimal fractions] first/last sample strictly between', (t0, t1) == (idx[0] * dt, idx[-1] * dt),
                   {'a': a, 'dt': dt, 'start': s, 'end': e})
        ctx.oracle('C10.b 0 <= start <= end <= duration', 0 <= t0 <= t1 <= (n - 1) * dt * (1 + 1e-12), {'a': a, 'dt': dt})
    ctx.flush()


# ---- known findings -------------------------------------------------------------------------------------------------

def _m_f10_1(f):
    fa = f['facts']
    return fa.get('measure') == 'Arias' and fa.get('clause') == 'zero-prefix' and fa.get('a0_nonzero') is True


KNOWN_MATCHERS = {'F10-1': _m_f10_1}


def known_witness(fid):
    import eqsig
    from eqsig import im
    if fid == 'F10-1':
        a = np.array([3., 2., -1., 1., 0., 1., -1.])
        r0 = im.calc_sig_dur(eqsig.AccSignal(a, 0.5), start=0.05, end=0.9, se=True)
        r2 = im.calc_sig_dur(eqsig.AccSignal(np.concatenate([np.zeros(2), a]), 0.5), start=0.05, end=0.9, se=True)
        return not (r2[0] == r0[0] + 1.0 and r2[1] == r0[1] + 1.0)
    return True


# ---- extras (round-3 lessons): deprecated aliases, extreme magnitudes -------------------------------------------------------------------

def extras(ctx):
    import eqsig
    from eqsig import im
    import warnings
    rng = ctx.rng
    for it in range(30 if ctx.tier == 'quick' else 300):
        n = gen.log_int(rng, 3, 120)
        dt = gen.dyadic_dt(rng)
        a = gen.dyadic_record(rng, n)
        if len(set(np.abs(a).tolist())) < 2:
            continue
        s, e = rng.choice([(0.05, 0.95), (0.05, 0.75), (0.25, 0.75), (0.125, 0.5)])
        inputs = {'a': a, 'dt': dt, 'start': s, 'end': e}
        ctx.count_case(('extras', a.tobytes(), dt, s, e), True)
        with warnings.catch_warnings():
            warnings.simplefilter('ignore')
            r0 = call_impl(im.calc_sig_dur_vals, a, dt, start=s, end=e, se=True)
            r1 = call_impl(im.calc_significant_duration, a, dt, start=s, end=e)
            ok = r0[0] == r1[0] and (r0[0] != 'ok' or (isinstance(r1[1], tuple) and tuple(map(float, r0[1])) == tuple(map(float, r1[1]))) or
                                     (not isinstance(r1[1], tuple) and float(r1[1]) == float(r0[1][1]) - float(r0[1][0])))
            ctx.oracle('C10 deprecated alias calc_significant_duration agrees with calc_sig_dur_vals', ok, inputs, detail=(r0, r1))
            thr = float(rng.choice(sorted(set(np.abs(a).tolist())))) * rng.choice([0.5, 1.0, 0.999])
            asig = ctx.aged(eqsig.AccSignal, a, dt)
            b0, b1 = call_impl(im.calc_brac_dur, asig, thr), call_impl(im.calc_bracketed_duration, asig, thr)
            ctx.oracle('C10 deprecated alias calc_bracketed_duration == calc_brac_dur', b0 == b1 or (b0[0] == b1[0] == 'ok' and float(b0[1]) == float(b1[1])),
                       {**inputs, 'threshold': thr}, detail=(b0, b1))
        # durations do not depend on the scale of the record, exactly for powers of two, also at extreme scales (the sum of squares of a
        # record around 1e-120 / 1e+120 is still representable; the record itself must come back unchanged)
        for k in (-400, 400, -200, 200):
            sc = 2.0 ** k
            ctx.hist(f'extreme-scale/2^{k}')
            arr = a * sc
            snap = arr.copy()
            r2 = call_impl(im.calc_sig_dur_vals, arr, dt, start=s, end=e, se=True)
            ctx.oracle('C10.c significant duration unchanged by amplitude scaling, also at extreme scales (sum of squares)', r2 == r0 or
                       (r2[0] == r0[0] == 'ok' and tuple(map(float, r2[1])) == tuple(map(float, r0[1]))), {**inputs, 'scale': f'2**{k}'}, detail=(r0, r2))
            ctx.oracle('C10 the record handed to calc_sig_dur_vals is unchanged, also at extreme scales', bool(np.array_equal(arr, snap)), {**inputs, 'scale': f'2**{k}'})
            o1, o2 = eqsig.AccSignal(a, dt), ctx.aged(eqsig.AccSignal, arr, dt)
            q1, q2 = call_impl(im.calc_sig_dur, o1, start=s, end=e, se=True), call_impl(im.calc_sig_dur, o2, start=s, end=e, se=True)
            ctx.oracle('C10.c significant duration unchanged by amplitude scaling, also at extreme scales (Arias)', q1 == q2 or
                       (q1[0] == q2[0] == 'ok' and tuple(map(float, q1[1])) == tuple(map(float, q2[1]))), {**inputs, 'scale': f'2**{k}'}, detail=(q1, q2))
            t = float(np.sort(np.abs(a))[len(a) // 2])
            d1, d2 = call_impl(im.calc_brac_dur, o1, t, se=True), call_impl(im.calc_brac_dur, o2, t * sc, se=True)
            ctx.oracle('C10.e bracketed duration unchanged when record and threshold scale together, also at extreme scales', d1 == d2,
                       {**inputs, 'threshold': t, 'scale': f'2**{k}'}, detail=(d1, d2))


_run_main = run


def run(ctx):
    _run_main(ctx)
    extras(ctx)
    ctx.flush()
